//go:build verif

package obipcr

// C11, command-level part — the obipcr path: the real option parser (OptionSet), CLIPCR (options ->
// obiapat options, PCRSliceWorker over batches on several workers) and obiiter.IFragments
// (--fragmented: long templates cut into overlapping fragments before the search).
//
// Reference = obiapat.PCRSim on every whole template alone, with the options the command line denotes
// (restated here independently of CLIPCR; PCRSim itself is validated against a brute-force PCR by the
// obiapat part of this check, on short and on long templates).
//
// Enumerations (bounded, exhaustive, nothing sampled):
//   short: every template of <= 2 segments of the 15-segment grammar of the obiapat part (+ 6 longer
//          ones holding amplicons) x every command line of the option grid
//          -e {absent,1,2} x -l {absent,2} x -L {3,6} x --delta {absent,0,2} x --only-complete-flanking
//          x -c x --fragmented (no template is long enough to be cut: must change nothing)
//          x {short, long option names} x workers {1,2} x input batch size {2,64}.
//   long:  templates longer than the fragmentation threshold (1000 x max-length): an aperiodic c/t
//          filler holding (family amp) one amplicon of every legal gap 1..max at EVERY position, or
//          (family split) the rc(reverse) site at position 0/1 and the forward site at EVERY position
//          (on a circular template the pair defines an amplicon across the origin for exactly one of
//          them); each template also reverse-complemented; x -e {0,1} x --delta {absent,2} x
//          --only-complete-flanking x -c x --fragmented {no (control), yes}; max-length 1 (thorough
//          also 2); plus max-length 3 with the gap-1 amplicon, which fits in the overlap the command
//          gives its fragments, at every position (linear, --fragmented, -e {0,1}).
//
// Oracle. Not fragmented, or fragmented with nothing to cut: the multiset of amplicons (template,
// direction, sequence, match strings, error counts) equals the reference. Fragmented and cut: every
// reference amplicon is reported at least once, identical (flanks included); every reported amplicon
// is a reference amplicon, or - left open - a copy of one whose flanks were clipped at a fragment
// edge (duplicates from the overlap zone are left open as well: the statement speaks of the amplicons
// the match pairs define, not of how often a cut template shows them).

import (
	"encoding/json"
	"fmt"
	"os"
	"runtime"
	"sort"
	"strconv"
	"strings"
	"sync"
	"testing"

	"git.metabarcoding.org/obitools/obitools4/obitools4/pkg/obiapat"
	"git.metabarcoding.org/obitools/obitools4/obitools4/pkg/obiiter"
	"git.metabarcoding.org/obitools/obitools4/obitools4/pkg/obioptions"
	"git.metabarcoding.org/obitools/obitools4/obitools4/pkg/obiseq"
	"git.metabarcoding.org/obitools/obitools4/obitools4/pkg/verifkit"
	"github.com/DavidGamba/go-getoptions"
	log "github.com/sirupsen/logrus"
)

// ---------------------------------------------------------------- case description

type c11cCfg struct {
	Fwd       string `json:"fwd"`
	Rev       string `json:"rev"`
	E         int    `json:"e"`     // -1: option absent
	Min       int    `json:"min"`   // -1: option absent
	Max       int    `json:"max"`   // -L is mandatory
	Delta     int    `json:"delta"` // -1: option absent
	Full      bool   `json:"full"`
	Circ      bool   `json:"circ"`
	Frag      bool   `json:"frag"`
	LongNames bool   `json:"long_names"`
	Workers   int    `json:"workers"`
	Batch     int    `json:"batch"`
}

type c11cCase struct {
	Kind string   `json:"kind"` // "short" or "long"
	Cfg  c11cCfg  `json:"cfg"`
	Fam  string   `json:"fam,omitempty"`
	Len  int      `json:"len,omitempty"`
	Only int      `json:"only"` // long: index of the only template to run (-1: all)
	T    []string `json:"t,omitempty"`
}

func (c c11cCfg) args() []string {
	n := func(short, long string) string {
		if c.LongNames {
			return "--" + long
		}
		return "-" + short
	}
	a := []string{"--forward", c.Fwd, "--reverse", c.Rev, n("L", "max-length"), strconv.Itoa(c.Max)}
	if c.E >= 0 {
		a = append(a, n("e", "allowed-mismatches"), strconv.Itoa(c.E))
	}
	if c.Min >= 0 {
		a = append(a, n("l", "min-length"), strconv.Itoa(c.Min))
	}
	if c.Delta >= 0 {
		a = append(a, n("D", "delta"), strconv.Itoa(c.Delta))
	}
	if c.Full {
		a = append(a, "--only-complete-flanking")
	}
	if c.Circ {
		a = append(a, n("c", "circular"))
	}
	if c.Frag {
		a = append(a, "--fragmented")
	}
	return a
}

func (c c11cCfg) topo() string {
	if c.Circ {
		return "circular"
	}
	return "linear"
}

func (c c11cCfg) extmode() string {
	switch {
	case c.Delta < 0:
		return "noext"
	case c.Full:
		return "ext-full"
	}
	return "ext"
}

func (c c11cCfg) errs() int {
	if c.E < 0 {
		return 0
	}
	return c.E
}

// refopts: what the command line means, in terms of the obiapat options.
func (c c11cCfg) refopts() []obiapat.WithOption {
	o := []obiapat.WithOption{
		obiapat.OptionForwardPrimer(c.Fwd, c.errs()),
		obiapat.OptionReversePrimer(c.Rev, c.errs()),
		obiapat.OptionMaxLength(c.Max),
		obiapat.OptionOnlyFullExtension(c.Full),
		obiapat.OptionCircular(c.Circ),
	}
	if c.Min > 0 {
		o = append(o, obiapat.OptionMinLength(c.Min))
	}
	if c.Delta >= 0 {
		o = append(o, obiapat.OptionWithExtension(c.Delta))
	}
	return o
}

type c11cAmp struct {
	Dir, Seq, FM, RM string
	FE, RE           int
}

func (a c11cAmp) key() string {
	return fmt.Sprintf("%s|%s|%s|%d|%s|%d", a.Dir, a.Seq, a.FM, a.FE, a.RM, a.RE)
}

// ---------------------------------------------------------------- small sequence helpers

var c11cIupac = map[byte]uint8{
	'a': 1, 'c': 2, 'g': 4, 't': 8,
	'r': 1 | 4, 'y': 2 | 8, 'm': 1 | 2, 'k': 4 | 8, 's': 2 | 4, 'w': 1 | 8,
	'b': 2 | 4 | 8, 'd': 1 | 4 | 8, 'h': 1 | 2 | 8, 'v': 1 | 2 | 4, 'n': 15,
}

var c11cComp = map[byte]byte{
	'a': 't', 'c': 'g', 'g': 'c', 't': 'a', 'r': 'y', 'y': 'r', 'm': 'k', 'k': 'm', 's': 's', 'w': 'w',
	'b': 'v', 'v': 'b', 'd': 'h', 'h': 'd', 'n': 'n',
}

func c11cRC(s string) string {
	b := make([]byte, len(s))
	for i := 0; i < len(s); i++ {
		b[len(s)-1-i] = c11cComp[s[i]]
	}
	return string(b)
}

func c11cInstance(p string) string {
	b := []byte(p)
	for i := range b {
		for _, n := range []byte("acgt") {
			if c11cIupac[b[i]]&c11cIupac[n] != 0 {
				b[i] = n
				break
			}
		}
	}
	return string(b)
}

func c11cMutate(site, p string, pos ...int) string {
	b := []byte(site)
	for _, i := range pos {
		for _, n := range []byte("tgca") {
			if c11cIupac[p[i]]&c11cIupac[n] == 0 {
				b[i] = n
				break
			}
		}
	}
	return string(b)
}

type c11cPair struct{ fwd, rev, fusion string }

// the 15 building blocks of the obiapat part
func c11cSegments(p c11cPair) []string {
	f0, r0 := c11cInstance(p.fwd), c11cInstance(p.rev)
	fs := []string{f0, c11cMutate(f0, p.fwd, 1), c11cMutate(f0, p.fwd, 0, len(f0)-1)}
	rs := []string{r0, c11cMutate(r0, p.rev, 2), c11cMutate(r0, p.rev, 0, len(r0)-1)}
	var seg []string
	seg = append(seg, fs...)
	for _, s := range rs {
		seg = append(seg, c11cRC(s))
	}
	for _, s := range fs {
		seg = append(seg, c11cRC(s))
	}
	seg = append(seg, rs...)
	seg = append(seg, "c", "tca", p.fusion)
	return seg
}

// aperiodic (Thue-Morse) filler over {c,t}
func c11cFiller(n int) []byte {
	b := make([]byte, n)
	for i := range b {
		x, par := i, 0
		for x > 0 {
			par ^= x & 1
			x >>= 1
		}
		b[i] = "ct"[par]
	}
	return b
}

// ---------------------------------------------------------------- running the command path

type c11cLog struct {
	mu   sync.Mutex
	last string
}

func (w *c11cLog) Write(p []byte) (int, error) {
	w.mu.Lock()
	w.last = string(p)
	w.mu.Unlock()
	return len(p), nil
}

func (w *c11cLog) get() string {
	w.mu.Lock()
	defer w.mu.Unlock()
	return strings.TrimSpace(w.last)
}

var c11cLogger = &c11cLog{}
var c11cFatal = make(chan string, 64)

type c11cOut struct {
	amps   map[int][]c11cAmp // by template index
	fatal  string
	bad    string
	optbad []string // option getters disagreeing with the command line
}

func c11cTemplate(i int, t string) *obiseq.BioSequence {
	s := obiseq.NewBioSequence(fmt.Sprintf("tpl%d", i), []byte(t), "")
	s.SetAttribute("c11tpl", i)
	return s
}

func c11cCollect(c c11cCfg, res obiseq.BioSequenceSlice, o *c11cOut) {
	for _, s := range res {
		if s == nil {
			o.bad = "nil record in the result"
			continue
		}
		an := s.Annotations()
		a := c11cAmp{Seq: strings.ToLower(s.String())}
		idx, okidx := s.GetIntAttribute("c11tpl")
		if !okidx {
			o.bad = fmt.Sprintf("amplicon %s lost the annotations of its template: %v", s.Id(), an)
			continue
		}
		var ok [5]bool
		a.Dir, ok[0] = an["direction"].(string)
		a.FM, ok[1] = an["forward_match"].(string)
		a.RM, ok[2] = an["reverse_match"].(string)
		a.FE, ok[3] = an["forward_error"].(int)
		a.RE, ok[4] = an["reverse_error"].(int)
		for i, k := range ok {
			if !k {
				o.bad = fmt.Sprintf("annotation #%d (direction, forward_match, reverse_match, forward_error, reverse_error) absent or of unexpected type in %v", i, an)
			}
		}
		if fp, _ := an["forward_primer"].(string); !strings.EqualFold(fp, c.Fwd) {
			o.bad = fmt.Sprintf("forward_primer=%q, want %q", fp, c.Fwd)
		}
		if rp, _ := an["reverse_primer"].(string); !strings.EqualFold(rp, c.Rev) {
			o.bad = fmt.Sprintf("reverse_primer=%q, want %q", rp, c.Rev)
		}
		a.FM, a.RM = strings.ToLower(a.FM), strings.ToLower(a.RM)
		o.amps[idx] = append(o.amps[idx], a)
	}
}

// c11cGoID: number of the calling goroutine (first line of its stack: "goroutine 17 [running]:").
func c11cGoID() string {
	b := make([]byte, 64)
	f := strings.Fields(string(b[:runtime.Stack(b, false)]))
	if len(f) > 1 {
		return f[1]
	}
	return "?"
}

// c11cGuarded: the goroutines in which the harness calls the implementation under a recover of its own.
var c11cGuarded sync.Map

// c11cNet: a log.Panic* raised in a goroutine the implementation started (the workers of CLIPCR) cannot be caught by
// any guard of the harness and ends the process: the tree under test does that, not the harness. It is recorded
// as a violation, the shard writes what it has found and stops there. (log.Fatal* is handled by the ExitFunc:
// it ends the goroutine that calls it and is reported through c11cFatal.)
type c11cNet struct{ r *verifkit.Result }

func (n c11cNet) Levels() []log.Level { return []log.Level{log.PanicLevel} }

func (n c11cNet) Fire(e *log.Entry) error {
	if _, ok := c11cGuarded.Load(c11cGoID()); ok {
		return nil
	}
	stack := make([]byte, 3000)
	stack = stack[:runtime.Stack(stack, false)]
	n.r.Violate("CLIPCR/log.Panic-in-a-goroutine-of-the-pipeline", fmt.Sprintf("log.Panic %q in a goroutine started by the implementation; the shard stops here\n%s", e.Message, stack), nil)
	n.r.Cap("a log.Panic in a goroutine of the implementation ended a shard: its remaining cases were not run")
	n.r.Write()
	os.Exit(0)
	return nil
}

// c11cRun parses the command line with the command's own option set and pushes the templates through
// CLIPCR. Everything runs in a goroutine of its own: a log.Fatal anywhere in the pipeline ends the
// calling goroutine (ExitFunc -> Goexit) and is reported through c11cFatal.
func c11cRun(c c11cCfg, tpls []string, first int) c11cOut {
	done := make(chan c11cOut, 1)
	for len(c11cFatal) > 0 {
		<-c11cFatal
	}
	go func() {
		o := c11cOut{amps: map[int][]c11cAmp{}}
		// a panic of the command path in this goroutine is an outcome (keyed .../fatal), not the end of the
		// shard; a log.Fatal ends the goroutine through Goexit (recover() is nil then) and arrives on c11cFatal
		id := c11cGoID()
		c11cGuarded.Store(id, true)
		defer c11cGuarded.Delete(id)
		defer func() {
			if x := recover(); x != nil {
				done <- c11cOut{fatal: fmt.Sprintf("panic: %v", x)}
			}
		}()
		opt := getoptions.New()
		OptionSet(opt)
		if _, err := opt.Parse(c.args()); err != nil {
			o.fatal = "option parser: " + err.Error()
			done <- o
			return
		}
		obioptions.SetMaxCPU(c.Workers)
		obioptions.SetWorkerPerCore(1)
		chk := func(name string, got, want any) {
			if got != want {
				o.optbad = append(o.optbad, fmt.Sprintf("%s()=%v, the command line says %v", name, got, want))
			}
		}
		chk("CLIForwardPrimer", CLIForwardPrimer(), c.Fwd)
		chk("CLIReversePrimer", CLIReversePrimer(), c.Rev)
		chk("CLIAllowedMismatch", CLIAllowedMismatch(), c.errs())
		chk("CLIMaxLength", CLIMaxLength(), c.Max)
		if c.Min >= 0 {
			chk("CLIMinLength", CLIMinLength(), c.Min)
		} else {
			chk("CLIMinLength", CLIMinLength() > 0, false)
		}
		chk("CLIWithExtension", CLIWithExtension(), c.Delta >= 0)
		if c.Delta >= 0 {
			chk("CLIExtension", CLIExtension(), c.Delta)
		}
		chk("CLIOnlyFull", CLIOnlyFull(), c.Full)
		chk("CLICircular", CLICircular(), c.Circ)
		chk("CLIFragmented", CLIFragmented(), c.Frag)

		sl := make(obiseq.BioSequenceSlice, len(tpls))
		for i, t := range tpls {
			sl[i] = c11cTemplate(first+i, t)
		}
		it, err := CLIPCR(obiiter.IBatchOver("c11", sl, c.Batch))
		if err != nil {
			o.fatal = "CLIPCR: " + err.Error()
			done <- o
			return
		}
		for it.Next() {
			c11cCollect(c, it.Get().Slice(), &o)
		}
		done <- o
	}()
	select {
	case o := <-done:
		return o
	case msg := <-c11cFatal:
		return c11cOut{fatal: "fatal exit: " + msg}
	}
}

// c11cRef: PCRSim on one whole template alone.
func c11cRef(c c11cCfg, i int, t string) (amps []c11cAmp, fatal string) {
	done := make(chan c11cOut, 1)
	go func() {
		o := c11cOut{amps: map[int][]c11cAmp{}}
		id := c11cGoID()
		c11cGuarded.Store(id, true)
		defer c11cGuarded.Delete(id)
		defer func() {
			if x := recover(); x != nil {
				done <- c11cOut{amps: map[int][]c11cAmp{}, bad: fmt.Sprintf("panic: %v", x)}
			}
		}()
		c11cCollect(c, obiapat.PCRSim(c11cTemplate(i, t), c.refopts()...), &o)
		done <- o
	}()
	select {
	case o := <-done:
		return o.amps[i], o.bad
	case msg := <-c11cFatal:
		return nil, "fatal exit: " + msg
	}
}

// ---------------------------------------------------------------- comparison

type c11cRunner struct{ r *verifkit.Result }

// fragment geometry of CLIPCR (used to NAME what makes an amplicon go missing, not to decide it)
func (c c11cCfg) fragOverlap() int {
	lf, lr := len(c.Fwd), len(c.Rev)
	return c.Max + max(lf, lr) + min(lf, lr)/2
}

func (c c11cCfg) cuts(t string) bool { return c.Frag && len(t) > c.Max*1000 }

// span of the amplicon on the template, primers and flanks included, as far as the record tells
func (c c11cCfg) span(a c11cAmp) string {
	s := a.Seq
	if c.Delta < 0 {
		s = a.FM + a.Seq + c11cRC(a.RM)
	}
	if a.Dir == "reverse" {
		s = c11cRC(s)
	}
	return s
}

func (x *c11cRunner) compare(cs c11cCase, c c11cCfg, idx int, t string, got []c11cAmp) {
	r := x.r
	ref, rfatal := c11cRef(c, idx, t)
	r.Trans(1)
	if rfatal != "" {
		// the control run (PCRSim on the whole template alone) fails: a verdict on the tree (the obiapat part
		// reports it in detail); the comparison that depends on it is skipped
		r.Count("reference_failed", 1)
		r.Violate("CLIPCR/control-run/PCRSim-fails", fmt.Sprintf("obipcr %s, template #%d %.60q (%d nt): PCRSim on the whole template alone (the reference of this part): %s", strings.Join(c.args(), " "), idx, t, len(t), rfatal), cs)
		return
	}
	mode := "plain"
	if c.Frag {
		mode = "fragmented-uncut"
		if c.cuts(t) {
			mode = "fragmented"
		}
	}
	base := "CLIPCR/" + mode + "/" + c.topo() + "/" + c.extmode()
	show := t
	if len(show) > 60 {
		show = fmt.Sprintf("%s...(%d nt)", show[:40], len(t))
	}
	desc := func(s string) string {
		return fmt.Sprintf("obipcr %s, template #%d %q: %s", strings.Join(c.args(), " "), idx, show, s)
	}
	r.Count("cli_templates", 1)
	r.Count("cli_reference_amplicons", int64(len(ref)))
	if len(ref) > 0 {
		r.Count("cli_templates_with_amplicon_"+mode, 1)
	}
	mref, mgot := map[string]int{}, map[string]int{}
	for _, a := range ref {
		mref[a.key()]++
	}
	for _, a := range got {
		mgot[a.key()]++
	}
	if mode != "fragmented" {
		for _, a := range ref {
			if k := a.key(); mgot[k] < mref[k] {
				r.Violate(base+"/missing-amplicon", desc(fmt.Sprintf("PCRSim reports %dx %+v, the command %dx", mref[k], a, mgot[k])), cs)
			}
		}
		for _, a := range got {
			if k := a.key(); mgot[k] > mref[k] {
				r.Violate(base+"/spurious-amplicon", desc(fmt.Sprintf("the command reports %dx %+v, PCRSim %dx", mgot[k], a, mref[k])), cs)
			}
		}
		return
	}
	// the template was cut into fragments
	clippedOf := func(g c11cAmp) (c11cAmp, bool) {
		if c.Delta <= 0 {
			return g, false
		}
		for _, a := range ref {
			if a.Dir == g.Dir && a.FM == g.FM && a.RM == g.RM && a.FE == g.FE && a.RE == g.RE &&
				len(g.Seq) < len(a.Seq) && len(g.Seq) >= len(a.Seq)-2*c.Delta && strings.Contains(a.Seq, g.Seq) {
				return a, true
			}
		}
		return g, false
	}
	clipped := map[string]bool{}
	for _, g := range got {
		if mref[g.key()] > 0 {
			continue
		}
		if a, ok := clippedOf(g); ok && !c.Full && !c.Circ {
			clipped[a.key()] = true
			r.Count("fragmented_flank_clipped_copies", 1)
			continue
		}
		tag := ""
		if c.Circ && !strings.Contains(t, c.span(g)) {
			tag = ":not-a-template-segment" // e.g. a fragment wrapped onto itself
		}
		r.Violate(base+"/spurious-amplicon"+tag, desc(fmt.Sprintf("reported %+v, which PCRSim on the whole template does not report (reference: %+v)", g, ref)), cs)
	}
	for k, n := range mgot {
		if mref[k] > 0 && n > mref[k] {
			r.Count("fragmented_duplicates", int64(n-mref[k]))
		}
	}
	seen := map[string]bool{}
	for _, a := range ref {
		k := a.key()
		if mgot[k] > 0 || seen[k] {
			continue
		}
		seen[k] = true
		sp := c.span(a)
		tag := ""
		switch {
		case c.Circ && !strings.Contains(t, sp):
			tag = ":across-the-origin"
		case len(sp) > c.fragOverlap()+1:
			tag = ":span-exceeds-fragment-overlap"
		}
		if clipped[k] {
			tag += ":flank-clipped-copy-only"
		}
		r.Violate(base+"/missing-amplicon"+tag, desc(fmt.Sprintf("not reported: %+v (span %d nt with primers and flanks; fragments of %d nt overlapping by %d nt)", a, len(sp), c.Max*100, c.fragOverlap())), cs)
	}
}

// c11cBuiltWithSites: the template holds an exact instance of the forward primer followed, without
// overlap, by an exact instance of rc(reverse primer), on one of its strands (a fact about the input the
// harness built; whether an amplicon is defined also depends on the length bounds).
func c11cBuiltWithSites(c c11cCfg, t string) bool {
	fs, rs := c11cInstance(c.Fwd), c11cRC(c11cInstance(c.Rev))
	for _, s := range []string{t, c11cRC(t)} {
		if i := strings.Index(s, fs); i >= 0 && strings.Contains(s[i+len(fs):], rs) {
			return true
		}
	}
	return false
}

// one command line on one list of templates
func (x *c11cRunner) command(cs c11cCase, c c11cCfg, tpls []string, first int) {
	r := x.r
	// vacuity counters: facts about the templates GIVEN (built with a forward site followed by the
	// rc(reverse) site, in either orientation), not about what PCRSim or the command answers
	for _, t := range tpls {
		mode := "plain"
		if c.Frag {
			mode = "fragmented-uncut"
			if c.cuts(t) {
				mode = "fragmented"
			}
		}
		r.Count("cli_templates_given", 1)
		if c11cBuiltWithSites(c, t) {
			r.Count("cli_templates_given_with_both_sites_"+mode, 1)
		}
	}
	o := c11cRun(c, tpls, first)
	r.Eval(1)
	r.Trans(int64(len(tpls)))
	r.Count("cli_runs", 1)
	cmd := "obipcr " + strings.Join(c.args(), " ")
	if o.fatal != "" {
		mode := "plain"
		if c.Frag {
			mode = "fragmented"
		}
		r.Violate("CLIPCR/"+mode+"/"+c.topo()+"/"+c.extmode()+"/fatal", fmt.Sprintf("%s on %d templates (first %.60q): %s", cmd, len(tpls), tpls[0], o.fatal), cs)
		return
	}
	for _, b := range o.optbad {
		r.Violate("obipcr-options/wrong-value:"+strings.SplitN(b, "(", 2)[0], cmd+": "+b, cs)
	}
	if o.bad != "" {
		r.Violate("CLIPCR/"+c.topo()+"/malformed-record", cmd+": "+o.bad, cs)
	}
	for i, t := range tpls {
		cs1 := cs
		if cs.Kind == "long" {
			cs1.Only = first + i
		} else {
			lo := (i / c.Batch) * c.Batch
			cs1.T = tpls[lo:min(lo+c.Batch, len(tpls))]
		}
		x.compare(cs1, c, first+i, t, o.amps[first+i])
	}
	for idx := range o.amps {
		if idx < first || idx >= first+len(tpls) {
			r.Violate("CLIPCR/"+c.topo()+"/malformed-record", fmt.Sprintf("%s: amplicon attributed to template #%d, which was not given", cmd, idx), cs)
		}
	}
}

// ---------------------------------------------------------------- long-template families

// c11cLong: template number i of the family (ok=false: past the end).
//
//	amp-<gap>-<o>   : filler holding forward site + gap + rc(reverse site) at position i
//	split-<b>-<o>   : rc(reverse site) at position b, forward site at position b+len(rev)+i
//
// <o> = f: as built, r: reverse-complemented.
func c11cLong(p c11cPair, fam string, L, i int) (string, bool) {
	f := c11cFiller(L)
	fs, rs := c11cInstance(p.fwd), c11cRC(c11cInstance(p.rev))
	parts := strings.Split(fam, "-")
	n, _ := strconv.Atoi(parts[1])
	switch parts[0] {
	case "amp":
		a := fs + strings.Repeat("g", n) + rs
		if i+len(a) > L {
			return "", false
		}
		copy(f[i:], a)
	case "split":
		at := n + len(rs) + i
		if at+len(fs) > L {
			return "", false
		}
		copy(f[n:], rs)
		copy(f[at:], fs)
	default:
		panic("unknown family " + fam)
	}
	t := string(f)
	if parts[2] == "r" {
		t = c11cRC(t)
	}
	return t, true
}

func (x *c11cRunner) long(p c11cPair, c c11cCfg, fam string, L, only int) {
	var tpls []string
	first := 0
	if only >= 0 {
		t, ok := c11cLong(p, fam, L, only)
		if !ok {
			return
		}
		tpls, first = []string{t}, only
	} else {
		for i := 0; ; i++ {
			t, ok := c11cLong(p, fam, L, i)
			if !ok {
				break
			}
			tpls = append(tpls, t)
		}
	}
	x.r.State(fmt.Sprintf("%s:%s:%d", p.fwd, fam, L))
	x.command(c11cCase{Kind: "long", Cfg: c, Fam: fam, Len: L, Only: -1}, c, tpls, first)
}

// ---------------------------------------------------------------- enumeration

func TestVerifC11CLI(t *testing.T) {
	log.SetOutput(c11cLogger)
	log.StandardLogger().ExitFunc = func(int) {
		select {
		case c11cFatal <- c11cLogger.get():
		default:
		}
		runtime.Goexit()
	}
	r := verifkit.New("C11")
	defer r.Write()
	log.AddHook(c11cNet{r})
	x := &c11cRunner{r}
	pairs := []c11cPair{{"aacgr", "ttyagc", "aacggctgaa"}, {"gwtacc", "aakgg", "gataccctt"}, {"cwtg", "ttayagtkca", "catgcactgtaa"}}
	pairOf := func(fwd string) c11cPair {
		for _, p := range pairs {
			if p.fwd == fwd {
				return p
			}
		}
		t.Fatalf("unknown primer pair %q", fwd)
		return c11cPair{}
	}

	if rc := r.ReplayCase(); rc != nil {
		var c c11cCase
		if err := json.Unmarshal(rc, &c); err != nil {
			t.Fatal(err)
		}
		switch c.Kind {
		case "short":
			x.command(c, c.Cfg, c.T, 0)
		case "long":
			x.long(pairOf(c.Cfg.Fwd), c.Cfg, c.Fam, c.Len, c.Only)
		default:
			t.Fatalf("unknown case kind %q", c.Kind)
		}
		return
	}

	thorough := verifkit.Thorough()
	// guards on what the harness gives, not on what PCRSim answers (cli_reference_amplicons and
	// cli_templates_with_amplicon_* stay as plain counters)
	r.RequireNonVacuous("cli_templates_given")
	r.RequireNonVacuous("cli_templates_given_with_both_sites_plain")
	r.RequireNonVacuous("cli_templates_given_with_both_sites_fragmented")
	r.RequireNonVacuous("cli_templates_given_with_both_sites_fragmented-uncut")
	k := 0

	// ---- short templates x the option grid
	for _, p := range pairs[:2] {
		seg := c11cSegments(p)
		tpls := []string{""}
		for _, a := range seg {
			tpls = append(tpls, a)
		}
		for _, a := range seg {
			for _, b := range seg {
				tpls = append(tpls, a+b)
			}
		}
		tpls = append(tpls,
			seg[0]+"tca"+seg[3], seg[9]+"c"+seg[6], seg[0]+"tcatca"+seg[3], "tc"+seg[1]+"c"+seg[4]+"tca",
			seg[9]+"c"+seg[6]+seg[0]+"c"+seg[3], "c"+seg[3]+"tca"+seg[0])
		r.Bound("short_templates_"+p.fwd, len(tpls))
		for _, tp := range tpls {
			r.State(p.fwd + ":" + tp)
		}
		ncfg := 0
		for _, e := range []int{-1, 1, 2} {
			for _, mn := range []int{-1, 2} {
				for _, mx := range []int{3, 6} {
					for _, d := range []int{-1, 0, 2} {
						for _, full := range []bool{false, true} {
							for _, circ := range []bool{false, true} {
								for _, frag := range []bool{false, true} {
									for _, ln := range []bool{false, true} {
										for _, w := range []int{1, 2} {
											for _, bs := range []int{2, 64} {
												ncfg++
												mine := r.Mine(k)
												k++
												if !mine || r.Expired() {
													continue
												}
												c := c11cCfg{Fwd: p.fwd, Rev: p.rev, E: e, Min: mn, Max: mx, Delta: d, Full: full,
													Circ: circ, Frag: frag, LongNames: ln, Workers: w, Batch: bs}
												x.command(c11cCase{Kind: "short", Cfg: c, Only: -1}, c, tpls, 0)
											}
										}
									}
								}
							}
						}
					}
				}
			}
		}
		r.Bound("short_command_lines_per_pair", ncfg)
	}

	// ---- long templates (cut by --fragmented)
	maxes := []int{1}
	lpairs := pairs[:2]
	workers := []int{2}
	if thorough {
		maxes = []int{1, 2}
		lpairs = pairs
		workers = []int{1, 2}
	}
	r.Bound("long_max_lengths", fmt.Sprint(maxes))
	for _, p := range lpairs {
		for _, mx := range maxes {
			L := mx*1000 + 100*mx
			var fams []string
			for g := 1; g <= mx; g++ {
				fams = append(fams, fmt.Sprintf("amp-%d-f", g), fmt.Sprintf("amp-%d-r", g))
			}
			for b := 0; b <= 1; b++ {
				fams = append(fams, fmt.Sprintf("split-%d-f", b), fmt.Sprintf("split-%d-r", b))
			}
			r.Bound(fmt.Sprintf("long_template_length_max%d", mx), L)
			for _, fam := range fams {
				for _, e := range []int{0, 1} {
					for _, d := range [][2]int{{-1, 0}, {2, 0}, {2, 1}} {
						for _, circ := range []bool{false, true} {
							for _, frag := range []bool{false, true} {
								for _, w := range workers {
									mine := r.Mine(k)
									k++
									if !mine || r.Expired() {
										continue
									}
									c := c11cCfg{Fwd: p.fwd, Rev: p.rev, E: e, Min: -1, Max: mx, Delta: d[0], Full: d[1] == 1,
										Circ: circ, Frag: frag, LongNames: true, Workers: w, Batch: 7}
									x.long(p, c, fam, L, -1)
								}
							}
						}
					}
				}
			}
		}
	}
	// ---- long templates whose amplicon fits in the fragment overlap the command uses (max-length 3,
	// gap 1: 12 nt with primers, overlap 11): these must be found at every position whatever is
	// decided about the longer ones, so that a fragmentation losing MORE than the amplicons longer
	// than the overlap gets a key of its own
	for _, p := range pairs[:2] {
		for _, fam := range []string{"amp-1-f", "amp-1-r"} {
			for _, e := range []int{0, 1} {
				mine := r.Mine(k)
				k++
				if !mine || r.Expired() {
					continue
				}
				c := c11cCfg{Fwd: p.fwd, Rev: p.rev, E: e, Min: -1, Max: 3, Delta: -1, Frag: true, LongNames: true, Workers: 2, Batch: 7}
				before, given := r.Counters["cli_reference_amplicons"], r.Counters["cli_templates_given_with_both_sites_fragmented"]
				x.long(p, c, fam, 3300, -1)
				r.Count("cli_reference_amplicons_fitting_the_overlap", r.Counters["cli_reference_amplicons"]-before)
				r.Count("cli_templates_given_with_an_amplicon_fitting_the_overlap", r.Counters["cli_templates_given_with_both_sites_fragmented"]-given)
			}
		}
	}
	r.RequireNonVacuous("cli_templates_given_with_an_amplicon_fitting_the_overlap")

	keys := []string{}
	for _, p := range pairs {
		keys = append(keys, p.fwd+"/"+p.rev)
	}
	sort.Strings(keys)
	r.Bound("primer_pairs", strings.Join(keys, ","))
	r.Sample(c11cCase{Kind: "long", Cfg: c11cCfg{Fwd: "aacgr", Rev: "ttyagc", E: 0, Min: -1, Max: 1, Delta: -1, Frag: true, LongNames: true, Workers: 2, Batch: 7}, Fam: "amp-1-f", Len: 1100, Only: 89})
}
