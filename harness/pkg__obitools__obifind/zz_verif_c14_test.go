//go:build verif

package obifind

// C14, part 5 — the taxonomy listings of obifind as the command builds them:
//
//	obifind -t DIR [-a] [-r TAXID]... [--rank RANK] [-P] [-F] [PATTERN]...      (listing)
//	obifind -t DIR [-P] -p TAXID                                                 (path of a taxon)
//
// For EVERY rooted labelled tree with n <= 4 nodes (thorough: n <= 5), written as a synthetic NCBI dump in
// which every node has a merged-id alias, and loaded by the command's own CLILoadSelectedTaxonomy, EVERY
// command line of the space below is parsed by the real option definitions (OptionSet), the calls of
// cmd/obitools/obifind/main.go are made (ITaxonRestrictions = CLITaxonomicalRestrictions +
// IFilterRankRestriction + IFilterBelongingSubclades, ITaxonNameMatcher, TaxonWriter) and the printed lines
// are parsed back:
//
//	-r lists : every ORDERED list of 0, 1 or 2 entries among the taxids and the aliases (the same entry twice
//	           and a taxid together with its own alias included), every list of 3 distinct entries in three
//	           rotations, two lists of 4; four lists holding a taxid unknown to the taxonomy
//	--rank   : absent, every rank carried by a node, one rank carried by no node
//	listing  : the whole taxonomy (with and without -P), one regular expression, two regular expressions
//	           with -P, two fixed names with -F; with -a (alternative names loaded; unordered -r lists of 0..2,
//	           two ranks): the whole taxonomy, a name shared by several taxa as regular expression and with -F,
//	           a synonym prefix; lists of 3 and 4 entries: two ranks x {whole taxonomy, one regular expression}
//	-p       : every taxid and every alias, with and without -P (two of them with -a)
//
// and a covering subset of them is run through the REAL BINARY built from cmd/obitools/obifind of the tree
// under test (a few fixed trees; thorough: every tree with 4 nodes).
//
// Oracle (ancestor sets computed from the parent array):
//
//	a taxon is listed, exactly once, <=> (no --rank given OR its own rank is that rank)
//	                                     AND (no -r given OR it lies in the clade of one of the -r taxa,
//	                                          an alias standing for the taxon it was merged into)
//	                                     AND (no pattern given OR the command lists it for that pattern when
//	                                          run WITHOUT -r / --rank: name matching is not part of C14)
//	every line shows the taxid of the parent, the rank and the scientific name of its taxon; with -P the
//	names along the path to the root (root-first or taxon-first)
//	-p X lists the ancestors-or-self of X once each, in path order (either direction)
//
// A taxid unknown to the taxonomy in -r: an error / crash is a refusal to run; otherwise the listing is that
// of the known entries.

import (
	"bytes"
	"encoding/json"
	"fmt"
	"io"
	"os"
	"os/exec"
	"path/filepath"
	"strconv"
	"strings"
	"sync/atomic"
	"testing"
	"time"

	"git.metabarcoding.org/obitools/obitools4/obitools4/pkg/verifkit"
	"github.com/DavidGamba/go-getoptions"
	log "github.com/sirupsen/logrus"
)

type c14findCase struct {
	Scheme   int      `json:"scheme"`
	Parent   []int    `json:"parent"`
	Ranks    []string `json:"ranks"`
	Alt      bool     `json:"alt,omitempty"`      // -a
	Restrict []int    `json:"restrict,omitempty"` // -r X ...
	Rank     string   `json:"rank,omitempty"`     // --rank
	Patterns []string `json:"patterns,omitempty"`
	Fixed    bool     `json:"fixed,omitempty"`     // -F
	WithPath bool     `json:"with_path,omitempty"` // -P
	PathOf   int      `json:"path_of,omitempty"`   // -p X (0 = not given; the taxids of the dumps are > 0)
	Bin      bool     `json:"bin,omitempty"`       // through the real binary
}

func (c c14findCase) args(dir string) []string {
	a := []string{"-t", dir}
	if c.Alt {
		a = append(a, "-a")
	}
	for _, x := range c.Restrict {
		a = append(a, "-r", strconv.Itoa(x))
	}
	if c.Rank != "" {
		a = append(a, "--rank", c.Rank)
	}
	if c.WithPath {
		a = append(a, "-P")
	}
	if c.Fixed {
		a = append(a, "-F")
	}
	if c.PathOf != 0 {
		a = append(a, "-p", strconv.Itoa(c.PathOf))
	}
	return append(a, c.Patterns...)
}

type c14findRefusal struct{ err error }

var c14findRanks = []string{"species", "genus", "family", "no rank"}

const c14findAbsentRank = "order"

// ---------------------------------------------------------------------------------------------
// reference model

type c14findModel struct {
	n       int
	parent  []int
	ranks   []string
	ids     []int
	alias   []int
	unknown int
	isAnc   [][]bool // isAnc[i][x]: x is an ancestor-or-self of i
	nodeOf  map[int]int
	isAlias map[int]bool
}

func c14findNewModel(scheme int, parent []int, ranks []string) *c14findModel {
	n := len(parent)
	m := &c14findModel{n: n, parent: parent, ranks: ranks, nodeOf: map[int]int{}, isAlias: map[int]bool{}}
	m.ids = make([]int, n)
	m.alias = make([]int, n)
	for i := 0; i < n; i++ {
		if scheme == 0 {
			m.ids[i], m.alias[i], m.unknown = i+1, 10000+i, 9999
		} else {
			m.ids[i], m.alias[i], m.unknown = 100000-37*i, i+1, 50000
		}
		m.nodeOf[m.ids[i]] = i
		m.nodeOf[m.alias[i]] = i
		m.isAlias[m.alias[i]] = true
	}
	m.isAnc = make([][]bool, n)
	for i := 0; i < n; i++ {
		m.isAnc[i] = make([]bool, n)
		x := i
		for {
			m.isAnc[i][x] = true
			if parent[x] == x {
				break
			}
			x = parent[x]
		}
	}
	return m
}

func (m *c14findModel) name(i int) string { return "Taxon " + strconv.Itoa(m.ids[i]) }

// path of node i, taxon first
func (m *c14findModel) path(i int) []int {
	p := []int{i}
	for m.parent[i] != i {
		i = m.parent[i]
		p = append(p, i)
	}
	return p
}

// selected: what -r / --rank imply for node i (entries unknown to the taxonomy select nothing)
func (m *c14findModel) selected(c *c14findCase, i int) bool {
	if c.Rank != "" && m.ranks[i] != c.Rank {
		return false
	}
	if len(c.Restrict) == 0 {
		return true
	}
	for _, x := range c.Restrict {
		if k, ok := m.nodeOf[x]; ok && m.isAnc[i][k] {
			return true
		}
	}
	return false
}

func c14findWriteDump(m *c14findModel, dir string) error {
	var nodes, names, merged strings.Builder
	for i := 0; i < m.n; i++ {
		fmt.Fprintf(&nodes, "%d\t|\t%d\t|\t%s\t|\t\t|\t8\t|\t0\t|\t1\t|\t0\t|\t0\t|\t0\t|\t0\t|\t0\t|\t\t|\n",
			m.ids[i], m.ids[m.parent[i]], m.ranks[i])
		fmt.Fprintf(&names, "%d\t|\tOld name %d\t|\t\t|\tequivalent name\t|\n", m.ids[i], m.ids[i])
		fmt.Fprintf(&names, "%d\t|\t%s\t|\t\t|\tscientific name\t|\n", m.ids[i], m.name(i))
		fmt.Fprintf(&names, "%d\t|\tSyn %d\t|\t\t|\tsynonym\t|\n", m.ids[i], m.ids[i])
		if i%2 == 0 {
			fmt.Fprintf(&names, "%d\t|\tshared\t|\t\t|\tcommon name\t|\n", m.ids[i])
		}
		fmt.Fprintf(&merged, "%d\t|\t%d\t|\n", m.alias[i], m.ids[i])
	}
	for fn, s := range map[string]string{"nodes.dmp": nodes.String(), "names.dmp": names.String(), "merged.dmp": merged.String()} {
		if err := os.WriteFile(filepath.Join(dir, fn), []byte(s), 0o644); err != nil {
			return err
		}
	}
	return nil
}

func c14findTrees(n int, f func(parent []int)) {
	p := make([]int, n)
	var rec func(i, root int)
	valid := func(root int) bool {
		for i := 0; i < n; i++ {
			x, steps := i, 0
			for x != root {
				x = p[x]
				steps++
				if steps > n {
					return false
				}
			}
		}
		return true
	}
	rec = func(i, root int) {
		if i == n {
			if valid(root) {
				f(p)
			}
			return
		}
		if i == root {
			p[i] = i
			rec(i+1, root)
			return
		}
		for q := 0; q < n; q++ {
			if q != i {
				p[i] = q
				rec(i+1, root)
			}
		}
	}
	for root := 0; root < n; root++ {
		rec(0, root)
	}
}

// -r lists: short = every ordered list of 0..2 entries (repetition allowed), long = 3 distinct entries in
// three rotations + two lists of 4
func c14findLists(items []int) (short, long [][]int) {
	short = [][]int{nil}
	for _, a := range items {
		short = append(short, []int{a})
	}
	for _, a := range items {
		for _, b := range items {
			short = append(short, []int{a, b})
		}
	}
	for i := range items {
		for j := i + 1; j < len(items); j++ {
			for k := j + 1; k < len(items); k++ {
				a, b, c := items[i], items[j], items[k]
				long = append(long, []int{a, b, c}, []int{b, c, a}, []int{c, a, b})
			}
		}
	}
	if n := len(items); n >= 4 {
		long = append(long, []int{items[0], items[1], items[n-2], items[n-1]}, []int{items[n-1], items[n/2], items[1], items[0]})
	}
	return
}

// ---------------------------------------------------------------------------------------------
// running one command line

type c14findLine struct {
	pattern, text, rank string
	taxid, parent       int
}

type c14findRun struct {
	r       *verifkit.Result
	dir     string // dump directory
	capture *os.File
	stdout  *os.File
	bin     string // the real binary ("" until built)
	binErr  string

	m        *c14findModel
	loadedAs int // 0 nothing loaded, 1 scientific names only, 2 with alternative names
	matches  map[string]map[int]bool

	progress atomic.Int64
	cur      atomic.Pointer[c14findCase]
}

const c14findStall = 30 // seconds without a command line judged

func c14findParse(args []string) ([]string, error) {
	__taxonomical_restriction__ = make([]int, 0)
	opt := getoptions.New()
	opt.SetMode(getoptions.Bundling)
	opt.SetUnknownMode(getoptions.Fail)
	OptionSet(opt)
	return opt.Parse(args)
}

// c14findMain makes the calls of cmd/obitools/obifind/main.go on the parsed options (the binary itself is
// driven by the cases with Bin=true); an error, which main prints before it goes on, ends the run as a refusal
func c14findMain(args []string) {
	restrictions, err := ITaxonRestrictions()
	if err != nil {
		panic(c14findRefusal{err})
	}
	switch {
	case CLIRequestsPathForTaxid() >= 0:
		taxonomy, err := CLILoadSelectedTaxonomy()
		if err != nil {
			panic(c14findRefusal{err})
		}
		taxon, err := taxonomy.Taxon(CLIRequestsPathForTaxid())
		if err != nil {
			panic(c14findRefusal{err})
		}
		s, err := taxon.Path()
		if err != nil {
			panic(c14findRefusal{err})
		}
		TaxonWriter(s.Iterator(), fmt.Sprintf("path:%d", taxon.Taxid()))
	case len(args) == 0:
		taxonomy, err := CLILoadSelectedTaxonomy()
		if err != nil {
			panic(c14findRefusal{err})
		}
		TaxonWriter(restrictions(taxonomy.Iterator()), "")
	default:
		matcher, err := ITaxonNameMatcher()
		if err != nil {
			panic(c14findRefusal{err})
		}
		for _, pattern := range args {
			TaxonWriter(restrictions(matcher(pattern)), pattern)
		}
	}
}

// outcome of a command line: the text printed on the standard output, or how it ended otherwise
type c14findOutcome struct {
	out     string
	refused string // error / log.Fatal / non-zero exit status
	broken  string // parse error, panic (in-process)
}

func (h *c14findRun) runInProcess(c *c14findCase) (o c14findOutcome) {
	want := 1
	if c.Alt {
		want = 2
	}
	if h.loadedAs != want {
		__selected_taxonomy__ = nil
		h.loadedAs = want
	}
	var rest []string
	var err error
	func() { // OptionSet is code of the tree under test
		defer func() {
			if rec := recover(); rec != nil {
				o.broken = fmt.Sprintf("panic: %v (while the options were declared and parsed)", rec)
			}
		}()
		rest, err = c14findParse(c.args(h.dir))
	}()
	if o.broken != "" {
		return
	}
	if err != nil {
		o.broken = "parse-error: " + err.Error()
		return
	}
	h.capture.Truncate(0)
	h.capture.Seek(0, 0)
	func() {
		os.Stdout = h.capture
		defer func() {
			os.Stdout = h.stdout
			if rec := recover(); rec != nil {
				if rf, ok := rec.(c14findRefusal); ok {
					o.refused = fmt.Sprint(rf.err)
				} else {
					o.broken = fmt.Sprintf("panic: %v", rec)
				}
			}
		}()
		c14findMain(rest)
	}()
	var buf bytes.Buffer
	h.capture.Seek(0, 0)
	io.Copy(&buf, h.capture)
	o.out = buf.String()
	return
}

func c14findRoot() string {
	d, err := os.Getwd()
	if err != nil {
		panic(err)
	}
	for {
		if _, err := os.Stat(filepath.Join(d, "go.mod")); err == nil {
			return d
		}
		p := filepath.Dir(d)
		if p == d {
			panic("c14find: module root not found")
		}
		d = p
	}
}

func (h *c14findRun) build() bool {
	if h.bin != "" || h.binErr != "" {
		return h.bin != ""
	}
	bin := filepath.Join(h.dir, "obifind.bin")
	cmd := exec.Command("go", "build", "-o", bin, "./cmd/obitools/obifind")
	cmd.Dir = c14findRoot()
	b, err := cmd.CombinedOutput()
	if _, serr := os.Stat(bin); serr != nil {
		h.binErr = fmt.Sprintf("cannot build cmd/obitools/obifind from %s: %v\n%s", cmd.Dir, err, b)
		return false
	}
	h.bin = bin
	return true
}

func (h *c14findRun) runBinary(c *c14findCase) (o c14findOutcome) {
	cmd := exec.Command(h.bin, c.args(h.dir)...)
	var outb, errb bytes.Buffer
	cmd.Stdout, cmd.Stderr = &outb, &errb
	cmd.Env = append(os.Environ(), "OBIMAXCPU=2")
	done := make(chan error, 1)
	if err := cmd.Start(); err != nil {
		o.broken = "cannot start the binary: " + err.Error()
		return
	}
	go func() { done <- cmd.Wait() }()
	var err error
	select {
	case err = <-done:
	case <-time.After(2 * time.Minute):
		cmd.Process.Kill()
		<-done
		o.broken = "hang: still running after 2 minutes"
		return
	}
	o.out = outb.String()
	if err != nil {
		tail := errb.String()
		if k := strings.Index(tail, "panic:"); k >= 0 {
			tail = tail[k:]
		}
		if len(tail) > 300 {
			tail = tail[:300]
		}
		o.refused = fmt.Sprintf("%v; %s", err, tail)
	}
	return
}

func (h *c14findRun) run(c *c14findCase) c14findOutcome {
	if c.Bin {
		return h.runBinary(c)
	}
	return h.runInProcess(c)
}

func c14findParseLines(out string) (lines []c14findLine, bad string) {
	for _, l := range strings.Split(out, "\n") {
		if l == "" {
			continue
		}
		f := strings.Split(l, " | ")
		if len(f) != 5 {
			return nil, l
		}
		taxid, e1 := strconv.Atoi(strings.TrimSpace(f[1]))
		parent, e2 := strconv.Atoi(strings.TrimSpace(f[2]))
		if e1 != nil || e2 != nil {
			return nil, l
		}
		lines = append(lines, c14findLine{pattern: strings.TrimRight(f[0], " "), taxid: taxid, parent: parent,
			rank: strings.TrimRight(f[3], " "), text: f[4]})
	}
	return lines, ""
}

// ---------------------------------------------------------------------------------------------
// judging one command line

type c14findProblem struct {
	class   string // listing classes: "listing:..."; others: "line:...", "parents:...", "error-...", ...
	detail  string
	listing bool
}

// matchesOf: the taxa the command lists for a pattern without any restriction (the reference for name matching)
func (h *c14findRun) matchesOf(c *c14findCase, pattern string) (map[int]bool, *c14findProblem) {
	key := fmt.Sprintf("%v|%v|%v|%s", c.Alt, c.Fixed, c.Bin, pattern)
	if s, ok := h.matches[key]; ok {
		return s, nil
	}
	ref := c14findCase{Scheme: c.Scheme, Parent: c.Parent, Ranks: c.Ranks, Alt: c.Alt, Fixed: c.Fixed, Bin: c.Bin, Patterns: []string{pattern}}
	o := h.run(&ref)
	if o.broken != "" || o.refused != "" {
		return nil, &c14findProblem{class: "error-on-valid-options", detail: fmt.Sprintf("reference run %v: %s%s", ref.args("DIR"), o.broken, o.refused)}
	}
	lines, bad := c14findParseLines(o.out)
	if bad != "" {
		return nil, &c14findProblem{class: "line:unparsable", detail: fmt.Sprintf("reference run %v printed %q", ref.args("DIR"), bad)}
	}
	s := map[int]bool{}
	for _, l := range lines {
		i, ok := h.m.nodeOf[l.taxid]
		if !ok || h.m.isAlias[l.taxid] {
			return nil, &c14findProblem{class: "listing:taxid-of-no-taxon", detail: fmt.Sprintf("reference run %v lists taxid %d", ref.args("DIR"), l.taxid)}
		}
		if s[i] {
			return nil, &c14findProblem{class: "listing:listed-twice", listing: true, detail: fmt.Sprintf("reference run %v lists taxid %d twice", ref.args("DIR"), l.taxid)}
		}
		s[i] = true
	}
	h.matches[key] = s
	return s, nil
}

// evaluate runs one command line and returns its disagreements with the tree (nothing is reported here)
func (h *c14findRun) evaluate(c *c14findCase) (probs []c14findProblem) {
	m := h.m
	allKnown := true
	for _, x := range c.Restrict {
		if _, ok := m.nodeOf[x]; !ok {
			allKnown = false
		}
	}
	o := h.run(c)
	h.r.Eval(1)
	h.r.Trans(1)
	if o.broken != "" {
		cls := "panic"
		if strings.HasPrefix(o.broken, "parse-error") {
			cls = "parse-error"
		} else if strings.HasPrefix(o.broken, "hang") {
			cls = "hang"
		}
		return []c14findProblem{{class: cls, detail: o.broken}}
	}
	if o.refused != "" {
		if !allKnown {
			h.r.Count("find_refusals_on_unknown_taxid", 1)
			return nil
		}
		return []c14findProblem{{class: "error-on-valid-options", detail: o.refused}}
	}
	lines, bad := c14findParseLines(o.out)
	if bad != "" {
		return []c14findProblem{{class: "line:unparsable", detail: fmt.Sprintf("printed %q", bad)}}
	}
	add := func(listing bool, class, format string, a ...any) {
		probs = append(probs, c14findProblem{class: class, listing: listing, detail: fmt.Sprintf(format, a...)})
	}
	// every line describes its taxon
	for _, l := range lines {
		i, ok := m.nodeOf[l.taxid]
		if !ok || m.isAlias[l.taxid] {
			add(false, "listing:taxid-of-no-taxon", "line of taxid %d", l.taxid)
			continue
		}
		if l.parent != m.ids[m.parent[i]] {
			add(false, "line:parent", "taxid %d shown with parent %d, the tree says %d", l.taxid, l.parent, m.ids[m.parent[i]])
		}
		if l.rank != m.ranks[i] {
			add(false, "line:rank", "taxid %d shown with rank %q, the tree says %q", l.taxid, l.rank, m.ranks[i])
		}
		if !c.WithPath {
			if l.text != m.name(i) {
				add(false, "line:name", "taxid %d shown with name %q, want %q", l.taxid, l.text, m.name(i))
			}
		} else {
			var down, up []string
			for _, x := range m.path(i) {
				up = append(up, m.name(x))
				down = append([]string{m.name(x)}, down...)
			}
			if l.text != strings.Join(down, ":") && l.text != strings.Join(up, ":") {
				add(false, "line:path-column", "taxid %d shown with path %q, the tree says %q", l.taxid, l.text, strings.Join(down, ":"))
			}
		}
	}
	if len(probs) > 0 {
		return
	}
	if c.PathOf != 0 {
		var got, up, down []int
		for _, l := range lines {
			got = append(got, l.taxid)
		}
		for _, x := range m.path(m.nodeOf[c.PathOf]) {
			up = append(up, m.ids[x])
			down = append([]int{m.ids[x]}, down...)
		}
		if len(up) > 1 {
			h.r.Count("find_paths_longer_than_one", 1)
		}
		if fmt.Sprint(got) != fmt.Sprint(up) && fmt.Sprint(got) != fmt.Sprint(down) {
			cls := "parents:wrong-path"
			if m.isAlias[c.PathOf] {
				cls += "[alias]"
			}
			add(false, cls, "lists %v, the path of %d is %v", got, c.PathOf, up)
		}
		return
	}
	// the listing, pattern by pattern
	groups := c.Patterns
	if len(groups) == 0 {
		groups = []string{""}
	}
	byPattern := map[string][]int{}
	for _, l := range lines {
		known := false
		for _, p := range groups {
			known = known || p == l.pattern
		}
		if !known {
			add(false, "line:pattern-column", "line of taxid %d labelled %q, patterns %q", l.taxid, l.pattern, groups)
			continue
		}
		byPattern[l.pattern] = append(byPattern[l.pattern], m.nodeOf[l.taxid])
	}
	for _, p := range groups {
		var matching map[int]bool
		if p != "" || len(c.Patterns) > 0 {
			var prob *c14findProblem
			if matching, prob = h.matchesOf(c, p); prob != nil {
				probs = append(probs, *prob)
				continue
			}
		}
		seen := map[int]int{}
		for _, i := range byPattern[p] {
			seen[i]++
		}
		for i := 0; i < m.n; i++ {
			want := m.selected(c, i) && (matching == nil || matching[i])
			if want {
				h.r.Count("find_taxa_listed", 1)
				if len(c.Restrict) > 0 || c.Rank != "" {
					h.r.Count("find_taxa_listed_under_a_restriction", 1)
				}
				if matching != nil {
					h.r.Count("find_taxa_listed_for_a_pattern", 1)
				}
			} else {
				h.r.Count("find_taxa_not_listed", 1)
			}
			switch {
			case want && seen[i] == 0:
				add(true, "listing:not-listed-but-selected-by-the-tree", "pattern %q: taxid %d is not listed", p, m.ids[i])
			case !want && seen[i] > 0:
				add(true, "listing:listed-but-excluded-by-the-tree", "pattern %q: taxid %d is listed", p, m.ids[i])
			case seen[i] > 1:
				add(true, "listing:listed-twice", "pattern %q: taxid %d is listed %d times", p, m.ids[i], seen[i])
			}
		}
	}
	return
}

func (h *c14findRun) restrictClass(c *c14findCase) string {
	k := strconv.Itoa(len(c.Restrict))
	if len(c.Restrict) >= 3 {
		k = "3+"
	}
	s := "restrict-to(" + k + ")"
	for _, x := range c.Restrict {
		if h.m.isAlias[x] {
			return s + "[alias]"
		}
	}
	return s
}

// wrongListing: does this variant of the command line give a listing that disagrees with the tree ?
func (h *c14findRun) wrongListing(c c14findCase) bool {
	for _, p := range h.evaluate(&c) {
		if p.listing {
			return true
		}
	}
	return false
}

// check judges one command line and reports; a wrong listing is attributed to the option whose own effect
// disagrees with the tree (probed by running the command line with that option alone)
func (h *c14findRun) check(c c14findCase) {
	h.cur.Store(&c)
	probs := h.evaluate(&c)
	h.progress.Add(1)
	h.r.Count("find_command_lines", 1)
	if c.Bin {
		h.r.Count("find_command_lines_through_the_binary", 1)
	}
	if len(c.Restrict) >= 2 {
		h.r.Count("find_command_lines_with_2+_restrictions", 1)
	}
	if len(c.Patterns) > 0 {
		h.r.Count("find_command_lines_with_patterns", 1)
	}
	if len(probs) == 0 {
		return
	}
	site := "obifind"
	if c.Bin {
		site = "obifind(cli)"
	}
	m := h.m
	which := ""
	reported := map[string]bool{}
	for _, p := range probs {
		key := site + "/" + p.class
		if p.listing {
			if which == "" {
				switch {
				case len(c.Restrict) > 0 && c.Rank != "":
					alone := c
					alone.Rank = ""
					rankOnly := c
					rankOnly.Restrict = nil
					if h.wrongListing(alone) {
						which = h.restrictClass(&c)
					} else if h.wrongListing(rankOnly) {
						which = "rank"
					} else {
						which = "composition:" + h.restrictClass(&c) + "+rank"
					}
				case len(c.Restrict) > 0:
					which = h.restrictClass(&c)
				case c.Rank != "":
					which = "rank"
				default:
					which = "no-restriction"
				}
				if len(c.Patterns) > 0 {
					all := c
					all.Patterns, all.Fixed = nil, false
					if !h.wrongListing(all) {
						which += ":only-with-patterns"
					}
				}
			}
			key += ":" + which
		}
		if reported[key] {
			continue
		}
		reported[key] = true
		h.r.Violate(key, fmt.Sprintf("obifind %s: %s; tree parent=%v ids=%v alias=%v ranks=%q",
			strings.Join(c.args("DIR"), " "), p.detail, m.parent, m.ids, m.alias, m.ranks), c)
	}
}

// ---------------------------------------------------------------------------------------------
// the command lines of one taxonomy

func (h *c14findRun) rankChoices() []string {
	out := []string{""}
	for _, rk := range c14findRanks {
		for _, have := range h.m.ranks {
			if have == rk {
				out = append(out, rk)
				break
			}
		}
	}
	return append(out, c14findAbsentRank)
}

func (h *c14findRun) setTaxonomy(scheme int, parent []int, ranks []string) c14findCase {
	h.m = c14findNewModel(scheme, parent, ranks)
	if err := c14findWriteDump(h.m, h.dir); err != nil {
		panic("c14find harness: cannot write dump: " + err.Error())
	}
	h.loadedAs = 0
	__selected_taxonomy__ = nil
	h.matches = map[string]map[int]bool{}
	return c14findCase{Scheme: scheme, Parent: append([]int{}, parent...), Ranks: append([]string{}, ranks...)}
}

func (h *c14findRun) evalTaxonomy(scheme int, parent []int, ranks []string, only *c14findCase) {
	base := h.setTaxonomy(scheme, parent, ranks)
	m := h.m
	if only != nil {
		if only.Bin && !h.build() {
			h.r.Violate("obifind(cli)/does-not-build", h.binErr, *only)
			return
		}
		h.check(*only)
		return
	}
	h.r.Count("find_taxonomies", 1)
	h.r.State(fmt.Sprintf("find|%d|%v|%v", scheme, parent, ranks))
	n := m.n
	known := append(append([]int{}, m.ids...), m.alias...)
	short, long := c14findLists(known)
	ranksOf := h.rankChoices()
	type mode struct {
		patterns        []string
		fixed, withPath bool
	}
	last := strconv.Itoa(m.ids[n-1])
	modes := []mode{
		{},
		{withPath: true},
		{patterns: []string{"Taxon"}},
		{patterns: []string{"^Taxon " + last + "$", "axon [0-9]"}, withPath: true},
		{patterns: []string{m.name(n - 1), "Taxon"}, fixed: true},
	}
	if n > 1 {
		modes[4].patterns[1] = m.name(0)
	}
	mk := func(R []int, rank string, md mode, alt bool) c14findCase {
		c := base
		c.Restrict, c.Rank, c.Patterns, c.Fixed, c.WithPath, c.Alt = R, rank, md.patterns, md.fixed, md.withPath, alt
		return c
	}
	// scientific names only
	for _, R := range short {
		for _, rank := range ranksOf {
			for _, md := range modes {
				h.check(mk(R, rank, md, false))
			}
		}
		if h.r.Expired() {
			return
		}
	}
	for _, R := range long {
		for _, rank := range ranksOf[:min(2, len(ranksOf))] {
			for _, md := range []mode{modes[0], modes[2]} {
				h.check(mk(R, rank, md, false))
			}
		}
	}
	for _, R := range [][]int{{m.unknown}, {m.unknown, m.ids[0]}, {m.ids[n-1], m.unknown}, {m.alias[0], m.unknown}} {
		h.check(mk(R, "", modes[0], false))
	}
	for _, x := range known {
		for _, wp := range []bool{false, true} {
			c := base
			c.PathOf, c.WithPath = x, wp
			h.check(c)
		}
	}
	if h.r.Expired() {
		return
	}
	// alternative names loaded (-a): the taxonomy is loaded anew
	altModes := []mode{{}, {patterns: []string{"shared"}}, {patterns: []string{"shared", "Old name " + last}, fixed: true}, {patterns: []string{"^Syn [0-9]"}}}
	for _, R := range short {
		if len(R) == 2 && R[0] >= R[1] {
			continue // unordered pairs of distinct entries here
		}
		for _, rank := range ranksOf[:min(2, len(ranksOf))] {
			for _, md := range altModes {
				h.check(mk(R, rank, md, true))
			}
		}
	}
	for _, x := range []int{m.ids[n-1], m.alias[n-1]} {
		c := base
		c.PathOf, c.Alt = x, true
		h.check(c)
	}
}

// the command lines run through the real binary on one taxonomy
func (h *c14findRun) evalBinary(scheme int, parent []int, ranks []string) {
	base := h.setTaxonomy(scheme, parent, ranks)
	m := h.m
	n := m.n
	h.r.Count("find_taxonomies_through_the_binary", 1)
	h.r.State(fmt.Sprintf("findbin|%d|%v|%v", scheme, parent, ranks))
	id, al := m.ids, m.alias
	a, b, c3 := 0, n-1, n/2
	rlists := [][]int{nil, {id[b]}, {al[b]}, {id[a]}, {id[a], id[b]}, {id[c3], id[b]}, {al[c3], id[b]}, {id[b], al[c3]}, {al[c3], al[b]},
		{id[c3], al[c3]}, {id[b], al[c3], id[c3]}, {al[a], al[b], al[c3]}, {al[c3], al[c3]}}
	rk := ""
	for _, x := range ranks {
		if x == ranks[b] {
			rk = x
		}
	}
	for _, R := range rlists {
		for _, rank := range []string{"", rk} {
			for _, pats := range [][]string{nil, {"Taxon"}} {
				c := base
				c.Bin, c.Restrict, c.Rank, c.Patterns = true, R, rank, pats
				h.check(c)
			}
		}
	}
	extra := []c14findCase{
		{Restrict: []int{al[c3], id[b]}, WithPath: true},
		{Restrict: []int{al[c3], id[b]}, Patterns: []string{m.name(b), "Taxon 0"}, Fixed: true},
		{Restrict: []int{al[c3], id[b]}, Patterns: []string{"shared"}, Alt: true},
		{Restrict: []int{id[c3], al[b]}, Rank: rk, Patterns: []string{"^Syn [0-9]", "shared"}, Alt: true, WithPath: true},
		{Rank: c14findAbsentRank},
		{PathOf: id[b]}, {PathOf: al[b]}, {PathOf: al[c3], WithPath: true}, {PathOf: id[a]},
		{Restrict: []int{m.unknown, id[b]}},
	}
	for _, c := range extra {
		c.Scheme, c.Parent, c.Ranks, c.Bin = base.Scheme, base.Parent, base.Ranks, true
		h.check(c)
	}
}

// guarded runs f in its own goroutine and watches the progress; returns true when it hung
func (h *c14findRun) guarded(f func()) bool {
	done := make(chan struct{})
	go func() {
		defer close(done)
		f()
	}()
	tick := time.NewTicker(time.Second)
	defer tick.Stop()
	last, same := h.progress.Load(), 0
	for {
		select {
		case <-done:
			return false
		case <-tick.C:
			if now := h.progress.Load(); now != last {
				last, same = now, 0
			} else if same++; same >= c14findStall {
				os.Stdout = h.stdout
				site, c := "obifind", c14findCase{}
				if p := h.cur.Load(); p != nil {
					c = *p
				}
				if c.Bin {
					site = "obifind(cli)"
				}
				h.r.Violate(site+"/hang", fmt.Sprintf("obifind %s: not finished within %d s; tree parent=%v ranks=%q scheme=%d",
					strings.Join(c.args("DIR"), " "), c14findStall, c.Parent, c.Ranks, c.Scheme), c)
				h.r.Cap("a command line of obifind did not terminate: the remaining work of this shard was skipped")
				return true
			}
		}
	}
}

func TestVerifC14Find(t *testing.T) {
	log.SetOutput(io.Discard)
	log.StandardLogger().ExitFunc = func(int) { panic(c14findRefusal{fmt.Errorf("log.Fatal")}) }
	r := verifkit.New("C14")
	defer r.Write()

	tmp := ""
	if st, err := os.Stat("/dev/shm"); err == nil && st.IsDir() {
		tmp = "/dev/shm"
	}
	dir, err := os.MkdirTemp(tmp, "c14find-")
	if err != nil && tmp != "" {
		dir, err = os.MkdirTemp("", "c14find-")
	}
	if err != nil {
		t.Fatal(err)
	}
	defer os.RemoveAll(dir)
	capture, err := os.Create(filepath.Join(dir, "stdout.txt"))
	if err != nil {
		t.Fatal(err)
	}
	defer capture.Close()
	h := &c14findRun{r: r, dir: dir, capture: capture, stdout: os.Stdout}

	if rc := r.ReplayCase(); rc != nil {
		var c c14findCase
		if err := json.Unmarshal(rc, &c); err != nil {
			t.Fatal(err)
		}
		if len(c.Parent) == 0 || len(c.Ranks) != len(c.Parent) {
			t.Fatal("c14find: malformed replay case")
		}
		h.guarded(func() { h.evalTaxonomy(c.Scheme, c.Parent, c.Ranks, &c) })
		r.Replayed(1)
		return
	}

	maxN := 4
	if verifkit.Thorough() {
		maxN = 5
	}
	r.Bound("find_max_nodes", maxN)
	r.Bound("find_variants", "2 taxid numberings x 2 rank vectors below the largest size, 1 x 1 at the largest size")
	r.Bound("find_restrict_lists", "every ordered list of 0..2 entries among taxids and aliases (repetition allowed), 3 distinct entries in three rotations, two lists of 4")

	variants := func(n int, parent []int, largest bool) (schemes []int, rvs [][]string) {
		depth := make([]int, n)
		for i := range parent {
			for x := i; parent[x] != x; x = parent[x] {
				depth[i]++
			}
		}
		byDepth := []string{"no rank", "family", "genus", "species", "no rank"}
		rv1 := make([]string, n)
		rv2 := make([]string, n)
		for i := 0; i < n; i++ {
			rv1[i] = byDepth[depth[i]%len(byDepth)]
			rv2[i] = c14findRanks[i%len(c14findRanks)]
		}
		if largest {
			return []int{1}, [][]string{rv1}
		}
		return []int{0, 1}, [][]string{rv1, rv2}
	}

	k := 0
	stop := false
	// section A: in process, every tree
	for n := 1; n <= maxN && !stop; n++ {
		c14findTrees(n, func(parent []int) {
			if stop {
				return
			}
			schemes, rvs := variants(n, parent, n == maxN)
			for _, scheme := range schemes {
				for _, rv := range rvs {
					mine := r.Mine(k)
					k++
					if !mine || stop {
						continue
					}
					p := append([]int{}, parent...)
					if h.guarded(func() { h.evalTaxonomy(scheme, p, rv, nil) }) || r.Expired() {
						stop = true
					}
				}
			}
		})
	}
	// section B: the real binary; quick: 6 fixed trees (one per shard), thorough: every tree with 4 nodes
	var binTrees [][]int
	if verifkit.Thorough() {
		c14findTrees(4, func(parent []int) { binTrees = append(binTrees, append([]int{}, parent...)) })
	} else {
		binTrees = [][]int{{0, 0, 1, 2}, {0, 0, 0, 0}, {1, 2, 3, 3}, {0, 0, 0, 1}, {2, 2, 2, 1}, {0, 0, 1}}
	}
	for bi, parent := range binTrees {
		mine := r.Mine(k)
		k++
		if !mine || stop {
			continue
		}
		if !h.build() {
			r.Violate("obifind(cli)/does-not-build", h.binErr, c14findCase{Bin: true})
			break
		}
		schemes, rvs := variants(len(parent), parent, false)
		scheme, rv := schemes[(bi+1)%2], rvs[bi%2]
		if h.guarded(func() { h.evalBinary(scheme, parent, rv) }) || r.Expired() {
			stop = true
		}
	}
	r.RequireNonVacuous("find_command_lines_with_2+_restrictions")
	r.RequireNonVacuous("find_taxa_listed_under_a_restriction")
	r.RequireNonVacuous("find_command_lines_with_patterns") // (find_taxa_listed_for_a_pattern depends on what the command lists: a counter only)
	r.RequireNonVacuous("find_taxa_not_listed")
	r.RequireNonVacuous("find_paths_longer_than_one")
}
