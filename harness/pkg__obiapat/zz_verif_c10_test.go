//go:build verif

package obiapat

// C10 — primer pattern matching reports exactly the matching positions and error counts.
//
// Bounded exhaustive enumeration on the real cgo matcher (MakeApatPattern / ReverseComplement /
// FindAllIndex / IsMatching / FilterBestMatch / BestMatch / AllMatches) against a brute-force model:
//   part A  every short pattern (length 1..3 over {a,c,g,t,n,r,y,[ac]}, '!' and '#' modifiers at length <= 2)
//           x every budget 0..4 (also beyond the pattern length) x {mismatch, indel} x every sequence over {a,c,g,t} of
//           length 0..6 (7 thorough)
//           (+ the reverse-complemented pattern on the same sequence)
//   part B  every search window (begin,length) of every sequence of length 0..5
//   part C  right edge of the search window on sequences longer than MAX_PAT_LEN
//   part D  12 long patterns (8,20,32,63,64 symbols, all IUPAC codes): every placement of a copy with 0..k edits
//           (substitution / insertion / deletion at every position) inside 0..3 nt contexts
//   part E  recycled ApatSequence histories (stale hit stacks / data buffers)
//   part F  the sequence predicate IsPatternMatchSequence (one strand / both strands)
//   part G  circular ApatSequences (matches across the origin): short patterns x all short circles x all windows, circles
//           of 64..68 nt, every rotation of the edited copies of long patterns, recycling with a change of topology
// Known-finding keys of 64-symbol patterns are conditioned on the exact signature of the known defect (c10sig64).
// (obialign.LocatePattern, the DP that re-aligns indel hits, has its own harness in pkg__obialign.)
// The oracle demands only what the property states (see c10ctx.check).

import (
	"encoding/json"
	"fmt"
	"io"
	"os"
	"sort"
	"strings"
	"testing"
	"time"

	"git.metabarcoding.org/obitools/obitools4/obitools4/pkg/obiseq"
	"git.metabarcoding.org/obitools/obitools4/obitools4/pkg/verifkit"
	log "github.com/sirupsen/logrus"
)

const c10MaxPatLen = 64 // MAX_PAT_LEN of apat.h: FindAllIndex scans begin .. begin+length+MAX_PAT_LEN

// ---------------------------------------------------------------- model

var c10iupac = map[byte]uint8{'a': 1, 'c': 2, 'g': 4, 't': 8, 'u': 8, 'r': 5, 'y': 10, 'm': 3, 'k': 12, 's': 6, 'w': 9,
	'b': 14, 'd': 13, 'h': 11, 'v': 7, 'n': 15}

func c10base(b byte) uint8 {
	switch b {
	case 'a':
		return 1
	case 'c':
		return 2
	case 'g':
		return 4
	case 't':
		return 8
	case 'x': // part G only: the filler behind a short circular sequence; no pattern symbol matches it, negated ones do
		return 16
	}
	panic("c10: sequence alphabet is acgt")
}

type c10tok struct {
	mask  uint8
	oblig bool
}

type c10pat struct {
	src      string
	toks     []c10tok
	plain    bool // only IUPAC letters (no [], !, #)
	hasOblig bool
	hasNeg   bool
	hasV     bool
}

// c10parse reads the documented pattern grammar: ['!'] (letter | '[' letters ']') ['#'] ...
func c10parse(src string) (*c10pat, error) {
	p := &c10pat{src: src, plain: true}
	i := 0
	for i < len(src) {
		neg := false
		if src[i] == '!' {
			neg = true
			p.plain = false
			p.hasNeg = true
			i++
		}
		if i >= len(src) {
			return nil, fmt.Errorf("dangling !")
		}
		var mask uint8
		if src[i] == '[' {
			p.plain = false
			j := strings.IndexByte(src[i:], ']')
			if j < 2 {
				return nil, fmt.Errorf("bad class")
			}
			for _, ch := range []byte(src[i+1 : i+j]) {
				m, ok := c10iupac[ch]
				if !ok {
					return nil, fmt.Errorf("bad symbol %c", ch)
				}
				mask |= m
			}
			i += j + 1
		} else {
			m, ok := c10iupac[src[i]]
			if !ok {
				return nil, fmt.Errorf("bad symbol %c", src[i])
			}
			if src[i] == 'v' {
				p.hasV = true
			}
			mask = m
			i++
		}
		if neg {
			mask = ^mask & 31 // a negated symbol matches every other letter ('x' included), as ~val & PATMASK does
		}
		t := c10tok{mask: mask}
		if i < len(src) && src[i] == '#' {
			t.oblig = true
			p.hasOblig = true
			p.plain = false
			i++
		}
		p.toks = append(p.toks, t)
	}
	if len(p.toks) == 0 {
		return nil, fmt.Errorf("empty pattern")
	}
	return p, nil
}

// mm: mismatch count of the pattern at every start 0..L-m ; -1 when an obligatory ('#') position mismatches.
func (p *c10pat) mm(seq []byte, out []int) []int {
	out = out[:0]
	m := len(p.toks)
	for st := 0; st+m <= len(seq); st++ {
		n := 0
		for j, t := range p.toks {
			if t.mask&c10base(seq[st+j]) == 0 {
				if t.oblig {
					n = -1
					break
				}
				n++
			}
		}
		out = append(out, n)
	}
	return out
}

const c10inf = 1 << 20

// sellers: out[j] (j=0..len(seq)) = min edit distance between the pattern and a NON-EMPTY substring of
// seq[0:j] (c10inf for j=0). Classes match with cost 0, everything else costs 1.
func (p *c10pat) sellers(seq []byte, out []int) []int {
	m := len(p.toks)
	var colbuf [c10MaxPatLen + 2]int
	col := colbuf[:m+1]
	for i := 0; i <= m; i++ {
		col[i] = i
	}
	out = append(out[:0], c10inf)
	best := c10inf
	for j := 1; j <= len(seq); j++ {
		b := c10base(seq[j-1])
		diag := col[0] // D[0][j-1] = 0
		col[0] = 0
		for i := 1; i <= m; i++ {
			cost := 1
			if p.toks[i-1].mask&b != 0 {
				cost = 0
			}
			v := diag + cost
			if col[i]+1 < v { // D[i][j-1]+1 : text char inserted
				v = col[i] + 1
			}
			if col[i-1]+1 < v { // D[i-1][j]+1 : pattern symbol deleted
				v = col[i-1] + 1
			}
			diag = col[i]
			col[i] = v
		}
		// D[m][j] ranges over substrings ending at j, the empty one included (cost m); a one-letter
		// substring costs <= m too, so the minimum over non-empty substrings is the same number.
		if col[m] < best {
			best = col[m]
		}
		out = append(out, best)
	}
	return out
}

// ed: global edit distance between the pattern and span.
func (p *c10pat) ed(span []byte) int {
	m := len(p.toks)
	prev := make([]int, len(span)+1)
	cur := make([]int, len(span)+1)
	for j := range prev {
		prev[j] = j
	}
	for i := 1; i <= m; i++ {
		cur[0] = i
		for j := 1; j <= len(span); j++ {
			cost := 1
			if p.toks[i-1].mask&c10base(span[j-1]) != 0 {
				cost = 0
			}
			v := prev[j-1] + cost
			if prev[j]+1 < v {
				v = prev[j] + 1
			}
			if cur[j-1]+1 < v {
				v = cur[j-1] + 1
			}
			cur[j] = v
		}
		prev, cur = cur, prev
	}
	return prev[len(span)]
}

func c10revcomp(s []byte) []byte {
	out := make([]byte, len(s))
	for i, b := range s {
		var c byte
		switch b {
		case 'a':
			c = 't'
		case 'c':
			c = 'g'
		case 'g':
			c = 'c'
		case 't':
			c = 'a'
		}
		out[len(s)-1-i] = c
	}
	return out
}

// ---------------------------------------------------------------- implementation side

type c10comp struct {
	e     int
	indel bool
	p     ApatPattern
	perr  error
	rc    ApatPattern
	rcerr error
}

type c10entry struct {
	m     *c10pat
	comps []*c10comp
}

func c10compile(m *c10pat, budgets []int, modes []bool) *c10entry {
	ent := &c10entry{m: m}
	for _, indel := range modes {
		for _, e := range budgets {
			cp := &c10comp{e: e, indel: indel}
			// (a panic / log.Fatal of the two constructors is an answer like an error: check() reports it)
			if cls, msg := c10try(func() { cp.p, cp.perr = MakeApatPattern(m.src, e, indel) }); cls != "" {
				cp.perr = fmt.Errorf("%s: %s", cls, msg)
			}
			if cp.perr == nil {
				if cls, msg := c10try(func() { cp.rc, cp.rcerr = cp.p.ReverseComplement() }); cls != "" {
					cp.rcerr = fmt.Errorf("%s: %s", cls, msg)
				}
			}
			ent.comps = append(ent.comps, cp)
		}
	}
	return ent
}

func (ent *c10entry) free() {
	for _, cp := range ent.comps {
		if cp.perr == nil {
			if cp.rcerr == nil {
				cp.rc.Free()
			}
			cp.p.Free()
		}
	}
	ent.comps = nil
}

type c10case struct {
	Part   string   `json:"part"`
	Pat    string   `json:"pat"`
	E      int      `json:"e"`
	Indel  bool     `json:"indel"`
	Seq    string   `json:"seq"`
	Begin  int      `json:"begin"`
	Length int      `json:"length"`
	RC     bool     `json:"rc"`             // also check the reverse-complemented pattern
	Hist   []string `json:"hist,omitempty"` // sequences that went through the recycled ApatSequence before Seq
	Circ   bool     `json:"circ,omitempty"` // Seq is a circular ApatSequence (part G)
	HCirc  []bool   `json:"hcirc,omitempty"`
}

// c10ctx: one (pattern, sequence) pair with its budget-independent oracle data.
type c10ctx struct {
	r    *verifkit.Result
	part string
	hist []string
	p    *c10pat
	seq  []byte
	as   ApatSequence
	text []byte  // what the C buffer holds as far as it is known: seq, or (circular) seq + wrapped copy + filler
	mm   []int   // pattern on text
	pm   [][]int // pm[b] = sellers(text[b:]) (lazy)
	// circular sequences (part G)
	circ      bool
	hcirc     []bool
	validEnd  int  // end of seq + its wrapped copy in text
	tailKnown bool // text is the whole C buffer (L+64 symbols)
	// reverse strand (full window only)
	sfx64   string // key suffix for 64-symbol patterns, set by check() from the raw result of the search being judged
	rcReady bool
	mmr     []int // pattern on rc(seq)
	pmr     []int // sellers on rc(seq)
	got     [][3]int
}

func (c *c10ctx) reset(p *c10pat, seq []byte, as ApatSequence) {
	c.p, c.seq, c.as = p, seq, as
	c.text, c.circ = seq, false
	c.retext()
}

func (c *c10ctx) retext() {
	c.mm = c.p.mm(c.text, c.mm)
	if cap(c.pm) < len(c.text)+1 {
		c.pm = make([][]int, len(c.text)+1)
	}
	c.pm = c.pm[:len(c.text)+1]
	for i := range c.pm {
		c.pm[i] = c.pm[i][:0]
	}
	c.rcReady = false
}

// resetCirc: seq was given to MakeApatSequence with circular=true; text is what c10circText says the C buffer holds
func (c *c10ctx) resetCirc(p *c10pat, seq []byte, as ApatSequence, text []byte, tailKnown bool) {
	c.p, c.seq, c.as = p, seq, as
	c.text, c.circ, c.tailKnown = text, true, tailKnown
	c.validEnd = len(seq) + len(seq)
	if len(seq) > c10MaxPatLen {
		c.validEnd = len(seq) + c10MaxPatLen
	}
	c.retext()
}

func (c *c10ctx) sellersFrom(b int) []int {
	if len(c.pm[b]) == 0 {
		c.pm[b] = c.p.sellers(c.text[b:], c.pm[b])
	}
	return c.pm[b]
}

func (c *c10ctx) needRC() {
	if !c.rcReady {
		rs := c10revcomp(c.seq)
		c.mmr = c.p.mm(rs, c.mmr)
		c.pmr = c.p.sellers(rs, c.pmr)
		c.rcReady = true
	}
}

func c10panicClass(v any) string {
	s := fmt.Sprint(v)
	if e, ok := v.(*log.Entry); ok {
		s = e.Message
	}
	switch {
	case strings.Contains(s, "must be shorter than sequence"):
		return "panic:fragment-not-longer-than-pattern"
	case strings.Contains(s, "slice bounds out of range"):
		return "panic:slice-bounds"
	case strings.Contains(s, "index out of range"):
		return "panic:index-out-of-range"
	}
	return "panic"
}

func c10try(f func()) (class string, msg string) {
	defer func() {
		if v := recover(); v != nil {
			class = c10panicClass(v)
			if e, ok := v.(*log.Entry); ok {
				msg = e.Message
			} else {
				msg = fmt.Sprint(v)
			}
		}
	}()
	f()
	return "", ""
}

var c10seen = map[string]int{}

// c10implErr: an implementation call that the enumeration needs before it can observe anything (building or recycling an
// ApatSequence) failed. Raised as a panic by the helpers and turned into a violation by item().
type c10implErr struct{ site, msg string }

// c10installExit: a logrus Fatal inside the implementation unwinds like a panic (judged by c10try / item) instead of
// ending the process.
func c10installExit() {
	log.StandardLogger().ExitFunc = func(code int) { panic(fmt.Sprintf("log.Fatal (exit status %d)", code)) }
}

// item runs the body of one work item (one sequence / one history). Whatever the tree under test does outside the
// guarded observation points (MakeApatSequence that fails, Free / Len / String that panic ...) is a verdict on the
// tree: reported, and the rest of the item is skipped. Panics of the harness itself ("c10: ...") are passed on.
func (c *c10ctx) item(what string, f func()) {
	defer func() {
		v := recover()
		if v == nil {
			return
		}
		if s, ok := v.(string); ok && strings.HasPrefix(s, "c10:") {
			panic(v)
		}
		c.hist, c.hcirc = nil, nil
		if e, ok := v.(c10implErr); ok {
			c.r.Violate(e.site+"/control-run/error:part-"+c.part, fmt.Sprintf("%s: %s", what, e.msg), nil)
			return
		}
		msg := fmt.Sprint(v)
		if e, ok := v.(*log.Entry); ok {
			msg = e.Message
		}
		c.r.Violate("part-"+c.part+"/control-run/"+c10panicClass(v)+"-outside-the-observation-points", fmt.Sprintf("%s: %s", what, msg), nil)
	}()
	f()
}

func (c *c10ctx) violate(api string, cp *c10comp, class, suffix string, begin, length int, rc bool, format string, a ...any) {
	mode := "/mismatch/"
	if cp.indel {
		mode = "/indel/"
	}
	if len(c.p.toks) >= c10MaxPatLen {
		// ":patlen=64" names ONE defect (the undefined shift '0x1L << patlen' that kills the three automata) and is kept
		// for results that are what this defect produces; any other wrong answer of a 64-symbol pattern gets its own key
		if c.sfx64 != "" {
			suffix += c.sfx64
		} else {
			suffix += ":patlen=64"
		}
	}
	key := api + mode + class + suffix
	c10seen[key]++
	if c10seen[key] > 3 { // the kit keeps 3 records per key: do not format the others
		c.r.Violate(key, "", nil)
		return
	}
	topo := ""
	if c.circ {
		topo = " CIRCULAR"
	}
	if len(c.hist) > 0 {
		topo += fmt.Sprintf(" (ApatSequence recycled from %q, circular=%v)", c.hist, c.hcirc)
	}
	desc := fmt.Sprintf("%s(pattern=%q maxerr=%d indel=%v, seq=%q%s, begin=%d, length=%d): %s", api, c.p.src, cp.e, cp.indel,
		string(c.seq), topo, begin, length, fmt.Sprintf(format, a...))
	c.r.Violate(key, desc, c10case{Part: c.part, Pat: c.p.src, E: cp.e, Indel: cp.indel, Seq: string(c.seq),
		Begin: begin, Length: length, RC: rc, Hist: c.hist, Circ: c.circ, HCirc: c.hcirc})
}

// c10sig64: what the known defect of 64-symbol patterns produces, and nothing else. With patlen = 64 the sentinel
// '0x1L << patlen' is (on x86-64 / arm64, where the shift count is taken modulo 64) bit 0 instead of the non-existent bit 64:
// ManberNoErr and ManberSub never report anything, ManberIndel with a budget >= 1 "finds" the pattern with one error at
// every scanned position pos in [begin, scanEnd), pushed as start pos-63. A raw result of that shape keeps the known
// suffix ":patlen=64"; any other wrong result is a different defect and gets a different key.
const c10sfx64Known = ":patlen=64"
const c10sfx64Other = ":patlen=64:result-is-not-what-the-shift-overflow-gives"

func c10sig64(cp *c10comp, got [][3]int, begin, scanEnd int) string {
	if !cp.indel || cp.e == 0 {
		if len(got) == 0 {
			return c10sfx64Known
		}
		return c10sfx64Other
	}
	n := scanEnd - begin
	if n < 0 {
		n = 0
	}
	if len(got) != n {
		return c10sfx64Other
	}
	for i, h := range got {
		if h[0] != begin+i-(c10MaxPatLen-1) || h[1] != begin+i+1 || h[2] != 1 {
			return c10sfx64Other
		}
	}
	return c10sfx64Known
}

// check runs every observation point of one compiled pattern on one window of the current sequence.
//
// What is demanded (and nothing more):
//   - mismatch mode, FindAllIndex: R = reported set. must ⊆ R ⊆ may where must = true matches (<= e mismatches, no
//     mismatch on a '#' position) lying entirely in [begin,begin+length), may = true matches with start >= begin that end
//     no later than begin+length+MAX_PAT_LEN (the extent the implementation is allowed to scan); each with its exact
//     mismatch count (the minimal count for a fixed position is the count). With the whole sequence as window must = may
//     = all matches.
//   - mismatch mode, IsMatching / FilterBestMatch / AllMatches / BestMatch: report something iff a match exists (must /
//     may as above) and everything reported is a true match with its exact count (FilterBestMatch, AllMatches, BestMatch
//     select a subset by design: which subset is not constrained).
//   - indel mode, FindAllIndex / IsMatching / FilterBestMatch: report something iff some non-empty substring of the
//     window is within edit distance e of the pattern (raw positions are documented as "shifted": not constrained).
//   - indel mode, BestMatch / AllMatches (the re-aligned results): reported iff such a substring exists; the span lies
//     inside the sequence; the error count equals the edit distance between pattern and span and is within budget.
//     AllMatches is documented for plain IUPAC patterns only, so it is only called with those.
//   - reverse complement (whole sequence as window): RC(P) on s reports exactly the mirrored matches of P on rc(s)
//     (mismatch mode), respectively matches iff P matches rc(s) (indel mode).
func (c *c10ctx) check(cp *c10comp, begin, length int, doRC bool) {
	r := c.r
	p := c.p
	m := len(p.toks)
	L := len(c.seq)
	r.Eval(1)
	c.sfx64 = ""
	if cp.perr != nil {
		c.violate("MakeApatPattern", cp, "rejects-valid-pattern", "", begin, length, false, "%v", cp.perr)
		return
	}
	if cp.p.Len() != m {
		c.violate("MakeApatPattern", cp, "wrong-pattern-length", "", begin, length, false, "Len()=%d want %d", cp.p.Len(), m)
		return
	}
	eb := begin
	if eb < 0 {
		eb = 0
	}
	el := length
	if el < 0 {
		el = L
	}
	loEnd := eb + el
	if loEnd > L {
		loEnd = L
	}
	hiEnd := eb + el + c10MaxPatLen
	if hiEnd > L {
		hiEnd = L
	}
	e := cp.e

	// ---- oracle: existence in the must / may window
	var must, may bool
	if !cp.indel {
		for st := eb; st+m <= hiEnd; st++ {
			if c.mm[st] >= 0 && c.mm[st] <= e {
				may = true
				if st+m <= loEnd {
					must = true
					break
				}
			}
		}
	} else {
		pm := c.sellersFrom(eb)
		must = pm[loEnd-eb] <= e
		may = pm[hiEnd-eb] <= e
	}
	if must {
		r.Count("cases_with_match", 1)
	} else if !may {
		r.Count("cases_without_match", 1)
	} else {
		r.Count("cases_match_only_in_scan_margin", 1)
	}
	if loEnd != hiEnd {
		r.Count("cases_window_cuts_sequence", 1)
	}

	validMM := func(api string, h [3]int) bool { // mismatch mode: h must be a true match inside the may window
		s := h[0]
		if h[1] != s+m || s < 0 || s+m > L {
			c.violate(api, cp, "span-outside-sequence", "", begin, length, false, "reported %v (sequence length %d, pattern length %d)", h, L, m)
			return false
		}
		if c.mm[s] < 0 || c.mm[s] > e {
			c.violate(api, cp, "spurious-hit", "", begin, length, false, "reported %v but the pattern has %d mismatches there (-1 = mismatch on a '#' position)", h, c.mm[s])
			return false
		}
		if h[2] != c.mm[s] {
			c.violate(api, cp, "wrong-errcount", "", begin, length, false, "reported %v, true mismatch count %d", h, c.mm[s])
			return false
		}
		if s < eb || s+m > hiEnd {
			c.violate(api, cp, "hit-outside-window", "", begin, length, false, "reported %v, window [%d,%d) + scan margin ends at %d", h, eb, loEnd, hiEnd)
			return false
		}
		return true
	}
	exist := func(api string, reported bool, what any) bool {
		if reported && !may {
			c.violate(api, cp, "spurious-match", "", begin, length, false, "reports %v but no match exists in the window", what)
			return false
		}
		if !reported && must {
			c.violate(api, cp, "missed-match", "", begin, length, false, "reports nothing but a match within budget lies inside the window")
			return false
		}
		return true
	}

	// ---- FindAllIndex
	var got [][3]int
	cls, msg := c10try(func() { got = cp.p.FindAllIndex(c.as, begin, length) })
	r.Trans(1)
	rawSfx64 := ""
	if m >= c10MaxPatLen {
		// the scan stops at begin+length+MAX_PAT_LEN or at the end of the sequence
		rawSfx64 = c10sfx64Other
		if cls == "" {
			rawSfx64 = c10sig64(cp, got, eb, hiEnd)
		}
		if rawSfx64 == c10sfx64Known {
			r.Count("patlen64_raw_result_is_the_shift_overflow_signature", 1)
		} else {
			r.Count("patlen64_raw_result_differs_from_the_signature", 1)
		}
		c.sfx64 = rawSfx64
	}
	rawOK := true // the derived observation points are judged only when the raw hit list they build on is right
	if cls != "" {
		c.violate("FindAllIndex", cp, cls, "", begin, length, false, "%s", msg)
		rawOK = false
	} else if !cp.indel {
		ok := true
		for i, h := range got {
			if !validMM("FindAllIndex", h) {
				ok = false
				break
			}
			if i > 0 && h[0] == got[i-1][0] {
				c.violate("FindAllIndex", cp, "duplicate-hit", "", begin, length, false, "reported %v twice", h)
				ok = false
				break
			}
		}
		if ok {
			if !sort.SliceIsSorted(got, func(i, j int) bool { return got[i][0] < got[j][0] }) {
				got = append([][3]int(nil), got...)
				sort.Slice(got, func(i, j int) bool { return got[i][0] < got[j][0] })
			}
			gi := 0
			for st := eb; st+m <= loEnd; st++ {
				if c.mm[st] >= 0 && c.mm[st] <= e {
					r.Count("hits_expected", 1)
					for gi < len(got) && got[gi][0] < st {
						gi++
					}
					if gi >= len(got) || got[gi][0] != st {
						c.violate("FindAllIndex", cp, "missed-hit", "", begin, length, false, "match at %d with %d mismatches not reported; got %v", st, c.mm[st], got)
						ok = false
						break
					}
				}
			}
		}
		rawOK = ok
	} else {
		rawOK = exist("FindAllIndex", len(got) > 0, got)
		for _, h := range got {
			if h[0] < 0 || h[1] > L {
				r.Count("indel_raw_span_outside_sequence(not a violation)", 1)
				break
			}
		}
	}

	// ---- IsMatching
	var im bool
	cls, msg = c10try(func() { im = cp.p.IsMatching(c.as, begin, length) })
	r.Trans(1)
	if m >= c10MaxPatLen { // IsMatching is its own search: known suffix only if its answer is the signature's
		if want := cp.indel && cp.e > 0 && hiEnd > eb; cls != "" || im != want {
			c.sfx64 = c10sfx64Other
		} else {
			c.sfx64 = c10sfx64Known
		}
	}
	if cls != "" {
		c.violate("IsMatching", cp, cls, "", begin, length, false, "%s", msg)
	} else {
		exist("IsMatching", im, "true")
	}
	c.sfx64 = rawSfx64 // FilterBestMatch, BestMatch, AllMatches are built on the raw hit list
	if !rawOK {
		r.Count("derived_checks_skipped_after_raw_failure", 1)
		return
	}

	// ---- FilterBestMatch
	var fb [][3]int
	cls, msg = c10try(func() { fb = cp.p.FilterBestMatch(c.as, begin, length) })
	r.Trans(1)
	if cls != "" {
		c.violate("FilterBestMatch", cp, cls, "", begin, length, false, "%s", msg)
	} else {
		exist("FilterBestMatch", len(fb) > 0, fb)
		if !cp.indel {
			for _, h := range fb {
				if !validMM("FilterBestMatch", h) {
					break
				}
			}
		}
	}

	realignedSuffix := ""
	if !p.plain {
		realignedSuffix = ":non-plain-pattern"
	}
	validSpan := func(api string, h [3]int) bool { // indel mode, re-aligned results
		if !p.plain {
			// BestMatch re-aligns with the raw pattern text cut at the symbol count: everything that goes wrong for
			// patterns with [] / ! is one defect, one key
			if h[0] < 0 || h[1] > L || h[0] > h[1] || p.ed(c.seq[h[0]:h[1]]) != h[2] || h[2] > e {
				c.violate(api, cp, "wrong-realignment", realignedSuffix, begin, length, false, "reported [%d,%d) err=%d (sequence length %d): outside the sequence, or not the edit distance of the span, or beyond the budget", h[0], h[1], h[2], L)
				return false
			}
			return true
		}
		if h[0] < 0 || h[1] > L || h[0] > h[1] {
			c.violate(api, cp, "span-outside-sequence", "", begin, length, false, "reported [%d,%d) err=%d on a sequence of length %d", h[0], h[1], h[2], L)
			return false
		}
		d := p.ed(c.seq[h[0]:h[1]])
		if d != h[2] {
			c.violate(api, cp, "errcount-not-editdistance", realignedSuffix, begin, length, false, "reported [%d,%d)=%q err=%d but the edit distance between pattern and span is %d", h[0], h[1], string(c.seq[h[0]:h[1]]), h[2], d)
			return false
		}
		if h[2] > e {
			c.violate(api, cp, "errcount-exceeds-budget", realignedSuffix, begin, length, false, "reported [%d,%d) err=%d > maxerr", h[0], h[1], h[2])
			return false
		}
		return true
	}

	// ---- BestMatch
	var bs, be, bn int
	var bm bool
	cls, msg = c10try(func() { bs, be, bn, bm = cp.p.BestMatch(c.as, begin, length) })
	r.Trans(1)
	if cls != "" {
		sfx := ""
		if cp.indel && !p.plain {
			cls = "wrong-realignment"
			sfx = realignedSuffix
		}
		c.violate("BestMatch", cp, cls, sfx, begin, length, false, "%s", msg)
	} else {
		if bm && !may {
			c.violate("BestMatch", cp, "spurious-match", "", begin, length, false, "reports (%d,%d,%d) but no match exists in the window", bs, be, bn)
		} else if !bm && must {
			c.violate("BestMatch", cp, "missed-match", "", begin, length, false, "matched=false but a match within budget lies inside the window (FindAllIndex=%v)", got)
		} else if bm {
			if !cp.indel {
				validMM("BestMatch", [3]int{bs, be, bn})
			} else {
				if bn > 0 {
					r.Count("bestmatch_realigned", 1)
				}
				validSpan("BestMatch", [3]int{bs, be, bn})
			}
		}
	}

	// ---- AllMatches (documented for plain IUPAC patterns only)
	if p.plain {
		var am [][3]int
		cls, msg = c10try(func() { am = cp.p.AllMatches(c.as, begin, length) })
		r.Trans(1)
		if cls != "" {
			c.violate("AllMatches", cp, cls, "", begin, length, false, "%s", msg)
		} else {
			sfx := ""
			if cp.indel {
				sfx = realignedSuffix
			}
			if len(am) > 0 && !may {
				c.violate("AllMatches", cp, "spurious-match", sfx, begin, length, false, "reports %v but no match exists in the window", am)
			}
			if len(am) == 0 && must {
				c.violate("AllMatches", cp, "missed-match", sfx, begin, length, false, "reports nothing but a match within budget lies inside the window (FindAllIndex=%v)", got)
			}
			for _, h := range am {
				if !cp.indel {
					if !validMM("AllMatches", h) {
						break
					}
				} else {
					if h[2] > 0 {
						r.Count("allmatches_realigned", 1)
					}
					if !validSpan("AllMatches", h) {
						break
					}
				}
			}
		}
	}

	// ---- reverse complemented pattern, whole sequence
	if doRC {
		if cp.rcerr != nil {
			c.violate("ReverseComplement", cp, "build-error", "", begin, length, true, "%v", cp.rcerr)
			return
		}
		c.needRC()
		r.Count("rc_checked", 1)
		var rg [][3]int
		cls, msg = c10try(func() { rg = cp.rc.FindAllIndex(c.as, 0, -1) })
		r.Trans(1)
		if m >= c10MaxPatLen {
			c.sfx64 = c10sfx64Other
			if cls == "" {
				c.sfx64 = c10sig64(cp, rg, 0, L)
			}
		}
		if cls != "" {
			c.violate("RC.FindAllIndex", cp, cls, "", 0, -1, true, "%s", msg)
			return
		}
		if cp.rc.Len() != m {
			c.violate("ReverseComplement", cp, "wrong-pattern-length", "", 0, -1, true, "rc pattern %q has length %d want %d", cp.rc.String(), cp.rc.Len(), m)
			return
		}
		if cp.indel {
			want := c.pmr[L] <= e
			if (len(rg) > 0) != want {
				cl := "missed-match"
				if !want {
					cl = "spurious-match"
				}
				c.violate("RC.FindAllIndex", cp, cl, "", 0, -1, true, "rc pattern %q reports %v on s; the pattern on rc(s)=%q: min edit distance %d", cp.rc.String(), rg, string(c10revcomp(c.seq)), c.pmr[L])
			}
			return
		}
		// mismatch mode: exact mirrored set
		type hit struct{ s, n int }
		var want []hit
		for st := len(c.mmr) - 1; st >= 0; st-- {
			if c.mmr[st] >= 0 && c.mmr[st] <= e {
				want = append(want, hit{L - (st + m), c.mmr[st]})
			}
		}
		rgs := append([][3]int(nil), rg...)
		sort.Slice(rgs, func(i, j int) bool { return rgs[i][0] < rgs[j][0] })
		bad := len(rgs) != len(want)
		for i := 0; !bad && i < len(want); i++ {
			if rgs[i][0] != want[i].s || rgs[i][1] != want[i].s+m || rgs[i][2] != want[i].n {
				bad = true
			}
		}
		if bad {
			cl := "wrong-hits"
			switch {
			case len(rgs) < len(want):
				cl = "missed-hit"
			case len(rgs) > len(want):
				cl = "spurious-hit"
			}
			c.violate("RC.FindAllIndex", cp, cl, "", 0, -1, true, "rc pattern %q on s reports %v; mirrored matches of the pattern on rc(s)=%q are %v (start,errors)", cp.rc.String(), rg, string(c10revcomp(c.seq)), want)
		}
	}
}

// ---------------------------------------------------------------- circular sequences (part G)

// c10mkcirc builds an ApatSequence (circular or not, fresh or recycled). For a circular one the C side stores seq followed
// by the MAX_PAT_LEN bytes found at the start of the Go slice (EncodeSequence copies in[0..63] whatever the length): the
// wrapped copy, and for a sequence shorter than 64 whatever lies behind the slice. To keep the runs deterministic the
// slack capacity of the BioSequence's own slice (a pooled slice of capacity 300) is filled with 'x' beforehand; text is
// then the whole C buffer and tailKnown is true. If the slack is too small, text stops after the wrapped copy.
func c10mkcirc(s []byte, circular bool, recycle ...ApatSequence) (as ApatSequence, text []byte, tailKnown bool) {
	bs := obiseq.NewBioSequence("c10", s, "")
	L := len(s)
	tailKnown = true
	if circular && L < c10MaxPatLen {
		raw := bs.Sequence()
		if cap(raw) >= c10MaxPatLen {
			full := raw[:c10MaxPatLen]
			for i := L; i < c10MaxPatLen; i++ {
				full[i] = 'x'
			}
			if again := bs.Sequence(); cap(again) < c10MaxPatLen || again[:c10MaxPatLen][c10MaxPatLen-1] != 'x' {
				tailKnown = false // Sequence() handed out a copy: the bytes behind the sequence are not ours
			}
		} else {
			tailKnown = false
		}
	}
	var err error
	as, err = MakeApatSequence(bs, circular, recycle...)
	if err != nil {
		panic(c10implErr{"MakeApatSequence", fmt.Sprintf("MakeApatSequence(%q, circular=%v, recycled=%v) refuses a valid sequence: %v", string(s), circular, len(recycle) > 0, err)})
	}
	if !circular {
		return as, s, true
	}
	text = append([]byte(nil), s...)
	for i := 0; i < c10MaxPatLen; i++ {
		switch {
		case i < L:
			text = append(text, s[i])
		case tailKnown:
			text = append(text, 'x')
		}
	}
	return as, text, tailKnown
}

// checkCirc: FindAllIndex and IsMatching (the two observation points used on circular sequences, by the PCR code) on one
// window of the current circular sequence. Coordinates are those of the unrolled text seq+seq[:64]; L = len(seq).
//
// Demanded (pattern not longer than the sequence):
//   - mismatch mode: every reported hit that lies in the known part of the buffer is a true match of the pattern on the
//     unrolled text (for a start < L: a match of the circular sequence at that position, junction included) with its
//     exact count, starts at or after begin and ends inside the scanned extent; no hit is reported twice; every match
//     with start in [begin, L) that lies inside the window [begin, begin+length) of the unrolled text is reported - the
//     whole circle (begin 0, length -1 or >= L) meaning every start 0..L-1, the ones straddling the origin included.
//     Copies of a match at start+L are allowed (the implementation reports them when they fit) but not demanded.
//   - indel mode: something is reported iff some non-empty substring of the unrolled window is within the budget
//     (nothing demanded from, and nothing excused by, bytes behind the wrapped copy unless they are known).
func (c *c10ctx) checkCirc(cp *c10comp, begin, length int) {
	r := c.r
	p := c.p
	m := len(p.toks)
	L := len(c.seq)
	T := len(c.text)
	e := cp.e
	r.Eval(1)
	c.sfx64 = ""
	if cp.perr != nil || m > L {
		return
	}
	eb := begin
	if eb < 0 {
		eb = 0
	}
	el := length
	if el < 0 {
		el = L
	}
	scanEnd := eb + el + c10MaxPatLen
	if scanEnd > L+c10MaxPatLen {
		scanEnd = L + c10MaxPatLen
	}
	mustEnd := eb + el
	if mustEnd > c.validEnd || (eb == 0 && el >= L) {
		mustEnd = c.validEnd
	}
	mayEnd := scanEnd
	mayKnown := true
	if mayEnd > T {
		mayEnd, mayKnown = T, false
	}
	where := func(s int) string {
		switch {
		case s >= L:
			return ":wrapped-copy"
		case s+m > L:
			return ":across-origin"
		}
		return ":inside"
	}

	var got [][3]int
	cls, msg := c10try(func() { got = cp.p.FindAllIndex(c.as, begin, length) })
	r.Trans(1)
	var im bool
	cls2, msg2 := c10try(func() { im = cp.p.IsMatching(c.as, begin, length) })
	r.Trans(1)
	if cls != "" {
		c.violate("Circ.FindAllIndex", cp, cls, "", begin, length, false, "%s", msg)
	}
	if cls2 != "" {
		c.violate("Circ.IsMatching", cp, cls2, "", begin, length, false, "%s", msg2)
	}
	if cls != "" || cls2 != "" {
		return
	}

	var must, may bool
	imSfx := ":inside" // ":across-origin" when every demanded match needs the wrapped copy
	if !cp.indel {
		ok := true
		if !sort.SliceIsSorted(got, func(i, j int) bool { return got[i][0] < got[j][0] }) { // the order is not constrained
			got = append([][3]int(nil), got...)
			sort.Slice(got, func(i, j int) bool { return got[i][0] < got[j][0] })
		}
		for i, h := range got {
			s := h[0]
			if h[1] != s+m || s < 0 || s+m > L+c10MaxPatLen {
				c.violate("Circ.FindAllIndex", cp, "span-outside-sequence", "", begin, length, false, "reported %v (sequence length %d + %d wrapped, pattern length %d)", h, L, c10MaxPatLen, m)
				ok = false
				break
			}
			if s+m > T {
				r.Count("circular_hits_in_unknown_tail(not judged)", 1)
				continue
			}
			if c.mm[s] < 0 || c.mm[s] > e {
				c.violate("Circ.FindAllIndex", cp, "spurious-hit", where(s), begin, length, false, "reported %v but the pattern has %d mismatches there on the unrolled text %q (-1 = mismatch on a '#' position)", h, c.mm[s], string(c.text))
				ok = false
				break
			}
			if h[2] != c.mm[s] {
				c.violate("Circ.FindAllIndex", cp, "wrong-errcount", where(s), begin, length, false, "reported %v, true mismatch count %d on the unrolled text %q", h, c.mm[s], string(c.text))
				ok = false
				break
			}
			if s < eb || s+m > scanEnd {
				c.violate("Circ.FindAllIndex", cp, "hit-outside-window", where(s), begin, length, false, "reported %v, window starts at %d, scan ends at %d", h, eb, scanEnd)
				ok = false
				break
			}
			if i > 0 && s == got[i-1][0] {
				c.violate("Circ.FindAllIndex", cp, "duplicate-hit", where(s), begin, length, false, "reported %v twice (%v)", h, got[i-1])
				ok = false
				break
			}
		}
		gi := 0
		imSfx = ":across-origin"
		for st := eb; ok && st < L && st+m <= mustEnd; st++ {
			if c.mm[st] >= 0 && c.mm[st] <= e {
				must = true
				if st+m <= L {
					imSfx = ":inside"
				}
				r.Count("circular_hits_expected", 1)
				if st+m > L {
					r.Count("circular_hits_expected_across_origin", 1)
				}
				for gi < len(got) && got[gi][0] < st {
					gi++
				}
				if gi >= len(got) || got[gi][0] != st {
					c.violate("Circ.FindAllIndex", cp, "missed-hit", where(st), begin, length, false, "match at %d with %d mismatches on the unrolled text %q not reported; got %v", st, c.mm[st], string(c.text), got)
					ok = false
				}
			}
		}
		for st := eb; st+m <= mayEnd; st++ {
			if c.mm[st] >= 0 && c.mm[st] <= e {
				may = true
				break
			}
		}
	} else {
		pm := c.sellersFrom(eb)
		must = mustEnd > eb && pm[mustEnd-eb] <= e
		may = mayEnd > eb && pm[mayEnd-eb] <= e
		sfx := ":inside"
		if le := min(mustEnd, L); must && !(le > eb && pm[le-eb] <= e) {
			sfx = ":across-origin" // the match exists only thanks to the wrapped copy
			imSfx = sfx
			r.Count("circular_indel_matches_only_across_origin", 1)
		}
		if len(got) == 0 && must {
			c.violate("Circ.FindAllIndex", cp, "missed-match", sfx, begin, length, false, "reports nothing but a substring of the unrolled text %q within the budget lies inside the window", string(c.text))
		}
		if len(got) > 0 && !may && mayKnown {
			c.violate("Circ.FindAllIndex", cp, "spurious-match", "", begin, length, false, "reports %v but no substring of the scanned text %q is within the budget", got, string(c.text[eb:mayEnd]))
		}
	}
	if must {
		r.Count("circular_cases_with_match", 1)
	} else if !may {
		r.Count("circular_cases_without_match", 1)
	}
	if !mayKnown {
		r.Count("circular_cases_scanning_unknown_bytes", 1)
	}
	if !im && must {
		c.violate("Circ.IsMatching", cp, "missed-match", imSfx, begin, length, false, "false but a match within budget lies inside the window of the unrolled text %q", string(c.text))
	}
	if im && !may && mayKnown {
		c.violate("Circ.IsMatching", cp, "spurious-match", "", begin, length, false, "true but nothing in the scanned text %q is within the budget", string(c.text[eb:mayEnd]))
	}
}

// c10dirty leaves hits of several kinds on the C stacks of as (part G histories: what a previous use of a recycled
// ApatSequence leaves behind)
var c10dirtyPats []ApatPattern

func c10dirty(as ApatSequence) {
	if c10dirtyPats == nil {
		for _, src := range []string{"n", "a", "nc"} {
			for _, e := range []int{0, 1} {
				for _, indel := range []bool{false, true} {
					if pt, err := MakeApatPattern(src, e, indel); err == nil {
						c10dirtyPats = append(c10dirtyPats, pt)
					}
				}
			}
		}
	}
	for _, pt := range c10dirtyPats {
		pt.FindAllIndex(as, 0, -1)
	}
}

// ---------------------------------------------------------------- enumeration helpers

// c10budgets: every budget of the quantifier (0..4), also when it exceeds the pattern length (a legal call: every
// position then matches in mismatch mode unless a '#' position disagrees, every non-empty text matches with indels).
func c10budgets(m int) []int {
	return []int{0, 1, 2, 3, 4}
}

func c10mkseq(s []byte) (*obiseq.BioSequence, ApatSequence) {
	bs := obiseq.NewBioSequence("c10", s, "")
	as, err := MakeApatSequence(bs, false)
	if err != nil {
		panic(c10implErr{"MakeApatSequence", fmt.Sprintf("MakeApatSequence(%q) refuses a valid sequence: %v", string(s), err)})
	}
	return bs, as
}

// c10variants enumerates every edit script with at most k edits (substitution, deletion, one inserted base before a
// position or at the end) applied to inst.
func c10variants(inst []byte, k int, f func(v []byte, edits int)) {
	const bases = "acgt"
	buf := make([]byte, 0, len(inst)+k)
	var rec func(i, used int)
	rec = func(i, used int) {
		// optional insertion before position i (also at the very end)
		emit := func(used int) {
			if i == len(inst) {
				f(buf, used)
				return
			}
			// keep
			buf = append(buf, inst[i])
			rec(i+1, used)
			buf = buf[:len(buf)-1]
			if used < k {
				for j := 0; j < 4; j++ { // substitute
					if bases[j] != inst[i] {
						buf = append(buf, bases[j])
						rec(i+1, used+1)
						buf = buf[:len(buf)-1]
					}
				}
				rec(i+1, used+1) // delete
			}
		}
		emit(used)
		if used < k {
			for j := 0; j < 4; j++ {
				buf = append(buf, bases[j])
				emit(used + 1)
				buf = buf[:len(buf)-1]
			}
		}
	}
	rec(0, 0)
}

// first base of every class: a concrete copy of the pattern
func (p *c10pat) instance() []byte {
	out := make([]byte, len(p.toks))
	for i, t := range p.toks {
		for j, b := range []byte("acgt") {
			if t.mask&(1<<uint(j)) != 0 {
				out[i] = b
				break
			}
		}
	}
	return out
}

// ---------------------------------------------------------------- the test

func TestVerifC10(t *testing.T) {
	log.SetOutput(io.Discard)
	c10installExit()
	r := verifkit.New("C10")
	defer r.Write()

	ctx := &c10ctx{r: r}

	// part F: IsPatternMatchSequence against "forward strand matches, or (bothStrand and) the reverse strand matches"
	predCheck := func(pm *c10pat, cp *c10comp, both bool, apply obiseq.SequencePredicate, seq []byte, bs *obiseq.BioSequence) {
		if ctx.p != pm || string(ctx.seq) != string(seq) {
			ctx.reset(pm, seq, NilApatSequence)
		}
		ctx.needRC()
		m := len(pm.toks)
		fwd, rev := false, false
		if cp.indel {
			fwd = ctx.sellersFrom(0)[len(seq)] <= cp.e
			rev = ctx.pmr[len(seq)] <= cp.e
		} else {
			for st := 0; st+m <= len(seq); st++ {
				fwd = fwd || (ctx.mm[st] >= 0 && ctx.mm[st] <= cp.e)
				rev = rev || (ctx.mmr[st] >= 0 && ctx.mmr[st] <= cp.e)
			}
		}
		want := fwd || (both && rev)
		var got bool
		cls, msg := c10try(func() { got = apply(bs) })
		r.Eval(1)
		r.Trans(1)
		if want && !fwd {
			r.Count("predicate_matches_on_reverse_strand_only", 1)
		}
		switch {
		case cls != "":
			ctx.violate("IsPatternMatchSequence", cp, cls, "", 0, -1, both, "%s", msg)
		case got && !want:
			ctx.violate("IsPatternMatchSequence", cp, "spurious-match", "", 0, -1, both, "bothStrand=%v: true but neither strand matches", both)
		case !got && want:
			ctx.violate("IsPatternMatchSequence", cp, "missed-match", "", 0, -1, both, "bothStrand=%v: false but forward=%v reverse=%v", both, fwd, rev)
		}
	}

	// -------- replay of one stored case
	if rc := r.ReplayCase(); rc != nil {
		var cs c10case
		if err := json.Unmarshal(rc, &cs); err != nil {
			t.Fatal(err)
		}
		m, err := c10parse(cs.Pat)
		if err != nil {
			t.Fatal(err)
		}
		ent := c10compile(m, []int{cs.E}, []bool{cs.Indel})
		ctx.part = cs.Part
		ctx.hist = cs.Hist
		if cs.Part == "F" {
			predCheck(m, ent.comps[0], cs.RC, IsPatternMatchSequence(cs.Pat, cs.E, cs.RC, cs.Indel), []byte(cs.Seq), obiseq.NewBioSequence("c10", []byte(cs.Seq), ""))
			ent.free()
			return
		}
		var as ApatSequence
		if cs.Part == "G" {
			var rec []ApatSequence
			for i, h := range cs.Hist {
				as, _, _ = c10mkcirc([]byte(h), cs.HCirc[i], rec...)
				c10dirty(as)
				rec = []ApatSequence{as}
			}
			var text []byte
			var tk bool
			as, text, tk = c10mkcirc([]byte(cs.Seq), cs.Circ, rec...)
			ctx.hcirc = cs.HCirc
			if cs.Circ {
				ctx.resetCirc(m, []byte(cs.Seq), as, text, tk)
				ctx.checkCirc(ent.comps[0], cs.Begin, cs.Length)
			} else {
				ctx.reset(m, []byte(cs.Seq), as)
				ctx.check(ent.comps[0], cs.Begin, cs.Length, cs.RC)
			}
			as.Free()
			ent.free()
			return
		}
		if len(cs.Hist) > 0 {
			_, as = c10mkseq([]byte(cs.Hist[0]))
			ent.comps[0].p.FindAllIndex(as, 0, -1)
			for _, h := range cs.Hist[1:] {
				as, _ = MakeApatSequence(obiseq.NewBioSequence("c10", []byte(h), ""), false, as)
				ent.comps[0].p.FindAllIndex(as, 0, -1)
			}
			as, _ = MakeApatSequence(obiseq.NewBioSequence("c10", []byte(cs.Seq), ""), false, as)
		} else {
			_, as = c10mkseq([]byte(cs.Seq))
		}
		ctx.reset(m, []byte(cs.Seq), as)
		ctx.check(ent.comps[0], cs.Begin, cs.Length, cs.RC)
		as.Free()
		ent.free()
		return
	}

	thorough := verifkit.Thorough()
	t0 := time.Now() // progress log only, never an oracle
	expired := false
	k := 0
	// development aid: VERIF_C10_ONLY=AG runs the named parts only (such a run is never reported as exhaustive)
	only := os.Getenv("VERIF_C10_ONLY")
	if only != "" {
		r.Cap("VERIF_C10_ONLY=" + only + " (development filter: not the registered check)")
	}
	on := func(part string) bool { return only == "" || strings.Contains(only, part) }

	// ======== part A: short patterns x all sequences ========
	symbols := []string{"a", "c", "g", "t", "n", "r", "y", "[ac]"}
	var plainPats, modPats []string
	{
		var rec func(prefix string, n int)
		rec = func(prefix string, n int) {
			if n == 0 {
				plainPats = append(plainPats, prefix)
				return
			}
			for _, s := range symbols {
				rec(prefix+s, n-1)
			}
		}
		for n := 1; n <= 3; n++ {
			rec("", n)
		}
		var deco []string
		for _, s := range symbols {
			if s[0] == '[' { // a negated class "![ac]" is not in the documented grammar ("a nucleotide can be negated")
				deco = append(deco, s, s+"#")
			} else {
				deco = append(deco, s, "!"+s, s+"#", "!"+s+"#")
			}
		}
		isPlain := func(s string) bool { return !strings.ContainsAny(s, "!#") }
		for _, a := range deco {
			if !isPlain(a) {
				modPats = append(modPats, a)
			}
			for _, b := range deco {
				if !isPlain(a) || !isPlain(b) {
					modPats = append(modPats, a+b)
				}
			}
		}
	}
	maxL := 6
	if thorough {
		maxL = 7
	}
	r.Bound("A_patterns", fmt.Sprintf("all of length 1..3 over %v (%d) + all of length 1..2 with '!' / '#' modifiers (%d)", symbols, len(plainPats), len(modPats)))
	r.Bound("A_sequences", fmt.Sprintf("all over acgt of length 0..%d", maxL))
	r.Bound("budgets", "0..4 for every pattern, budgets larger than the pattern length included; modes mismatch-only and indel ('#' patterns: mismatch-only, their indel semantics is not stated)")

	var entA []*c10entry
	for _, src := range append(append([]string{}, plainPats...), modPats...) {
		m, err := c10parse(src)
		if err != nil {
			panic("c10: harness pattern " + src + ": " + err.Error())
		}
		modes := []bool{false, true}
		if m.hasOblig {
			modes = []bool{false}
		}
		entA = append(entA, c10compile(m, c10budgets(len(m.toks)), modes))
		r.State("pattern:" + src)
	}
	ctx.part = "A"
	verifkit.Strings("acgt", 0, maxL, func(s string) {
		mine := r.Mine(k)
		k++
		r.State("seq:" + s)
		if !mine || expired || !on("A") {
			return
		}
		seq := []byte(s)
		ctx.item("sequence "+s, func() {
			_, as := c10mkseq(seq)
			for _, ent := range entA {
				ctx.reset(ent.m, seq, as)
				for _, cp := range ent.comps {
					ctx.check(cp, 0, -1, true)
				}
			}
			as.Free()
		})
		if r.Expired() {
			expired = true
		}
	})

	t.Logf("c10: part A done at %v", time.Since(t0))

	// ======== part B: every window of every short sequence ========
	var entB []*c10entry
	for _, src := range verifkit.AllStrings("acn", 1, 3) {
		m, _ := c10parse(src)
		entB = append(entB, c10compile(m, c10budgets(len(m.toks)), []bool{false, true}))
	}
	r.Bound("B_windows", "patterns: all of length 1..3 over {a,c,n}; sequences: all over acgt of length 0..5; begin in -1..L, length in {-1, 0..L-begin}")
	ctx.part = "B"
	verifkit.Strings("acgt", 0, 5, func(s string) {
		mine := r.Mine(k)
		k++
		if !mine || expired || !on("B") {
			return
		}
		seq := []byte(s)
		L := len(seq)
		ctx.item("sequence "+s, func() {
			_, as := c10mkseq(seq)
			for _, ent := range entB {
				ctx.reset(ent.m, seq, as)
				for _, cp := range ent.comps {
					for b := -1; b <= L; b++ {
						eb := b
						if eb < 0 {
							eb = 0
						}
						for l := -1; l <= L-eb; l++ {
							if b == 0 && l == -1 {
								continue // part A
							}
							ctx.check(cp, b, l, false)
						}
					}
				}
			}
			as.Free()
		})
		if r.Expired() {
			expired = true
		}
	})

	t.Logf("c10: part B done at %v", time.Since(t0))

	// ======== part C: right edge of the window (sequences longer than MAX_PAT_LEN) ========
	r.Bound("C_right_edge", "sequences u+g^64+w, u in {a,c}^0..1, w in {a,c}^0..4; begin 0..2, length 0..4; patterns as in B")
	ctx.part = "C"
	for _, u := range verifkit.AllStrings("ac", 0, 1) {
		for _, w := range verifkit.AllStrings("ac", 0, 4) {
			mine := r.Mine(k)
			k++
			if !mine || expired || !on("C") {
				continue
			}
			seq := []byte(u + strings.Repeat("g", 64) + w)
			ctx.item("sequence "+string(seq), func() {
				_, as := c10mkseq(seq)
				for _, ent := range entB {
					ctx.reset(ent.m, seq, as)
					for _, cp := range ent.comps {
						for b := 0; b <= 2; b++ {
							for l := 0; l <= 4; l++ {
								ctx.check(cp, b, l, false)
							}
						}
						ctx.check(cp, 0, -1, true)
					}
				}
				as.Free()
			})
			if r.Expired() {
				expired = true
			}
		}
	}

	t.Logf("c10: part C done at %v", time.Since(t0))

	// ======== part E: recycled ApatSequence histories ========
	r.Bound("E_recycle", "one ApatSequence recycled through every ordered triple of sequences of length 0..2 and every ordered pair of length 0..3; patterns of B with length<=2")
	ctx.part = "E"
	{
		small := verifkit.AllStrings("acgt", 0, 2)
		mid := verifkit.AllStrings("acgt", 0, 3)
		var entE []*c10entry
		for _, ent := range entB {
			if len(ent.m.toks) <= 2 {
				entE = append(entE, ent)
			}
		}
		runHist := func(hist []string) {
			var as ApatSequence
			for i, h := range hist {
				bs := obiseq.NewBioSequence("c10", []byte(h), "")
				var err error
				if i == 0 {
					as, err = MakeApatSequence(bs, false)
				} else {
					as, err = MakeApatSequence(bs, false, as)
				}
				if err != nil {
					panic(c10implErr{"MakeApatSequence/recycle", fmt.Sprintf("history %v: MakeApatSequence refuses a valid sequence: %v", hist[:i+1], err)})
				}
				if i > 0 { // run a search so that the hit stacks are dirty before the next recycling
					ctx.hist = hist[:i]
					ctx.reset(entE[0].m, []byte(h), as)
					if as.Len() != len(h) {
						r.Violate("MakeApatSequence/recycle/wrong-length", fmt.Sprintf("history %v: Len()=%d", hist[:i+1], as.Len()), nil)
					}
					for _, ent := range entE {
						ctx.reset(ent.m, []byte(h), as)
						for _, cp := range ent.comps {
							ctx.check(cp, 0, -1, false)
						}
					}
					r.Count("recycled_sequences_checked", 1)
				} else {
					for _, ent := range entE[:3] {
						for _, cp := range ent.comps {
							cp.p.FindAllIndex(as, 0, -1)
						}
					}
				}
			}
			ctx.hist = nil
			as.Free()
		}
		for _, a := range small {
			for _, b := range small {
				for _, c := range small {
					mine := r.Mine(k)
					k++
					if mine && !expired && on("E") {
						ctx.item(fmt.Sprintf("recycling history %q", []string{a, b, c}), func() { runHist([]string{a, b, c}) })
					}
				}
			}
			if r.Expired() {
				expired = true
			}
		}
		for _, a := range mid {
			for _, b := range mid {
				mine := r.Mine(k)
				k++
				if mine && !expired && on("E") {
					ctx.item(fmt.Sprintf("recycling history %q", []string{a, b}), func() { runHist([]string{a, b}) })
				}
			}
			if r.Expired() {
				expired = true
			}
		}
	}
	t.Logf("c10: part E done at %v", time.Since(t0))

	// ======== part F: the sequence predicate built on IsMatching (predicat.go) ========
	r.Bound("F_predicate", "IsPatternMatchSequence(pattern, e, bothStrand, indel) for the patterns of B x {one strand, both strands} x every sequence of length 0..5")
	ctx.part = "F"
	{
		type pred struct {
			ent   *c10entry
			cp    *c10comp
			both  bool
			apply obiseq.SequencePredicate
		}
		var preds []pred
		for _, ent := range entB {
			for _, cp := range ent.comps {
				if cp.perr != nil || cp.rcerr != nil {
					continue // reported by check(); IsPatternMatchSequence would exit the process
				}
				for _, both := range []bool{false, true} {
					both := both
					var apply obiseq.SequencePredicate
					ctx.item(fmt.Sprintf("IsPatternMatchSequence(%q, %d, bothStrand=%v, indel=%v)", ent.m.src, cp.e, both, cp.indel), func() {
						apply = IsPatternMatchSequence(ent.m.src, cp.e, both, cp.indel)
					})
					if apply != nil {
						preds = append(preds, pred{ent, cp, both, apply})
					}
				}
			}
		}
		verifkit.Strings("acgt", 0, 5, func(s string) {
			mine := r.Mine(k)
			k++
			if !mine || expired || !on("F") {
				return
			}
			seq := []byte(s)
			ctx.item("sequence "+s, func() {
				bs := obiseq.NewBioSequence("c10", seq, "")
				for _, pd := range preds {
					predCheck(pd.ent.m, pd.cp, pd.both, pd.apply, seq, bs)
				}
			})
			if r.Expired() {
				expired = true
			}
		})
	}

	// ======== part G: circular sequences (MakeApatSequence(circular=true): matches across the origin) ========
	ctx.part = "G"
	{
		var entG []*c10entry
		entG = append(entG, entB...)
		for _, src := range []string{"r", "ry", "[ac]t", "t[ag]c", "!ag", "c!t", "g#t", "t#"} {
			m, err := c10parse(src)
			if err != nil {
				panic("c10: " + err.Error())
			}
			modes := []bool{false, true}
			if m.hasOblig {
				modes = []bool{false}
			}
			entG = append(entG, c10compile(m, c10budgets(len(m.toks)), modes))
		}
		maxG := 5
		if thorough {
			maxG = 6
		}
		r.Bound("G_circular", fmt.Sprintf("circular ApatSequences. G1: patterns of B + 8 with classes / '!' / '#', every budget and mode, every sequence over acgt of length 1..%d not shorter than the pattern, every window begin 0..L-1 x length {-1, 0..L, L+64}; G2: sequences u+g^64+w (u,w in {a,c}^0..2: no byte behind the wrapped copy), windows around the origin; G3: every rotation of every copy with <= 1 edit of 2 patterns of 20 symbols (16 contexts) and 1 of 32 symbols (4 contexts), of the exact copies (thorough: <= 1 edit) of a 63-symbol pattern; G4: one ApatSequence recycled through every ordered pair (sequence, topology) x (sequence, topology) of sequences of length 0..3 and two of length 66/70, except linear -> linear (part E); all patterns of G1 on a circular last use, those of <= 2 symbols and every observation point on a linear one", maxG))

		// G1
		verifkit.Strings("acgt", 1, maxG, func(s string) {
			mine := r.Mine(k)
			k++
			if !mine || expired || !on("G") {
				return
			}
			seq := []byte(s)
			L := len(seq)
			r.Count("circular_sequences", 1)
			ctx.item("circular sequence "+s, func() {
				as, text, tk := c10mkcirc(seq, true)
				if !tk {
					r.Count("circular_sequences_with_unknown_tail", 1)
				}
				for _, ent := range entG {
					if len(ent.m.toks) > L {
						continue
					}
					ctx.resetCirc(ent.m, seq, as, text, tk)
					for _, cp := range ent.comps {
						for b := 0; b < L; b++ {
							for l := -1; l <= L+1; l++ {
								if l == L+1 {
									l = L + c10MaxPatLen // what _Pcr passes for a circular sequence
								}
								ctx.checkCirc(cp, b, l)
							}
						}
					}
				}
				as.Free()
			})
			if r.Expired() {
				expired = true
			}
		})
		t.Logf("c10: part G1 done at %v", time.Since(t0))

		// G2: the wrapped copy is complete (L >= 64)
		for _, u := range verifkit.AllStrings("ac", 0, 2) {
			for _, w := range verifkit.AllStrings("ac", 0, 2) {
				mine := r.Mine(k)
				k++
				if !mine || expired || !on("G") {
					continue
				}
				seq := []byte(u + strings.Repeat("g", 64) + w)
				L := len(seq)
				r.Count("circular_sequences", 1)
				ctx.item("circular sequence "+string(seq), func() {
					as, text, tk := c10mkcirc(seq, true)
					for _, ent := range entG {
						ctx.resetCirc(ent.m, seq, as, text, tk)
						for _, cp := range ent.comps {
							for _, win := range [][2]int{{0, -1}, {0, L + c10MaxPatLen}, {1, -1}, {L - 1, -1}, {L - 2, -1}, {L - 3, -1}, {L - 1, 1}, {L - 1, 2}, {L - 2, 4}, {L - 3, 4}, {L - 3, 3}, {0, L}, {0, L - 1}} {
								ctx.checkCirc(cp, win[0], win[1])
							}
						}
					}
					as.Free()
				})
			}
		}
		if r.Expired() {
			expired = true
		}
		t.Logf("c10: part G2 done at %v", time.Since(t0))

		// G3: long patterns, every rotation of every edited copy in context
		{
			const g1 = "gatcctgagtcaagcttacgacgtgcatcggattacaggcttcaactgtgccagtatcgaccta"
			const g2 = "gtgycagcmgccgcggtaanacvwtbgdhksrttagayccbtgtagtccnacgttgcaarctyg"
			type rotPat struct {
				src    string
				kQ, kT int
				ctxs   []string
			}
			all4 := []string{"", "g", "ca", "tgc"}
			two := []string{"", "ca"}
			for _, rp := range []rotPat{{g1[:20], 1, 1, all4}, {g2[:20], 1, 1, all4}, {g2[:32], 1, 1, two}, {g2[:63], 0, 1, two}} {
				m, err := c10parse(rp.src)
				if err != nil {
					panic("c10: " + err.Error())
				}
				ent := c10compile(m, c10budgets(len(m.toks)), []bool{false, true})
				kk := rp.kQ
				if thorough {
					kk = rp.kT
				}
				done := 0
				var lin []byte
				c10variants(m.instance(), kk, func(v []byte, edits int) {
					mine := r.Mine(k)
					k++
					if !mine || expired || !on("G") {
						return
					}
					for _, lc := range rp.ctxs {
						for _, rcx := range rp.ctxs {
							lin = append(append(append(lin[:0], lc...), v...), rcx...)
							L := len(lin)
							if L < len(m.toks) {
								continue
							}
							for rot := 0; rot < L; rot++ {
								seq := append(append([]byte(nil), lin[rot:]...), lin[:rot]...)
								r.StateH(c10hash(seq) ^ 0x9e3779b97f4a7c15)
								r.Count("circular_rotations_of_long_pattern_sites", 1)
								ctx.item("circular sequence "+string(seq), func() {
									as, text, tk := c10mkcirc(seq, true)
									ctx.resetCirc(m, seq, as, text, tk)
									for _, cp := range ent.comps {
										ctx.checkCirc(cp, 0, -1)
										ctx.checkCirc(cp, 0, L+c10MaxPatLen)
									}
									as.Free()
								})
							}
						}
					}
					done++
					if done%16 == 0 && r.Expired() {
						expired = true
					}
				})
				ent.free()
			}
		}
		t.Logf("c10: part G3 done at %v", time.Since(t0))

		// G4: recycled ApatSequence, topology changing between the uses
		{
			var entH []*c10entry
			for _, ent := range entG {
				if len(ent.m.toks) <= 2 {
					entH = append(entH, ent)
				}
			}
			hseqs := verifkit.AllStrings("acgt", 0, 3)
			hseqs = append(hseqs, "ac"+strings.Repeat("g", 62)+"ca", "a"+strings.Repeat("c", 68)+"t")
			for _, a := range hseqs {
				for _, ca := range []bool{false, true} {
					for _, b := range hseqs {
						mine := r.Mine(k)
						k++
						if !mine || expired || !on("G") {
							continue
						}
						for _, cb := range []bool{false, true} {
							if !ca && !cb {
								continue // part E
							}
							r.Count("circular_recycle_histories", 1)
							ctx.item(fmt.Sprintf("recycling history %q (circular=%v) then %q (circular=%v)", a, ca, b, cb), func() {
								as, _, _ := c10mkcirc([]byte(a), ca)
								c10dirty(as)
								as, text, tk := c10mkcirc([]byte(b), cb, as)
								ctx.hist, ctx.hcirc = []string{a}, []bool{ca}
								if as.Len() != len(b) {
									r.Violate("MakeApatSequence/recycle/wrong-length", fmt.Sprintf("history %q (circular=%v) then %q (circular=%v): Len()=%d", a, ca, b, cb, as.Len()), nil)
								}
								ents := entH
								if cb {
									ents = entG // a 3-symbol pattern needs two wrapped symbols
								}
								for _, ent := range ents {
									if cb {
										ctx.resetCirc(ent.m, []byte(b), as, text, tk)
									} else {
										ctx.reset(ent.m, []byte(b), as)
									}
									for _, cp := range ent.comps {
										if cb {
											ctx.checkCirc(cp, 0, -1)
										} else {
											ctx.check(cp, 0, -1, false)
										}
									}
								}
								ctx.hist, ctx.hcirc = nil, nil
								as.Free()
							})
						}
					}
					if r.Expired() {
						expired = true
					}
				}
			}
		}
		t.Logf("c10: part G4 done at %v", time.Since(t0))
		for _, ent := range entG[len(entB):] {
			ent.free()
		}
	}
	for _, ent := range entA {
		ent.free()
	}
	for _, ent := range entB {
		ent.free()
	}

	t.Logf("c10: part F done at %v", time.Since(t0))

	// ======== part D: long patterns, every placement of an edited copy ========
	const m1 = "gatcctgagtcaagcttacgacgtgcatcggattacaggcttcaactgtgccagtatcgaccta"
	const m2 = "gtgycagcmgccgcggtaanacvwtbgdhksrttagayccbtgtagtccnacgttgcaarctyg"
	if len(m1) != 64 || len(m2) != 64 {
		panic("c10: master patterns must have 64 symbols")
	}
	type longPat struct {
		src string
		kQ  int // edits, quick tier
		kT  int // edits, thorough tier
	}
	longs := []longPat{ // cheapest first: an internal deadline cuts the triple-edit runs, not the long patterns
		{m1, 1, 1}, {m2, 1, 1}, {m1[32:] + m2[:32], 1, 1},
		{m1[:8], 2, 3}, {m2[16:24], 2, 3},
		{m1[:32], 1, 2}, {m2[:32], 1, 2},
		{m1[:63], 1, 2}, {m2[:63], 1, 2}, {m2[1:64], 1, 2},
		{m1[:20], 2, 3}, {m2[:20], 2, 3},
	}
	ctxs := []string{"", "g", "ca", "tgc"}
	r.Bound("D_long_patterns", fmt.Sprintf("%d patterns of length 8,20,32,63,64 (all 15 IUPAC codes); copies with <= k edits (quick k=2,2,1,1,1 / thorough k=3,3,2,2,1 by length) at every position; left/right context in %q", len(longs), ctxs))
	ctx.part = "D"
	for _, lp := range longs {
		m, err := c10parse(lp.src)
		if err != nil {
			panic("c10: " + err.Error())
		}
		r.State("pattern:" + lp.src)
		ent := c10compile(m, c10budgets(len(m.toks)), []bool{false, true})
		kk := lp.kQ
		if thorough {
			kk = lp.kT
		}
		var seqbuf []byte
		done := 0
		c10variants(m.instance(), kk, func(v []byte, edits int) {
			mine := r.Mine(k)
			k++
			if !mine || expired || !on("D") {
				return
			}
			for _, lc := range ctxs {
				for _, rcx := range ctxs {
					seqbuf = append(append(append(seqbuf[:0], lc...), v...), rcx...)
					seq := append([]byte(nil), seqbuf...)
					r.StateH(c10hash(seq))
					ctx.item("sequence "+string(seq), func() {
						_, as := c10mkseq(seq)
						ctx.reset(m, seq, as)
						for _, cp := range ent.comps {
							ctx.check(cp, 0, -1, true)
						}
						as.Free()
					})
				}
			}
			r.Count("D_edited_copies", 1)
			done++
			if done%64 == 0 && r.Expired() {
				expired = true
			}
		})
		ent.free()
		t.Logf("c10: part D pattern of length %d done at %v", len(m.toks), time.Since(t0))
	}

	r.RequireNonVacuous("hits_expected")
	r.RequireNonVacuous("cases_with_match")
	r.RequireNonVacuous("cases_without_match")
	r.RequireNonVacuous("rc_checked")
	r.RequireNonVacuous("circular_hits_expected_across_origin")
	r.RequireNonVacuous("circular_indel_matches_only_across_origin")
	r.RequireNonVacuous("circular_cases_without_match")
	r.Sample(c10case{Part: "A", Pat: "r[ac]!t", E: 1, Indel: false, Seq: "gatac", Begin: 0, Length: -1, RC: true})
	r.Sample(c10case{Part: "B", Pat: "acn", E: 1, Indel: true, Seq: "tacgt", Begin: 1, Length: 3})
	r.Sample(c10case{Part: "D", Pat: m2[:20], E: 3, Indel: true, Seq: "g" + string(c10mustInstance(m2[:20])) + "ca", Begin: 0, Length: -1, RC: true})
}

func c10mustInstance(src string) []byte {
	m, err := c10parse(src)
	if err != nil {
		panic(err)
	}
	return m.instance()
}

func c10hash(b []byte) uint64 {
	h := uint64(14695981039346656037)
	for _, c := range b {
		h ^= uint64(c)
		h *= 1099511628211
	}
	return h
}
