//go:build verif

package obiapat

// C11 — in-silico PCR returns exactly the amplicons the primers define, on either strand.
//
// Bounded exhaustive enumeration: every concatenation of <= 4 segments taken from
// {forward site with 0,1,2 mismatches, rc(reverse site) idem, the reverse complements of those
// (reverse orientation), filler of 1 nt, filler of 3 nt, two overlapping sites} for three IUPAC primer
// pairs of lengths 5/6, 6/5 and 4/10, x error budget x min/max bounds x extension mode x {linear,
// circular}. Every case is run through the real PCRSim and compared with a brute-force reference PCR
// that uses the harness's own IUPAC matcher; metamorphic relations: rc(template) gives the same
// multiset with the direction flipped, every rotation of a circular template gives the same multiset.
//
// Long templates: the same grammar with one 70-nt filler inserted at every place. FindAllIndex adds a
// scan margin of MAX_PAT_LEN (64) to every window, so on templates shorter than that the search
// windows _Pcr derives from the maximum length never decide anything.
//
// Batch histories: every ordered pair / triple of templates of a subset through one PCRSlice call
// (recycled C sequence buffer and hit stacks) against PCRSim on each template alone, template by
// template, for error budgets 1/1 and for different budgets on the two primers (2/0, 0/2: exact
// searches and searches with errors alternate on the same recycled sequence).
//
// The command path (option parser, CLIPCR, --fragmented) is the second part of the check:
// harness/pkg__obitools__obipcr/zz_verif_c11_test.go.

import (
	"encoding/json"
	"fmt"
	"sort"
	"strconv"
	"strings"
	"syscall"
	"testing"

	"git.metabarcoding.org/obitools/obitools4/obitools4/pkg/obiseq"
	"git.metabarcoding.org/obitools/obitools4/obitools4/pkg/verifkit"
	log "github.com/sirupsen/logrus"
)

// ---------------------------------------------------------------- case description

type c11cfg struct {
	Fwd  string `json:"fwd"`
	Rev  string `json:"rev"`
	FErr int    `json:"ferr"`
	RErr int    `json:"rerr"`
	Min  int    `json:"min"`
	Max  int    `json:"max"`
	Ext  int    `json:"ext"` // -1: no extension
	Full bool   `json:"full"`
	Circ bool   `json:"circ"`
}

type c11case struct {
	Kind string   `json:"kind"` // "single" (oracle + rc + rotations) or "batch"
	Cfg  c11cfg   `json:"cfg"`
	T    []string `json:"t"`
}

func (c c11cfg) c11topo() string {
	if c.Circ {
		return "circular"
	}
	return "linear"
}

func (c c11cfg) c11extmode() string {
	switch {
	case c.Ext < 0:
		return "noext"
	case c.Full:
		return "ext-full"
	}
	return "ext"
}

func (c c11cfg) String() string {
	return fmt.Sprintf("fwd=%s/%d rev=%s/%d min=%d max=%d ext=%d full=%v %s", c.Fwd, c.FErr, c.Rev, c.RErr,
		c.Min, c.Max, c.Ext, c.Full, c.c11topo())
}

// one amplicon as the property describes it
type c11amp struct {
	Dir  string
	Seq  string // "*" in an optional reference entry: sequence left unconstrained
	FM   string
	FE   int
	RM   string
	RE   int
	tag  string // reference only: geometric class of the pair (used in violation keys)
	alts string // reported records absorbed by an optional reference entry: the tags of ALL optional entries describing the same record, "," separated
	src  int    // reported records only: index N of the template "tplN" the record id derives from (-1: unknown)

	junction string // reference only: a primer site lies across the origin of the circle
}

func (a c11amp) c11key() string {
	return fmt.Sprintf("%s|%s|%s|%d|%s|%d", a.Dir, a.Seq, a.FM, a.FE, a.RM, a.RE)
}

func (a c11amp) String() string {
	return fmt.Sprintf("{%s seq=%s fwd_match=%s/%d rev_match=%s/%d}", a.Dir, a.Seq, a.FM, a.FE, a.RM, a.RE)
}

// ---------------------------------------------------------------- reference model

var c11iupac = map[byte]uint8{ // bit 0 a, 1 c, 2 g, 3 t
	'a': 1, 'c': 2, 'g': 4, 't': 8,
	'r': 1 | 4, 'y': 2 | 8, 'm': 1 | 2, 'k': 4 | 8, 's': 2 | 4, 'w': 1 | 8,
	'b': 2 | 4 | 8, 'd': 1 | 4 | 8, 'h': 1 | 2 | 8, 'v': 1 | 2 | 4, 'n': 15,
}

var c11comp = map[byte]byte{
	'a': 't', 'c': 'g', 'g': 'c', 't': 'a', 'r': 'y', 'y': 'r', 'm': 'k', 'k': 'm', 's': 's', 'w': 'w',
	'b': 'v', 'v': 'b', 'd': 'h', 'h': 'd', 'n': 'n',
}

func c11rc(s string) string {
	b := make([]byte, len(s))
	for i := 0; i < len(s); i++ {
		c, ok := c11comp[s[i]]
		if !ok {
			panic("c11rc: bad symbol in " + s)
		}
		b[len(s)-1-i] = c
	}
	return string(b)
}

type c11hit struct{ pos, err int }

// c11match: every start position where pat matches t with at most budget mismatches (substitutions
// only). Linear: the site lies wholly inside t. Circular: start in [0,L), indices taken modulo L.
func c11match(pat, t string, budget int, circ bool) []c11hit {
	L, lp := len(t), len(pat)
	var out []c11hit
	last := L - lp
	if circ {
		last = L - 1
	}
	for p := 0; p <= last; p++ {
		e := 0
		for k := 0; k < lp; k++ {
			if c11iupac[pat[k]]&c11iupac[t[(p+k)%L]] == 0 {
				e++
			}
		}
		if e <= budget {
			out = append(out, c11hit{p, e})
		}
	}
	return out
}

// c11circsub: n symbols of the circular string t starting at from (from may be negative).
func c11circsub(t string, from, n int) string {
	L := len(t)
	b := make([]byte, n)
	for k := 0; k < n; k++ {
		b[k] = t[(((from+k)%L)+L)%L]
	}
	return string(b)
}

// c11ref computes the amplicons the statement requires (req) and those it leaves open (opt).
// applicable=false: the configuration/template combination is outside the modelled domain.
func c11ref(t string, c c11cfg) (req, opt []c11amp, applicable bool) {
	L := len(t)
	lf, lr := len(c.Fwd), len(c.Rev)
	if c.Circ && (L < lf || L < lr) {
		return nil, nil, false // a primer longer than the circle: not modelled
	}
	for _, dir := range []string{"forward", "reverse"} {
		var A, B []c11hit
		var la, lb int
		if dir == "forward" {
			A = c11match(c.Fwd, t, c.FErr, c.Circ)
			B = c11match(c11rc(c.Rev), t, c.RErr, c.Circ)
			la, lb = lf, lr
		} else {
			A = c11match(c.Rev, t, c.RErr, c.Circ)
			B = c11match(c11rc(c.Fwd), t, c.FErr, c.Circ)
			la, lb = lr, lf
		}
		for _, a := range A {
			for _, b := range B {
				gap := b.pos - (a.pos + la)
				optional := false
				tag := "plain"
				junction := ""
				if c.Circ {
					gap = ((gap % L) + L) % L
					if la+gap+lb > L {
						// the two sites overlap each other on the circle: the statement does not
						// say whether the long way round is an amplicon
						optional = true
						tag = "sites-overlap-on-circle"
					} else if a.pos+la+gap > L || (a.pos+la+gap == L && gap > 0 && a.pos+la < L) {
						tag = "wrap"
					}
					if a.pos+la > L || (a.pos+la+gap)%L+lb > L {
						junction = "site-on-junction"
					}
				} else if gap < 0 {
					continue // overlapping sites: nothing lies between them
				}
				if gap == 0 {
					optional = true // touching primers: empty segment, left open
					tag = "touching"
				}
				if !((c.Min == 0 || gap >= c.Min) && (c.Max == 0 || gap <= c.Max)) {
					continue
				}
				bpos := a.pos + la + gap // unwrapped start of the b site
				amp := c11amp{Dir: dir, tag: tag, junction: junction}
				asite := c11circsub(t, a.pos, la)
				bsite := c11circsub(t, bpos, lb)
				var seg string
				if c.Ext < 0 {
					seg = c11circsub(t, a.pos+la, gap)
				} else {
					from, to := a.pos-c.Ext, bpos+lb+c.Ext
					if c.Circ {
						if to-from > L {
							optional = true
							seg = "*" // flanked amplicon longer than the circle: left open
							if amp.tag != "sites-overlap-on-circle" {
								amp.tag = "longer-than-circle"
							}
						} else {
							seg = c11circsub(t, from, to-from)
						}
					} else {
						if c.Full {
							if from < 0 || to > L {
								continue // flanks incomplete, only complete ones requested
							}
						} else {
							if from < 0 {
								from = 0
								amp.tag = "clipped"
							}
							if to > L {
								to = L
								amp.tag = "clipped"
							}
						}
						seg = t[from:to]
					}
				}
				if dir == "forward" {
					amp.Seq, amp.FM, amp.FE, amp.RM, amp.RE = seg, asite, a.err, c11rc(bsite), b.err
				} else {
					if seg != "*" {
						seg = c11rc(seg)
					}
					amp.Seq, amp.FM, amp.FE, amp.RM, amp.RE = seg, c11rc(bsite), b.err, asite, a.err
				}
				if optional {
					opt = append(opt, amp)
				} else {
					req = append(req, amp)
				}
			}
		}
	}
	return req, opt, true
}

// ---------------------------------------------------------------- running the implementation

type c11exit struct{}

type c11lastlog struct{ last string }

func (w *c11lastlog) Write(p []byte) (int, error) {
	w.last = string(p)
	return len(p), nil
}

var c11log = &c11lastlog{}

type c11out struct {
	amps  []c11amp
	fatal string // non-empty: log.Fatal* or panic
	bad   string // non-empty: malformed record (missing annotation, wrong primer annotation)
}

func c11opts(c c11cfg) []WithOption {
	o := []WithOption{
		OptionForwardPrimer(c.Fwd, c.FErr),
		OptionReversePrimer(c.Rev, c.RErr),
		OptionMinLength(c.Min),
		OptionMaxLength(c.Max),
		OptionOnlyFullExtension(c.Full),
		OptionCircular(c.Circ),
	}
	if c.Ext >= 0 {
		o = append(o, OptionWithExtension(c.Ext))
	}
	return o
}

func c11seq(id, t string) *obiseq.BioSequence {
	return obiseq.NewBioSequence(id, []byte(t), "")
}

func c11collect(c c11cfg, res obiseq.BioSequenceSlice, o *c11out) {
	for _, s := range res {
		if s == nil {
			o.bad = "nil record in the result"
			continue
		}
		an := s.Annotations()
		a := c11amp{Seq: s.String(), src: -1}
		if id := s.Id(); strings.HasPrefix(id, "tpl") {
			if i := strings.Index(id, "_sub["); i > 3 {
				if n, err := strconv.Atoi(id[3:i]); err == nil {
					a.src = n
				}
			}
		}
		var ok [5]bool
		a.Dir, ok[0] = an["direction"].(string)
		a.FM, ok[1] = an["forward_match"].(string)
		a.RM, ok[2] = an["reverse_match"].(string)
		a.FE, ok[3] = an["forward_error"].(int)
		a.RE, ok[4] = an["reverse_error"].(int)
		for i, k := range ok {
			if !k {
				o.bad = fmt.Sprintf("annotation #%d (direction, forward_match, reverse_match, forward_error, reverse_error) absent or of unexpected type in %v", i, an)
			}
		}
		if fp, _ := an["forward_primer"].(string); !strings.EqualFold(fp, c.Fwd) {
			o.bad = fmt.Sprintf("forward_primer=%q, want %q", fp, c.Fwd)
		}
		if rp, _ := an["reverse_primer"].(string); !strings.EqualFold(rp, c.Rev) {
			o.bad = fmt.Sprintf("reverse_primer=%q, want %q", rp, c.Rev)
		}
		a.Seq, a.FM, a.RM = strings.ToLower(a.Seq), strings.ToLower(a.FM), strings.ToLower(a.RM)
		o.amps = append(o.amps, a)
	}
}

func c11guard(o *c11out) {
	if x := recover(); x != nil {
		if _, ok := x.(c11exit); ok {
			o.fatal = "fatal exit: " + strings.TrimSpace(c11log.last)
		} else {
			o.fatal = fmt.Sprintf("panic: %v", x)
		}
	}
}

// c11sim runs PCRSim on one template.
func c11sim(t string, c c11cfg) (o c11out) {
	defer c11guard(&o)
	res := PCRSim(c11seq("tpl", t), c11opts(c)...)
	c11collect(c, res, &o)
	return o
}

// ---------------------------------------------------------------- comparison

func c11multiset(a []c11amp) map[string]int {
	m := map[string]int{}
	for _, x := range a {
		m[x.c11key()]++
	}
	return m
}

func c11flip(a []c11amp) []c11amp {
	out := make([]c11amp, len(a))
	for i, x := range a {
		if x.Dir == "forward" {
			x.Dir = "reverse"
		} else if x.Dir == "reverse" {
			x.Dir = "forward"
		}
		out[i] = x
	}
	return out
}

func c11sameMultiset(a, b []c11amp) (bool, string) {
	ma, mb := c11multiset(a), c11multiset(b)
	var diff []string
	for k, n := range ma {
		if mb[k] != n {
			diff = append(diff, fmt.Sprintf("%s x%d vs x%d", k, n, mb[k]))
		}
	}
	for k, n := range mb {
		if _, ok := ma[k]; !ok {
			diff = append(diff, fmt.Sprintf("%s x0 vs x%d", k, n))
		}
	}
	sort.Strings(diff)
	if len(diff) > 4 {
		diff = append(diff[:4], "...")
	}
	return len(diff) == 0, strings.Join(diff, "; ")
}

type c11diff struct {
	class string // missing-amplicon, spurious-amplicon, wrong-annotation
	dir   string
	tag   string
	text  string
}

// c11split matches the reported amplicons with the reference: req ⊆ got ⊆ req ∪ opt as multisets.
// core = the reported amplicons that are not absorbed by an optional reference entry (i.e. those the
// statement constrains); open = the reported amplicons absorbed by optional entries, with the tag
// of the entry.
func c11split(req, opt, got []c11amp) (diffs []c11diff, core, open []c11amp) {
	left := append([]c11amp{}, got...)
	take := func(pred func(g c11amp) bool) (c11amp, bool) {
		for i, g := range left {
			if pred(g) {
				left = append(left[:i], left[i+1:]...)
				return g, true
			}
		}
		return c11amp{}, false
	}
	var missing []c11amp
	for _, r := range req {
		k := r.c11key()
		if g, ok := take(func(g c11amp) bool { return g.c11key() == k }); ok {
			core = append(core, g)
		} else {
			missing = append(missing, r)
		}
	}
	// optional entries absorb what is left
	for _, o := range opt {
		oo := o
		if g, ok := take(func(g c11amp) bool {
			if oo.Seq == "*" {
				g.Seq = "*"
			}
			return g.c11key() == oo.c11key()
		}); ok {
			g.tag = oo.tag
			// several optional pairs can describe the same record (same direction, match strings and
			// error counts, sequence left open): remember every class that explains it
			seen := map[string]bool{}
			for _, o2 := range opt {
				g2 := g
				if o2.Seq == "*" {
					g2.Seq = "*"
				}
				if g2.c11key() == o2.c11key() && !seen[o2.tag] {
					seen[o2.tag] = true
					if g.alts != "" {
						g.alts += ","
					}
					g.alts += o2.tag
				}
			}
			open = append(open, g)
		}
	}
	// pair leftovers with missing entries describing the same amplicon sequence
	for _, m := range missing {
		mm := m
		if g0, ok := take(func(g c11amp) bool { return g.Dir == mm.Dir && g.Seq == mm.Seq }); ok {
			core = append(core, g0)
			diffs = append(diffs, c11diff{"wrong-annotation", m.Dir, m.tag, fmt.Sprintf("got %v want %v", g0, m)})
		} else {
			diffs = append(diffs, c11diff{"missing-amplicon", m.Dir, m.tag, fmt.Sprintf("not reported: %v", m)})
		}
	}
	for _, g := range left {
		core = append(core, g)
		d := g.Dir
		if d != "forward" && d != "reverse" {
			d = "baddir"
		}
		diffs = append(diffs, c11diff{"spurious-amplicon", d, "", fmt.Sprintf("reported but defined by no pair of primer matches: %v", g)})
	}
	return diffs, core, open
}

// ---------------------------------------------------------------- evaluation of one case

type c11runner struct {
	r       *verifkit.Result
	workers map[c11cfg]obiseq.SeqSliceWorker
	rotSkip func(k int) bool // rotations not to run (nil: run them all)
}

type c11obs struct {
	out        c11out
	core, open []c11amp
	diffs      []c11diff
	nreq, nopt int
	reqs       []c11amp
	ok         bool
}

// observe runs PCRSim on (t, c) and splits the result against the reference.
func (x *c11runner) observe(c c11cfg, t string) (o c11obs) {
	req, opt, ok := c11ref(t, c)
	if !ok {
		return o
	}
	o.ok = true
	o.nreq, o.nopt, o.reqs = len(req), len(opt), req
	o.out = c11sim(t, c)
	x.r.Eval(1)
	x.r.Trans(1)
	if o.out.fatal == "" {
		o.diffs, o.core, o.open = c11split(req, opt, o.out.amps)
	}
	return o
}

// c11openTag names the class of a difference between two multisets of amplicons of pairs the
// statement leaves open: only the records that DIFFER count. A differing record that some
// sites-overlap-on-circle pair describes belongs to that class (an optional entry whose sequence is
// left open is interchangeable with any other of the same match strings and error counts); if a
// differing record is described by no such pair, the key carries its own class (touching,
// longer-than-circle) so that it cannot hide behind the other one.
func c11openTag(a, b []c11amp) string {
	ma, mb := c11multiset(a), c11multiset(b)
	tag := ""
	explained := func(l []c11amp, k string) {
		for _, g := range l {
			if g.c11key() != k {
				continue
			}
			for _, t := range strings.Split(g.alts, ",") {
				if t == "sites-overlap-on-circle" {
					return
				}
			}
			if tag == "" {
				tag = g.tag
				if tag == "" {
					tag = "open-pairs"
				}
			}
			return
		}
	}
	var keys []string
	for k := range ma {
		keys = append(keys, k)
	}
	for k := range mb {
		if _, ok := ma[k]; !ok {
			keys = append(keys, k)
		}
	}
	sort.Strings(keys)
	for _, k := range keys {
		switch {
		case ma[k] > mb[k]:
			explained(a, k)
		case mb[k] > ma[k]:
			explained(b, k)
		}
	}
	if tag == "" {
		return "sites-overlap-on-circle"
	}
	return tag
}

// report the violations of one directly observed (template, configuration)
func (x *c11runner) report(c c11cfg, t string, o c11obs, how string) (fatal bool) {
	r := x.r
	cs := c11case{Kind: "single", Cfg: c, T: []string{t}}
	desc := func(s string) string {
		return fmt.Sprintf("template=%q (%d nt)%s %v: %s", t, len(t), how, c, s)
	}
	if o.out.fatal != "" {
		r.Count("fatal", 1)
		r.Violate("PCRSim/"+c.c11topo()+"/"+c.c11extmode()+"/fatal", desc(o.out.fatal), cs)
		return true
	}
	if o.out.bad != "" {
		r.Violate("PCRSim/"+c.c11topo()+"/malformed-record", desc(o.out.bad), cs)
	}
	for _, d := range o.diffs {
		key := "PCRSim/" + c.c11topo() + "/" + d.dir + "/" + d.class
		if d.tag != "" && d.tag != "plain" {
			key += ":" + d.tag
		}
		r.Violate(key, desc(d.text), cs)
	}
	return false
}

func (x *c11runner) single(c c11cfg, t string, rotations bool) {
	r := x.r
	cs := c11case{Kind: "single", Cfg: c, T: []string{t}}
	o := x.observe(c, t)
	if !o.ok {
		r.Count("skipped_primer_longer_than_circle", 1)
		return
	}
	r.Count("amplicons_required", int64(o.nreq))
	r.Count("amplicons_optional", int64(o.nopt))
	r.Count("amplicons_reported", int64(len(o.out.amps)))
	if o.nreq > 0 {
		r.Count("cases_with_required_amplicon", 1)
		for _, a := range o.reqs {
			r.Count("required_"+a.Dir+"_"+a.tag, 1)
			if a.junction != "" {
				r.Count("required_with_"+a.junction, 1)
			}
		}
	}
	if x.report(c, t, o, "") {
		return
	}
	base := "PCRSim/" + c.c11topo()
	desc := func(s string) string { return fmt.Sprintf("template=%q (%d nt) %v: %s", t, len(t), c, s) }

	// metamorphic 1: reverse complement of the template
	rcT := c11rc(t)
	o2 := x.observe(c, rcT)
	if !x.report(c, rcT, o2, " [reverse complement of an enumerated template]") {
		if same, why := c11sameMultiset(o.core, c11flip(o2.core)); !same {
			r.Violate(base+"/rc-asymmetry", desc(fmt.Sprintf("rc(template)=%q gives a different multiset (direction flipped): %s", rcT, why)), cs)
		} else if same, why := c11sameMultiset(o.open, c11flip(o2.open)); !same {
			r.Violate(base+"/rc-asymmetry:"+c11openTag(o.open, c11flip(o2.open)), desc(fmt.Sprintf("rc(template)=%q gives a different multiset (direction flipped), the difference being amplicons of pairs the statement leaves open: %s", rcT, why)), cs)
		}
	}

	// metamorphic 2: rotations of a circular template
	if c.Circ && rotations {
		for k := 1; k < len(t); k++ {
			if x.rotSkip != nil && x.rotSkip(k) {
				continue
			}
			rt := t[k:] + t[:k]
			o3 := x.observe(c, rt)
			r.Count("rotations", 1)
			if x.report(c, rt, o3, " [rotation of an enumerated template]") {
				break
			}
			if same, why := c11sameMultiset(o.core, o3.core); !same {
				r.Violate(base+"/rotation-variance", desc(fmt.Sprintf("rotation by %d (%q) gives a different multiset: %s", k, rt, why)), cs)
				break
			} else if same, why := c11sameMultiset(o.open, o3.open); !same {
				r.Violate(base+"/rotation-variance:"+c11openTag(o.open, o3.open), desc(fmt.Sprintf("rotation by %d (%q) gives a different multiset, the difference being amplicons of pairs the statement leaves open: %s", k, rt, why)), cs)
				break
			}
		}
	}
}

// c11slice runs a batch of templates through one _PCRSlice call (one recycled ApatSequence): the
// first time a configuration is seen through PCRSlice, afterwards through one PCRSliceWorker kept
// for the whole run (compiled patterns reused from batch to batch, as obipcr does).
func (x *c11runner) slice(ts []string, c c11cfg) (o c11out) {
	defer c11guard(&o)
	sl := make(obiseq.BioSequenceSlice, len(ts))
	for i, t := range ts {
		sl[i] = c11seq(fmt.Sprintf("tpl%d", i), t)
	}
	var res obiseq.BioSequenceSlice
	if w, ok := x.workers[c]; ok {
		res, _ = w(sl)
	} else {
		res = PCRSlice(sl, c11opts(c)...)
		x.workers[c] = PCRSliceWorker(c11opts(c)...)
	}
	c11collect(c, res, &o)
	return o
}

func (x *c11runner) batch(c c11cfg, ts []string) {
	r := x.r
	cs := c11case{Kind: "batch", Cfg: c, T: ts}
	nreq := 0
	for _, t := range ts {
		req, _, ok := c11ref(t, c)
		if !ok {
			return
		}
		nreq += len(req)
	}
	// vacuity counters: what the harness submits (batches, amplicons the brute-force reference requires on
	// their templates), counted before the implementation runs
	r.Count("batches", 1)
	if c.FErr != c.RErr {
		r.Count("batches_asymmetric_budgets", 1)
		r.Count("batch_amplicons_required_asymmetric_budgets", int64(nreq))
	}
	var alone []c11amp
	per := make([][]c11amp, len(ts))
	for i, t := range ts {
		o := c11sim(t, c)
		r.Trans(1)
		if o.fatal != "" {
			r.Count("batch_skipped_fatal_single", 1)
			return // reported by the single-template enumeration
		}
		alone = append(alone, o.amps...)
		per[i] = o.amps
	}
	got := x.slice(ts, c)
	r.Eval(1)
	r.Trans(int64(len(ts)))
	r.Count("batch_amplicons", int64(len(alone)))
	if c.FErr != c.RErr {
		r.Count("batch_amplicons_asymmetric_budgets", int64(len(alone)))
	}
	base := "PCRSlice/" + c.c11topo()
	desc := func(s string) string { return fmt.Sprintf("batch=%q %v: %s", ts, c, s) }
	if got.fatal != "" {
		r.Violate(base+"/fatal", desc(got.fatal), cs)
		return
	}
	if got.bad != "" {
		r.Violate(base+"/malformed-record", desc(got.bad), cs)
	}
	// template by template when the record ids tell where each record comes from (the key then names
	// the place in the batch history and the kind of difference), else as one multiset
	gper := make([][]c11amp, len(ts))
	attributed := true
	for _, a := range got.amps {
		if a.src < 0 || a.src >= len(ts) {
			attributed = false
			break
		}
		gper[a.src] = append(gper[a.src], a)
	}
	if !attributed {
		if same, why := c11sameMultiset(alone, got.amps); !same {
			r.Violate(base+"/batch-differs-from-single", desc("PCRSim on each template alone vs the batch through one recycled ApatSequence: "+why), cs)
		}
		return
	}
	for i := range ts {
		same, why := c11sameMultiset(per[i], gper[i])
		if same {
			continue
		}
		ma, mb := c11multiset(per[i]), c11multiset(gper[i])
		missing, spurious := false, false
		for k, n := range ma {
			if mb[k] < n {
				missing = true
			}
		}
		for k, n := range mb {
			if ma[k] < n {
				spurious = true
			}
		}
		pos, class := "later", "missing"
		if i == 0 {
			pos = "first"
		}
		switch {
		case missing && spurious:
			class = "missing+spurious"
		case spurious:
			class = "spurious"
		}
		r.Violate(fmt.Sprintf("%s/batch-differs-from-single:%s-template/%s", base, pos, class),
			desc(fmt.Sprintf("template #%d %q, PCRSim alone vs inside the batch (one recycled ApatSequence): %s", i, ts[i], why)), cs)
	}
}

// ---------------------------------------------------------------- enumeration

type c11pair struct{ fwd, rev, fusion string } // fusion: forward site and rc(reverse) site overlapping

// c11instance resolves IUPAC codes to their first base.
func c11instance(p string) string {
	b := []byte(p)
	for i := range b {
		for _, n := range []byte("acgt") {
			if c11iupac[b[i]]&c11iupac[n] != 0 {
				b[i] = n
				break
			}
		}
	}
	return string(b)
}

// c11mutate puts a mismatching base at the given positions of site (instance of pattern p).
func c11mutate(site, p string, pos ...int) string {
	b := []byte(site)
	for _, i := range pos {
		done := false
		for _, n := range []byte("tgca") {
			if c11iupac[p[i]]&c11iupac[n] == 0 {
				b[i] = n
				done = true
				break
			}
		}
		if !done {
			panic("c11mutate: no mismatching base")
		}
	}
	return string(b)
}

// c11segments: the 15 building blocks for a primer pair.
func c11segments(p c11pair) []string {
	f0 := c11instance(p.fwd)
	r0 := c11instance(p.rev)
	fs := []string{f0, c11mutate(f0, p.fwd, 1), c11mutate(f0, p.fwd, 0, len(f0)-1)}
	rs := []string{r0, c11mutate(r0, p.rev, 2), c11mutate(r0, p.rev, 0, len(r0)-1)}
	var seg []string
	seg = append(seg, fs...) // forward sites, forward orientation
	for _, s := range rs {
		seg = append(seg, c11rc(s)) // reverse sites as they appear on the top strand
	}
	for _, s := range fs {
		seg = append(seg, c11rc(s)) // reverse orientation
	}
	seg = append(seg, rs...)
	seg = append(seg, "c", "tca")
	// overlapping primer sites (never an amplicon between them on a linear template)
	fh := c11match(p.fwd, p.fusion, 0, false)
	rh := c11match(c11rc(p.rev), p.fusion, 0, false)
	if len(fh) != 1 || len(rh) != 1 || fh[0].pos != 0 || rh[0].pos >= len(p.fwd) || rh[0].pos+len(p.rev) != len(p.fusion) {
		panic("c11segments: fusion segment does not hold two overlapping sites: " + p.fusion)
	}
	seg = append(seg, p.fusion)
	return seg
}

func c11templates(seg []string, maxSeg int, f func(t string, nseg int)) {
	var rec func(prefix string, n int)
	rec = func(prefix string, n int) {
		f(prefix, n)
		if n == maxSeg {
			return
		}
		for _, s := range seg {
			rec(prefix+s, n+1)
		}
	}
	rec("", 0)
}

// c11cpu: CPU time used by the process so far, in ms (reporting only, never an oracle).
func c11cpu() int64 {
	var ru syscall.Rusage
	if syscall.Getrusage(syscall.RUSAGE_SELF, &ru) != nil {
		return 0
	}
	return (ru.Utime.Sec+ru.Stime.Sec)*1000 + int64(ru.Utime.Usec+ru.Stime.Usec)/1000
}

// c11parts: every list of <= maxSeg segments.
func c11parts(seg []string, maxSeg int, f func(parts []string)) {
	var rec func(prefix []string)
	rec = func(prefix []string) {
		f(prefix)
		if len(prefix) == maxSeg {
			return
		}
		for _, s := range seg {
			rec(append(prefix[:len(prefix):len(prefix)], s))
		}
	}
	rec(nil)
}

// c11longFiller: aperiodic (Thue-Morse) filler over {c,t}, longer than the scan margin MAX_PAT_LEN
// (64) that FindAllIndex adds to every search window: only with such a stretch between two sites do
// the search windows computed by _Pcr from the maximum length decide anything.
func c11longFiller(n int) string {
	b := make([]byte, n)
	for i := range b {
		x, par := i, 0
		for x > 0 {
			par ^= x & 1
			x >>= 1
		}
		b[i] = "ct"[par]
	}
	return string(b)
}

// c11configs: base = the configurations of the quick tier; the thorough tier adds mixed error
// budgets, one-sided bounds and extensions 0 and 7.
func c11configs(p c11pair, thorough bool) (out []c11cfg, base map[c11cfg]bool) {
	type eb struct{ f, r int }
	errs := []eb{{0, 0}, {1, 1}}
	type mm struct{ min, max int }
	bounds := []mm{{0, 0}, {2, 6}}
	type ex struct {
		ext  int
		full bool
	}
	exts := []ex{{-1, false}, {2, false}, {2, true}}
	nb := [3]int{len(errs), len(bounds), len(exts)}
	if thorough {
		errs = append(errs, eb{0, 1}, eb{1, 0})
		bounds = append(bounds, mm{0, 3}, mm{4, 0})
		exts = append(exts, ex{0, false}, ex{7, false}, ex{7, true})
	}
	base = map[c11cfg]bool{}
	for ie, e := range errs {
		for ib, b := range bounds {
			for ix, x := range exts {
				for _, circ := range []bool{false, true} {
					c := c11cfg{Fwd: p.fwd, Rev: p.rev, FErr: e.f, RErr: e.r, Min: b.min, Max: b.max,
						Ext: x.ext, Full: x.full, Circ: circ}
					out = append(out, c)
					if ie < nb[0] && ib < nb[1] && ix < nb[2] {
						base[c] = true
					}
				}
			}
		}
	}
	return out, base
}

func TestVerifC11(t *testing.T) {
	log.SetOutput(c11log)
	log.StandardLogger().ExitFunc = func(int) { panic(c11exit{}) }
	r := verifkit.New("C11")
	defer r.Write()
	x := &c11runner{r: r, workers: map[c11cfg]obiseq.SeqSliceWorker{}}

	if rc := r.ReplayCase(); rc != nil {
		var c c11case
		if err := json.Unmarshal(rc, &c); err != nil {
			t.Fatal(err)
		}
		switch c.Kind {
		case "single":
			x.single(c.Cfg, c.T[0], true)
		case "batch":
			x.batch(c.Cfg, c.T)
		default:
			t.Fatalf("unknown case kind %q", c.Kind)
		}
		return
	}

	thorough := verifkit.Thorough()
	// third pair: primers of very different lengths (4 and 10)
	pairs := []c11pair{{"aacgr", "ttyagc", "aacggctgaa"}, {"gwtacc", "aakgg", "gataccctt"}, {"cwtg", "ttayagtkca", "catgcactgtaa"}}
	maxSeg := 4
	long := c11longFiller(70)
	r.Bound("primer_pairs", fmt.Sprintf("%v", pairs))
	r.Bound("max_segments", maxSeg)
	if thorough {
		r.Bound("four_segment_templates", "pairs 1 and 2: all configurations, rotations for the 24 base configurations; pair 3: error budget 1/1, no rotations")
		r.Bound("long_templates", "one 70-nt filler inserted at every place of every template of <= 3 segments (all configurations) and strictly inside every template of 4 segments (linear configurations with a maximum length, every budget but 0/0, extension none or 2)")
	} else {
		r.Bound("four_segment_templates", "pairs 1 and 2, configurations with error budget 1/1 only; no rotations")
		r.Bound("long_templates", "pairs 1 and 2: one 70-nt filler inserted at every place of every template of <= 3 segments (3 segments: error budget 1/1 only) and strictly inside every template of 4 segments (linear configurations with a maximum length, error budget 1/1, no or clipped flanks)")
	}
	r.Bound("rotations", "every rotation of every circular template of <= 3 segments; long templates (<= 2 segments + filler, error budget 1/1; thorough: all budgets, and 3 segments for the base configurations with budget 1/1): every rotation whose origin is outside the filler or within 8 nt of its ends, and its middle")
	r.Bound("segments_per_pair", 15)
	r.RequireNonVacuous("amplicons_required")
	r.RequireNonVacuous("batches")
	r.RequireNonVacuous("long_amplicons_required")
	r.RequireNonVacuous("batch_amplicons_required_asymmetric_budgets")

	k := 0
	cpu0 := c11cpu()
	phase := func(name string) {
		now := c11cpu()
		r.Count("cpu_ms_"+name, now-cpu0)
		cpu0 = now
	}
	for ip, p := range pairs {
		seg := c11segments(p)
		cfgs, baseCfg := c11configs(p, thorough)
		r.Bound("configs_per_pair", len(cfgs))
		r.Bound("segments_"+p.fwd+"_"+p.rev, strings.Join(seg, ","))
		pairMaxSeg := maxSeg
		if ip == 2 && !thorough {
			pairMaxSeg = 3
		}
		stop := false
		c11templates(seg, pairMaxSeg, func(tpl string, nseg int) {
			if stop {
				return
			}
			mine := r.Mine(k)
			k++
			if !mine {
				return
			}
			r.State(p.fwd + ":" + tpl)
			for _, c := range cfgs {
				if nseg == 4 && (!thorough || ip == 2) && !(c.FErr == 1 && c.RErr == 1) {
					continue
				}
				x.single(c, tpl, nseg <= 3 || (thorough && ip < 2 && baseCfg[c]))
			}
			if r.Expired() {
				stop = true
			}
		})
		phase("segment_templates")
		if stop {
			return
		}

		// long templates: the same grammar with one filler longer than the scan margin
		if ip < 2 || thorough {
			c11parts(seg, maxSeg, func(parts []string) {
				if stop {
					return
				}
				nseg := len(parts)
				for at := 0; at <= nseg; at++ {
					if nseg == 4 && (at == 0 || at == nseg) {
						continue // 4 segments: filler strictly inside only
					}
					mine := r.Mine(k)
					k++
					if !mine {
						continue
					}
					head := strings.Join(parts[:at], "")
					tpl := head + long + strings.Join(parts[at:], "")
					lo, hi := len(head), len(head)+len(long)
					x.rotSkip = func(k int) bool { return k > lo+8 && k < hi-8 && k != (lo+hi)/2 }
					r.State(p.fwd + ":" + tpl)
					r.Count("long_templates", 1)
					before := r.Counters["amplicons_required"]
					for _, c := range cfgs {
						window := !c.Circ && c.Max > 0 // the search windows of _Pcr depend on the maximum length
						e11 := c.FErr == 1 && c.RErr == 1
						rot := nseg <= 2
						switch {
						case thorough && nseg == 4:
							// filler strictly inside; every budget but 0/0; extension none or 2
							if !window || c.FErr+c.RErr == 0 || (c.Ext != -1 && c.Ext != 2) || at == 0 || at == nseg {
								continue
							}
						case thorough:
							rot = rot || (nseg == 3 && baseCfg[c] && e11)
						case nseg == 4:
							// filler strictly inside, no complete-flank mode
							if !(window && e11) || c.Full || at == 0 || at == nseg {
								continue
							}
						case nseg == 3:
							if !e11 {
								continue
							}
						default:
							rot = e11
						}
						x.single(c, tpl, rot)
					}
					r.Count("long_amplicons_required", r.Counters["amplicons_required"]-before)
					x.rotSkip = nil
				}
				if r.Expired() {
					stop = true
				}
			})
			phase("long_templates")
			if stop {
				return
			}
		}

		// batch histories through one recycled ApatSequence
		if ip == 2 && !thorough {
			continue
		}
		var small, tiny []string
		c11templates(seg, 2, func(tpl string, nseg int) { small = append(small, tpl) })
		c11templates(seg, 1, func(tpl string, nseg int) { tiny = append(tiny, tpl) })
		tiny = append(tiny, seg[0]+"tca"+seg[3], seg[9]+"c"+seg[6]+seg[0]+"c"+seg[3]) // two longer templates with amplicons
		bcfgs := []c11cfg{}
		for _, c := range cfgs {
			if c.FErr == 1 && c.RErr == 1 && c.Min == 0 && (c.Ext == -1 || (c.Ext == 2 && !c.Full)) {
				if c.Circ && c.Ext >= 0 && !thorough {
					continue
				}
				bcfgs = append(bcfgs, c)
			}
		}
		// different error budgets for the two primers (an exact search and a search with errors
		// alternate on the same recycled sequence: forward 2 / reverse 0 and the converse)
		for _, e := range [][2]int{{2, 0}, {0, 2}} {
			for _, circ := range []bool{false, true} {
				bcfgs = append(bcfgs, c11cfg{Fwd: p.fwd, Rev: p.rev, FErr: e[0], RErr: e[1], Ext: -1, Circ: circ})
			}
		}
		// ... each of them first against the reference, on every template of the batch histories
		for _, c := range bcfgs[len(bcfgs)-4:] {
			for _, a := range small {
				if r.Mine(k) {
					x.single(c, a, true)
				}
				k++
			}
		}
		r.Bound("batch_configs_per_pair", len(bcfgs))
		r.Bound("batch_pair_templates", len(small))
		r.Bound("batch_triple_templates", len(tiny))
		for _, c := range bcfgs {
			for _, a := range small {
				for _, b := range small {
					if r.Mine(k) {
						x.batch(c, []string{a, b})
					}
					k++
				}
				if r.Expired() {
					return
				}
			}
			for _, a := range tiny {
				for _, b := range tiny {
					for _, d := range tiny {
						if r.Mine(k) {
							x.batch(c, []string{a, b, d})
						}
						k++
					}
				}
			}
		}
		phase("batch_histories")
	}
	r.Sample(c11case{Kind: "single", Cfg: c11cfg{Fwd: "aacgr", Rev: "ttyagc", FErr: 1, RErr: 1, Ext: -1}, T: []string{"aacgatcagctraa"}})
}
