//go:build verif

package obiapat

// C07 (part: C complement table) — the complement table of the pattern matcher (obiapat.c,
// LX_BIO_CDNA_ALPHA) reached through ApatPattern.ReverseComplement().String() agrees with the sequence
// complement (obiseq) on every pattern over the 15 IUPAC codes, and complementing a pattern twice
// restores it (also for the pattern syntax !x, x#, [xy]).

import (
	"encoding/json"
	"fmt"
	"io"
	"strings"
	"testing"

	"git.metabarcoding.org/obitools/obitools4/obitools4/pkg/obiseq"
	"git.metabarcoding.org/obitools/obitools4/obitools4/pkg/verifkit"
	log "github.com/sirupsen/logrus"
)

type c07apCase struct {
	Kind    string `json:"kind"`
	Pattern string `json:"pattern"`
}

var c07apComp = map[byte]byte{'a': 't', 'c': 'g', 'g': 'c', 't': 'a', 'r': 'y', 'y': 'r', 'm': 'k', 'k': 'm',
	's': 's', 'w': 'w', 'b': 'v', 'v': 'b', 'd': 'h', 'h': 'd', 'n': 'n'}

func c07apRC(p string) (string, error) {
	pat, err := MakeApatPattern(p, 0, false)
	if err != nil {
		return "", err
	}
	defer pat.Free()
	c, err := pat.ReverseComplement()
	if err != nil {
		return "", err
	}
	defer c.Free()
	return c.String(), nil
}

func c07apCheck(r *verifkit.Result, c c07apCase) {
	r.Eval(1)
	if c.Kind == "iupac" {
		r.Count("iupac_patterns", 1) // patterns submitted (counted whatever the implementation answers)
	}
	// a Go panic / log.Fatal of the pattern code or of the sequence complement is an answer of the tree under test
	defer func() {
		if e := recover(); e != nil {
			r.Violate("ApatPattern.ReverseComplement/panic", fmt.Sprintf("pattern %q: %v", c.Pattern, e), c)
		}
	}()
	got, err := c07apRC(c.Pattern)
	if err != nil {
		r.Violate("ApatPattern.ReverseComplement/error", fmt.Sprintf("pattern %q: %v", c.Pattern, err), c)
		return
	}
	if c.Kind == "iupac" {
		// reference and obiseq
		want := make([]byte, len(c.Pattern))
		for i := 0; i < len(c.Pattern); i++ {
			want[len(c.Pattern)-1-i] = c07apComp[c.Pattern[i]]
		}
		viaSeq := obiseq.NewBioSequence("", []byte(c.Pattern), "").ReverseComplement(true).String()
		if !strings.EqualFold(got, string(want)) {
			r.Violate("tables/obiapat-C-table-not-iupac-complement", fmt.Sprintf("pattern %q: ApatPattern.ReverseComplement gives %q, IUPAC reverse complement is %q", c.Pattern, got, want), c)
		}
		if !strings.EqualFold(got, viaSeq) {
			r.Violate("tables/obiapat-vs-obiseq-disagree", fmt.Sprintf("pattern %q: ApatPattern.ReverseComplement gives %q, BioSequence.ReverseComplement gives %q", c.Pattern, got, viaSeq), c)
		}
	}
	back, err := c07apRC(got)
	if err != nil {
		r.Violate("ApatPattern.ReverseComplement/error-on-own-output", fmt.Sprintf("pattern %q: complement %q is refused: %v", c.Pattern, got, err), c)
		return
	}
	if !strings.EqualFold(back, c.Pattern) {
		r.Violate("ApatPattern.ReverseComplement/twice-not-identity", fmt.Sprintf("pattern %q: rc=%q rc(rc)=%q", c.Pattern, got, back), c)
	}
	r.Count("patterns_rc_twice", 1)
}

func TestVerifC07Apat(t *testing.T) {
	log.SetOutput(io.Discard)
	log.StandardLogger().ExitFunc = func(code int) { panic(fmt.Sprintf("log.Fatal (exit status %d)", code)) }
	r := verifkit.New("C07")
	defer r.Write()
	if rc := r.ReplayCase(); rc != nil {
		var c c07apCase
		if err := json.Unmarshal(rc, &c); err != nil {
			t.Fatal(err)
		}
		c07apCheck(r, c)
		return
	}
	const iupac = "acgtrymkswbdhvn"
	maxLen := 3
	if verifkit.Thorough() {
		maxLen = 4
	}
	r.Bound("apat_iupac_pattern_max_length", maxLen)
	k := 0
	verifkit.Strings(iupac, 1, maxLen, func(s string) {
		k++
		if r.Mine(k) {
			r.State("apat:" + s)
			c07apCheck(r, c07apCase{Kind: "iupac", Pattern: s})
		}
	})
	// pattern syntax: tokens x, x#, !x, [xy] over a small letter set, up to 3 tokens
	var tokens []string
	for _, x := range "acgn" {
		tokens = append(tokens, string(x), string(x)+"#", "!"+string(x))
	}
	tokens = append(tokens, "[ac]", "[gt]", "[acg]", "[ac]#")
	var rec func(pre string, n int)
	rec = func(pre string, n int) {
		if pre != "" {
			k++
			if r.Mine(k) {
				r.State("apat:" + pre)
				c07apCheck(r, c07apCase{Kind: "syntax", Pattern: pre})
			}
		}
		if n == 0 {
			return
		}
		for _, tk := range tokens {
			rec(pre+tk, n-1)
		}
	}
	rec("", 3)
	r.Sample(c07apCase{Kind: "iupac", Pattern: "rbn"})
	r.RequireNonVacuous("iupac_patterns")
}
