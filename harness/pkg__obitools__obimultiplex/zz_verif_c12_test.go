//go:build verif

package obimultiplex

// C12 — demultiplexing assigns the declared sample, the exact barcode, on either strand.
//
// A fixed family of sample sheets (one or two markers, tag lengths 4/5/6, symmetric / asymmetric / absent
// tags, matching strict / hamming / indel, spacers 0/1/2 set globally, per side and per primer, primer
// mismatch budgets 0/1/2, primer indels on/off, delimited tags) is written in the two accepted formats
// (historical ngsfilter text, CSV with @param lines), parsed by the real obiformats.ReadNGSFilter /
// ReadCSVNGSFilter and compiled by NGSLibrary.ExtractMultiBarcodeSliceWorker. For each library EVERY read of
//
//	single     left flank x forward tag variant x forward primer variant x barcode x reverse primer variant x
//	           reverse tag variant x right flank x orientation (read / reverse complement)
//	chimera    every ordered pair and triple of amplicons of a pool (complete, erroneous-tag and one-primer
//	           amplicons of every marker, both orientations) x joint x outer flanks
//	truncated  every sub-string (quick: every prefix and suffix) of a correct read, both orientations
//
// is run through the worker. The oracle is computed from the construction alone (reference mismatch / edit
// distance matcher, reference Hamming / Levenshtein, the sheet as a Go value):
//
//	construction clause  (only when the reference matcher finds the designed priming sites and no other
//	                      site of any primer of the sheet in the read): one record per complete amplicon, in
//	                      order, carrying the barcode forward->reverse, direction, declared primers, matched
//	                      primers, the tags as placed and the sample/experiment of the tag pair under the
//	                      declared mode — or obimultiplex_error and no sample when the tags do not identify
//	                      a sample; a read without complete amplicon comes back alone, flagged.
//	safety clause        (every record of every read, including ambiguous reads and delimiter sheets): a
//	                      record has a sample or an error flag; a record with sample S names a declared marker
//	                      and its extracted tags identify S under the declared mode (exact pair, or unique
//	                      nearest declared tag per side for hamming / indel).
//
// Added by the audit of the check:
//
//	options    the sheets are also demultiplexed under the matching options of the command (-e N,
//	           --with-indels, given to ExtractMultiBarcodeSliceWorker as IExtractBarcode gives them): the
//	           compiled library must carry the overridden budgets / indel flags and every read class above is
//	           re-run against the sheet with those budgets.
//	sheets     per-primer / per-side indels (S8, S9), markers sharing primers (S10: the readers may refuse the
//	           sheet, CheckPrimerUnicity; a sheet they accept is demultiplexed as any other).
//	params     every sequence of one or two (thorough: three) @param lines out of the whole vocabulary of the
//	           CSV format (each name in its global, per-side and per-primer forms) in front of a two-marker
//	           sheet, through both readers: every marker field is what the lines declare, applied in order.
//	history    every ordered pair and triple of a pool of reads of every kind goes through ONE library read
//	           for the occasion (one by one, and as one slice): each read gives exactly the records (sequence
//	           and every annotation) it gives alone on a library of its own.
//
// Order of the visit (added after a deadline-cut run on a loaded machine had finished the first sheets of the
// list only and reported nothing on a change that breaks the per-primer @param forms): breadth first. The
// libraries of every sheet and format, the @param sequences and the reads of every declared sample of every
// sheet (both orientations) come first — a few CPU-seconds; the deep read families and the histories follow,
// visited round-robin over the sheets, so that the internal deadline cuts depth, never whole sheets.
//
// A second test (TestVerifC12CLI) drives IExtractBarcode / CLINGSFIlter with the command's own option
// variables (-t, --keep-errors, -u, and -e / --with-indels against the worker built with the same options)
// and checks the routing of flagged and assigned records.

import (
	"encoding/json"
	"fmt"
	"io"
	"os"
	"path/filepath"
	"runtime"
	"sort"
	"strings"
	"testing"
	"time"

	"git.metabarcoding.org/obitools/obitools4/obitools4/pkg/obiformats"
	"git.metabarcoding.org/obitools/obitools4/obitools4/pkg/obiiter"
	"git.metabarcoding.org/obitools/obitools4/obitools4/pkg/obingslibrary"
	"git.metabarcoding.org/obitools/obitools4/obitools4/pkg/obiseq"
	"git.metabarcoding.org/obitools/obitools4/obitools4/pkg/verifkit"
	log "github.com/sirupsen/logrus"
)

// ---------------------------------------------------------------------------------------------
// sheets as Go values
// ---------------------------------------------------------------------------------------------

type c12Sample struct {
	TagF, TagR string // "" = side not tagged
	Sample     string
	Exp        string
}

type c12Marker struct {
	F, R     string // primers, lower case, IUPAC allowed
	Samples  []c12Sample
	ExtraF   []string // additional tag variants placed on the forward side
	ExtraR   []string
	SingleOK bool // every sample has TagF == TagR: written as a single word in the sheet
}

// c12Sem is the declared meaning of the sheet parameters for one marker.
type c12Sem struct {
	MatchF, MatchR   string
	SpF, SpR         int
	BudF, BudR       int
	IndelF, IndelR   bool
	DelimF, DelimR   byte
	TagIndF, TagIndR int
}

type c12Sheet struct {
	Name       string
	Markers    []c12Marker
	Params     [][]string // CSV @param lines (without the leading "@param")
	Sem        []c12Sem   // per marker
	OldOK      bool       // expressible in the historical format (no parameter)
	Decorated  bool       // CSV written with comments, upper case, spaces after commas, an extra column
	SafetyOnly bool       // delimiter / rescue extraction: safety clause only
	Opt        *c12Opt    // options given to ExtractMultiBarcodeSliceWorker / on the command line (Sem already includes them)
	Shared     bool       // several markers share a primer: the reader may reject the sheet; if it accepts it the clauses apply
	NoEnum     bool       // built on the fly (parameter model): not part of the read enumeration
}

// c12Opt: the options of obimultiplex that change the matching (-e / --allowed-mismatches, --with-indels).
type c12Opt struct {
	E      int  `json:"e"` // < 0: option not given
	Indels bool `json:"indels"`
}

func (o *c12Opt) suffix() string {
	s := ""
	if o.E >= 0 {
		s += fmt.Sprintf("+e%d", o.E)
	}
	if o.Indels {
		s += "+indels"
	}
	return s
}

// c12withOpt derives the sheet as demultiplexed under command line options: -e N sets the budget of every
// primer to N whatever the sheet says, --with-indels allows indels for every primer.
func c12withOpt(sh *c12Sheet, o c12Opt) *c12Sheet {
	d := *sh
	d.Opt = &o
	d.Name = sh.Name + o.suffix()
	d.Sem = append([]c12Sem{}, sh.Sem...)
	for i := range d.Sem {
		if o.E >= 0 {
			d.Sem[i].BudF, d.Sem[i].BudR = o.E, o.E
		}
		if o.Indels {
			d.Sem[i].IndelF, d.Sem[i].IndelR = true, true
		}
	}
	return &d
}

const (
	c12F1 = "ggatcacrtgctaa" // r in the middle
	c12R1 = "ccttaggacatgca"
	c12F2 = "tgcaygtcgatcag"
	c12R2 = "aagtcctgwcatgg"
)

func c12defSem() c12Sem {
	return c12Sem{MatchF: "strict", MatchR: "strict", BudF: 2, BudR: 2}
}

func c12Sheets() []*c12Sheet {
	var out []*c12Sheet
	// S1: one marker, the same tag on both sides written as a single word, every default
	out = append(out, &c12Sheet{Name: "S1-basic", OldOK: true,
		Markers: []c12Marker{{F: c12F1, R: c12R1, SingleOK: true,
			Samples: []c12Sample{{"aacg", "aacg", "s1a", "e1"}, {"aatg", "aatg", "s1b", "e1"}, {"ccta", "ccta", "s1c", "e2"}},
			ExtraF:  []string{"aaag", "gggg", "ccgg"}, ExtraR: []string{"aaag", "gggg", "ccgg"}}},
		Sem: []c12Sem{c12defSem()}})
	// S2: two markers, asymmetric pairs sharing tags, tag lengths 4/4 and 6/5
	out = append(out, &c12Sheet{Name: "S2-two-markers", OldOK: true, Decorated: true,
		Markers: []c12Marker{
			{F: c12F1, R: c12R1,
				Samples: []c12Sample{{"aacg", "ttgc", "s2a", "e1"}, {"aacg", "ggta", "s2b", "e1"}, {"ccat", "ttgc", "s2c", "e1"}},
				ExtraF:  []string{"tgtg"}, ExtraR: []string{"acac"}},
			{F: c12F2, R: c12R2,
				Samples: []c12Sample{{"acgtca", "tgcat", "s2d", "e2"}, {"gatcgt", "catgc", "s2e", "e2"}, {"acgtca", "catgc", "s2f", "e2"}},
				ExtraF:  []string{"ttttgg"}, ExtraR: []string{"ggaaa"}}},
		Sem: []c12Sem{c12defSem(), c12defSem()}})
	// S3: absent forward tag (marker 1), absent reverse tag (marker 2)
	out = append(out, &c12Sheet{Name: "S3-absent-tags", OldOK: true,
		Markers: []c12Marker{
			{F: c12F1, R: c12R1,
				Samples: []c12Sample{{"", "ttgc", "s3a", "e1"}, {"", "ggta", "s3b", "e1"}},
				ExtraR:  []string{"acac"}},
			{F: c12F2, R: c12R2,
				Samples: []c12Sample{{"acgtca", "", "s3c", "e2"}, {"gatcgt", "", "s3d", "e2"}},
				ExtraF:  []string{"ttttgg"}}},
		Sem: []c12Sem{c12defSem(), c12defSem()}})
	// S4: hamming, global spacer 2, no primer mismatch
	s4 := c12defSem()
	s4.MatchF, s4.MatchR, s4.SpF, s4.SpR, s4.BudF, s4.BudR = "hamming", "hamming", 2, 2, 0, 0
	out = append(out, &c12Sheet{Name: "S4-hamming",
		Markers: []c12Marker{{F: c12F1, R: c12R1,
			Samples: []c12Sample{{"aacg", "ttgc", "s4a", "e1"}, {"aatg", "ttgc", "s4b", "e1"}, {"ccta", "ggta", "s4c", "e1"}, {"ccta", "gcta", "s4d", "e1"}},
			ExtraF:  []string{"aaag", "ccgg", "gggg"}, ExtraR: []string{"gtta", "ttga", "aaaa"}}},
		Params: [][]string{{"matching", "hamming"}, {"spacer", "2"}, {"primer_mismatches", "0"}},
		Sem:    []c12Sem{s4}})
	// S5: indel (Levenshtein) tag matching, spacers and budgets per side and per primer
	s5a := c12defSem()
	s5a.MatchF, s5a.MatchR, s5a.SpF, s5a.SpR, s5a.BudF, s5a.BudR = "indel", "indel", 2, 1, 1, 2
	s5b := s5a
	s5b.SpF, s5b.BudR = 0, 0
	out = append(out, &c12Sheet{Name: "S5-levenshtein-per-primer", Decorated: true,
		Markers: []c12Marker{
			{F: c12F1, R: c12R1,
				Samples: []c12Sample{{"aacg", "ttgc", "s5a", "e1"}, {"aatg", "ggta", "s5b", "e1"}, {"ccta", "ggta", "s5c", "e1"}},
				ExtraF:  []string{"aaag", "acga"}, ExtraR: []string{"tgct", "acac"}},
			{F: c12F2, R: c12R2,
				Samples: []c12Sample{{"acgtca", "tgcat", "s5d", "e2"}, {"gatcgt", "catgc", "s5e", "e2"}},
				ExtraF:  []string{"cgtcaa"}, ExtraR: []string{"gcatt"}}},
		Params: [][]string{{"matching", "indel"}, {"reverse_spacer", "1"}, {"spacer", strings.ToUpper(c12F1), "2"},
			{"forward_mismatches", "1"}, {"reverse_mismatches", "2"}, {"primer_mismatches", c12R2, "0"}},
		Sem: []c12Sem{s5a, s5b}})
	// S6: primer matching with indels
	s6 := c12defSem()
	s6.IndelF, s6.IndelR = true, true
	out = append(out, &c12Sheet{Name: "S6-primer-indels",
		Markers: []c12Marker{{F: c12F1, R: c12R1,
			Samples: []c12Sample{{"aacg", "ttgc", "s6a", "e1"}, {"aatg", "ggta", "s6b", "e1"}, {"aacg", "ggta", "s6c", "e1"}},
			ExtraF:  []string{"tgtg"}, ExtraR: []string{"acac"}}},
		Params: [][]string{{"indels", "true"}},
		Sem:    []c12Sem{s6}})
	// S7a / S7b: delimited tags (strict) and rescue extraction (tag indels, Levenshtein) — safety only
	s7 := c12defSem()
	s7.SpF, s7.SpR, s7.DelimF, s7.DelimR = 1, 1, 'a', 'a'
	out = append(out, &c12Sheet{Name: "S7a-delimited", SafetyOnly: true,
		Markers: []c12Marker{{F: c12F1, R: c12R1,
			Samples: []c12Sample{{"cgtc", "tgct", "s7a", "e1"}, {"gtcg", "ctgc", "s7b", "e1"}, {"cgtc", "ctgc", "s7c", "e1"}},
			ExtraF:  []string{"cgc", "cgttc", "tttt", "cgac"}, ExtraR: []string{"tgt", "tggct", "cccc", "tgat"}}},
		Params: [][]string{{"tag_delimiter", "a"}, {"spacer", "1"}},
		Sem:    []c12Sem{s7}})
	s7b := s7
	s7b.SpF, s7b.SpR, s7b.TagIndF, s7b.TagIndR, s7b.MatchF, s7b.MatchR = 2, 2, 1, 1, "indel", "indel"
	out = append(out, &c12Sheet{Name: "S7b-rescue", SafetyOnly: true,
		Markers: []c12Marker{{F: c12F1, R: c12R1,
			Samples: []c12Sample{{"cgtc", "tgct", "s7d", "e1"}, {"gtcg", "ctgc", "s7e", "e1"}, {"cgtc", "ctgc", "s7f", "e1"}},
			ExtraF:  []string{"cgc", "cgttc", "tttt", "cgac"}, ExtraR: []string{"tgt", "tggct", "cccc", "tgat"}}},
		Params: [][]string{{"forward_tag_delimiter", "A"}, {"reverse_tag_delimiter", "a"}, {"spacer", "2"}, {"tag_indels", "1"}, {"matching", "indel"}},
		Sem:    []c12Sem{s7b}})
	// S8: indels for the forward primer only (per-primer form), hamming, forward spacer only, budgets 2 / 1
	s8 := c12defSem()
	s8.MatchF, s8.MatchR, s8.IndelF, s8.SpF, s8.BudR = "hamming", "hamming", true, 1, 1
	out = append(out, &c12Sheet{Name: "S8-forward-indels-hamming",
		Markers: []c12Marker{{F: c12F1, R: c12R1,
			Samples: []c12Sample{{"aacg", "ttgc", "s8a", "e1"}, {"aatg", "ggta", "s8b", "e1"}, {"ccta", "ggta", "s8c", "e1"}},
			ExtraF:  []string{"aaag", "tgtg"}, ExtraR: []string{"gtta", "acac"}}},
		Params: [][]string{{"matching", "hamming"}, {"indels", strings.ToUpper(c12F1), "true"}, {"forward_spacer", "1"}, {"reverse_mismatches", "1"}},
		Sem:    []c12Sem{s8}})
	// S9: two markers, indels for every reverse primer + the forward primer of marker 2 (per side and per
	// primer forms), budget 1, spacer 1 for the reverse primer of marker 1
	s9a := c12defSem()
	s9a.IndelR, s9a.BudF, s9a.BudR, s9a.SpR = true, 1, 1, 1
	s9b := c12defSem()
	s9b.IndelF, s9b.IndelR, s9b.BudF, s9b.BudR = true, true, 1, 1
	out = append(out, &c12Sheet{Name: "S9-reverse-indels-two-markers",
		Markers: []c12Marker{
			{F: c12F1, R: c12R1,
				Samples: []c12Sample{{"aacg", "ttgc", "s9a", "e1"}, {"ccat", "ggta", "s9b", "e1"}},
				ExtraF:  []string{"tgtg"}, ExtraR: []string{"acac"}},
			{F: c12F2, R: c12R2,
				Samples: []c12Sample{{"acgtca", "tgcat", "s9c", "e2"}, {"gatcgt", "catgc", "s9d", "e2"}},
				ExtraF:  []string{"ttttgg"}, ExtraR: []string{"ggaaa"}}},
		Params: [][]string{{"reverse_indels", "true"}, {"indels", c12F2, "true"}, {"primer_mismatches", "1"}, {"spacer", c12R1, "1"}},
		Sem:    []c12Sem{s9a, s9b}})
	// S10: three markers sharing their primers two by two (F1/R1, F1/R2, F2/R1). The readers are allowed to
	// refuse such a sheet (CheckPrimerUnicity); a sheet they accept is demultiplexed as the statement says.
	out = append(out, &c12Sheet{Name: "S10-shared-primers", OldOK: true, Shared: true,
		Markers: []c12Marker{
			{F: c12F1, R: c12R1,
				Samples: []c12Sample{{"aacg", "ttgc", "s10a", "e1"}, {"ccat", "ggta", "s10b", "e1"}},
				ExtraF:  []string{"tgtg"}, ExtraR: []string{"acac"}},
			{F: c12F1, R: c12R2,
				Samples: []c12Sample{{"aacg", "ttgc", "s10c", "e2"}, {"ccat", "ggta", "s10d", "e2"}},
				ExtraF:  []string{"tgtg"}, ExtraR: []string{"acac"}},
			{F: c12F2, R: c12R1,
				Samples: []c12Sample{{"aacg", "ttgc", "s10e", "e3"}, {"ccat", "ggta", "s10f", "e3"}},
				ExtraF:  []string{"tgtg"}, ExtraR: []string{"acac"}}},
		Sem: []c12Sem{c12defSem(), c12defSem(), c12defSem()}})
	// the command line options -e / --with-indels (given to ExtractMultiBarcodeSliceWorker) on top of a sheet
	byName := map[string]*c12Sheet{}
	for _, sh := range out {
		byName[sh.Name] = sh
	}
	for _, v := range c12OptVariants {
		out = append(out, c12withOpt(byName[v.Sheet], v.Opt))
	}
	return out
}

var c12OptVariants = []struct {
	Sheet string
	Opt   c12Opt
}{
	{"S1-basic", c12Opt{E: 0}}, {"S1-basic", c12Opt{E: 1}}, {"S1-basic", c12Opt{E: 3}},
	{"S1-basic", c12Opt{E: -1, Indels: true}}, {"S1-basic", c12Opt{E: 1, Indels: true}},
	{"S2-two-markers", c12Opt{E: 1, Indels: true}},
	{"S4-hamming", c12Opt{E: 2}}, {"S4-hamming", c12Opt{E: -1, Indels: true}},
	{"S5-levenshtein-per-primer", c12Opt{E: 1}},
}

func (m *c12Marker) hasF() bool { return m.Samples[0].TagF != "" }
func (m *c12Marker) hasR() bool { return m.Samples[0].TagR != "" }

func c12tagSpec(m *c12Marker, s c12Sample, upper bool) string {
	f, r := s.TagF, s.TagR
	if upper {
		f, r = strings.ToUpper(f), strings.ToUpper(r)
	}
	if m.SingleOK && s.TagF == s.TagR {
		return f
	}
	if f == "" {
		f = "-"
	}
	if r == "" {
		r = "-"
	}
	return f + ":" + r
}

func (sh *c12Sheet) oldText() string {
	var b strings.Builder
	b.WriteString("# historical ngsfilter format\n")
	for i := range sh.Markers {
		m := &sh.Markers[i]
		for _, s := range m.Samples {
			fmt.Fprintf(&b, "%s\t%s\t%s\t%s\t%s\tF\t@\n", s.Exp, s.Sample, c12tagSpec(m, s, false), strings.ToUpper(m.F), strings.ToUpper(m.R))
		}
	}
	return b.String()
}

func (sh *c12Sheet) csvText() string {
	var b strings.Builder
	sep := ","
	if sh.Decorated {
		b.WriteString("# a comment line\n")
		sep = ", "
	}
	for _, p := range sh.Params {
		b.WriteString("@param," + strings.Join(p, ",") + "\n")
	}
	if sh.Decorated {
		b.WriteString("# PCRs\n")
		b.WriteString("experiment,sample,sample_tag,forward_primer,reverse_primer,position\n")
	} else {
		b.WriteString("experiment,sample,sample_tag,forward_primer,reverse_primer\n")
	}
	n := 0
	for i := range sh.Markers {
		m := &sh.Markers[i]
		for _, s := range m.Samples {
			if sh.Decorated {
				fmt.Fprintf(&b, "%s\n", strings.Join([]string{s.Exp, s.Sample, c12tagSpec(m, s, true), strings.ToUpper(m.F), strings.ToUpper(m.R), fmt.Sprintf("A%d", n)}, sep))
			} else {
				fmt.Fprintf(&b, "%s\n", strings.Join([]string{s.Exp, s.Sample, c12tagSpec(m, s, false), m.F, m.R}, sep))
			}
			n++
		}
	}
	return b.String()
}

func (sh *c12Sheet) formats() []string {
	if sh.Opt != nil {
		return []string{"csv"} // the options act after the sheet is read: one reader is enough
	}
	if sh.Shared {
		return []string{"old", "csv"} // both readers call CheckPrimerUnicity; csv-direct is the reader behind "csv"
	}
	if sh.OldOK {
		return []string{"old", "csv", "csv-direct"}
	}
	return []string{"csv", "csv-direct"}
}

// ---------------------------------------------------------------------------------------------
// reference sequence helpers (IUPAC, reverse complement, matchers, distances)
// ---------------------------------------------------------------------------------------------

var c12iupac = map[byte]string{'a': "a", 'c': "c", 'g': "g", 't': "t", 'r': "ag", 'y': "ct", 'm': "ac", 'k': "gt",
	's': "cg", 'w': "at", 'b': "cgt", 'd': "agt", 'h': "act", 'v': "acg", 'n': "acgt"}
var c12comp = map[byte]byte{'a': 't', 'c': 'g', 'g': 'c', 't': 'a', 'r': 'y', 'y': 'r', 'm': 'k', 'k': 'm',
	's': 's', 'w': 'w', 'b': 'v', 'v': 'b', 'd': 'h', 'h': 'd', 'n': 'n'}

func c12rc(s string) string {
	b := make([]byte, len(s))
	for i := 0; i < len(s); i++ {
		b[len(s)-1-i] = c12comp[s[i]]
	}
	return string(b)
}

var c12mask [256]uint8

func init() {
	bit := map[byte]uint8{'a': 1, 'c': 2, 'g': 4, 't': 8}
	for code, cl := range c12iupac {
		for i := 0; i < len(cl); i++ {
			c12mask[code] |= bit[cl[i]]
		}
	}
}

func c12in(code, base byte) bool {
	return c12mask[code]&c12mask[base] != 0 && c12mask[base]&^c12mask[code] == 0
}

// c12mism counts the positions of text[pos:pos+len(pat)] outside the IUPAC class of pat.
func c12mism(pat, text string, pos int) int {
	n := 0
	for i := 0; i < len(pat); i++ {
		if !c12in(pat[i], text[pos+i]) {
			n++
		}
	}
	return n
}

// c12subSites: every start position where pat occurs with at most budget substitutions.
func c12subSites(pat, text string, budget int) []int {
	var out []int
	for p := 0; p+len(pat) <= len(text); p++ {
		n := 0
		for i := 0; i < len(pat) && n <= budget; i++ {
			if !c12in(pat[i], text[p+i]) {
				n++
			}
		}
		if n <= budget {
			out = append(out, p)
		}
	}
	return out
}

// c12editEnds: every end position j (exclusive) such that some text[s:j] is within edit distance budget of pat
// (Sellers' algorithm, IUPAC aware).
func c12editEnds(pat, text string, budget int) []int {
	m := len(pat)
	prev := make([]int, m+1)
	cur := make([]int, m+1)
	for i := 0; i <= m; i++ {
		prev[i] = i
	}
	var out []int
	for j := 1; j <= len(text); j++ {
		cur[0] = 0
		for i := 1; i <= m; i++ {
			c := 1
			if c12in(pat[i-1], text[j-1]) {
				c = 0
			}
			v := prev[i-1] + c
			if prev[i]+1 < v {
				v = prev[i] + 1
			}
			if cur[i-1]+1 < v {
				v = cur[i-1] + 1
			}
			cur[i] = v
		}
		if cur[m] <= budget {
			out = append(out, j)
		}
		prev, cur = cur, prev
	}
	return out
}

func c12hamming(a, b string) (int, bool) {
	if len(a) != len(b) {
		return 0, false
	}
	n := 0
	for i := range a {
		if a[i] != b[i] {
			n++
		}
	}
	return n, true
}

func c12lev(a, b string) int {
	d := make([][]int, len(a)+1)
	for i := range d {
		d[i] = make([]int, len(b)+1)
		d[i][0] = i
	}
	for j := 0; j <= len(b); j++ {
		d[0][j] = j
	}
	for i := 1; i <= len(a); i++ {
		for j := 1; j <= len(b); j++ {
			c := 1
			if a[i-1] == b[j-1] {
				c = 0
			}
			v := d[i-1][j-1] + c
			if d[i-1][j]+1 < v {
				v = d[i-1][j] + 1
			}
			if d[i][j-1]+1 < v {
				v = d[i][j-1] + 1
			}
			d[i][j] = v
		}
	}
	return d[len(a)][len(b)]
}

// c12resolve: the declared tag designated by an extracted tag under a matching mode.
func c12resolve(mode, tag string, declared []string, has bool) (string, bool) {
	if !has {
		return "", true
	}
	if tag == "" {
		return "", false
	}
	switch mode {
	case "strict":
		return tag, true
	case "hamming", "indel":
		best, bestTag, ties := -1, "", 0
		for _, t := range declared {
			var d int
			if mode == "hamming" {
				var ok bool
				d, ok = c12hamming(t, tag)
				if !ok {
					return "", false // Hamming distance undefined: identifies nothing
				}
			} else {
				d = c12lev(t, tag)
			}
			if best < 0 || d < best {
				best, bestTag, ties = d, t, 1
			} else if d == best {
				ties++
			}
		}
		if ties == 1 {
			return bestTag, true
		}
	}
	return "", false
}

func c12distinct(m *c12Marker, fwd bool) []string {
	seen := map[string]bool{}
	var out []string
	for _, s := range m.Samples {
		t := s.TagR
		if fwd {
			t = s.TagF
		}
		if t != "" && !seen[t] {
			seen[t] = true
			out = append(out, t)
		}
	}
	return out
}

// c12identify: the sample identified by a pair of extracted tags, from the sheet alone.
func c12identify(m *c12Marker, sem c12Sem, tf, tr string) (c12Sample, bool) {
	pf, ok := c12resolve(sem.MatchF, tf, c12distinct(m, true), m.hasF())
	if !ok {
		return c12Sample{}, false
	}
	pr, ok := c12resolve(sem.MatchR, tr, c12distinct(m, false), m.hasR())
	if !ok {
		return c12Sample{}, false
	}
	for _, s := range m.Samples {
		if s.TagF == pf && s.TagR == pr {
			return s, true
		}
	}
	return c12Sample{}, false
}

// ---------------------------------------------------------------------------------------------
// cases
// ---------------------------------------------------------------------------------------------

type c12Amp struct {
	M    int    `json:"m"`
	TagF string `json:"tf"`
	TagR string `json:"tr"`
	PF   string `json:"pf"` // forward primer as placed (primer orientation)
	PR   string `json:"pr"` // reverse primer as placed (primer orientation)
	BC   string `json:"bc"`
	Rev  bool   `json:"rev"`
}

type c12Case struct {
	Class  string   `json:"class"`
	Sheet  string   `json:"sheet"`
	Format string   `json:"format"`
	Left   string   `json:"left"`
	Right  string   `json:"right"`
	Joints []string `json:"joints,omitempty"`
	Amps   []c12Amp `json:"amps"`
	Cut    bool     `json:"cut,omitempty"`
	From   int      `json:"from,omitempty"`
	To     int      `json:"to,omitempty"`
	// class "history": the reads of Hist go one after the other (OneSlice: in one call) through ONE library
	// read for the occasion; every read must give what it gives alone on a library of its own
	Hist     []c12Case `json:"hist,omitempty"`
	OneSlice bool      `json:"one_slice,omitempty"`
	// class "params": the @param lines put in front of the two-marker base sheet
	Params [][]string `json:"params,omitempty"`
}

func c12filler(n int, delim byte, pre bool) string {
	if delim != 0 {
		return strings.Repeat(string(delim), n)
	}
	if pre {
		return ""
	}
	return "ctctctct"[:n]
}

type c12site struct {
	kind string // F, cR, R, cF
	m    int
	pos  int
	n    int
}

type c12built struct {
	read  string
	spans [][2]int  // core span of every amplicon in the (cut) read; may lie outside after a cut
	sites []c12site // designed priming sites (positions in the cut read)
}

func c12build(sh *c12Sheet, c *c12Case) c12built {
	var b c12built
	var sb strings.Builder
	sb.WriteString(c.Left)
	for i, a := range c.Amps {
		if i > 0 {
			j := ""
			if i-1 < len(c.Joints) {
				j = c.Joints[i-1]
			}
			sb.WriteString(j)
		}
		m := &sh.Markers[a.M]
		sem := sh.Sem[a.M]
		left, right := "", ""
		if m.hasF() {
			left = c12filler(sem.SpF, sem.DelimF, true) + a.TagF + c12filler(sem.SpF, sem.DelimF, false)
		}
		if m.hasR() {
			right = c12filler(sem.SpR, sem.DelimR, true) + a.TagR + c12filler(sem.SpR, sem.DelimR, false)
		}
		core := left + a.PF + a.BC + c12rc(a.PR) + c12rc(right)
		pf := len(left)
		pr := pf + len(a.PF) + len(a.BC)
		start := sb.Len()
		if !a.Rev {
			b.sites = append(b.sites, c12site{"F", a.M, start + pf, len(a.PF)}, c12site{"cR", a.M, start + pr, len(a.PR)})
			sb.WriteString(core)
		} else {
			b.sites = append(b.sites, c12site{"R", a.M, start + len(core) - pr - len(a.PR), len(a.PR)},
				c12site{"cF", a.M, start + len(core) - pf - len(a.PF), len(a.PF)})
			sb.WriteString(c12rc(core))
		}
		b.spans = append(b.spans, [2]int{start, sb.Len()})
	}
	sb.WriteString(c.Right)
	b.read = sb.String()
	if c.Cut {
		from, to := c.From, c.To
		if from < 0 {
			from = 0
		}
		if to > len(b.read) {
			to = len(b.read)
		}
		if from > to {
			from = to
		}
		b.read = b.read[from:to]
		for i := range b.spans {
			b.spans[i][0] -= from
			b.spans[i][1] -= from
		}
		for i := range b.sites {
			b.sites[i].pos -= from
		}
	}
	return b
}

// ---------------------------------------------------------------------------------------------
// harness state
// ---------------------------------------------------------------------------------------------

type c12exit struct{}

type c12H struct {
	r      *verifkit.Result
	sheets map[string]*c12Sheet
	libs   map[string]obiseq.SeqSliceWorker
	nrun   int
	// records of a read alone on a fresh library, per sheet|format|read (nil: unusable)
	aloneCache map[string][]string
}

func (h *c12H) worker(sh *c12Sheet, format string) obiseq.SeqSliceWorker {
	key := sh.Name + "|" + format
	if w, ok := h.libs[key]; ok {
		return w
	}
	w := h.build(sh, format, true)
	h.libs[key] = w
	return w
}

// build reads the sheet with the real reader and compiles a worker on a library of its own. report: the
// parsed and compiled library is compared with the declared parameters (done once per sheet and format; the
// libraries of the history class are built silently).
func (h *c12H) build(sh *c12Sheet, format string, report bool) obiseq.SeqSliceWorker {
	var lib *obingslibrary.NGSLibrary
	var err error
	fatal := func() (msg string) {
		defer func() {
			if x := recover(); x != nil {
				msg = fmt.Sprint("panic/fatal: ", x)
			}
		}()
		switch format {
		case "old":
			lib, err = obiformats.ReadNGSFilter(strings.NewReader(sh.oldText()))
		case "csv":
			lib, err = obiformats.ReadNGSFilter(strings.NewReader(sh.csvText()))
		case "csv-direct":
			lib, err = obiformats.ReadCSVNGSFilter(strings.NewReader(sh.csvText()))
		}
		return ""
	}()
	site := "ReadNGSFilter"
	if format == "csv-direct" {
		site = "ReadCSVNGSFilter"
	}
	site += "/" + format
	if fatal != "" || err != nil || lib == nil {
		if sh.Shared {
			if report {
				h.r.Count("sheet_refused:shared-primers", 1) // a legitimate answer to such a sheet
			}
			return nil
		}
		if report {
			h.r.Violate(site+"/rejects-valid-sheet", fmt.Sprintf("sheet %s (%s): %v %v\n%s", sh.Name, format, fatal, err, sh.csvText()), nil)
		}
		return nil
	}
	var opts []obingslibrary.WithOption
	if sh.Opt != nil {
		// as IExtractBarcode passes them
		opts = append(opts, obingslibrary.OptionAllowedMismatches(sh.Opt.E), obingslibrary.OptionAllowedIndel(sh.Opt.Indels))
		site = "ExtractMultiBarcodeSliceWorker/option:" + strings.TrimPrefix(sh.Opt.suffix(), "+")
	}
	var w obiseq.SeqSliceWorker
	func() {
		defer func() {
			if x := recover(); x != nil {
				if report {
					h.r.Violate("ExtractMultiBarcodeSliceWorker/panic", fmt.Sprintf("sheet %s (%s): %v", sh.Name, format, x), nil)
				}
				w = nil
			}
		}()
		w = lib.ExtractMultiBarcodeSliceWorker(opts...)
	}()
	if w == nil {
		return nil
	}
	// the parsed and compiled library must carry the declared markers and parameters
	diffs := c12diffFields(lib, sh)
	wrong := len(diffs)
	if report {
		for _, d := range diffs {
			h.r.Violate(site+"/wrong-"+d.field, fmt.Sprintf("sheet %s (%s): marker %d: %s = %v, declared %v\n%s", sh.Name, format, d.mi, d.field, d.got, d.want, sh.csvText()), c12replayOf(sh, format))
		}
	}
	if report {
		h.r.Count("libraries_built", 1)
	}
	if wrong > 0 && (sh.Opt != nil || sh.NoEnum) {
		// the option / parameter did not reach the library: that is the report; demultiplexing with another
		// configuration than the declared one would only repeat it under many keys
		return nil
	}
	return w
}

type c12fieldDiff struct {
	mi        int
	field     string
	got, want any
}

// c12diffFields compares the parsed and compiled library with the sheet as a Go value.
func c12diffFields(lib *obingslibrary.NGSLibrary, sh *c12Sheet) (diffs []c12fieldDiff) {
	if len(lib.Markers) != len(sh.Markers) {
		diffs = append(diffs, c12fieldDiff{-1, "marker-count", len(lib.Markers), len(sh.Markers)})
	}
	for i := range sh.Markers {
		m := &sh.Markers[i]
		sem := sh.Sem[i]
		mk, ok := lib.Markers[obingslibrary.PrimerPair{Forward: m.F, Reverse: m.R}]
		if !ok {
			diffs = append(diffs, c12fieldDiff{i, "marker-missing", "absent", m.F + "/" + m.R})
			continue
		}
		chk := func(field string, got, want any) {
			if got != want {
				diffs = append(diffs, c12fieldDiff{i, field, got, want})
			}
		}
		chk("forward-tag-length", mk.Forward_tag_length, len(m.Samples[0].TagF))
		chk("reverse-tag-length", mk.Reverse_tag_length, len(m.Samples[0].TagR))
		chk("forward-spacer", mk.Forward_spacer, sem.SpF)
		chk("reverse-spacer", mk.Reverse_spacer, sem.SpR)
		chk("forward-mismatches", mk.Forward_error, sem.BudF)
		chk("reverse-mismatches", mk.Reverse_error, sem.BudR)
		chk("forward-indels", mk.Forward_allows_indels, sem.IndelF)
		chk("reverse-indels", mk.Reverse_allows_indels, sem.IndelR)
		chk("forward-matching", mk.Forward_matching, sem.MatchF)
		chk("reverse-matching", mk.Reverse_matching, sem.MatchR)
		chk("forward-tag-delimiter", mk.Forward_tag_delimiter, sem.DelimF)
		chk("reverse-tag-delimiter", mk.Reverse_tag_delimiter, sem.DelimR)
		chk("forward-tag-indels", mk.Forward_tag_indels, sem.TagIndF)
		chk("reverse-tag-indels", mk.Reverse_tag_indels, sem.TagIndR)
	}
	return
}

// c12replayOf: a replayable case that rebuilds the library of a sheet (class "library").
func c12replayOf(sh *c12Sheet, format string) *c12Case {
	if sh.NoEnum {
		return &c12Case{Class: "params", Format: format, Params: sh.Params}
	}
	return &c12Case{Class: "library", Sheet: sh.Name, Format: format}
}

func c12ann(s *obiseq.BioSequence, key string) (string, bool) {
	if s == nil || !s.HasAnnotation() {
		return "", false
	}
	v, ok := s.Annotations()[key]
	if !ok {
		return "", false
	}
	return fmt.Sprint(v), true
}

// c12clean: the reference matcher finds in the read exactly the designed in-budget priming sites.
// ambiguous = some designed in-budget site lies on a primer matched with indels whose first or last
// position is substituted (substitution and indel alignments tie: location not defined).
func c12clean(sh *c12Sheet, b *c12built) (clean bool, complete []bool, ambiguous bool, valid []bool) {
	// sites are identified by the pattern they match (not by the marker): markers may share a primer
	type k struct {
		pat string
		pos int
	}
	designed := map[k]bool{}
	valid = make([]bool, len(b.sites))
	pat := func(kind string, m *c12Marker) string {
		switch kind {
		case "F":
			return m.F
		case "cF":
			return c12rc(m.F)
		case "R":
			return m.R
		}
		return c12rc(m.R)
	}
	budget := func(kind string, sem c12Sem) (int, bool) {
		if kind == "F" || kind == "cF" {
			return sem.BudF, sem.IndelF
		}
		return sem.BudR, sem.IndelR
	}
	for i, s := range b.sites {
		if s.pos < 0 || s.pos+s.n > len(b.read) {
			continue
		}
		m := &sh.Markers[s.m]
		bud, ind := budget(s.kind, sh.Sem[s.m])
		p := pat(s.kind, m)
		if c12mism(p, b.read, s.pos) <= bud {
			valid[i] = true
			designed[k{p, s.pos}] = true
			if ind && (!c12in(p[0], b.read[s.pos]) || !c12in(p[len(p)-1], b.read[s.pos+s.n-1])) {
				ambiguous = true
			}
		}
	}
	clean = true
	for mi := range sh.Markers {
		m := &sh.Markers[mi]
		for _, kind := range []string{"F", "cR", "R", "cF"} {
			bud, ind := budget(kind, sh.Sem[mi])
			p := pat(kind, m)
			if !ind {
				found := c12subSites(p, b.read, bud)
				n := 0
				for _, pos := range found {
					if !designed[k{p, pos}] {
						clean = false
					}
					n++
				}
				for d := range designed {
					if d.pat == p {
						n--
					}
				}
				if n != 0 {
					clean = false
				}
			} else {
				for _, e := range c12editEnds(p, b.read, bud) {
					near := false
					for d := range designed {
						if d.pat == p {
							de := d.pos + len(p)
							if e >= de-bud && e <= de+bud {
								near = true
							}
						}
					}
					if !near {
						clean = false
					}
				}
			}
		}
	}
	complete = make([]bool, len(b.spans))
	for i := range b.spans {
		complete[i] = valid[2*i] && valid[2*i+1]
	}
	return
}

func (h *c12H) violate(key, msg string, sh *c12Sheet, c *c12Case, read string, out obiseq.BioSequenceSlice) {
	var sb strings.Builder
	fmt.Fprintf(&sb, "%s | sheet %s (%s) read=%s | output:", msg, sh.Name, c.Format, read)
	for _, o := range out {
		fmt.Fprintf(&sb, " [%s %v]", o.String(), o.Annotations())
	}
	d := sb.String()
	if len(d) > 1800 {
		d = d[:1800] + "..."
	}
	h.r.Violate(key, d, c)
}

// eval runs one case on the implementation and applies both clauses.
func (h *c12H) eval(c *c12Case) {
	switch c.Class {
	case "history":
		h.evalHistory(c)
		return
	case "params":
		h.evalParams(c)
		return
	}
	sh := h.sheets[c.Sheet]
	if sh == nil {
		panic("unknown sheet " + c.Sheet)
	}
	w := h.worker(sh, c.Format)
	if w == nil || c.Class == "library" {
		return
	}
	h.evalOn(c, w)
}

// c12canon: a record as a comparable string (sequence and every annotation).
func c12canon(o *obiseq.BioSequence) string {
	if o == nil {
		return "<nil record>"
	}
	return fmt.Sprintf("%s %v", o.String(), o.Annotations())
}

// evalOn runs the read of one case through the given worker, applies both clauses and returns the records
// in canonical form (ok = the worker answered).
func (h *c12H) evalOn(c *c12Case, w obiseq.SeqSliceWorker) (canon []string, ok bool) {
	sh := h.sheets[c.Sheet]
	b := c12build(sh, c)
	if len(b.read) == 0 {
		return nil, false
	}
	h.nrun++
	if h.nrun%20000 == 0 {
		runtime.GC() // the C side of ApatSequence is released by finalizers only
	}
	h.r.Eval(1)
	h.r.State(c.Sheet + "|" + b.read)

	var out obiseq.BioSequenceSlice
	var err error
	crashed := ""
	func() {
		defer func() {
			if x := recover(); x != nil {
				crashed = c12crashText(x)
			}
		}()
		out, err = w(obiseq.BioSequenceSlice{obiseq.NewBioSequence("read", []byte(b.read), "")})
	}()
	if crashed != "" || err != nil {
		h.crash(sh, c, b.read, crashed, err)
		return nil, false
	}
	h.r.Trans(int64(len(out)))
	if len(out) == 0 {
		h.violate("ExtractMultiBarcode/read-lost", "no record at all comes back", sh, c, b.read, out)
		return nil, false
	}
	for _, o := range out {
		if o == nil {
			h.violate("ExtractMultiBarcode/nil-record", fmt.Sprintf("a nil record among the %d returned", len(out)), sh, c, b.read, nil)
			return nil, false
		}
	}
	for _, o := range out {
		canon = append(canon, c12canon(o))
	}
	h.judge(sh, c, &b, out)
	return canon, true
}

func c12crashText(x any) string {
	switch e := x.(type) {
	case *log.Entry:
		return "log.Panic: " + e.Message
	case c12exit:
		return "c12exit: log.Fatal called"
	}
	return fmt.Sprint(x)
}

func (h *c12H) crash(sh *c12Sheet, c *c12Case, read, crashed string, err error) {
	msg := fmt.Sprintf("%s %v", crashed, err)
	class := "other"
	switch {
	case strings.Contains(msg, "must be shorter than sequence"):
		class = "LocatePattern-window-not-longer-than-primer"
	case strings.Contains(msg, "out of range") || strings.Contains(msg, "out of bounds"):
		class = "index-out-of-range"
	case strings.Contains(msg, "c12exit"):
		class = "log.Fatal"
	}
	h.violate("ExtractMultiBarcode/panic:"+class, "the read makes the worker panic / exit instead of being returned: "+msg, sh, c, read, nil)
}

// judge applies the safety clause to every record and the construction clause where it applies.
func (h *c12H) judge(sh *c12Sheet, c *c12Case, bp *c12built, out obiseq.BioSequenceSlice) {
	b := *bp
	// ---- safety clause, every record ----
	for _, o := range out {
		s, hasS := c12ann(o, "sample")
		_, hasE := c12ann(o, "obimultiplex_error")
		if !hasS && !hasE {
			h.violate("ExtractMultiBarcode/safety/neither-sample-nor-error", "record without sample and without obimultiplex_error", sh, c, b.read, out)
			continue
		}
		if hasS && hasE {
			h.r.Count("records_with_sample_and_error", 1)
		}
		if !hasS {
			h.r.Count("records_flagged", 1)
			continue
		}
		h.r.Count("records_assigned", 1)
		pf, _ := c12ann(o, "obimultiplex_forward_primer")
		pr, _ := c12ann(o, "obimultiplex_reverse_primer")
		mi := -1
		for i := range sh.Markers {
			if sh.Markers[i].F == pf && sh.Markers[i].R == pr {
				mi = i
			}
		}
		if mi < 0 {
			h.violate("ExtractMultiBarcode/safety/sample-without-declared-marker", "sample "+s+" on a record naming no declared primer pair", sh, c, b.read, out)
			continue
		}
		ft, _ := c12ann(o, "obimultiplex_forward_tag")
		rt, _ := c12ann(o, "obimultiplex_reverse_tag")
		sem := sh.Sem[mi]
		want, ok := c12identify(&sh.Markers[mi], sem, ft, rt)
		if !ok || want.Sample != s {
			h.violate(fmt.Sprintf("ExtractMultiBarcode/safety/unjustified-sample:%s-%s", sem.MatchF, sem.MatchR),
				fmt.Sprintf("sample %s assigned but extracted tags (%q,%q) identify %q (identified=%v)", s, ft, rt, want.Sample, ok), sh, c, b.read, out)
		}
	}

	// ---- construction clause ----
	if sh.SafetyOnly {
		h.r.Count("safety_only:delimited-tags", 1)
		return
	}
	clean, complete, ambiguous, valid := c12clean(sh, &b)
	if !clean {
		h.r.Count("safety_only:unplanned-priming-site", 1)
		return
	}
	// a priming site of an incomplete amplicon that could pair with another site of the read (same marker,
	// same strand, right order) makes the read a different, legitimate amplicon: not constrained here
	for i, s := range b.sites {
		if !valid[i] || complete[i/2] {
			continue
		}
		partner := map[string]string{"F": "cR", "R": "cF", "cR": "F", "cF": "R"}[s.kind]
		opener := s.kind == "F" || s.kind == "R"
		for j, t := range b.sites {
			if j != i && valid[j] && t.m == s.m && t.kind == partner && ((opener && t.pos > s.pos) || (!opener && t.pos < s.pos)) {
				h.r.Count("safety_only:lone-site-with-possible-partner", 1)
				return
			}
		}
	}
	if ambiguous {
		h.r.Count("safety_only:indel-primer-edge-substitution", 1)
		return
	}
	type exp struct {
		a   c12Amp
		idx int
	}
	var want []exp
	damaged := false
	for i, a := range c.Amps {
		if !complete[i] {
			continue
		}
		if b.spans[i][0] < 0 || b.spans[i][1] > len(b.read) {
			damaged = true // primers present but a tag / spacer is cut away
			continue
		}
		if a.BC == "" {
			h.r.Count("safety_only:empty-barcode", 1)
			return
		}
		want = append(want, exp{a, i})
	}
	pfx := "ExtractMultiBarcode/" + c.Class
	if sh.Shared {
		pfx += ":shared-primers"
	}
	indelSfx := ""
	for _, s := range sh.Sem {
		if s.IndelF || s.IndelR {
			indelSfx = ":primer-indels"
		}
	}
	if damaged {
		// tags cut away: nothing identifies a sample
		h.r.Count("construction:tag-cut-away", 1)
		for _, o := range out {
			if s, ok := c12ann(o, "sample"); ok {
				h.violate(pfx+"/sample-assigned-without-complete-tags"+indelSfx, "sample "+s+" although a tag of the amplicon is cut away", sh, c, b.read, out)
			}
		}
		return
	}
	if len(want) == 0 {
		h.r.Count("construction:no-complete-amplicon", 1)
		if len(out) != 1 || out[0].String() != b.read {
			h.violate(pfx+"/no-amplicon/read-not-returned"+indelSfx, "read without complete amplicon must come back alone", sh, c, b.read, out)
			return
		}
		if _, ok := c12ann(out[0], "sample"); ok {
			h.violate(pfx+"/no-amplicon/sample-assigned"+indelSfx, "sample assigned without amplicon", sh, c, b.read, out)
		}
		if _, ok := c12ann(out[0], "obimultiplex_error"); !ok {
			h.violate(pfx+"/no-amplicon/not-flagged"+indelSfx, "no obimultiplex_error", sh, c, b.read, out)
		}
		return
	}
	h.r.Count("construction:amplicons-demanded", int64(len(want)))
	if len(out) != len(want) {
		k := "/missing-record"
		if len(out) > len(want) {
			k = "/extra-record"
		}
		if len(out) == 1 {
			if _, ok := c12ann(out[0], "obimultiplex_amplicon_rank"); !ok {
				k = "/amplicon-not-found"
			}
		}
		h.violate(pfx+k+indelSfx, fmt.Sprintf("%d complete amplicon(s) in the read, %d record(s) returned", len(want), len(out)), sh, c, b.read, out)
		return
	}
	for i, e := range want {
		o := out[i]
		a := e.a
		m := &sh.Markers[a.M]
		sem := sh.Sem[a.M]
		or := "fwd"
		dir := "forward"
		if a.Rev {
			or, dir = "rev", "reverse"
		}
		key := func(what string) string { return pfx + "/" + or + "/" + what + indelSfx }
		fail := func(what, msg string) {
			h.violate(key(what), fmt.Sprintf("amplicon %d: %s", e.idx, msg), sh, c, b.read, out)
		}
		if _, ok := c12ann(o, "obimultiplex_amplicon_rank"); !ok {
			fail("amplicon-not-found", "record is the unprocessed read")
			continue
		}
		if o.String() != a.BC {
			fail("wrong-barcode", fmt.Sprintf("barcode %s, expected %s", o.String(), a.BC))
			continue
		}
		if v, _ := c12ann(o, "obimultiplex_direction"); v != dir {
			fail("wrong-direction", fmt.Sprintf("direction %q, expected %q", v, dir))
			continue
		}
		if v, _ := c12ann(o, "obimultiplex_forward_primer"); v != m.F {
			fail("wrong-forward-primer", fmt.Sprintf("forward primer %q, expected %q", v, m.F))
			continue
		}
		if v, _ := c12ann(o, "obimultiplex_reverse_primer"); v != m.R {
			fail("wrong-reverse-primer", fmt.Sprintf("reverse primer %q, expected %q", v, m.R))
			continue
		}
		if v, _ := c12ann(o, "obimultiplex_forward_match"); v != a.PF {
			fail("wrong-forward-match", fmt.Sprintf("forward match %q, expected %q", v, a.PF))
			continue
		}
		if v, _ := c12ann(o, "obimultiplex_reverse_match"); v != a.PR {
			fail("wrong-reverse-match", fmt.Sprintf("reverse match %q, expected %q", v, a.PR))
			continue
		}
		wtf, wtr := a.TagF, a.TagR
		if !m.hasF() {
			wtf = ""
		}
		if !m.hasR() {
			wtr = ""
		}
		if v, _ := c12ann(o, "obimultiplex_forward_tag"); v != wtf {
			fail("wrong-forward-tag", fmt.Sprintf("forward tag %q, expected %q", v, wtf))
			continue
		}
		if v, _ := c12ann(o, "obimultiplex_reverse_tag"); v != wtr {
			fail("wrong-reverse-tag", fmt.Sprintf("reverse tag %q, expected %q", v, wtr))
			continue
		}
		for k, nm := range map[string]int{"obimultiplex_forward_error": c12mism(m.F, a.PF, 0), "obimultiplex_reverse_error": c12mism(m.R, a.PR, 0)} {
			if v, _ := c12ann(o, k); v != fmt.Sprint(nm) {
				h.r.Count("info:"+k+"-differs-from-substitution-count", 1)
			}
		}
		ws, ok := c12identify(m, sem, wtf, wtr)
		gs, hasS := c12ann(o, "sample")
		_, hasE := c12ann(o, "obimultiplex_error")
		mode := ":" + sem.MatchF + "-" + sem.MatchR
		if ok {
			h.r.Count("construction:sample-expected", 1)
			switch {
			case !hasS:
				fail("sample-not-assigned"+mode, fmt.Sprintf("tags (%s,%s) identify %s, no sample assigned", wtf, wtr, ws.Sample))
			case gs != ws.Sample:
				fail("wrong-sample"+mode, fmt.Sprintf("tags (%s,%s) identify %s, sample %s assigned", wtf, wtr, ws.Sample, gs))
			case hasE:
				fail("error-flag-on-identified-sample"+mode, "sample assigned and obimultiplex_error set")
			default:
				if v, _ := c12ann(o, "experiment"); v != ws.Exp {
					fail("wrong-experiment"+mode, fmt.Sprintf("experiment %q, expected %q", v, ws.Exp))
				}
			}
		} else {
			h.r.Count("construction:error-expected", 1)
			if hasS {
				fail("unexpected-sample"+mode, fmt.Sprintf("tags (%s,%s) identify no sample, sample %s assigned", wtf, wtr, gs))
			} else if !hasE {
				fail("not-flagged"+mode, "no sample and no obimultiplex_error")
			}
		}
	}
}

// ---------------------------------------------------------------------------------------------
// enumeration
// ---------------------------------------------------------------------------------------------

func c12inst(p string, alt bool) string {
	b := []byte(p)
	for i := range b {
		cl := c12iupac[b[i]]
		if alt {
			b[i] = cl[len(cl)-1]
		} else {
			b[i] = cl[0]
		}
	}
	return string(b)
}

// c12primerVariants: the primer with 0..min(3,budget+1) substitutions at {first, middle, last}, plus the
// other member of every IUPAC class without substitution.
func c12primerVariants(p string, budget int) []string {
	base := c12inst(p, false)
	pos := []int{0, len(p) / 2, len(p) - 1}
	if budget >= 3 {
		pos = append(pos, 3) // a budget of 3 needs 4 substitutions to be exceeded
	}
	seen := map[string]bool{}
	var out []string
	add := func(s string) {
		if !seen[s] {
			seen[s] = true
			out = append(out, s)
		}
	}
	for mask := 0; mask < 1<<len(pos); mask++ {
		n := 0
		b := []byte(base)
		for k := 0; k < len(pos); k++ {
			if mask&(1<<k) != 0 {
				n++
				for _, x := range "acgt" {
					if !c12in(p[pos[k]], byte(x)) {
						b[pos[k]] = byte(x)
						break
					}
				}
			}
		}
		if n <= budget+1 {
			add(string(b))
		}
	}
	add(c12inst(p, true))
	return out
}

func c12tagVariants(declared, extras []string, all bool) []string {
	if len(declared) == 0 {
		return []string{""}
	}
	seen := map[string]bool{}
	var out []string
	add := func(s string) {
		if !seen[s] {
			seen[s] = true
			out = append(out, s)
		}
	}
	for _, t := range declared {
		add(t)
	}
	for _, t := range declared {
		for i := 0; i < len(t); i++ {
			if !all && i != 0 && i != len(t)-1 {
				continue
			}
			for k, x := range "acgt" {
				if byte(x) == t[i] {
					continue
				}
				if !all && "acgt"[(strings.IndexByte("acgt", t[i])+1)%4] != byte(x) {
					continue
				}
				_ = k
				add(t[:i] + string(x) + t[i+1:])
			}
		}
	}
	for _, t := range extras {
		add(t)
	}
	return out
}

var c12barcodes = []string{"ctgaatcgtt", "gtcatacctgca", ""}
var c12lefts = []string{"", "tat"}
var c12rights = []string{"", "gga"}

// c12sched orders the work items of one shard. Every item gets its number k in the fixed enumeration order
// (that number alone decides the shard), but the items of a shard are VISITED round-robin over their groups
// (one group per sheet and format and read class): a run cut by the internal deadline has then gone equally
// deep into every sheet instead of having finished the first sheets of the list and never opened the others.
type c12sched struct {
	h      *c12H
	k      int
	names  []string
	groups map[string][]func()
}

func (s *c12sched) add(group string, f func()) {
	mine := s.h.r.Mine(s.k)
	s.k++
	if !mine {
		return
	}
	if _, ok := s.groups[group]; !ok {
		s.names = append(s.names, group)
	}
	s.groups[group] = append(s.groups[group], f)
}

// run visits item 0 of every group, then item 1 of every group, ... (false: the deadline cut the visit).
func (s *c12sched) run() bool {
	for round := 0; ; round++ {
		any := false
		for _, g := range s.names {
			items := s.groups[g]
			if round >= len(items) {
				continue
			}
			any = true
			if s.h.r.Expired() {
				return false
			}
			items[round]()
			items[round] = nil
		}
		if !any {
			s.names, s.groups = nil, map[string][]func(){}
			return true
		}
	}
}

func (h *c12H) sheetNames() []string {
	names := make([]string, 0, len(h.sheets))
	for n := range h.sheets {
		names = append(names, n)
	}
	sort.Strings(names)
	return names
}

// enumerate: breadth first. Phase 1 (a few CPU-seconds, in front of everything so that no deadline on a loaded
// machine can cut it): every library is read and compiled and its fields compared with the sheet, every
// sequence of @param lines is compared with its declared meaning, and the read of EVERY declared sample of
// every sheet and format (exact primers, every barcode, with and without flanks, both orientations) is
// demultiplexed. Phase 2: the deep read families and the histories, round-robin over the sheets.
func (h *c12H) enumerate() {
	sc := &c12sched{h: h, groups: map[string][]func(){}}
	h.enumLibraries(sc)
	h.enumParams(sc)
	h.enumDeclared(sc)
	if !sc.run() {
		return
	}
	h.enumReads(sc)
	h.enumHistories(sc)
	sc.run()
}

// enumLibraries: every (sheet, format) is read and compiled, the library fields are compared with the sheet.
func (h *c12H) enumLibraries(sc *c12sched) {
	for _, name := range h.sheetNames() {
		sh := h.sheets[name]
		for _, format := range sh.formats() {
			sc.add("library", func() {
				h.r.Count("front:libraries", 1)
				h.eval(&c12Case{Class: "library", Sheet: sh.Name, Format: format})
			})
		}
	}
}

// enumDeclared: the reads the first sentence of the statement is about, for every sample of every sheet.
func (h *c12H) enumDeclared(sc *c12sched) {
	for _, name := range h.sheetNames() {
		sh := h.sheets[name]
		for _, format := range sh.formats() {
			for mi := range sh.Markers {
				m := &sh.Markers[mi]
				for _, smp := range m.Samples {
					sc.add("declared", func() {
						for _, bc := range c12barcodes {
							for fl := range c12lefts {
								for _, rev := range []bool{false, true} {
									h.r.Count("front:declared_reads", 1)
									h.eval(&c12Case{Class: "single", Sheet: sh.Name, Format: format, Left: c12lefts[fl], Right: c12rights[fl],
										Amps: []c12Amp{{M: mi, TagF: smp.TagF, TagR: smp.TagR, PF: c12inst(m.F, false), PR: c12inst(m.R, false), BC: bc, Rev: rev}}})
								}
							}
						}
					})
				}
			}
		}
	}
}

func (h *c12H) enumReads(sc *c12sched) {
	thorough := verifkit.Thorough()
	for _, name := range h.sheetNames() {
		sh := h.sheets[name]
		for _, format := range sh.formats() {
			group := "reads:" + sh.Name + "|" + format
			reduced := format == "csv-direct" && !thorough // same reader behind the MIME detection
			// ---- single amplicon reads ----
			for mi := range sh.Markers {
				m := &sh.Markers[mi]
				sem := sh.Sem[mi]
				// every 1-substitution neighbour of the tags: thorough tier, sheets as written (the command options
				// and the shared primers are about the primers, they keep the quick tag family)
				allTags := thorough && !reduced && sh.Opt == nil && !sh.Shared
				tfs := c12tagVariants(c12distinct(m, true), m.ExtraF, allTags)
				trs := c12tagVariants(c12distinct(m, false), m.ExtraR, allTags)
				pfs := c12primerVariants(m.F, sem.BudF)
				prs := c12primerVariants(m.R, sem.BudR)
				if reduced {
					pfs, prs = pfs[:2], prs[:2]
				}
				for _, tf := range tfs {
					for _, pf := range pfs {
						sc.add(group, func() {
							for _, tr := range trs {
								for _, pr := range prs {
									for _, bc := range c12barcodes {
										for _, l := range c12lefts {
											for _, rg := range c12rights {
												for _, rev := range []bool{false, true} {
													h.eval(&c12Case{Class: "single", Sheet: sh.Name, Format: format, Left: l, Right: rg,
														Amps: []c12Amp{{M: mi, TagF: tf, TagR: tr, PF: pf, PR: pr, BC: bc, Rev: rev}}})
												}
											}
										}
									}
								}
							}
						})
					}
				}
			}
			if format == "csv-direct" {
				continue
			}
			// ---- chimeras: pairs and triples over a pool ----
			// (not for shared primers: a lone site of one marker may pair with a site of the marker sharing the primer)
			if !sh.Shared {
				var pool []c12Amp
				for mi := range sh.Markers {
					m := &sh.Markers[mi]
					sem := sh.Sem[mi]
					pfs := c12primerVariants(m.F, sem.BudF)
					prs := c12primerVariants(m.R, sem.BudR)
					s0, s1 := m.Samples[0], m.Samples[len(m.Samples)-1]
					badF, badR := pfs[len(pfs)-2], prs[len(prs)-2] // budget+1 substitutions
					okF, okR := pfs[0], prs[0]
					if sem.BudF > 0 {
						okF = pfs[2] // middle position substituted
					}
					if sem.BudR > 0 {
						okR = prs[2]
					}
					unkF, unkR := "", ""
					if m.hasF() {
						unkF = m.ExtraF[len(m.ExtraF)-1]
					}
					if m.hasR() {
						unkR = m.ExtraR[len(m.ExtraR)-1]
					}
					cand := []c12Amp{
						{M: mi, TagF: s0.TagF, TagR: s0.TagR, PF: pfs[0], PR: prs[0], BC: c12barcodes[0]},
						{M: mi, TagF: s1.TagF, TagR: s1.TagR, PF: okF, PR: okR, BC: c12barcodes[1]},
						{M: mi, TagF: unkF, TagR: unkR, PF: pfs[0], PR: prs[0], BC: c12barcodes[0]},
						{M: mi, TagF: s0.TagF, TagR: s0.TagR, PF: badF, PR: prs[0], BC: c12barcodes[1]},
						{M: mi, TagF: s1.TagF, TagR: s1.TagR, PF: pfs[0], PR: badR, BC: c12barcodes[0]},
					}
					for _, a := range cand {
						pool = append(pool, a)
						a.Rev = true
						pool = append(pool, a)
					}
				}
				joints := []string{"", "ttt"}
				for i1, a1 := range pool {
					for i2, a2 := range pool {
						sc.add(group, func() {
							for _, j := range joints {
								for fl := 0; fl < 2; fl++ {
									h.eval(&c12Case{Class: "chimera", Sheet: sh.Name, Format: format, Left: c12lefts[fl], Right: c12rights[fl],
										Joints: []string{j}, Amps: []c12Amp{a1, a2}})
								}
							}
							if len(pool) > 10 && !thorough && (i1%2 != i2%2) {
								return // quick tier, two markers: triples only from same-parity pool entries
							}
							for _, a3 := range pool {
								for _, j := range joints {
									if j != "" && !thorough {
										continue
									}
									h.eval(&c12Case{Class: "chimera", Sheet: sh.Name, Format: format, Left: "", Right: "",
										Joints: []string{j, j}, Amps: []c12Amp{a1, a2, a3}})
								}
							}
						})
					}
				}
			}
			// ---- truncated reads ----
			for mi := range sh.Markers {
				m := &sh.Markers[mi]
				s0 := m.Samples[0]
				for _, rev := range []bool{false, true} {
					base := c12Case{Class: "truncated", Sheet: sh.Name, Format: format, Left: "tat", Right: "gga",
						Amps: []c12Amp{{M: mi, TagF: s0.TagF, TagR: s0.TagR, PF: c12inst(m.F, false), PR: c12inst(m.R, false), BC: c12barcodes[0], Rev: rev}}}
					n := len(c12build(sh, &base).read)
					for from := 0; from < n; from++ {
						sc.add(group, func() {
							for to := from + 1; to <= n; to++ {
								if !thorough && from != 0 && to != n && to-from > 18 {
									continue // quick tier: every prefix, every suffix, every sub-string of at most 18 nt
								}
								c := base
								c.Cut, c.From, c.To = true, from, to
								h.eval(&c)
							}
						})
					}
				}
			}
		}
	}
}

// ---------------------------------------------------------------------------------------------
// histories: what a read gives does not depend on the reads the library has seen before
// ---------------------------------------------------------------------------------------------

// c12histPool: reads of every kind for one sheet (assigned in both orientations, undeclared pair of declared
// tags, unknown tags, tag at one substitution, tie / extra tag, primer beyond budget, empty barcode, chimera,
// read shorter than a primer, read without site).
func c12histPool(sh *c12Sheet, format string) []c12Case {
	var pool []c12Case
	mk := func(class, l, r string, amps ...c12Amp) c12Case {
		c := c12Case{Class: class, Sheet: sh.Name, Format: format, Left: l, Right: r, Amps: amps}
		if len(amps) > 1 {
			c.Joints = []string{"ttt", "ttt"}[:len(amps)-1]
		}
		return c
	}
	for mi := range sh.Markers {
		m := &sh.Markers[mi]
		sem := sh.Sem[mi]
		pfs := c12primerVariants(m.F, sem.BudF)
		prs := c12primerVariants(m.R, sem.BudR)
		s0, s1 := m.Samples[0], m.Samples[len(m.Samples)-1]
		badF := pfs[len(pfs)-2]
		okF, okR := pfs[0], prs[0]
		if sem.BudF > 0 {
			okF = pfs[2]
		}
		if sem.BudR > 0 {
			okR = prs[2]
		}
		unkF, unkR, tieF, nearF := "", "", "", ""
		if m.hasF() {
			unkF, tieF = m.ExtraF[len(m.ExtraF)-1], m.ExtraF[0]
			nearF = c12tagVariants(c12distinct(m, true), nil, false)[len(c12distinct(m, true))]
		}
		if m.hasR() {
			unkR = m.ExtraR[len(m.ExtraR)-1]
		}
		// a pair of declared tags that is not a declared pair (else the unknown pair again)
		undF, undR := unkF, unkR
	search:
		for _, f := range c12distinct(m, true) {
			for _, r := range c12distinct(m, false) {
				declared := false
				for _, smp := range m.Samples {
					if smp.TagF == f && smp.TagR == r {
						declared = true
					}
				}
				if !declared {
					undF, undR = f, r
					break search
				}
			}
		}
		good := c12Amp{M: mi, TagF: s0.TagF, TagR: s0.TagR, PF: pfs[0], PR: prs[0], BC: c12barcodes[0]}
		unk := c12Amp{M: mi, TagF: unkF, TagR: unkR, PF: pfs[0], PR: prs[0], BC: c12barcodes[0]}
		pool = append(pool,
			mk("single", "tat", "gga", good),
			mk("single", "", "", c12Amp{M: mi, TagF: s1.TagF, TagR: s1.TagR, PF: okF, PR: okR, BC: c12barcodes[1], Rev: true}),
			mk("single", "tat", "", unk),
			mk("single", "", "gga", c12Amp{M: mi, TagF: undF, TagR: undR, PF: pfs[0], PR: prs[0], BC: c12barcodes[1], Rev: true}),
			mk("single", "tat", "gga", c12Amp{M: mi, TagF: nearF, TagR: s0.TagR, PF: pfs[0], PR: okR, BC: c12barcodes[0], Rev: true}),
			mk("single", "tat", "gga", c12Amp{M: mi, TagF: tieF, TagR: s1.TagR, PF: okF, PR: prs[0], BC: c12barcodes[1]}),
			mk("single", "tat", "gga", c12Amp{M: mi, TagF: s0.TagF, TagR: s0.TagR, PF: badF, PR: prs[0], BC: c12barcodes[1]}),
			mk("single", "tat", "gga", c12Amp{M: mi, TagF: s1.TagF, TagR: s1.TagR, PF: pfs[0], PR: prs[0], BC: ""}),
			mk("chimera", "", "", good, unk),
		)
		// 12 nt: two bases then the first ten of the forward primer (a read shorter than the primers)
		short := mk("truncated", "tat", "gga", good)
		at := c12build(sh, &short).sites[0].pos
		short.Cut, short.From, short.To = true, max(at-2, 0), at+10
		pool = append(pool, short)
	}
	// no priming site at all: the 20 nt flank of a read cut before its amplicon
	nosite := mk("truncated", "acgtacgtacgtaaccggtt", "", c12Amp{M: 0, TagF: sh.Markers[0].Samples[0].TagF, TagR: sh.Markers[0].Samples[0].TagR,
		PF: c12inst(sh.Markers[0].F, false), PR: c12inst(sh.Markers[0].R, false), BC: c12barcodes[0]})
	nosite.Cut, nosite.From, nosite.To = true, 0, 20
	pool = append(pool, nosite)
	return pool
}

func (h *c12H) enumHistories(sc *c12sched) {
	thorough := verifkit.Thorough()
	names := make([]string, 0, len(h.sheets))
	for n, sh := range h.sheets {
		if !sh.Shared && (sh.Opt == nil || n == "S1-basic+e1+indels") {
			names = append(names, n)
		}
	}
	sort.Strings(names)
	for _, name := range names {
		sh := h.sheets[name]
		formats := []string{"csv"}
		if thorough && sh.OldOK && sh.Opt == nil {
			formats = []string{"old", "csv"}
		}
		for _, format := range formats {
			group := "history:" + sh.Name + "|" + format
			pool := c12histPool(sh, format)
			for i1 := range pool {
				for i2 := -1; i2 < len(pool); i2++ {
					sc.add(group, func() {
						if i2 < 0 {
							h.eval(&c12Case{Class: "history", Sheet: sh.Name, Format: format, Hist: []c12Case{pool[i1]}})
							return
						}
						for _, one := range []bool{false, true} {
							h.eval(&c12Case{Class: "history", Sheet: sh.Name, Format: format, OneSlice: one, Hist: []c12Case{pool[i1], pool[i2]}})
						}
						if len(sh.Markers) > 1 && !thorough && i1 != i2 && pool[i1].Amps[0].M == pool[i2].Amps[0].M {
							return // quick tier, two markers: triples start with two reads of different markers or twice the same read
						}
						for i3 := range pool {
							h.eval(&c12Case{Class: "history", Sheet: sh.Name, Format: format, Hist: []c12Case{pool[i1], pool[i2], pool[i3]}})
						}
					})
				}
			}
		}
	}
}

// alone: the records of a read on a library that has seen nothing else (computed on two libraries: a read
// whose result is not even reproducible alone is left out and counted).
func (h *c12H) alone(sh *c12Sheet, c *c12Case) ([]string, bool) {
	b := c12build(sh, c)
	key := sh.Name + "|" + c.Format + "|" + b.read
	if v, ok := h.aloneCache[key]; ok {
		return v, v != nil
	}
	var ref []string
	for try := 0; try < 2; try++ {
		w := h.build(sh, c.Format, false)
		if w == nil {
			h.aloneCache[key] = nil
			return nil, false
		}
		got, ok := h.evalOn(c, w)
		if !ok {
			h.aloneCache[key] = nil
			return nil, false
		}
		if try == 0 {
			ref = got
		} else if strings.Join(ref, "\n") != strings.Join(got, "\n") {
			h.r.Count("history:read-not-reproducible-alone", 1)
			h.aloneCache[key] = nil
			return nil, false
		}
	}
	h.aloneCache[key] = ref
	return ref, true
}

// c12recDiff names what differs between two record lists.
func c12recDiff(got, want []string) string {
	if len(got) != len(want) {
		return "record-count"
	}
	for i := range got {
		if got[i] == want[i] {
			continue
		}
		gs, ws := strings.SplitN(got[i], " ", 2), strings.SplitN(want[i], " ", 2)
		if gs[0] != ws[0] {
			return "sequence"
		}
		// annotations are printed as map[k:v k:v ...] with sorted keys: name the first key that differs
		gf, wf := strings.Fields(strings.TrimSuffix(strings.TrimPrefix(gs[1], "map["), "]")), strings.Fields(strings.TrimSuffix(strings.TrimPrefix(ws[1], "map["), "]"))
		for j := 0; j < len(gf) || j < len(wf); j++ {
			g, w := "", ""
			if j < len(gf) {
				g = gf[j]
			}
			if j < len(wf) {
				w = wf[j]
			}
			if g != w {
				name := g
				if w != "" && (g == "" || w < g) {
					name = w
				}
				if !strings.Contains(name, ":") {
					return "annotation"
				}
				return "annotation:" + name[:strings.Index(name, ":")]
			}
		}
		return "annotation"
	}
	return "nothing"
}

func (h *c12H) evalHistory(c *c12Case) {
	sh := h.sheets[c.Sheet]
	if sh == nil {
		panic("unknown sheet " + c.Sheet)
	}
	h.r.Count("histories", 1) // histories submitted (what the implementation answers does not enter)
	if h.worker(sh, c.Format) == nil { // reports a sheet that cannot be read, once
		return
	}
	refs := make([][]string, len(c.Hist))
	for i := range c.Hist {
		c.Hist[i].Sheet, c.Hist[i].Format = c.Sheet, c.Format
		ref, ok := h.alone(sh, &c.Hist[i])
		if !ok {
			return
		}
		refs[i] = ref
	}
	w := h.build(sh, c.Format, false)
	if w == nil {
		return
	}
	h.r.Count("histories_run", 1)
	desc := func(i int, got, want []string) string {
		var reads []string
		for j := range c.Hist {
			reads = append(reads, c12build(sh, &c.Hist[j]).read)
		}
		d := fmt.Sprintf("sheet %s (%s): read %d of the history %v gives %v; alone on a library of its own it gives %v", sh.Name, c.Format, i, reads, got, want)
		if len(d) > 2400 {
			d = d[:2400] + "..."
		}
		return d
	}
	if c.OneSlice {
		var in obiseq.BioSequenceSlice
		var want []string
		for i := range c.Hist {
			in = append(in, obiseq.NewBioSequence("read", []byte(c12build(sh, &c.Hist[i]).read), ""))
			want = append(want, refs[i]...)
		}
		var out obiseq.BioSequenceSlice
		var err error
		crashed := ""
		func() {
			defer func() {
				if x := recover(); x != nil {
					crashed = c12crashText(x)
				}
			}()
			out, err = w(in)
		}()
		h.r.Eval(1)
		h.r.Trans(int64(len(out)))
		if crashed != "" || err != nil {
			h.r.Violate("ExtractMultiBarcodeSliceWorker/slice-of-reads/panic", desc(-1, []string{crashed, fmt.Sprint(err)}, want), c)
			return
		}
		var got []string
		for _, o := range out {
			got = append(got, c12canon(o))
		}
		if d := c12recDiff(got, want); d != "nothing" {
			h.r.Violate("ExtractMultiBarcodeSliceWorker/slice-of-reads/differs-from-reads-one-by-one:"+d, desc(-1, got, want), c)
		}
		return
	}
	for i := range c.Hist {
		got, ok := h.evalOn(&c.Hist[i], w)
		if !ok {
			return
		}
		if i == 0 {
			continue // first read of a fresh library: that is the reference situation
		}
		if d := c12recDiff(got, refs[i]); d != "nothing" {
			h.r.Count("history:dependent", 1)
			h.r.Violate("ExtractMultiBarcode/history/result-depends-on-previous-reads:"+d, desc(i, got, refs[i]), c)
			return
		}
	}
}

// ---------------------------------------------------------------------------------------------
// the @param lines of the CSV format against their declared meaning
// ---------------------------------------------------------------------------------------------

// c12paramVocabulary: every parameter name of the CSV format in each of its forms (global, per side, per
// primer) with values that differ from the defaults and from each other.
func c12paramVocabulary() [][]string {
	return [][]string{
		{"spacer", "2"}, {"forward_spacer", "1"}, {"reverse_spacer", "3"}, {"spacer", strings.ToUpper(c12F1), "4"}, {"spacer", c12R2, "5"},
		{"tag_delimiter", "a"}, {"forward_tag_delimiter", "C"}, {"reverse_tag_delimiter", "g"}, {"tag_delimiter", c12F2, "t"}, {"tag_delimiter", strings.ToUpper(c12R1), "c"}, {"tag_delimiter", "0"},
		{"matching", "hamming"}, {"matching", "indel"}, {"matching", "strict"},
		{"primer_mismatches", "1"}, {"forward_mismatches", "0"}, {"reverse_mismatches", "3"}, {"primer_mismatches", c12F1, "3"}, {"primer_mismatches", strings.ToUpper(c12R2), "0"},
		{"tag_indels", "1"}, {"forward_tag_indels", "2"}, {"reverse_tag_indels", "3"}, {"tag_indels", c12F2, "4"}, {"tag_indels", c12R1, "5"}, {"tag_indels", "0"},
		{"indels", "true"}, {"indels", "false"}, {"forward_indels", "true"}, {"reverse_indels", "true"}, {"forward_indels", "false"}, {"reverse_indels", "false"},
		{"indels", c12F1, "true"}, {"indels", strings.ToUpper(c12R2), "true"}, {"indels", c12F2, "false"},
	}
}

// c12applyParam: the declared meaning of one @param line; touched lists the (marker, field) it sets.
func c12applyParam(markers []c12Marker, sem []c12Sem, line []string) (touched map[string]bool) {
	touched = map[string]bool{}
	name, vals := line[0], line[1:]
	atoi := func(s string) int {
		n := 0
		fmt.Sscanf(s, "%d", &n)
		return n
	}
	delim := func(s string) byte {
		d := strings.ToLower(s)[0]
		if d == '0' {
			return 0
		}
		return d
	}
	// sides: which (marker, forward?) the line is about
	type side struct {
		mi  int
		fwd bool
	}
	var sides []side
	all := func(fwd, rev bool) {
		for i := range markers {
			if fwd {
				sides = append(sides, side{i, true})
			}
			if rev {
				sides = append(sides, side{i, false})
			}
		}
	}
	value := vals[len(vals)-1]
	switch {
	case strings.HasPrefix(name, "forward_"):
		all(true, false)
		name = strings.TrimPrefix(name, "forward_")
	case strings.HasPrefix(name, "reverse_"):
		all(false, true)
		name = strings.TrimPrefix(name, "reverse_")
	case len(vals) == 2:
		pr := strings.ToLower(vals[0])
		for i := range markers {
			if markers[i].F == pr {
				sides = append(sides, side{i, true})
			}
			if markers[i].R == pr {
				sides = append(sides, side{i, false})
			}
		}
	default:
		all(true, true)
	}
	for _, sd := range sides {
		s := &sem[sd.mi]
		set := func(field string) { touched[fmt.Sprintf("%d/%s", sd.mi, field)] = true }
		dir := "reverse"
		if sd.fwd {
			dir = "forward"
		}
		switch name {
		case "spacer":
			if sd.fwd {
				s.SpF = atoi(value)
			} else {
				s.SpR = atoi(value)
			}
			set(dir + "-spacer")
		case "tag_delimiter":
			if sd.fwd {
				s.DelimF = delim(value)
			} else {
				s.DelimR = delim(value)
			}
			set(dir + "-tag-delimiter")
		case "matching":
			if sd.fwd {
				s.MatchF = value
			} else {
				s.MatchR = value
			}
			set(dir + "-matching")
		case "primer_mismatches", "mismatches":
			if sd.fwd {
				s.BudF = atoi(value)
			} else {
				s.BudR = atoi(value)
			}
			set(dir + "-mismatches")
		case "tag_indels":
			if sd.fwd {
				s.TagIndF = atoi(value)
			} else {
				s.TagIndR = atoi(value)
			}
			set(dir + "-tag-indels")
		case "indels":
			if sd.fwd {
				s.IndelF = value == "true"
			} else {
				s.IndelR = value == "true"
			}
			set(dir + "-indels")
		default:
			panic("c12applyParam: unknown parameter " + name)
		}
	}
	return
}

func c12paramName(line []string) string {
	if len(line) == 3 {
		return line[0] + "(primer)"
	}
	return line[0]
}

func (h *c12H) enumParams(sc *c12sched) {
	voc := c12paramVocabulary()
	maxn := 2
	if verifkit.Thorough() {
		maxn = 3
	}
	for _, format := range []string{"csv", "csv-direct"} {
		var rec func(seq [][]string)
		rec = func(seq [][]string) {
			if len(seq) > 0 {
				h.eval(&c12Case{Class: "params", Format: format, Params: seq})
			}
			if len(seq) == maxn {
				return
			}
			for _, l := range voc {
				rec(append(append([][]string{}, seq...), l))
			}
		}
		for _, l := range voc {
			sc.add("params:"+format, func() { rec([][]string{l}) })
		}
	}
}

// c12paramRun reads and compiles the two-marker base sheet with the given @param lines in front and compares
// every marker field with what the lines declare, applied in order.
func (h *c12H) c12paramRun(format string, lines [][]string) (sh *c12Sheet, diffs []c12fieldDiff, failed string) {
	base := h.sheets["S2-two-markers"]
	sh = &c12Sheet{Name: "params", Markers: base.Markers, Params: lines, NoEnum: true,
		Sem: []c12Sem{c12defSem(), c12defSem()}}
	for _, l := range lines {
		c12applyParam(sh.Markers, sh.Sem, l)
	}
	var lib *obingslibrary.NGSLibrary
	var err error
	func() {
		defer func() {
			if x := recover(); x != nil {
				failed = c12crashText(x)
			}
		}()
		if format == "csv-direct" {
			lib, err = obiformats.ReadCSVNGSFilter(strings.NewReader(sh.csvText()))
		} else {
			lib, err = obiformats.ReadNGSFilter(strings.NewReader(sh.csvText()))
		}
		if err == nil && lib != nil {
			lib.ExtractMultiBarcodeSliceWorker()
		}
	}()
	if failed == "" && (err != nil || lib == nil) {
		failed = fmt.Sprint("error: ", err)
	}
	if failed != "" {
		return
	}
	diffs = c12diffFields(lib, sh)
	return
}

// evalParams: a sequence of @param lines; a wrong field is attributed to the line after which it first shows.
func (h *c12H) evalParams(c *c12Case) {
	h.r.Eval(1)
	h.r.Trans(int64(len(c.Params)))
	h.r.Count("param_sheets", 1)
	_, diffs, failed := h.c12paramRun(c.Format, c.Params)
	if failed == "" && len(diffs) == 0 {
		return
	}
	site := "ReadNGSFilter/csv"
	if c.Format == "csv-direct" {
		site = "ReadCSVNGSFilter/csv-direct"
	}
	for n := 1; n <= len(c.Params); n++ {
		sh, diffs, failed := h.c12paramRun(c.Format, c.Params[:n])
		if failed == "" && len(diffs) == 0 {
			continue
		}
		names := ""
		for _, l := range c.Params[:n] {
			names += " @param," + strings.Join(l, ",")
		}
		culprit := c12paramName(c.Params[n-1])
		if failed != "" {
			h.r.Violate(site+"/param:"+culprit+"/rejects-valid-sheet", fmt.Sprintf("lines%s: %s", names, failed), c)
			return
		}
		for _, d := range diffs {
			h.r.Violate(site+"/param:"+culprit+"/wrong-"+d.field,
				fmt.Sprintf("lines%s: marker %d (%s/%s): %s = %v, declared %v", names, d.mi, sh.Markers[max(d.mi, 0)].F, sh.Markers[max(d.mi, 0)].R, d.field, d.got, d.want), c)
		}
		return
	}
}

func TestVerifC12(t *testing.T) {
	log.SetOutput(io.Discard)
	log.StandardLogger().ExitFunc = func(int) { panic(c12exit{}) }
	r := verifkit.New("C12")
	defer r.Write()
	h := &c12H{r: r, sheets: map[string]*c12Sheet{}, libs: map[string]obiseq.SeqSliceWorker{}, aloneCache: map[string][]string{}}
	for _, s := range c12Sheets() {
		h.sheets[s.Name] = s
	}
	if rc := r.ReplayCase(); rc != nil {
		var c c12Case
		if err := json.Unmarshal(rc, &c); err != nil {
			t.Fatal(err)
		}
		if c.Class == "cli" {
			t.Skip("CLI case: replay with part 1")
		}
		h.eval(&c)
		return
	}
	r.Bound("sheets", "S1 basic | S2 two markers asymmetric 4/4 6/5 | S3 absent tags | S4 hamming spacer 2 budget 0 | S5 levenshtein per-primer spacer/budget | S6 primer indels | S7a delimited | S7b rescue")
	r.Bound("formats", "old (where expressible), csv through ReadNGSFilter, csv through ReadCSVNGSFilter")
	r.Bound("flanks", "{'', 3 nt} on each side")
	r.Bound("barcodes", c12barcodes)
	r.Bound("primer_substitutions", "subsets of {first, middle, last} of size <= budget+1, one IUPAC alternative")
	if verifkit.Thorough() {
		r.Bound("tag_variants", "declared + every 1-substitution neighbour + tie / unknown extras (option and shared-primer sheets: neighbours at first and last position)")
	} else {
		r.Bound("tag_variants", "declared + 1-substitution neighbours at first and last position (one base) + tie / unknown extras")
	}
	r.Bound("chimeras", "ordered pairs and triples over 10 amplicons per marker")
	r.Bound("options", "-e {0,1,3} / --with-indels / -e 1 --with-indels on S1; -e 1 --with-indels on S2; -e 2, --with-indels on S4; -e 1 on S5")
	r.Bound("extra_sheets", "S8 forward-primer indels + hamming | S9 reverse indels, two markers | S10 three markers sharing primers (single and truncated reads)")
	r.Bound("histories", "ordered pairs (one by one and as one slice) and triples of 10 reads per marker + 1 without site, fresh library per history")
	r.Bound("visit_order", "breadth first: libraries, @param sequences, declared reads of every sheet; then deep read families and histories round-robin over (sheet, format)")
	r.Bound("param_lines", fmt.Sprintf("sequences of <= %d lines out of %d forms, 2 readers", map[bool]int{false: 2, true: 3}[verifkit.Thorough()], len(c12paramVocabulary())))
	r.RequireNonVacuous("histories")
	r.RequireNonVacuous("param_sheets")
	r.RequireNonVacuous("front:libraries")
	r.RequireNonVacuous("front:declared_reads")
	r.RequireNonVacuous("construction:sample-expected")
	r.RequireNonVacuous("construction:error-expected")
	// (records_assigned counts what the implementation answers: a counter, not a guard)
	h.enumerate()
	r.Sample(c12Case{Class: "single", Sheet: "S4-hamming", Format: "csv", Left: "tat", Right: "gga",
		Amps: []c12Amp{{M: 0, TagF: "aaag", TagR: "ttgc", PF: c12inst(c12F1, false), PR: c12R1, BC: c12barcodes[0], Rev: true}}})
}

// ---------------------------------------------------------------------------------------------
// part 2: the command's own wiring (options -t, --keep-errors, -u)
// ---------------------------------------------------------------------------------------------

type c12CLICase struct {
	Class  string   `json:"class"` // "cli"
	Sheet  string   `json:"sheet"`
	Format string   `json:"format"`
	Keep   bool     `json:"keep"`
	Unid   bool     `json:"unidentified"`
	Reads  []string `json:"reads"`
	Opt    *c12Opt  `json:"opt,omitempty"` // -e N / --with-indels
}

func c12drain(it obiiter.IBioSequence) obiseq.BioSequenceSlice {
	var out obiseq.BioSequenceSlice
	for it.Next() {
		out = append(out, it.Get().Slice()...)
	}
	return out
}

func c12sig(s *obiseq.BioSequence) string {
	if s == nil {
		return "<nil record>" // never expected: shows as a wrong record, not as a crash of the harness
	}
	smp, _ := c12ann(s, "sample")
	_, e := c12ann(s, "obimultiplex_error")
	return fmt.Sprintf("%s|%s|%v", s.String(), smp, e)
}

func (h *c12H) evalCLI(dir string, c *c12CLICase) {
	sh := h.sheets[c.Sheet]
	text := sh.csvText()
	if c.Format == "old" {
		text = sh.oldText()
	}
	sheetFile := filepath.Join(dir, "sheet.txt")
	if err := os.WriteFile(sheetFile, []byte(text), 0o644); err != nil {
		panic(err)
	}
	h.nrun++
	unid := filepath.Join(dir, fmt.Sprintf("unidentified%d.fasta", h.nrun))
	mk := func() obiseq.BioSequenceSlice {
		var s obiseq.BioSequenceSlice
		for i, rd := range c.Reads {
			s = append(s, obiseq.NewBioSequence(fmt.Sprintf("read%d", i), []byte(rd), ""))
		}
		return s
	}
	// reference: the worker itself (checked by part 0) on the same reads; with -e / --with-indels the worker
	// built with the same options (part 0 checks it against the sheet with the overridden budgets)
	ref0 := sh
	if c.Opt != nil {
		ref0 = h.sheets[sh.Name+c.Opt.suffix()]
		if ref0 == nil {
			ref0 = c12withOpt(sh, *c.Opt)
			h.sheets[ref0.Name] = ref0
		}
	}
	h.r.Count("cli_commands", 1) // command lines submitted
	w := h.worker(ref0, c.Format)
	if w == nil {
		return // the sheet is refused: reported once by worker()
	}
	var ref obiseq.BioSequenceSlice
	var err error
	refCrash := ""
	func() {
		defer func() {
			if x := recover(); x != nil {
				refCrash = c12crashText(x)
			}
		}()
		ref, err = w(mk())
	}()
	if refCrash != "" || err != nil {
		// the control run (the worker itself on the same reads, judged by part 0) fails: a verdict on the tree;
		// the comparison that needs it is skipped
		h.r.Violate("IExtractBarcode/control-run/worker-fails", fmt.Sprintf("sheet %s (%s) reads=%v: the worker alone: %s %v", c.Sheet, c.Format, c.Reads, refCrash, err), c)
		return
	}
	var wantOut, wantUnid []string
	for _, s := range ref {
		_, flagged := c12ann(s, "obimultiplex_error")
		switch {
		case !flagged:
			wantOut = append(wantOut, c12sig(s))
		case c.Unid:
			wantUnid = append(wantUnid, c12sig(s))
		case c.Keep:
			wantOut = append(wantOut, c12sig(s))
		}
	}
	_NGSFilterFile = sheetFile
	_ConservedError = c.Keep
	_UnidentifiedFile = ""
	if c.Unid {
		_UnidentifiedFile = unid
	}
	_AllowedMismatch = -1
	_AllowsIndel = false
	if c.Opt != nil {
		_AllowedMismatch, _AllowsIndel = c.Opt.E, c.Opt.Indels
	}

	var got obiseq.BioSequenceSlice
	crashed := ""
	func() {
		defer func() {
			if x := recover(); x != nil {
				crashed = fmt.Sprint(x)
			}
		}()
		out, err := IExtractBarcode(obiiter.IBatchOver("c12", mk(), 3))
		if err != nil {
			crashed = err.Error()
			return
		}
		got = c12drain(out)
		obiiter.WaitForLastPipe()
	}()
	h.r.Eval(1)
	h.r.Trans(int64(len(c.Reads)))
	desc := func(msg string) string {
		o := ""
		if c.Opt != nil {
			o = " options " + c.Opt.suffix()
		}
		return fmt.Sprintf("%s | sheet %s (%s) keep-errors=%v unidentified=%v%s reads=%v", msg, c.Sheet, c.Format, c.Keep, c.Unid, o, c.Reads)
	}
	if crashed != "" {
		h.r.Violate("IExtractBarcode/panic-or-fatal", desc(crashed), c)
		return
	}
	var gotOut []string
	for _, s := range got {
		gotOut = append(gotOut, c12sig(s))
	}
	sort.Strings(gotOut)
	sort.Strings(wantOut)
	opt := "default"
	if c.Unid {
		opt = "unidentified"
	} else if c.Keep {
		opt = "keep-errors"
	}
	if c.Opt != nil {
		opt += ":" + strings.TrimPrefix(c.Opt.suffix(), "+")
	}
	if strings.Join(gotOut, "\n") != strings.Join(wantOut, "\n") {
		h.r.Violate("IExtractBarcode/"+opt+"/wrong-output-records", desc(fmt.Sprintf("output %v, expected %v", gotOut, wantOut)), c)
	}
	h.r.Count("cli_records_out", int64(len(gotOut)))
	if c.Unid {
		// the file is written by a goroutine the command never joins explicitly: wait for it (the wait is
		// not an oracle, only the final content is)
		sort.Strings(wantUnid)
		var gotUnid []string
		for try := 0; try < 4000; try++ { // the goroutine reads the option variable when it starts
			if _, err := os.Stat(unid); err == nil {
				break
			}
			time.Sleep(5 * time.Millisecond)
		}
		for try := 0; try < 400; try++ {
			gotUnid = gotUnid[:0]
			obiiter.WaitForLastPipe()
			f, err := os.Open(unid)
			if err == nil {
				func() { // the reader is code of the tree under test: a panic / log.Fatal on what the command wrote = an unreadable file
					defer func() {
						if x := recover(); x != nil {
							gotUnid = append(gotUnid[:0], "<file not readable: "+c12crashText(x)+">")
						}
					}()
					it, err2 := obiformats.ReadFasta(f)
					if err2 == nil {
						for _, s := range c12drain(it) {
							gotUnid = append(gotUnid, c12sig(s))
						}
					}
				}()
				f.Close()
			}
			sort.Strings(gotUnid)
			if strings.Join(gotUnid, "\n") == strings.Join(wantUnid, "\n") {
				break
			}
			time.Sleep(5 * time.Millisecond)
		}
		h.r.Count("cli_records_unidentified", int64(len(gotUnid)))
		if strings.Join(gotUnid, "\n") != strings.Join(wantUnid, "\n") {
			h.r.Violate("IExtractBarcode/unidentified/wrong-file-records", desc(fmt.Sprintf("file %v, expected %v", gotUnid, wantUnid)), c)
		}
	}
}

// c12GoID: number of the calling goroutine (first line of its stack: "goroutine 17 [running]:").
func c12GoID() string {
	b := make([]byte, 64)
	f := strings.Fields(string(b[:runtime.Stack(b, false)]))
	if len(f) > 1 {
		return f[1]
	}
	return "?"
}

// c12net: a log.Fatal* or log.Panic* raised in a goroutine the implementation started (the workers of the
// command's pipeline) cannot be caught by any guard of the harness and ends the process: the tree under test does
// that, not the harness. It is recorded as a violation, the shard writes what it has found and stops there. In the
// goroutine of the harness nothing changes (the panic that follows is caught by the guards around the calls).
type c12net struct {
	r       *verifkit.Result
	harness string
}

func (n c12net) Levels() []log.Level { return []log.Level{log.PanicLevel} }

func (n c12net) Fire(e *log.Entry) error {
	n.end("log.Panic", e.Message)
	return nil
}

func (n c12net) end(what, msg string) {
	if c12GoID() == n.harness {
		return
	}
	stack := make([]byte, 3000)
	stack = stack[:runtime.Stack(stack, false)]
	n.r.Violate("IExtractBarcode/"+what+"-in-a-goroutine-of-the-pipeline", fmt.Sprintf("%s %q in a goroutine started by the implementation; the shard stops here\n%s", what, msg, stack), nil)
	n.r.Cap("a log.Fatal / log.Panic in a goroutine of the implementation ended a shard: its remaining cases were not run")
	n.r.Write()
	os.Exit(0)
}

func TestVerifC12CLI(t *testing.T) {
	log.SetOutput(io.Discard)
	r := verifkit.New("C12")
	defer r.Write()
	net := c12net{r, c12GoID()}
	log.AddHook(net)
	log.StandardLogger().ExitFunc = func(int) { net.end("log.Fatal", ""); panic(c12exit{}) }
	h := &c12H{r: r, sheets: map[string]*c12Sheet{}, libs: map[string]obiseq.SeqSliceWorker{}, aloneCache: map[string][]string{}}
	for _, s := range c12Sheets() {
		h.sheets[s.Name] = s
	}
	dir, err := os.MkdirTemp("", "c12cli")
	if err != nil {
		t.Fatal(err)
	}
	defer os.RemoveAll(dir)
	if rc := r.ReplayCase(); rc != nil {
		var c c12CLICase
		if err := json.Unmarshal(rc, &c); err != nil {
			t.Fatal(err)
		}
		if c.Class != "cli" {
			t.Skip("not a CLI case")
		}
		h.evalCLI(dir, &c)
		return
	}
	r.RequireNonVacuous("cli_commands") // (cli_records_out counts what the command delivers: a counter only)
	k := 0
	// (S5: a sheet whose parameters are given per side and per primer, through the command's own way to the reader)
	for _, name := range []string{"S1-basic", "S2-two-markers", "S4-hamming", "S5-levenshtein-per-primer"} {
		sh := h.sheets[name]
		for _, format := range sh.formats() {
			if format == "csv-direct" {
				continue
			}
			// read pool: assigned, flagged (undeclared pair), no amplicon, chimera
			m := &sh.Markers[0]
			s0, s1 := m.Samples[0], m.Samples[len(m.Samples)-1]
			pf, pr := c12inst(m.F, false), c12inst(m.R, false)
			mkRead := func(c c12Case) string { c.Sheet, c.Format = sh.Name, format; return c12build(sh, &c).read }
			good := c12Amp{M: 0, TagF: s0.TagF, TagR: s0.TagR, PF: pf, PR: pr, BC: c12barcodes[0]}
			good2 := c12Amp{M: 0, TagF: s1.TagF, TagR: s1.TagR, PF: pf, PR: pr, BC: c12barcodes[1], Rev: true}
			unk := c12Amp{M: 0, TagF: m.ExtraF[len(m.ExtraF)-1], TagR: s0.TagR, PF: pf, PR: pr, BC: c12barcodes[0]}
			pool := []string{
				mkRead(c12Case{Left: "tat", Right: "gga", Amps: []c12Amp{good}}),
				mkRead(c12Case{Amps: []c12Amp{good2}}),
				mkRead(c12Case{Left: "tat", Amps: []c12Amp{unk}}),
				"acgtacgtacgtaaccggtt",
				mkRead(c12Case{Joints: []string{"ttt"}, Amps: []c12Amp{good, unk}}),
			}
			// every non-empty ordered selection of up to 3 reads (thorough: 4)
			maxn := 3
			if verifkit.Thorough() {
				maxn = 4
			}
			var rec func(sel []int)
			rec = func(sel []int) {
				if len(sel) > 0 {
					for opt := 0; opt < 3; opt++ {
						if r.Mine(k) {
							var reads []string
							for _, i := range sel {
								reads = append(reads, pool[i])
							}
							h.evalCLI(dir, &c12CLICase{Class: "cli", Sheet: sh.Name, Format: format, Keep: opt == 1, Unid: opt == 2, Reads: reads})
						}
						k++
					}
				}
				if len(sel) == maxn || r.Expired() {
					return
				}
				for i := range pool {
					rec(append(append([]int{}, sel...), i))
				}
			}
			rec(nil)
		}
	}
	// ---- the matching options of the command line: -e N, --with-indels ----
	for _, v := range c12OptVariants {
		sh := h.sheets[v.Sheet]
		formats := []string{"csv"}
		if sh.OldOK {
			formats = []string{"old", "csv"}
		}
		for _, format := range formats {
			m := &sh.Markers[0]
			s0, s1 := m.Samples[0], m.Samples[len(m.Samples)-1]
			pfs, prs := c12primerVariants(m.F, 2), c12primerVariants(m.R, 2)
			mkRead := func(c c12Case) string { c.Sheet, c.Format = sh.Name, format; return c12build(sh, &c).read }
			amp := func(s c12Sample, pf, pr, bc string, rev bool) c12Amp {
				return c12Amp{M: 0, TagF: s.TagF, TagR: s.TagR, PF: pf, PR: pr, BC: bc, Rev: rev}
			}
			unk := amp(s0, pfs[0], prs[0], c12barcodes[0], false)
			unk.TagF = m.ExtraF[len(m.ExtraF)-1]
			pool := []string{
				mkRead(c12Case{Left: "tat", Right: "gga", Amps: []c12Amp{amp(s0, pfs[0], prs[0], c12barcodes[0], false)}}),
				mkRead(c12Case{Amps: []c12Amp{amp(s1, pfs[0], prs[0], c12barcodes[1], true)}}),
				mkRead(c12Case{Left: "tat", Amps: []c12Amp{unk}}),
				"acgtacgtacgtaaccggtt",
				mkRead(c12Case{Left: "tat", Right: "gga", Amps: []c12Amp{amp(s0, pfs[2], prs[0], c12barcodes[1], false)}}), // one substitution in the forward primer
				mkRead(c12Case{Left: "tat", Right: "gga", Amps: []c12Amp{amp(s1, pfs[0], prs[6], c12barcodes[0], true)}}),  // two in the reverse primer
				mkRead(c12Case{Left: "tat", Right: "gga", Amps: []c12Amp{amp(s1, pfs[7], prs[0], c12barcodes[0], false)}}), // three in the forward primer
			}
			for i1 := range pool {
				for i2 := -1; i2 < len(pool); i2++ {
					for opt := 0; opt < 3; opt++ {
						if r.Mine(k) && !r.Expired() {
							reads := []string{pool[i1]}
							if i2 >= 0 {
								reads = append(reads, pool[i2])
							}
							o := v.Opt
							h.evalCLI(dir, &c12CLICase{Class: "cli", Sheet: sh.Name, Format: format, Keep: opt == 1, Unid: opt == 2, Reads: reads, Opt: &o})
						}
						k++
					}
				}
			}
		}
	}
}
