//go:build verif

package obiconsensus

// C19, command-level part — the De Bruijn consensus as obiconsensus really calls it.
//
// pkg/obikmer is checked on its own in harness/pkg__obikmer; this file drives the wrapper the command
// uses (BuildConsensus: k-mer size taken from --kmer-size or estimated from the reads, graph rebuilt
// with k+1 as long as it has a cycle, LongestConsensus with the --low-coverage value, summary
// attributes) and the denoising pipeline that prepares the read packs (CLIOBIMinion -> SeqBySamples,
// BuildDiffSeqGraph, MinionDenoise / MinionClusterDenoise), by bounded exhaustive enumeration:
//
//   build : every multiset of 2 reads over {a,c,g,t} up to a length bound and every multiset of 3 reads
//           of a smaller bound x every --kmer-size of {-1 (estimated), 1.., maxlen+1} x count vectors
//           x --low-coverage {0, 0.5, 1}; a single read; windows of a fixed 80-mer with one-edit variants
//           for k up to 31; reads with an internal repeat of 27..36 bases (the size has to grow up to and
//           across the 31/32 limit of the 64-bit node encoding).
//   cli   : a centre read with every 5-subset of its one-substitution variants (one sample) and every
//           6-subset of a mixed pool of substitution / deletion / insertion variants (two samples),
//           both denoising modes x --kmer-size {-1, 2, 4} through CLIOBIMinion.
//
// Reference model: written on strings (k-mers are Go strings, weights by counting windows, cycle by
// Kahn, heaviest walk by dynamic programming over the DAG) — nothing of pkg/obikmer is used by it.

import (
	"encoding/json"
	"fmt"
	"io"
	"os"
	"runtime"
	"runtime/debug"
	"sort"
	"strings"
	"syscall"
	"testing"

	"git.metabarcoding.org/obitools/obitools4/obitools4/pkg/obiiter"
	"git.metabarcoding.org/obitools/obitools4/obitools4/pkg/obioptions"
	"git.metabarcoding.org/obitools/obitools4/obitools4/pkg/obiseq"
	"git.metabarcoding.org/obitools/obitools4/obitools4/pkg/verifkit"
	log "github.com/sirupsen/logrus"
)

type c19bCase struct {
	Kind    string           `json:"kind"` // build | cli
	Seqs    []string         `json:"seqs"`
	Counts  []int            `json:"counts,omitempty"`
	Ksz     int              `json:"ksz"`
	Cov     float64          `json:"cov"`
	Samples []map[string]int `json:"samples,omitempty"` // cli: per record, sample -> abundance
	Cluster bool             `json:"cluster,omitempty"`
}

// ---------------------------------------------------------------------------------------------
// reference model on strings

type c19bGraph struct {
	k       int
	w       map[string]int
	cyclic  bool
	sources map[string]bool
	from    map[string]int // heaviest walk starting at the node (node included)
	to      map[string]int // heaviest walk from a source ending at the node (node included)
	best    int
	maxw    int
	minw    int
}

func c19bModel(seqs []string, counts []int, k int) *c19bGraph {
	g := &c19bGraph{k: k, w: map[string]int{}, sources: map[string]bool{}, from: map[string]int{}, to: map[string]int{}}
	for i, s := range seqs {
		for p := 0; p+k <= len(s); p++ {
			g.w[s[p:p+k]] += counts[i]
		}
	}
	succ := func(u string) []string {
		var out []string
		for _, b := range "acgt" {
			v := u[1:] + string(b)
			if _, ok := g.w[v]; ok {
				out = append(out, v)
			}
		}
		return out
	}
	pred := func(u string) []string {
		var out []string
		for _, b := range "acgt" {
			v := string(b) + u[:k-1]
			if _, ok := g.w[v]; ok {
				out = append(out, v)
			}
		}
		return out
	}
	deg := map[string]int{}
	var ready, order []string
	for u, wu := range g.w {
		if wu > g.maxw {
			g.maxw = wu
		}
		if g.minw == 0 || wu < g.minw {
			g.minw = wu
		}
		deg[u] = len(pred(u))
		if deg[u] == 0 {
			g.sources[u] = true
			ready = append(ready, u)
		}
	}
	for len(ready) > 0 {
		u := ready[len(ready)-1]
		ready = ready[:len(ready)-1]
		order = append(order, u)
		for _, v := range succ(u) {
			deg[v]--
			if deg[v] == 0 {
				ready = append(ready, v)
			}
		}
	}
	if len(order) != len(g.w) {
		g.cyclic = true
		return g
	}
	for i := len(order) - 1; i >= 0; i-- {
		u := order[i]
		m := 0
		for _, v := range succ(u) {
			if g.from[v] > m {
				m = g.from[v]
			}
		}
		g.from[u] = g.w[u] + m
	}
	for _, u := range order {
		m := 0
		for _, v := range pred(u) {
			if g.to[v] > m {
				m = g.to[v]
			}
		}
		g.to[u] = g.w[u] + m
	}
	for s := range g.sources {
		if g.from[s] > g.best {
			g.best = g.from[s]
		}
	}
	return g
}

func (g *c19bGraph) String() string {
	keys := make([]string, 0, len(g.w))
	for u := range g.w {
		keys = append(keys, u)
	}
	sort.Strings(keys)
	var sb strings.Builder
	for _, u := range keys {
		fmt.Fprintf(&sb, "%s:%d ", u, g.w[u])
	}
	return sb.String()
}

// c19bFirstAcyclic: the graph the wrapper must end with: k grows from k0 while the graph has a cycle
// (it always stops: beyond the longest read the graph is empty).
func c19bFirstAcyclic(seqs []string, counts []int, k0 int) *c19bGraph {
	for k := k0; ; k++ {
		if g := c19bModel(seqs, counts, k); !g.cyclic {
			return g
		}
	}
}

// c19bLRS: length of the longest substring occurring at two (possibly overlapping) positions of s.
func c19bLRS(s string) int {
	for l := len(s) - 1; l >= 1; l-- {
		seen := map[string]bool{}
		for p := 0; p+l <= len(s); p++ {
			if seen[s[p:p+l]] {
				return l
			}
			seen[s[p:p+l]] = true
		}
	}
	return 0
}

func c19bPure(s string) bool {
	for i := 0; i < len(s); i++ {
		switch s[i] {
		case 'a', 'c', 'g', 't':
		default:
			return false
		}
	}
	return true
}

// c19bEdit1: at most one substitution, insertion or deletion between a and b.
func c19bEdit1(a, b string) bool {
	if len(a) > len(b) {
		a, b = b, a
	}
	switch len(b) - len(a) {
	case 0:
		d := 0
		for i := range a {
			if a[i] != b[i] {
				d++
			}
		}
		return d <= 1
	case 1:
		for i := 0; i < len(b); i++ {
			if b[:i]+b[i+1:] == a {
				return true
			}
		}
	}
	return false
}

// ---------------------------------------------------------------------------------------------

type c19bCtx struct {
	r     *verifkit.Result
	nviol map[string]int
}

func (x *c19bCtx) violate(key string, c c19bCase, format string, a ...any) {
	x.nviol[key]++
	if x.nviol[key] <= 3 {
		x.r.Violate(key, fmt.Sprintf("%s ksz=%d cov=%v seqs=%v counts=%v cluster=%v: ", c.Kind, c.Ksz, c.Cov, c.Seqs, c.Counts, c.Cluster)+fmt.Sprintf(format, a...), c)
	} else {
		x.r.Violate(key, "", c)
	}
}

func c19bTry(f func()) (panicked string) {
	defer func() {
		if r := recover(); r != nil {
			panicked = fmt.Sprint(r)
			if len(panicked) > 300 {
				panicked = panicked[:300]
			}
		}
	}()
	f()
	return ""
}

func c19bIntAttr(s *obiseq.BioSequence, name string) (int, bool) {
	return s.GetIntAttribute(name)
}

// judge compares what the wrapper returned for one pack of reads with the model.
// got == nil means "no consensus" (error of BuildConsensus, or the fall-back record of the pipeline).
// site names the entry point in the violation keys.
func (x *c19bCtx) judge(site string, c c19bCase, seqs []string, counts []int, got *obiseq.BioSequence, errText string) {
	r := x.r
	viol := func(key, format string, a ...any) {
		x.violate(site+"/"+key, c, "pack=%v counts=%v: "+format, append([]any{seqs, counts}, a...)...)
	}
	auto := c.Ksz < 0
	k0 := c.Ksz
	if auto {
		k0 = 1
		for _, s := range seqs {
			if l := c19bLRS(s) + 1; l > k0 {
				k0 = l
			}
		}
	}
	want := c19bFirstAcyclic(seqs, counts, k0)
	if want.k > k0 {
		r.Count("packs_kmer_size_increased_on_cycle", 1)
		if want.k > k0+1 {
			r.Count("packs_kmer_size_increased_twice_or_more", 1)
		}
	}
	if len(want.w) == 0 {
		// every k from k0 up to the longest read gives a cycle (or k0 is beyond every read): the empty graph
		// is unconstrained, the call only has to come back
		r.Count("packs_ending_with_empty_graph(unconstrained)", 1)
		return
	}
	r.Count("packs_with_consensus_expected", 1)
	if len(want.w) > len(want.sources) {
		r.Count("packs_graph_with_edges", 1)
	}
	if c.Cov > 0 && float64(want.minw) < float64(uint(float64(want.maxw)*c.Cov+0.5)) {
		// (vacuity guard: decided on the model graph, before the answer of the implementation is looked at)
		r.Count("packs_whose_model_graph_the_low_coverage_filter_may_trim", 1)
	}
	if got == nil && want.k > 31 {
		// beyond the k range of the statement (a k-mer no longer fits the 64-bit node): giving up is fine,
		// but a consensus that IS returned is judged like any other
		r.Count("packs_needing_k_above_31_without_consensus(unconstrained)", 1)
		return
	}
	if got == nil && c.Cov > 1 {
		// a threshold above the weight of the path's most frequent weight can remove every node
		r.Count("packs_low_coverage_above_1_without_consensus(unconstrained)", 1)
		return
	}
	if want.k > 31 {
		r.Count("packs_needing_k_above_31_with_consensus", 1)
	}
	kr := 0
	if got != nil {
		kr, _ = c19bIntAttr(got, "obiconsensus_kmer_size")
	}
	if want.k > 32 || kr > 32 {
		// a node is a 64-bit word: whatever goes wrong beyond 32 bases per k-mer is one defect, kept apart from
		// the defects of the loop itself
		site += "(k>32)"
	}
	if got == nil {
		viol("no-consensus-on-acyclic-graph", "the graph of k=%d {%s} has no cycle, error: %s", want.k, want, errText)
		return
	}
	g := want
	kg, ok := c19bIntAttr(got, "obiconsensus_kmer_size")
	if !ok {
		viol("attribute:obiconsensus_kmer_size", "missing")
		return
	}
	if kg != want.k {
		suffix := ""
		if auto {
			suffix = ":estimated-size"
		}
		switch {
		case kg < k0:
			viol("kmer-size-below-the-start-value"+suffix, "reported k=%d, start value %d", kg, k0)
			return
		case kg < want.k:
			viol("consensus-on-cyclic-graph"+suffix, "reported k=%d whose graph has a cycle; first k without cycle from %d is %d", kg, k0, want.k)
			return
		default:
			viol("kmer-size-increased-without-cycle"+suffix, "reported k=%d although the graph of k=%d {%s} has no cycle (start value %d)", kg, want.k, want, k0)
			g = c19bModel(seqs, counts, kg)
			if g.cyclic || len(g.w) == 0 {
				return
			}
		}
	}
	k := g.k
	cs := string(got.Sequence())
	if len(cs) < k || !c19bPure(cs) {
		viol("invalid-walk", "consensus %q is not a walk of %d-mers", cs, k)
		return
	}
	tot := 0
	for p := 0; p+k <= len(cs); p++ {
		wn, ok := g.w[cs[p:p+k]]
		if !ok {
			viol("invalid-walk", "consensus %q: %s is not a k-mer of the reads; graph k=%d {%s}", cs, cs[p:p+k], k, g)
			return
		}
		tot += wn
	}
	first, last := cs[:k], cs[len(cs)-k:]
	// can the low coverage filter remove anything? its threshold is a share (<= 1) of a weight met on the
	// path: when the lightest node of the graph reaches the share of the heaviest one nothing can go
	trimPossible := c.Cov > 0 && float64(g.minw) < float64(uint(float64(g.maxw)*c.Cov+0.5))
	if !trimPossible {
		if c.Cov > 0 {
			r.Count("packs_low_coverage_filter_cannot_trim", 1)
		}
		if !g.sources[first] {
			viol("not-from-source", "consensus %q starts at %s, which has a predecessor; graph k=%d {%s}", cs, first, k, g)
		} else if tot != g.best {
			viol("not-maximal", "consensus %q weighs %d, the heaviest walk from a source weighs %d; graph k=%d {%s}", cs, tot, g.best, k, g)
		}
	} else {
		r.Count("packs_low_coverage_filter_may_trim", 1)
		// what is left must still be a piece of a heaviest walk from a source
		if g.to[first]+tot-g.w[first]+g.from[last]-g.w[last] != g.best {
			viol("low-coverage:not-a-piece-of-a-heaviest-walk", "consensus %q (weight %d) cannot be completed into a walk of weight %d; graph k=%d {%s}", cs, tot, g.best, k, g)
		} else if tot != g.best {
			r.Count("packs_low_coverage_filter_trimmed", 1)
		}
	}
	// summary attributes are functions of the weights
	sum := 0
	for _, n := range counts {
		sum += n
	}
	for _, a := range []struct {
		name string
		want int
	}{
		{"obiconsensus_weight", sum},
		{"obiconsensus_kmer_max_occur", g.maxw},
		{"obiconsensus_full_graph_size", len(g.w)},
		{"obiconsensus_seq_length", len(cs)},
	} {
		if v, ok := c19bIntAttr(got, a.name); !ok || v != a.want {
			viol("attribute:"+a.name, "is %d (present %v), the graph of k=%d {%s} gives %d", v, ok, k, g, a.want)
		}
	}
	if f, ok := got.GetAttribute("obiconsensus_consensus"); !ok || f != true {
		viol("attribute:obiconsensus_consensus", "is %v on a consensus", f)
	}
}

func c19bMakeSeqs(seqs []string, counts []int) obiseq.BioSequenceSlice {
	out := make(obiseq.BioSequenceSlice, len(seqs))
	for i, s := range seqs {
		out[i] = obiseq.NewBioSequence(fmt.Sprintf("s%d", i), []byte(s), "")
		out[i].SetCount(counts[i])
	}
	return out
}

// c19bSync is true while a call that runs on the harness goroutine alone is in progress: a logrus Fatal of
// the code under test is then turned into a panic (recovered by c19bTry and reported as the outcome of that
// call). Otherwise (the pipeline of the command, with goroutines of its own) the goroutine that raised it
// cannot be unwound: the violation is recorded, what the shard found is written and the shard ends.
var c19bSync bool
var c19bCur c19bCase

func c19bExitFunc(r *verifkit.Result) func(int) {
	return func(code int) {
		if c19bSync {
			panic(fmt.Sprintf("log.Fatal (exit status %d)", code))
		}
		c := c19bCur
		r.Violate("CLIOBIMinion/log.Fatal", fmt.Sprintf("%s ksz=%d cov=%v seqs=%v cluster=%v: the pipeline ends the command with log.Fatal (exit status %d) on a valid data set",
			c.Kind, c.Ksz, c.Cov, c.Seqs, c.Cluster, code), c)
		r.Cap("a log.Fatal of the pipeline under test ended the shard: its remaining cases were not run")
		r.Write()
		os.Exit(0)
	}
}

func (x *c19bCtx) buildCheck(c c19bCase) {
	r := x.r
	r.Eval(1)
	pack := c19bMakeSeqs(c.Seqs, c.Counts)
	var got *obiseq.BioSequence
	var err error
	c19bSync = true
	p := c19bTry(func() { got, err = BuildConsensus(pack, "cid", c.Ksz, c.Cov, false, "") })
	c19bSync = false
	if p != "" {
		key := "BuildConsensus/panic"
		if c.Cov > 1 {
			key += ":low-coverage-above-1"
		}
		x.violate(key, c, "%s", p)
		return
	}
	r.Trans(int64(len(pack)))
	for i, s := range pack {
		if string(s.Sequence()) != c.Seqs[i] || s.Count() != c.Counts[i] {
			x.violate("BuildConsensus/reads-modified", c, "read %d is now %q count %d", i, s.Sequence(), s.Count())
			return
		}
	}
	if len(pack) == 1 {
		// a single read comes back unchanged
		if got == nil || string(got.Sequence()) != c.Seqs[0] {
			x.violate("BuildConsensus/single-read-not-returned-unchanged", c, "got %v err %v", got, err)
		}
		r.Count("build_single_read", 1)
		return
	}
	et := ""
	if err != nil {
		et = err.Error()
		got = nil
	}
	x.judge("BuildConsensus", c, c.Seqs, c.Counts, got, et)
}

// cliCheck runs the real pipeline of the command on a data set and judges every record it writes.
func (x *c19bCtx) cliCheck(c c19bCase) {
	r := x.r
	r.Eval(1)
	oldK, oldC, oldM, oldD, oldS, oldU := _kmerSize, _lowCoverage, _clusterMode, _distStepMax, _sampleAttribute, _unique
	defer func() {
		_kmerSize, _lowCoverage, _clusterMode, _distStepMax, _sampleAttribute, _unique = oldK, oldC, oldM, oldD, oldS, oldU
	}()
	_kmerSize, _lowCoverage, _clusterMode, _distStepMax, _sampleAttribute, _unique = c.Ksz, c.Cov, c.Cluster, 1, "sample", false

	db := make(obiseq.BioSequenceSlice, len(c.Seqs))
	total := make([]int, len(c.Seqs))
	for i, s := range c.Seqs {
		db[i] = obiseq.NewBioSequence(fmt.Sprintf("s%d", i), []byte(s), "")
		m := map[string]int{}
		for name, n := range c.Samples[i] {
			m[name] = n
			total[i] += n
		}
		db[i].SetAttribute("merged_sample", m)
		db[i].SetCount(total[i])
	}
	out := map[string]*obiseq.BioSequence{} // "<vertex id>/<sample>"
	dup := ""
	c19bCur = c
	if p := c19bTry(func() {
		it := CLIOBIMinion(obiiter.IBatchOver("c19b", db, 1000))
		for it.Next() {
			for _, s := range it.Get().Slice() {
				id := strings.TrimSuffix(s.Id(), "_consensus")
				smp, _ := s.GetStringAttribute("sample")
				key := id + "/" + smp
				if _, ok := out[key]; ok {
					dup = key
				}
				out[key] = s
			}
		}
	}); p != "" {
		x.violate("CLIOBIMinion/panic", c, "%s", p)
		return
	}
	if dup != "" {
		x.violate("CLIOBIMinion/record-written-twice", c, "%s", dup)
		return
	}
	names := map[string]bool{}
	for _, m := range c.Samples {
		for n := range m {
			names[n] = true
		}
	}
	for name := range names {
		var members []int
		for i, m := range c.Samples {
			if m[name] > 0 {
				members = append(members, i)
			}
		}
		for _, i := range members {
			var neigh []int
			for _, j := range members {
				if j != i && c19bEdit1(c.Seqs[i], c.Seqs[j]) {
					neigh = append(neigh, j)
				}
			}
			needsPack := len(neigh) > 4
			if c.Cluster {
				needsPack = len(neigh) >= 1
			}
			if needsPack {
				r.Count("cli_reads_with_a_pack_in_the_input", 1) // (vacuity guard: a fact of the data set generated)
			}
			got, present := out[fmt.Sprintf("s%d/%s", i, name)]
			if !present {
				if !c.Cluster {
					x.violate("CLIOBIMinion/read-missing-from-output", c, "s%d of sample %s", i, name)
				}
				continue // cluster mode writes the heads only; which reads are heads is not this property's business
			}
			r.Trans(1)
			isCons, _ := got.GetAttribute("obiconsensus_consensus")
			if !needsPack {
				// no consensus is built: the read itself is written
				if isCons == true || string(got.Sequence()) != c.Seqs[i] {
					x.violate("CLIOBIMinion/read-without-pack-altered", c, "s%d of sample %s (%d neighbours) written as %q consensus=%v", i, name, len(neigh), got.Sequence(), isCons)
				}
				r.Count("cli_reads_without_pack", 1)
				continue
			}
			r.Count("cli_packs", 1)
			pseqs := make([]string, 0, len(neigh)+1)
			pcnt := make([]int, 0, len(neigh)+1)
			for _, j := range append(neigh, i) {
				pseqs = append(pseqs, c.Seqs[j])
				pcnt = append(pcnt, total[j]) // Push weighs a read by its count
			}
			if isCons != true {
				if string(got.Sequence()) != c.Seqs[i] {
					x.violate("CLIOBIMinion/fall-back-record-altered", c, "s%d of sample %s written as %q", i, name, got.Sequence())
				}
				got = nil
			} else {
				r.Count("cli_consensus_records", 1)
				// the pack handed to BuildConsensus is the read and its one-edit neighbours of the sample: the sum
				// of their counts is written on the consensus. A different sum means that the graph was built from
				// another set of reads (nothing to compare the weights with).
				sum := 0
				for _, n := range pcnt {
					sum += n
				}
				if v, ok := got.GetIntAttribute("obiconsensus_weight"); ok && v != sum {
					x.violate("CLIOBIMinion/pack-is-not-the-read-and-its-one-edit-neighbours", c,
						"s%d of sample %s: consensus built from reads whose counts sum to %d; the read and its %d one-edit neighbours %v weigh %d",
						i, name, v, len(neigh), pseqs, sum)
					continue
				}
			}
			x.judge("CLIOBIMinion", c, pseqs, pcnt, got, "the read was written without consensus")
		}
	}
}

func (x *c19bCtx) dispatch(c c19bCase) {
	switch c.Kind {
	case "build":
		x.buildCheck(c)
	case "cli":
		x.cliCheck(c)
	default:
		panic("unknown case kind " + c.Kind)
	}
}

const c19bRef80 = "ctagcatcggatcttaggcatcgaacgtttagcatgcaatgcgtacgttaacctgaggatcaagtcctgaatgcgatccg"

// c19bSubsets calls f with every k-subset of 0..n-1.
func c19bSubsets(n, k int, f func(idx []int)) {
	idx := make([]int, k)
	var rec func(pos, from int)
	rec = func(pos, from int) {
		if pos == k {
			f(idx)
			return
		}
		for i := from; i <= n-(k-pos); i++ {
			idx[pos] = i
			rec(pos+1, i+1)
		}
	}
	rec(0, 0)
}

func TestVerifC19B(t *testing.T) {
	log.SetOutput(io.Discard)
	log.SetLevel(log.PanicLevel)
	if devnull, err := os.OpenFile(os.DevNull, os.O_WRONLY, 0); err == nil {
		old := os.Stderr
		os.Stderr = devnull
		defer func() { os.Stderr = old; devnull.Close() }()
	}
	// one P: the harness is sequential, 16 shards run side by side, and the pipeline is then executed under
	// one fixed schedule (engine B); what other schedules do is engine A's business
	runtime.GOMAXPROCS(1)
	debug.SetGCPercent(400)
	obioptions.SetMaxCPU(1)
	obioptions.SetWorkerPerCore(1.0)

	r := verifkit.New("C19")
	defer r.Write()
	log.StandardLogger().ExitFunc = c19bExitFunc(r)
	x := &c19bCtx{r: r, nviol: map[string]int{}}

	if rc := r.ReplayCase(); rc != nil {
		var c c19bCase
		if err := json.Unmarshal(rc, &c); err != nil {
			t.Fatal(err)
		}
		x.dispatch(c)
		r.Replayed(1)
		return
	}

	thorough := verifkit.Thorough()
	pairMax, tripleMax := 4, 3
	pairMaxLean := 5
	if thorough {
		pairMax, tripleMax = 5, 4
		pairMaxLean = 6
	}
	r.Bound("build_pair_maxlen", pairMax)
	r.Bound("build_pair_maxlen(k in {-1,3}, counts (2,1), cov 0)", pairMaxLean)
	r.Bound("build_triple_maxlen", tripleMax)
	r.Bound("build_kmer_size", "-1 (estimated), 1..maxlen+1")
	r.Bound("build_low_coverage", "0, 0.5, 1 (and 2 with counts (2,1))")
	r.Bound("build_counts", "pairs (1,1) (2,1) (1,3); triples (1,1,1) (1,2,3) (3,1,2)")
	r.Bound("cli_families", "centre acgtta + every 5-subset of its 18 substitution variants (one sample); centre + every 6-subset of a pool of 10 substitution/deletion/insertion variants (two samples)")
	r.Bound("cli_modes", "plain and --cluster; --kmer-size -1, 2, 4; --low-coverage 0 (0.5 on the mixed pool)")

	item := 0
	mine := func() bool { item++; return r.Mine(item - 1) }
	stop := false
	expired := func() bool {
		if !stop && r.Expired() {
			stop = true
		}
		return stop
	}
	cpu := func() int64 {
		var ru syscall.Rusage
		syscall.Getrusage(syscall.RUSAGE_SELF, &ru)
		return (ru.Utime.Nano() + ru.Stime.Nano()) / 1e6
	}
	only := os.Getenv("C19_SECTIONS")
	if only != "" {
		r.Cap("restricted to parts " + only)
	}
	part := func(name string, f func()) {
		if only != "" && !strings.Contains(only, name) {
			return
		}
		if expired() {
			return
		}
		c0, e0 := cpu(), r.Evaluations
		f()
		r.Count("cpu_ms_cmdpart_"+name, cpu()-c0)
		r.Count("evals_cmdpart_"+name, r.Evaluations-e0)
	}

	covs := []float64{0, 0.5, 1}

	// Order (breadth first): the cheap parts (large k, repeats across the 31/32 limit, the pipeline of the
	// command) before the deep enumerations of pairs and triples.
	// ---- L. large k: windows of an 80-mer with every one-substitution variant, start size up to 31
	part("L", func() {
		step := 16
		if thorough {
			step = 4
		}
		for _, ksz := range []int{-1, 8, 16, 30, 31} {
			for st := 0; st+40 <= len(c19bRef80) && !expired(); st += step {
				for _, ln := range []int{40, len(c19bRef80) - st} {
					if !mine() {
						continue
					}
					w := c19bRef80[st : st+ln]
					for p := 0; p < len(w); p++ {
						for _, b := range "acgt" {
							if byte(b) == w[p] {
								continue
							}
							v := w[:p] + string(b) + w[p+1:]
							x.buildCheck(c19bCase{Kind: "build", Seqs: []string{w, v, w[2:]}, Counts: []int{2, 1, 1}, Ksz: ksz})
						}
					}
				}
			}
		}
	})

	// ---- R. reads with an internal repeat of 27..36 bases: the size must grow up to and across 31/32
	part("R", func() {
		step := 8
		if thorough {
			step = 1
		}
		for rl := 27; rl <= 36; rl++ {
			for st := 0; st+rl+2 <= len(c19bRef80) && !expired(); st += step {
				if !mine() {
					continue
				}
				u := c19bRef80[st : st+rl]
				// the separator differs from what follows the first copy... and from what precedes the second one
				for _, sep := range []string{"", "a", "c", "g", "t", "ac"} {
					a := "ca" + u + sep + u + "tg"
					if c19bLRS(a) != rl {
						continue // the two copies overlap into a longer repeat: another length's case
					}
					r.Count("build_repeat_cases", 1)
					b := a[:len(a)-1] + "a"
					for _, ksz := range []int{-1, 20, 31} {
						x.buildCheck(c19bCase{Kind: "build", Seqs: []string{a, b}, Counts: []int{2, 1}, Ksz: ksz})
						x.buildCheck(c19bCase{Kind: "build", Seqs: []string{a, b, u}, Counts: []int{1, 1, 3}, Ksz: ksz})
					}
				}
			}
		}
	})

	// ---- C. the pipeline of the command
	centre := "acgtta"
	var subs []string
	for p := 0; p < len(centre); p++ {
		for _, b := range "acgt" {
			if byte(b) != centre[p] {
				subs = append(subs, centre[:p]+string(b)+centre[p+1:])
			}
		}
	}
	part("C", func() {
		c19bSubsets(len(subs), 5, func(idx []int) {
			if expired() || !mine() {
				return
			}
			seqs := []string{centre}
			smp := []map[string]int{{"A": 3}}
			for n, i := range idx {
				seqs = append(seqs, subs[i])
				smp = append(smp, map[string]int{"A": 1 + n%2})
			}
			for _, cluster := range []bool{false, true} {
				for _, ksz := range []int{-1, 2, 4} {
					x.cliCheck(c19bCase{Kind: "cli", Seqs: seqs, Samples: smp, Ksz: ksz, Cluster: cluster})
				}
			}
		})
	})
	part("D", func() {
		pool := []string{"ccgtta", "acgtaa", "acgttc", "aggtta", // substitutions
			"cgtta", "acgta", "acgtt", // deletions
			"aacgtta", "acgtcta", "acgttag"} // insertions
		c19bSubsets(len(pool), 6, func(idx []int) {
			if expired() || !mine() {
				return
			}
			seqs := []string{centre}
			smp := []map[string]int{{"A": 2, "B": 2}}
			for n, i := range idx {
				seqs = append(seqs, pool[i])
				if n%2 == 0 {
					smp = append(smp, map[string]int{"A": 1})
				} else {
					smp = append(smp, map[string]int{"A": 2, "B": 1})
				}
			}
			for _, cluster := range []bool{false, true} {
				for _, ksz := range []int{-1, 2, 4} {
					for _, cov := range []float64{0, 0.5} {
						x.cliCheck(c19bCase{Kind: "cli", Seqs: seqs, Samples: smp, Ksz: ksz, Cov: cov, Cluster: cluster})
					}
				}
			}
		})
	})
	// ---- Q. longer pairs, lean settings
	part("Q", func() {
		all := verifkit.AllStrings("acgt", pairMax+1, pairMaxLean)
		for i := 0; i < len(all) && !expired(); i++ {
			if !mine() {
				continue
			}
			for j := i; j < len(all); j++ {
				for _, ksz := range []int{-1, 3} {
					x.buildCheck(c19bCase{Kind: "build", Seqs: []string{all[i], all[j]}, Counts: []int{2, 1}, Ksz: ksz})
				}
			}
		}
	})
	// ---- T. every multiset of three reads
	part("T", func() {
		all := verifkit.AllStrings("acgt", 1, tripleMax)
		for i := 0; i < len(all) && !expired(); i++ {
			for j := i; j < len(all); j++ {
				if !mine() {
					continue
				}
				for l := j; l < len(all); l++ {
					maxlen := max(len(all[i]), len(all[j]), len(all[l]))
					for _, cc := range [][]int{{1, 1, 1}, {1, 2, 3}, {3, 1, 2}} {
						for ksz := -1; ksz <= maxlen; ksz++ {
							if ksz == 0 || ksz == 1 {
								continue
							}
							for _, cov := range []float64{0, 0.5} {
								x.buildCheck(c19bCase{Kind: "build", Seqs: []string{all[i], all[j], all[l]}, Counts: cc, Ksz: ksz, Cov: cov})
							}
						}
					}
				}
			}
		}
	})
	// ---- P. one read, and every multiset of two reads
	part("P", func() {
		all := verifkit.AllStrings("acgt", 1, pairMax)
		for i := 0; i < len(all) && !expired(); i++ {
			if !mine() {
				continue
			}
			for _, ksz := range []int{-1, 2, 3} {
				x.buildCheck(c19bCase{Kind: "build", Seqs: []string{all[i]}, Counts: []int{2}, Ksz: ksz})
			}
			for j := i; j < len(all); j++ {
				maxlen := max(len(all[i]), len(all[j]))
				for _, cc := range [][]int{{1, 1}, {2, 1}, {1, 3}} {
					for ksz := -1; ksz <= maxlen+1; ksz++ {
						if ksz == 0 {
							continue
						}
						for _, cov := range covs {
							x.buildCheck(c19bCase{Kind: "build", Seqs: []string{all[i], all[j]}, Counts: cc, Ksz: ksz, Cov: cov})
						}
						if cc[0] == 2 {
							// a threshold given as a coverage, not as a share
							x.buildCheck(c19bCase{Kind: "build", Seqs: []string{all[i], all[j]}, Counts: cc, Ksz: ksz, Cov: 2})
						}
					}
				}
			}
		}
	})
	if only == "" && !stop {
		// (counters decided on the model / on the data sets generated, none on what the implementation answered)
		for _, c := range []string{"packs_kmer_size_increased_on_cycle", "packs_graph_with_edges", "packs_whose_model_graph_the_low_coverage_filter_may_trim", "cli_reads_with_a_pack_in_the_input"} {
			r.RequireNonVacuous(c)
		}
	}
	r.Sample(c19bCase{Kind: "build", Seqs: []string{"acgt", "acct"}, Counts: []int{2, 1}, Ksz: -1, Cov: 0.5})
}
