//go:build verif

package verifc05

// C05 (engine A) — for the record-wise command cores the output bytes are a function of the input and
// the functional options only: not of the worker count, the batch size, the goroutine interleaving or
// the answers of the recycling pools. Each core is driven at library level exactly as its main()
// does (options set through the real option parser), fed by a hand-made stream, drained and rendered;
// every explored execution must render the same bytes as the sequential configuration
// (1 worker, 1 batch, default schedule). sync.Pool is replaced by a pool that poisons recycled byte
// slices (0xDB) and whose Get answers are decisions of the explorer.

import (
	"bytes"
	"encoding/json"
	"fmt"
	"io"
	"os"
	"runtime"
	"sort"
	"strings"
	"testing"

	"git.metabarcoding.org/obitools/obitools4/obitools4/pkg/obiformats"
	"git.metabarcoding.org/obitools/obitools4/obitools4/pkg/obiiter"
	"git.metabarcoding.org/obitools/obitools4/obitools4/pkg/obioptions"
	"git.metabarcoding.org/obitools/obitools4/obitools4/pkg/obiseq"
	"git.metabarcoding.org/obitools/obitools4/obitools4/pkg/obitools/obiannotate"
	"git.metabarcoding.org/obitools/obitools4/obitools4/pkg/obitools/obiconvert"
	"git.metabarcoding.org/obitools/obitools4/obitools4/pkg/obitools/obigrep"
	"git.metabarcoding.org/obitools/obitools4/obitools4/pkg/obitools/obimultiplex"
	"git.metabarcoding.org/obitools/obitools4/obitools4/pkg/obitools/obipairing"
	"git.metabarcoding.org/obitools/obitools4/obitools4/pkg/obitools/obipcr"
	"git.metabarcoding.org/obitools/obitools4/obitools4/pkg/obitools/obisummary"
	"git.metabarcoding.org/obitools/obitools4/obitools4/pkg/verifkit"
	"git.metabarcoding.org/obitools/obitools4/obitools4/pkg/vsched"
	"github.com/DavidGamba/go-getoptions"
	log "github.com/sirupsen/logrus"
)

type param struct {
	Scn     string   `json:"scn"`
	Args    []string `json:"args"`
	Workers int      `json:"workers"`
	Batch   int      `json:"batch"` // records per input batch
	Choices []int    `json:"choices,omitempty"`
	Mode    string   `json:"mode,omitempty"`
	Bound   int      `json:"bound,omitempty"`
	Policy  int      `json:"policy"`
}

func dna(n int, seed int) []byte {
	b := make([]byte, n)
	x := uint32(seed*2654435761 + 12345)
	for i := range b {
		x = x*1664525 + 1013904223
		b[i] = "acgt"[(x>>24)&3]
	}
	return b
}

const fwdPrimer = "ggatcacaggtc"
const revPrimer = "ccattgaagcta" // its reverse complement tagcttcaatgg is planted downstream

func rc(s string) string {
	m := map[byte]byte{'a': 't', 'c': 'g', 'g': 'c', 't': 'a'}
	b := []byte(s)
	for i, j := 0, len(b)-1; i <= j; i, j = i+1, j-1 {
		b[i], b[j] = m[b[j]], m[b[i]]
	}
	return string(b)
}

// records: equal id prefixes, one shorter than every length filter, one longer than the 500 bytes of
// the default-quality table, one longer than the 1024-byte pool limit, two carrying an amplicon.
func makeRecords(withQual bool) obiseq.BioSequenceSlice {
	lens := []int{20, 40, 8, 600, 1100, 30}
	sl := obiseq.MakeBioSequenceSlice()
	for i, n := range lens {
		s := dna(n, i+1)
		if i == 1 || i == 3 {
			amp := fwdPrimer + string(dna(15+i, 77+i)) + rc(revPrimer)
			copy(s[3:], amp)
		}
		var seq *obiseq.BioSequence
		if withQual {
			q := make([]byte, n)
			for k := range q {
				q[k] = byte(20 + (k+i)%20)
			}
			seq = obiseq.NewBioSequenceWithQualities(fmt.Sprintf("seq%d", i), s, "", q)
		} else {
			seq = obiseq.NewBioSequence(fmt.Sprintf("seq%d", i), s, "")
		}
		seq.SetAttribute("count", i%3+1)
		seq.SetAttribute("tag", fmt.Sprintf("t%d", i%2))
		// per-sample maps as obiuniq / obiclean leave them (status without weight): the per-worker partial sums of
		// obisummary are asymmetric
		seq.SetAttribute("merged_sample", map[string]int{"sA": i%3 + 1, "sB": i%2 + 1})
		seq.SetAttribute("obiclean_status", map[string]string{"sA": string("his"[i%3]), "sB": string("ih"[i%2])})
		sl = append(sl, seq)
	}
	if !withQual {
		// two circular genomes linearised INSIDE their forward priming site (amplicon found only
		// through the wrap-around region of a circular template)
		for i := 0; i < 2; i++ {
			body := fwdPrimer[6:] + string(dna(20+3*i, 500+i)) + rc(revPrimer) + string(dna(15, 600+i)) + fwdPrimer[:6]
			seq := obiseq.NewBioSequence(fmt.Sprintf("circ%d", i), []byte(body), "")
			seq.SetAttribute("count", 1)
			seq.SetAttribute("tag", "t0")
			sl = append(sl, seq)
		}
	}
	return sl
}

func makePairs() (obiseq.BioSequenceSlice, obiseq.BioSequenceSlice) {
	f := obiseq.MakeBioSequenceSlice()
	r := obiseq.MakeBioSequenceSlice()
	for i := 0; i < 4; i++ {
		frag := dna(60+7*i, 100+i)
		la, lb := 40, 40+3*i
		a := append([]byte{}, frag[:la]...)
		b := []byte(rc(string(frag[len(frag)-lb:])))
		qa := bytes.Repeat([]byte{35}, la)
		qb := bytes.Repeat([]byte{30}, lb)
		if i == 2 {
			a[20] = 'a' + ('c'-a[20])%3 // a sequencing error in the overlap
			qa[20] = 5
		}
		f = append(f, obiseq.NewBioSequenceWithQualities(fmt.Sprintf("p%d", i), a, "", qa))
		r = append(r, obiseq.NewBioSequenceWithQualities(fmt.Sprintf("p%d", i), b, "", qb))
	}
	return f, r
}

// reads of a two-sample sheet: tag + forward primer + barcode + rc(reverse primer) + rc(tag), in both
// orientations, one read with an unknown tag, one without priming site
func makeMultiplexReads() obiseq.BioSequenceSlice {
	sl := obiseq.MakeBioSequenceSlice()
	tags := []string{"aattaac", "gaagtag", "cccccct"}
	for i := 0; i < 6; i++ {
		tag := tags[i%3]
		bc := string(dna(18+i, 300+i))
		read := tag + fwdPrimer + bc + rc(revPrimer) + rc(tag)
		if i%2 == 1 {
			read = rc(read)
		}
		if i == 5 {
			read = string(dna(60, 999))
		}
		sl = append(sl, obiseq.NewBioSequence(fmt.Sprintf("read%d", i), []byte(read), ""))
	}
	return sl
}

func multiplexSheet() string {
	dir := os.Getenv("VERIF_WORKDIR")
	if dir == "" {
		dir = os.TempDir()
	}
	fn := fmt.Sprintf("%s/c05_ngsfilter_%d.txt", dir, os.Getpid())
	txt := "exp  s1  aattaac  " + fwdPrimer + "  " + revPrimer + "  F  @\n" +
		"exp  s2  gaagtag  " + fwdPrimer + "  " + revPrimer + "  F  @\n"
	os.WriteFile(fn, []byte(txt), 0o644)
	return fn
}

func source(recs obiseq.BioSequenceSlice, batch int, paired bool) obiiter.IBioSequence {
	it := obiiter.MakeIBioSequence()
	it.Add(1)
	vsched.Go(func() { it.WaitAndClose() })
	if paired {
		it.MarkAsPaired()
	}
	vsched.Go(func() {
		k := 0
		for i := 0; i < len(recs); i += batch {
			j := i + batch
			if j > len(recs) {
				j = len(recs)
			}
			it.Push(obiiter.MakeBioSequenceBatch("src", k, append(obiseq.BioSequenceSlice{}, recs[i:j]...)))
			k++
		}
		it.Done()
	})
	return it
}

type memFile struct {
	buf       bytes.Buffer
	closed    int
	failWrite bool // every Write fails (the disk is full)
	failClose bool // Close fails (the error of a delayed write surfaces there)
}

func (m *memFile) Write(p []byte) (int, error) {
	if m.failWrite {
		return 0, fmt.Errorf("injected write error: no space left on device")
	}
	return m.buf.Write(p)
}
func (m *memFile) Close() error {
	m.closed++
	if m.failClose {
		return fmt.Errorf("injected close error: input/output error")
	}
	return nil
}

func render(it obiiter.IBioSequence) string {
	type bt struct {
		order int
		txt   string
	}
	var l []bt
	for it.Next() {
		b := it.Get()
		var sb strings.Builder
		for _, s := range b.Slice() {
			if s.HasQualities() {
				sb.WriteString(obiformats.FormatFastq(s, obiformats.FormatFastSeqJsonHeader))
			} else {
				sb.WriteString(obiformats.FormatFasta(s, obiformats.FormatFastSeqJsonHeader))
			}
			sb.WriteString("\n")
		}
		l = append(l, bt{b.Order(), sb.String()})
	}
	sort.SliceStable(l, func(i, j int) bool { return l[i].order < l[j].order })
	var sb strings.Builder
	for _, b := range l {
		sb.WriteString(b.txt)
	}
	return sb.String()
}

func parse(optset func(*getoptions.GetOpt), args []string) {
	p := obioptions.GenerateOptionParser(optset)
	p(append([]string{"cmd"}, args...))
	runtime.GOMAXPROCS(2)
	log.SetLevel(log.PanicLevel)
}

func setWorkers(w int) {
	obioptions.SetMaxCPU(w)
	obioptions.SetWorkerPerCore(1)
	obioptions.SetStrictReadWorker(w)
	obioptions.SetStrictWriteWorker(w)
	obioptions.SetBatchSize(3)
}

var parsedFor = ""
var parseProblem = "" // what the option parser of the command did instead of returning (log.Fatal, panic)

// prepare parses the options of the scenario (outside the controlled execution, as main() does).
// The option variables are package-level state of the command packages and boolean flags toggle
// their current value, so one process parses ONE command line only (one scenario per shard).
//
// The parser is code of the tree under test running on the goroutine of the harness: when it ends the program
// (log.Fatal -> vsched.Exit panics) or panics on one of these valid command lines, prepare returns what happened
// (the caller reports a control-run violation and skips the scenario) instead of dying with the shard.
func prepare(p param) (problem string) {
	sig := p.Scn + " " + strings.Join(p.Args, " ")
	if parsedFor == sig {
		if parseProblem == "" {
			setWorkers(p.Workers)
		}
		return parseProblem
	}
	if parsedFor != "" {
		panic("harness: a second command line in the same process")
	}
	parsedFor = sig
	defer func() {
		if e := recover(); e != nil {
			parseProblem = fmt.Sprintf("the option parser does not return on the command line %q: %v", p.Args, e)
			problem = parseProblem
		}
	}()
	switch p.Scn {
	case "annotate":
		parse(obiannotate.OptionSet, p.Args)
	case "grep":
		parse(obigrep.OptionSet, p.Args)
	case "pairing":
		parse(obipairing.OptionSet, append([]string{"-F", "unused_f.fastq", "-R", "unused_r.fastq"}, p.Args...))
	case "pcr":
		parse(obipcr.OptionSet, p.Args)
	case "summary":
		parse(obisummary.OptionSet, p.Args)
	case "multiplex":
		parse(obimultiplex.OptionSet, append([]string{"-t", multiplexSheet()}, p.Args...))
	default:
		parse(obiconvert.OptionSet, p.Args)
	}
	setWorkers(p.Workers)
	return ""
}

// body builds and drains the pipeline inside the controlled execution and returns the output bytes.
func body(p param) string {
	switch p.Scn {
	case "complement":
		return render(source(makeRecords(true), p.Batch, false).MakeIWorker(obiseq.ReverseComplementWorker(true), true))
	case "annotate":
		return render(source(makeRecords(false), p.Batch, false).Pipe(obiannotate.CLIAnnotationPipeline()))
	case "grep":
		return render(obigrep.CLIFilterSequence(source(makeRecords(false), p.Batch, false)))
	case "pairing":
		f, r := makePairs()
		f.PairTo(&r)
		paired := obipairing.IAssemblePESequencesBatch(source(f, p.Batch, true),
			obipairing.CLIGapPenality(), obipairing.CLIPenalityScale(), obipairing.CLIDelta(), obipairing.CLIMinOverlap(),
			obipairing.CLIMinIdentity(), obipairing.CLIFastMode(), obipairing.CLIFastRelativeScore(), obipairing.CLIWithStats(),
			obioptions.CLIParallelWorkers())
		return render(paired)
	case "pcr":
		amp, err := obipcr.CLIPCR(source(makeRecords(false), p.Batch, false))
		if err != nil {
			return "error: " + err.Error()
		}
		return render(amp)
	case "multiplex":
		amp, err := obimultiplex.IExtractBarcode(source(makeMultiplexReads(), p.Batch, false))
		if err != nil {
			return "error: " + err.Error()
		}
		return render(amp)
	case "count":
		v, r, n := source(makeRecords(false), p.Batch, false).Count(true)
		return fmt.Sprintf("variants,%d\nreads,%d\nsymbols,%d\n", v, r, n)
	case "summary":
		m := obisummary.ISummary(source(makeRecords(false), p.Batch, false), obisummary.CLIMapSummary())
		out, _ := json.Marshal(m)
		return string(out)
	case "write-fasta", "write-fastq", "write-json", "write-csv", "fault-fasta", "fault-fastq", "fault-json", "fault-csv":
		mf := &memFile{}
		if strings.HasPrefix(p.Scn, "fault-") {
			// C18: the program is main() = write everything, WaitForLastPipe(), exit(0). With a failing output the
			// only acceptable end of EVERY interleaving is log.Fatal (outcome exit(1)) BEFORE main gets there.
			mf.failWrite = len(p.Args) > 0 && p.Args[0] == "write"
			mf.failClose = len(p.Args) > 0 && p.Args[0] == "close"
			p.Scn = "write-" + p.Scn[len("fault-"):]
		}
		src := source(makeRecords(p.Scn == "write-fastq"), p.Batch, false)
		opts := []obiformats.WithOption{obiformats.OptionsParallelWorkers(p.Workers), obiformats.OptionCloseFile()}
		var out obiiter.IBioSequence
		var err error
		switch p.Scn {
		case "write-fasta":
			out, err = obiformats.WriteFasta(src, mf, opts...)
		case "write-fastq":
			out, err = obiformats.WriteFastq(src, mf, opts...)
		case "write-json":
			out, err = obiformats.WriteJSON(src, mf, opts...)
		case "write-csv":
			out, err = obiformats.WriteCSV(src, mf, append(opts, obiformats.CSVId(true), obiformats.CSVSequence(true))...)
		}
		if err != nil {
			return "error: " + err.Error()
		}
		out.Consume()
		obiiter.WaitForLastPipe()
		if mf.failWrite || mf.failClose {
			// the end of main() is the end of the process: whatever another goroutine would still report is lost
			vsched.Exit(0)
		}
		return fmt.Sprintf("closed=%d\n%s", mf.closed, mf.buf.String())
	}
	panic("unknown scenario " + p.Scn)
}

func scenarios() []param {
	return []param{
		{Scn: "complement"},
		{Scn: "annotate", Args: []string{"--length", "--set-identifier", `sequence.Id()+"_x"`}},
		{Scn: "annotate", Args: []string{"-S", `len=sequence.Len()`}},
		{Scn: "annotate", Args: []string{"--cut", "3:15"}},
		{Scn: "annotate", Args: []string{"--delete-tag", "tag", "--rename-tag", "cnt=count"}},
		{Scn: "grep", Args: []string{"-l", "10"}},
		{Scn: "grep", Args: []string{"-l", "10", "-L", "700", "-c", "2"}},
		{Scn: "grep", Args: []string{"-a", "tag=t1", "-v"}},
		{Scn: "pairing", Args: []string{"--min-overlap", "10"}},
		{Scn: "pairing", Args: []string{"--min-overlap", "10", "--exact-mode"}},
		{Scn: "pcr", Args: []string{"--forward", fwdPrimer, "--reverse", revPrimer, "-e", "1", "-l", "5", "-L", "60"}},
		{Scn: "pcr", Args: []string{"--forward", fwdPrimer, "--reverse", revPrimer, "-e", "1", "-l", "5", "-L", "60", "--circular"}},
		{Scn: "multiplex", Args: []string{"--keep-errors"}},
		{Scn: "multiplex", Args: []string{"-e", "1"}},
		{Scn: "count"},
		{Scn: "summary"},
		{Scn: "write-fasta"},
		{Scn: "write-fastq"},
		{Scn: "write-json"},
		{Scn: "write-csv"},
		{Scn: "annotate", Args: []string{"--pattern", fwdPrimer, "--pattern-name", "fw"}},
		{Scn: "grep", Args: []string{"--approx-pattern", fwdPrimer, "--pattern-error", "1"}},
	}
}

func poison(x any) {
	if p, ok := x.(*[]byte); ok && p != nil {
		s := (*p)[:cap(*p)]
		for i := range s {
			s[i] = 0xDB
		}
	}
}

// explore = vsched.Explore, except that a failure of the engine's self check "the same schedule run twice gives the same
// trace and the same verdict" (a panic of the engine; it never fails on the pinned tree) is returned instead of ending
// the shard: a tree whose behaviour depends on what earlier executions left behind (package-level state: a counter, a
// cache, a sync.Once) is reported as a violation (control-run/not-deterministic) and the job is given up.
func explore(cfg vsched.Config, body func(x *vsched.Exec)) (st *vsched.Stats, diverged string) {
	defer func() {
		if e := recover(); e != nil {
			if s, ok := e.(string); ok && strings.HasPrefix(s, "vsched: replay of a") {
				st, diverged = &vsched.Stats{Outcomes: map[string]int64{}, TraceHashes: map[uint64]struct{}{}}, s
				return
			}
			panic(e)
		}
	}()
	return vsched.Explore(cfg, body), ""
}

func TestVerifC05(t *testing.T) {
	log.SetOutput(io.Discard)
	log.StandardLogger().ExitFunc = vsched.Exit
	vsched.PoolPoison = poison
	r := verifkit.New("C05")
	defer r.Write()
	devnull, _ := os.OpenFile(os.DevNull, os.O_WRONLY, 0)
	_ = devnull

	reference := func(p param) string {
		q := p
		q.Workers, q.Batch = 1, 100
		if problem := prepare(q); problem != "" {
			return "reference run failed: option-parsing: " + problem
		}
		vsched.PoolChoices = false
		x := vsched.RunOnce(nil, 20000, nil, nil, func(x *vsched.Exec) { x.Obs = body(q) })
		if x.Outcome() != "" {
			return "reference run failed: " + x.Outcome() + " " + x.Detail()
		}
		s, _ := x.Obs.(string)
		return s
	}

	if rc := r.ReplayCase(); rc != nil {
		var p param
		if err := json.Unmarshal(rc, &p); err != nil {
			t.Fatal(err)
		}
		ref := reference(p)
		prepare(p)
		vsched.PoolChoices = true
		found := 0
		cfg := vsched.Config{Name: p.Scn, Preemptions: p.Bound, Deviations: 1, DelayBounding: true, Horizon: 20000, MaxExec: 200000, Policy: p.Policy}
		cfg.Check = func(x *vsched.Exec) string {
			if s, _ := x.Obs.(string); x.Outcome() != "" || s != ref {
				found++
				return "differs"
			}
			return ""
		}
		st := vsched.Explore(cfg, func(x *vsched.Exec) { x.Obs = body(p) })
		r.Eval(st.Executions)
		if found > 0 {
			r.Violate("C05/"+p.Scn+"/replay", fmt.Sprintf("%d executions differ from the sequential reference", found), p)
		}
		fmt.Println("replay: differing executions:", found)
		return
	}

	type job struct {
		p     param
		bound int
		dev   int
		max   int64
	}
	var jobs []job
	ws := []int{2}
	bs := []int{1, 3}
	if verifkit.Thorough() {
		ws = []int{2, 3}
		bs = []int{1, 2, 3, 6}
	}
	scs := scenarios()
	if os.Getenv("VERIF_C05_ONLY") == "fault" {
		// part of C18: the writers over an output that refuses the data
		for _, w := range []string{"fasta", "fastq", "json", "csv"} {
			for _, f := range []string{"write", "close"} {
				scs = append(scs, param{Scn: "fault-" + w, Args: []string{f}})
			}
		}
	}
	if only := os.Getenv("VERIF_C05_ONLY"); only != "" {
		var f []param
		for _, sc := range scs {
			if strings.HasPrefix(sc.Scn, only) {
				f = append(f, sc)
			}
		}
		scs = f
	}
	r.Bound("scenarios", len(scs))
	if r.NShards < len(scs) && r.ReplayCase() == nil {
		r.Cap(fmt.Sprintf("%d shards for %d scenarios: one command line per process, the scenarios beyond the shard count are skipped", r.NShards, len(scs)))
	}
	for si, sc := range scs {
		if si != r.Shard {
			continue
		}
		if !verifkit.Thorough() && sc.Scn != "pairing" && sc.Scn != "pcr" && sc.Scn != "multiplex" {
			// two workers are between a shared load and store at the same time only after two deviations
			// (the feeder hands out the next batch, the other worker takes it): one bound-2 job per scenario
			p := sc
			p.Workers, p.Batch, p.Policy = 2, 3, 0
			jobs = append(jobs, job{p, 2, 0, 25000})
		}
		heavy := sc.Scn == "pairing" || sc.Scn == "pcr" || sc.Scn == "multiplex" // long executions (alignment / C matcher under instrumentation)
		for _, w := range ws {
			for _, b := range bs {
				if heavy && !verifkit.Thorough() && b != 3 {
					continue
				}
				p := sc
				p.Workers, p.Batch = w, b
				for pol := 0; pol <= 1; pol++ {
					p.Policy = pol
					if verifkit.Thorough() {
						jobs = append(jobs, job{p, 2, 1, 150000})
					} else {
						jobs = append(jobs, job{p, 1, 1, 15000})
					}
				}
			}
		}
	}
	for i := range jobs {
		if jobs[i].p.Scn == "summary" {
			// the per-sample maps of the records make the summaries' happens-before states many
			jobs[i].max *= 8
		}
	}
	r.Bound("jobs", len(jobs))
	r.Bound("exploration", "delay bounding (quick 1, thorough 2 deviations) from two default schedulers (lowest-id-first and newest-thread-first) + at most 1 non-default pool answer, happens-before state caching, L2 conflict sites to fixpoint")
	for k, j := range jobs {
		if r.Expired() {
			break
		}
		p := j.p
		fault := strings.HasPrefix(p.Scn, "fault-")
		if fault {
			r.Count("fault_jobs", 1)
		}
		ref := reference(p)
		if fault {
			// the sequential run must itself end in log.Fatal
			if !strings.HasPrefix(ref, "reference run failed: exit(") || strings.HasPrefix(ref, "reference run failed: exit(0)") {
				r.Violate("C18/"+p.Scn+":"+strings.Join(p.Args, "+")+"/sequential-run-does-not-report-the-failure", fmt.Sprintf("%v: %s", p, clip(ref)), p)
				continue
			}
			r.Count("fault_scenarios_whose_sequential_run_exits_nonzero", 1)
		} else if strings.HasPrefix(ref, "reference run failed") {
			r.Violate("C05/"+p.Scn+"/sequential-run-fails", fmt.Sprintf("%v: %s", p, ref), p)
			continue
		}
		if k < 3 {
			r.Sample(map[string]any{"param": p, "sequential_output_bytes": len(ref), "sequential_output_head": ref[:min(len(ref), 160)]})
		}
		r.State(p.Scn + strings.Join(p.Args, " ") + ref)
		prepare(p)
		vsched.PoolChoices = true
		cfg := vsched.Config{Name: p.Scn, Preemptions: j.bound, Deviations: j.dev, DelayBounding: true, Horizon: 20000,
			MaxExec: j.max, Expired: r.Expired, Policy: p.Policy}
		cfg.Check = func(x *vsched.Exec) string {
			if fault {
				o := x.Outcome()
				if strings.HasPrefix(o, "exit(") && o != "exit(0)" {
					return ""
				}
				if o == "" || o == "exit(0)" {
					return "silent-success|the output refused the data (" + p.Args[0] + " fails) and main() reached its end (exit status 0) before any log.Fatal"
				}
				return o + "|" + x.Detail()
			}
			if x.Outcome() != "" {
				return x.Outcome() + "|" + x.Detail()
			}
			got, _ := x.Obs.(string)
			if strings.ContainsRune(got, 0xDB) || strings.Contains(got, "\xdb") {
				return "poison|a recycled buffer reached the output:\n" + got
			}
			if got != ref {
				return "differs|output differs from the sequential run (1 worker, 1 batch)\n--- got\n" + clip(got) + "\n--- sequential\n" + clip(ref)
			}
			return ""
		}
		st, div := explore(cfg, func(x *vsched.Exec) { x.Obs = body(p) })
		vsched.PoolChoices = false
		if div != "" {
			prop := "C05/"
			if fault {
				prop = "C18/"
			}
			q := p
			q.Bound = j.bound
			r.Violate(prop+p.Scn+"/control-run/not-deterministic", fmt.Sprintf("%s %v workers=%d batch=%d: %s", p.Scn, p.Args, p.Workers, p.Batch, div), q)
			r.Cap(fmt.Sprintf("exploration of %s %v given up: the same schedule does not give the same execution twice", p.Scn, p.Args))
			continue
		}
		r.Eval(st.Executions)
		r.Trace(st.Executions)
		r.Trans(st.Points)
		r.Replayed(st.ReplaysChecked)
		r.Count("hb_states", st.States)
		r.Count("schedules_executed", st.Executions)
		for o, n := range st.Outcomes {
			r.Count("outcome_"+o, n)
		}
		for h := range st.TraceHashes {
			r.StateH(h)
		}
		if st.Capped {
			r.Cap(fmt.Sprintf("execution cap / deadline reached for %s %v", p.Scn, p.Args))
		}
		for _, s := range st.ConflictSites {
			r.Note("conflict site: %s", s)
		}
		seen := map[string]bool{}
		for _, v := range st.Violations {
			parts := strings.SplitN(v.Desc, "|", 2)
			key := "C05/" + p.Scn + "/" + parts[0]
			if fault {
				key = "C18/" + p.Scn + ":" + strings.Join(p.Args, "+") + "/" + parts[0]
			}
			if p.Scn == "annotate" || p.Scn == "grep" {
				key += ":" + strings.Join(optNames(p.Args), "+")
			}
			if seen[key] {
				continue
			}
			seen[key] = true
			q := p
			q.Choices, q.Bound = v.Choices, j.bound
			r.Violate(key, fmt.Sprintf("%s %v workers=%d batch=%d schedule=%v: %s", p.Scn, p.Args, p.Workers, p.Batch, v.Choices, parts[1]), q)
		}
	}
	if os.Getenv("VERIF_C05_ONLY") != "fault" {
		r.RequireNonVacuous("schedules_executed") // what the harness did; how the executions ended is the tree's answer
	} else {
		r.RequireNonVacuous("fault_jobs") // faults injected by the harness; whether the sequential run reports them is judged above
	}
}

func optNames(args []string) []string {
	var out []string
	for _, a := range args {
		if strings.HasPrefix(a, "-") {
			out = append(out, a)
		}
	}
	return out
}

func clip(s string) string {
	if len(s) > 1500 {
		return s[:1500] + "…"
	}
	return s
}
