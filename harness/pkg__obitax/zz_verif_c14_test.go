//go:build verif

package obitax_test

// C14 — taxonomy queries agree with the tree: LCA, lineage, clade, rank, aliases.
//
// Bounded exhaustive enumeration: EVERY rooted labelled tree with n <= 5 nodes (thorough: n <= 6;
// n^(n-1) trees per n), two taxid numberings (root == 1 only sometimes / never, alias ids that look like
// ordinary taxids), every assignment of {species, genus, family, no rank} to the nodes for n <= 4
// (thorough: n <= 5 through the API) and depth/index rank patterns otherwise, one merged-id alias per node,
// one unknown taxid.  Every taxonomy is built three times: through AddNewTaxa / AddNewName /
// ReindexParent / AddNewAlias, and through synthetic nodes.dmp / names.dmp / merged.dmp read by
// ncbitaxdump.LoadNCBITaxDump (scientific names only, and all names).  On each: every query of the
// property on every node / pair / triple / subset, compared with ancestor sets computed naively from the
// parent array.
//
// The file is an EXTERNAL test package (obitax_test): package ncbitaxdump imports obitax, so an in-package
// test file could not import the loader (import cycle).  Everything the property speaks about is reachable
// through the exported API.

import (
	"encoding/json"
	"fmt"
	"io"
	"os"
	"path/filepath"
	"sort"
	"strconv"
	"strings"
	"sync/atomic"
	"testing"
	"time"

	"git.metabarcoding.org/obitools/obitools4/obitools4/pkg/obiformats/ncbitaxdump"
	"git.metabarcoding.org/obitools/obitools4/obitools4/pkg/obiseq"
	"git.metabarcoding.org/obitools/obitools4/obitools4/pkg/obitax"
	"git.metabarcoding.org/obitools/obitools4/obitools4/pkg/verifkit"
	log "github.com/sirupsen/logrus"
)

// ---------------------------------------------------------------------------------------------
// case description (also the replay record)

type c14case struct {
	Build  string   `json:"build"`  // "api", "dump-sn" (LoadNCBITaxDump onlysn=true), "dump-all"
	Scheme int      `json:"scheme"` // taxid numbering
	Parent []int    `json:"parent"` // parent[i] = node index of the parent of node i; the root is its own parent
	Ranks  []string `json:"ranks"`
	Full   bool     `json:"full"` // structural queries (LCA, path, clades, sequence LCA) in addition to rank queries
}

var c14ranks = []string{"species", "genus", "family", "no rank"}

const c14absentRank = "order" // never assigned to a node

const c14smallN = 6 // trees up to this size are enumerated exhaustively and get the full query sets

// ---------------------------------------------------------------------------------------------
// reference model: nothing but the parent array

type c14model struct {
	n       int
	parent  []int
	ranks   []string
	ids     []int // taxid of node i
	alias   []int // merged (old) taxid resolving to node i
	unknown int
	names   []string
	anc     [][]int  // anc[i]: node indices from i up to the root, both included
	isAnc   [][]bool // isAnc[a][x]: x is an ancestor-or-self of a
	root    int
	nodeOf  map[int]int // taxid or alias -> node index
	hasRank map[string]bool
}

func c14newModel(c c14case) *c14model {
	n := len(c.Parent)
	m := &c14model{n: n, parent: c.Parent, ranks: c.Ranks, nodeOf: map[int]int{}, hasRank: map[string]bool{}}
	m.ids = make([]int, n)
	m.alias = make([]int, n)
	m.names = make([]string, n)
	for i := 0; i < n; i++ {
		switch c.Scheme {
		case 0: // root is taxid 1 exactly when node 0 is the root
			m.ids[i] = i + 1
			m.alias[i] = 10000 + i
			m.unknown = 9999
		default: // descending, sparse taxids, root never 1; alias ids look like scheme-0 taxids (1 is an alias)
			m.ids[i] = 100000 - 37*i
			m.alias[i] = i + 1
			m.unknown = 50000
		}
		m.names[i] = fmt.Sprintf("Taxon %d", m.ids[i])
		m.nodeOf[m.ids[i]] = i
		m.nodeOf[m.alias[i]] = i
		m.hasRank[c.Ranks[i]] = true
		if c.Parent[i] == i {
			m.root = i
		}
	}
	m.anc = make([][]int, n)
	m.isAnc = make([][]bool, n)
	for i := 0; i < n; i++ {
		m.isAnc[i] = make([]bool, n)
		x := i
		for {
			m.anc[i] = append(m.anc[i], x)
			m.isAnc[i][x] = true
			if c.Parent[x] == x {
				break
			}
			x = c.Parent[x]
		}
	}
	return m
}

// lca of two nodes: the first (deepest) ancestor-or-self of a that is an ancestor-or-self of b
func (m *c14model) lca(a, b int) int {
	for _, x := range m.anc[a] {
		if m.isAnc[b][x] {
			return x
		}
	}
	panic("c14 harness: not a tree")
}

func (m *c14model) lcaSet(s []int) int {
	l := s[0]
	for _, x := range s[1:] {
		l = m.lca(l, x)
	}
	return l
}

// all ancestors-or-self of a carrying rank (deepest first)
func (m *c14model) atRank(a int, rank string) []int {
	var out []int
	for _, x := range m.anc[a] {
		if m.ranks[x] == rank {
			out = append(out, x)
		}
	}
	return out
}

// relClass is the coarse relation used in violation keys (relation() is the fine one used for counters)
func (m *c14model) relClass(a, b int) string {
	switch {
	case m.isAnc[a][b] || m.isAnc[b][a]:
		return "ancestor-or-self"
	case len(m.anc[a]) != len(m.anc[b]):
		return "unrelated-unequal-depth"
	default:
		return "unrelated-equal-depth"
	}
}

func (m *c14model) relation(a, b int) string {
	switch {
	case a == b && a == m.root:
		return "root,root"
	case a == b:
		return "same"
	case a == m.root || b == m.root:
		return "root-involved"
	case m.isAnc[a][b] || m.isAnc[b][a]:
		return "ancestor-descendant"
	case len(m.anc[a]) != len(m.anc[b]):
		return "unrelated-unequal-depth"
	default:
		return "unrelated-equal-depth"
	}
}

// ---------------------------------------------------------------------------------------------
// building the implementation's taxonomy

func c14buildAPI(m *c14model) (*obitax.Taxonomy, error) {
	tax := obitax.NewTaxonomy()
	for i := 0; i < m.n; i++ {
		if _, err := tax.AddNewTaxa(m.ids[i], m.ids[m.parent[i]], m.ranks[i], false, false); err != nil {
			return nil, fmt.Errorf("AddNewTaxa(%d): %v", m.ids[i], err)
		}
	}
	if err := tax.ReindexParent(); err != nil {
		return nil, fmt.Errorf("ReindexParent: %v", err)
	}
	sn := "scientific name"
	syn := "synonym"
	for i := 0; i < m.n; i++ {
		name := m.names[i]
		if err := tax.AddNewName(m.ids[i], &name, &sn); err != nil {
			return nil, fmt.Errorf("AddNewName(%d): %v", m.ids[i], err)
		}
		other := fmt.Sprintf("syn %d", m.ids[i])
		if err := tax.AddNewName(m.ids[i], &other, &syn); err != nil {
			return nil, fmt.Errorf("AddNewName(%d): %v", m.ids[i], err)
		}
	}
	for i := 0; i < m.n; i++ {
		if err := tax.AddNewAlias(m.ids[i], m.alias[i]); err != nil {
			return nil, fmt.Errorf("AddNewAlias(%d,%d): %v", m.ids[i], m.alias[i], err)
		}
	}
	return tax, nil
}

var c14tmp string
var c14tmpNamesFor string // names.dmp / merged.dmp depend on (scheme, n) only: rewritten only when they change

func c14writeDump(m *c14model, dir string) error {
	var nodes, names, merged strings.Builder
	for i := 0; i < m.n; i++ {
		// the 13 columns of an NCBI nodes.dmp line
		fmt.Fprintf(&nodes, "%d\t|\t%d\t|\t%s\t|\t\t|\t8\t|\t0\t|\t1\t|\t0\t|\t0\t|\t0\t|\t0\t|\t0\t|\t\t|\n",
			m.ids[i], m.ids[m.parent[i]], m.ranks[i])
		fmt.Fprintf(&names, "%d\t|\tsyn %d\t|\t\t|\tsynonym\t|\n", m.ids[i], m.ids[i])
		fmt.Fprintf(&names, "%d\t|\t%s\t|\t\t|\tscientific name\t|\n", m.ids[i], m.names[i])
		fmt.Fprintf(&names, "%d\t|\tcommon %d\t|\tcommon %d <x>\t|\tgenbank common name\t|\n", m.ids[i], m.ids[i], m.ids[i])
		fmt.Fprintf(&merged, "%d\t|\t%d\t|\n", m.alias[i], m.ids[i])
	}
	files := map[string]string{"nodes.dmp": nodes.String()}
	if sig := fmt.Sprint(m.ids, m.alias); sig != c14tmpNamesFor {
		files["names.dmp"] = names.String()
		files["merged.dmp"] = merged.String()
		c14tmpNamesFor = sig
	}
	for fn, s := range files {
		if err := os.WriteFile(filepath.Join(dir, fn), []byte(s), 0o644); err != nil {
			return err
		}
	}
	return nil
}

// ---------------------------------------------------------------------------------------------
// guarded execution of implementation calls

type c14fatal struct{}

type c14op struct {
	fn      string
	a, b, c int
	s       string
	family  string
}

type c14ctx struct {
	r     *verifkit.Result
	c     c14case
	m     *c14model
	tax   *obitax.Taxonomy
	nodes []*obitax.TaxNode
	cur   atomic.Pointer[c14op]
	evals int64

	family     string // query family being run (see c14disabled)
	phase      string // "" or "@after-sequence-queries": suffix of the violation keys of the re-query pass
	light      bool   // re-query pass: node-level queries only
	harnessErr string // a failure of the harness itself (never a verdict)
}

func (cx *c14ctx) id(i int) string {
	if i < 0 {
		return "-"
	}
	return strconv.Itoa(i)
}

func (cx *c14ctx) describe(op *c14op) string {
	return fmt.Sprintf("%s(%d,%d,%d,%q) on build=%s scheme=%d parent=%v ids=%v alias=%v ranks=%q",
		op.fn, op.a, op.b, op.c, op.s, cx.c.Build, cx.c.Scheme, cx.m.parent, cx.m.ids, cx.m.alias, cx.m.ranks)
}

func (cx *c14ctx) violate(key, format string, a ...any) {
	op := cx.cur.Load()
	where := ""
	if op != nil {
		where = cx.describe(op) + ": "
	}
	cx.r.Violate(key+cx.phase, where+fmt.Sprintf(format, a...), cx.c)
}

// do runs one implementation call. Arguments a,b,c are taxids (or -1). It returns ok=false when the call
// panicked (reported as a violation <fn>/panic) or ended in log.Fatal (fatal=true, judged by the caller).
func (cx *c14ctx) do(fn string, a, b, c int, s string, f func()) (ok, fatal bool) {
	cx.cur.Store(&c14op{fn, a, b, c, s, cx.family})
	cx.evals++
	defer func() {
		if rec := recover(); rec != nil {
			ok = false
			if _, isFatal := rec.(c14fatal); isFatal {
				fatal = true
				return
			}
			cx.violate(fn+"/panic", "panic: %v", rec)
		}
	}()
	f()
	return true, false
}

func c14tid(t *obitax.TaxNode) int {
	if t == nil {
		return -1
	}
	return t.Taxid()
}

func c14seq(taxid int) *obiseq.BioSequence {
	s := obiseq.NewBioSequence("s", []byte("acgt"), "")
	s.SetAttribute("taxid", taxid)
	return s
}

// ---------------------------------------------------------------------------------------------
// 1. the loaded / built taxonomy is the tree (taxids, parents, ranks, names, aliases, unknown id)

func (cx *c14ctx) checkStructure() bool {
	m, tax := cx.m, cx.tax
	site := "Taxonomy(api)"
	if cx.c.Build != "api" {
		site = "LoadNCBITaxDump"
	}
	good := true
	bad := func(class, format string, a ...any) {
		good = false
		cx.violate(site+"/"+class, format, a...)
	}
	cx.nodes = make([]*obitax.TaxNode, m.n)
	ok, _ := cx.do(site+".structure", -1, -1, -1, "", func() {
		if tax.Len() != m.n {
			bad("node-count", "Len()=%d want %d", tax.Len(), m.n)
		}
		for i := 0; i < m.n; i++ {
			t, err := tax.Taxon(m.ids[i])
			if err != nil || t == nil {
				bad("taxon-missing", "Taxon(%d): %v", m.ids[i], err)
				continue
			}
			cx.nodes[i] = t
			if t.Taxid() != m.ids[i] {
				bad("taxon-wrong", "Taxon(%d).Taxid()=%d", m.ids[i], t.Taxid())
			}
			if p := t.Parent(); p == nil {
				bad("parent-link", "Taxon(%d).Parent() is nil", m.ids[i])
			} else if p.Taxid() != m.ids[m.parent[i]] {
				bad("parent-link", "Taxon(%d).Parent()=%d want %d", m.ids[i], p.Taxid(), m.ids[m.parent[i]])
			}
			if t.Rank() != m.ranks[i] {
				bad("rank", "Taxon(%d).Rank()=%q want %q", m.ids[i], t.Rank(), m.ranks[i])
			}
			if t.ScientificName() != m.names[i] {
				bad("scientific-name", "Taxon(%d).ScientificName()=%q want %q", m.ids[i], t.ScientificName(), m.names[i])
			}
		}
	})
	if !ok || !good {
		return false
	}
	// alias resolution, int and string forms, unknown taxid. The API-built twin of every dump-loaded taxonomy
	// is checked with the same queries, so a failure seen on a loaded taxonomy is keyed on the loader; a defect
	// of Taxonomy.Taxon itself shows up under its own key on the API build.
	keySite := func(fn string) string {
		if cx.c.Build != "api" {
			return site
		}
		return fn
	}
	for i := 0; i < m.n; i++ {
		for _, q := range []int{m.ids[i], m.alias[i]} {
			for form := 0; form < 2; form++ {
				var t *obitax.TaxNode
				var err error
				fn := "Taxonomy.Taxon"
				if form == 1 {
					fn = "Taxonomy.Taxon(string)"
				}
				ok, _ := cx.do(fn, q, -1, -1, "", func() {
					if form == 0 {
						t, err = tax.Taxon(q)
					} else {
						t, err = tax.Taxon(strconv.Itoa(q))
					}
				})
				if !ok {
					good = false
					continue
				}
				class := "taxid"
				if q == m.alias[i] {
					class = "alias"
				}
				if err != nil || t == nil {
					good = false
					cx.violate(keySite(fn)+"/"+class+"-not-resolved", "error %v, want taxon %d", err, m.ids[i])
				} else if t.Taxid() != m.ids[i] {
					good = false
					cx.violate(keySite(fn)+"/"+class+"-wrong-taxon", "got %d want %d", t.Taxid(), m.ids[i])
				}
			}
		}
	}
	for form := 0; form < 2; form++ {
		var t *obitax.TaxNode
		var err error
		fn := "Taxonomy.Taxon"
		ok, _ := cx.do(fn, m.unknown, -1, -1, "", func() {
			if form == 0 {
				t, err = tax.Taxon(m.unknown)
			} else {
				t, err = tax.Taxon(strconv.Itoa(m.unknown))
			}
		})
		if ok && err == nil && t != nil {
			good = false
			cx.violate(keySite(fn)+"/unknown-taxid-resolved", "unknown taxid %d resolved to %d", m.unknown, t.Taxid())
		}
	}
	cx.r.Count("alias_resolutions", int64(2*m.n))

	// other spellings of a taxid in a string (the slot read by IsSubCladeOfSlot holds strings): "TX:<taxid>"
	// alone or inside a text with other digits. Judged only when this tree resolves such strings at all
	// (c14txForms, probed once): then they designate the taxon whose taxid follows "TX:", for taxids, aliases
	// and the unknown taxid alike. A string without any digit designates no taxon.
	if !cx.c.Full {
		return good // the spellings do not depend on the ranks: once per (construction, numbering, tree)
	}
	if c14txForms {
		for i := 0; i <= m.n; i++ {
			qs := []int{m.unknown}
			if i < m.n {
				qs = []int{m.ids[i], m.alias[i]}
			}
			for _, q := range qs {
				for _, form := range c14stringForms(q) {
					var t *obitax.TaxNode
					var err error
					fn := "Taxonomy.Taxon(string)"
					if ok, _ := cx.do(fn, q, -1, -1, form, func() { t, err = tax.Taxon(form) }); !ok {
						continue
					}
					cx.r.Count("taxid_string_forms", 1)
					switch {
					case i == m.n:
						if err == nil && t != nil {
							cx.violate(fn+"/TX-form-unknown-taxid-resolved", "%q resolved to %d", form, t.Taxid())
						}
					case err != nil || t == nil:
						cx.violate(fn+"/TX-form-not-resolved", "%q: error %v, want taxon %d", form, err, m.ids[i])
					case t.Taxid() != m.ids[i]:
						cx.violate(fn+"/TX-form-wrong-taxon", "%q: got %d want %d", form, t.Taxid(), m.ids[i])
					}
				}
			}
		}
	}
	for _, form := range []string{"", "abc", "TX:", "TX:x"} {
		var t *obitax.TaxNode
		var err error
		fn := "Taxonomy.Taxon(string)"
		if ok, _ := cx.do(fn, -1, -1, -1, form, func() { t, err = tax.Taxon(form) }); ok && err == nil && t != nil {
			cx.violate(fn+"/string-without-taxid-resolved", "%q resolved to %d", form, t.Taxid())
		}
	}
	return good
}

// does this tree resolve "TX:<taxid>" strings at all (probed once on a one-node taxonomy)
var c14txForms bool

func c14probeTxForms() bool {
	ok := false
	func() {
		defer func() { recover() }() // whatever happens here is judged by the cases, not by this probe
		tax := obitax.NewTaxonomy()
		if _, err := tax.AddNewTaxa(7, 7, "no rank", false, false); err != nil || tax.ReindexParent() != nil {
			return
		}
		t, err := tax.Taxon("TX:7")
		ok = err == nil && t != nil && t.Taxid() == 7
	}()
	return ok
}

func c14stringForms(q int) []string {
	return []string{fmt.Sprintf("TX:%d", q), fmt.Sprintf("Taxon %d sp. 3 [TX:%d] 12", q+1, q)}
}

// ---------------------------------------------------------------------------------------------
// 2. structural queries: Path, LCA (pairs, triples, laws), IsSubCladeOf, IsBelongingSubclades,
//    sequence clade predicates, sequence LCA

func (cx *c14ctx) checkPaths() {
	m, tax := cx.m, cx.tax
	cmp := func(fn string, p *obitax.TaxonSlice, err error, i int) {
		if err != nil || p == nil {
			cx.violate(fn+"/error", "error %v for a taxon of the tree", err)
			return
		}
		got := make([]int, 0, len(*p))
		for _, t := range *p {
			got = append(got, c14tid(t))
		}
		want := make([]int, 0, len(m.anc[i]))
		for _, x := range m.anc[i] {
			want = append(want, m.ids[x])
		}
		if fmt.Sprint(got) != fmt.Sprint(want) {
			class := "wrong-path"
			if len(got) > 0 && got[0] != want[0] {
				class = "does-not-start-at-taxon"
			} else if len(got) > 0 && got[len(got)-1] != want[len(want)-1] {
				class = "does-not-end-at-root"
			}
			cx.violate(fn+"/"+class, "got %v want %v", got, want)
		}
	}
	for i := 0; i < m.n; i++ {
		var p *obitax.TaxonSlice
		var err error
		if ok, _ := cx.do("TaxNode.Path", m.ids[i], -1, -1, "", func() { p, err = cx.nodes[i].Path() }); ok {
			cmp("TaxNode.Path", p, err, i)
			if err == nil && p != nil && len(*p) > 0 {
				// the accessors of the answer
				var l int
				var first *obitax.TaxNode
				var str string
				if ok, _ := cx.do("TaxonSlice.Len/Get/String", m.ids[i], -1, -1, "", func() { l, first, str = p.Len(), p.Get(0), p.String() }); ok {
					if l != len(*p) || first != (*p)[0] {
						cx.violate("TaxonSlice.Len/Get/wrong", "Len()=%d Get(0)=%d on a path of %d taxa starting at %d", l, c14tid(first), len(*p), c14tid((*p)[0]))
					}
					cx.judgePathString("TaxonSlice.String", str, i)
				}
				// the answer belongs to the caller (Taxonomy.LCA(sequence) reverses it in place): modifying it
				// must not change what the next call says
				for a, b := 0, len(*p)-1; a < b; a, b = a+1, b-1 {
					(*p)[a], (*p)[b] = (*p)[b], (*p)[a]
				}
				(*p)[0] = nil
				var p2 *obitax.TaxonSlice
				fn := "TaxNode.Path(after-the-caller-modified-a-previous-answer)"
				if ok, _ := cx.do(fn, m.ids[i], -1, -1, "", func() { p2, err = cx.nodes[i].Path() }); ok {
					cmp(fn, p2, err, i)
					cx.r.Count("path_ownership_histories", 1)
				}
			}
		}
		for _, q := range []int{m.ids[i], m.alias[i]} {
			if ok, _ := cx.do("Taxonomy.Path", q, -1, -1, "", func() { p, err = tax.Path(q) }); ok {
				cmp("Taxonomy.Path", p, err, i)
			}
		}
		cx.r.Count("paths", 3)
		if len(m.anc[i]) > 1 {
			cx.r.Count("paths_longer_than_1", 1)
		}
	}
	var p *obitax.TaxonSlice
	var err error
	if ok, _ := cx.do("Taxonomy.Path", m.unknown, -1, -1, "", func() { p, err = tax.Path(m.unknown) }); ok {
		if err == nil && p != nil && len(*p) > 0 {
			cx.violate("Taxonomy.Path/unknown-taxid-has-path", "unknown taxid %d has a path of %d taxa", m.unknown, len(*p))
		}
	}
	if cx.light {
		return
	}

	// sequence layer: --taxonomic-path, --scientific-name, --taxonomic-rank (SetPath / MakeSetPathWorker /
	// SetScientificName / SetTaxonomicRank). log.Fatal on a sequence whose taxid is unknown is a refusal to run.
	var pathWorker obiseq.SeqWorker
	cx.do("Taxonomy.MakeSetPathWorker", -1, -1, -1, "", func() { pathWorker = tax.MakeSetPathWorker() })
	for _, S := range append(append(append([]int{}, m.ids...), m.alias...), m.unknown) {
		sn, sknown := m.nodeOf[S]
		for v := 0; v < 2; v++ {
			fn := "Taxonomy.SetPath"
			if v == 1 {
				fn = "Taxonomy.MakeSetPathWorker(seq)"
				if pathWorker == nil {
					continue
				}
			}
			s := c14seq(S)
			ok, _ := cx.do(fn, S, -1, -1, "", func() {
				if v == 0 {
					tax.SetPath(s)
				} else {
					pathWorker(s)
				}
			})
			if !ok || !sknown {
				continue
			}
			cx.r.Count("seq_paths", 1)
			if str, has := s.GetStringAttribute("taxonomic_path"); !has {
				cx.violate(fn+"/missing", "sequence taxid %d: no taxonomic_path attribute", S)
			} else {
				cx.judgePathString(fn, str, sn)
			}
		}
		s := c14seq(S)
		if ok, _ := cx.do("Taxonomy.SetScientificName", S, -1, -1, "", func() { tax.SetScientificName(s) }); ok && sknown {
			g, has := s.GetStringAttribute("scientific_name")
			if !has {
				g, has = s.GetStringAttribute("scienctific_name") // the spelling of the attribute is not constrained
			}
			if !has || g != m.names[sn] {
				cx.violate("Taxonomy.SetScientificName/wrong", "sequence taxid %d: name %q (present=%v) want %q", S, g, has, m.names[sn])
			}
		}
		s = c14seq(S)
		if ok, _ := cx.do("Taxonomy.SetTaxonomicRank", S, -1, -1, "", func() { tax.SetTaxonomicRank(s) }); ok && sknown {
			if g, has := s.GetStringAttribute("taxonomic_rank"); !has || g != m.ranks[sn] {
				cx.violate("Taxonomy.SetTaxonomicRank/wrong", "sequence taxid %d: taxonomic_rank=%q (present=%v) want %q", S, g, has, m.ranks[sn])
			}
		}
	}
}

// judgePathString: a printed path is a list of taxid@name@rank joined by '|' naming the taxa from node i to
// the root (either direction: the statement does not say which end comes first) with their names and ranks
func (cx *c14ctx) judgePathString(fn, str string, i int) {
	m := cx.m
	var got []int
	fieldsOK := true
	for _, item := range strings.Split(str, "|") {
		f := strings.Split(item, "@")
		id, err := strconv.Atoi(f[0])
		if len(f) != 3 || err != nil {
			cx.violate(fn+"/malformed", "%q is not a list of taxid@name@rank", str)
			return
		}
		got = append(got, id)
		if x, ok := m.nodeOf[id]; !ok || m.ids[x] != id || f[1] != m.names[x] || f[2] != m.ranks[x] {
			fieldsOK = false
		}
	}
	var up, down []int
	for _, x := range m.anc[i] {
		up = append(up, m.ids[x])
		down = append([]int{m.ids[x]}, down...)
	}
	switch {
	case fmt.Sprint(got) != fmt.Sprint(down) && fmt.Sprint(got) != fmt.Sprint(up):
		cx.violate(fn+"/wrong-taxa", "%q, want the taxa %v (root first) or %v", str, down, up)
	case !fieldsOK:
		cx.violate(fn+"/wrong-name-or-rank", "%q: a name or a rank is not the one of the taxid", str)
	}
}

func (cx *c14ctx) checkLCA() {
	m := cx.m
	n := m.n
	got := make([][]int, n) // node index of the implementation's answer, -1 when unusable
	for a := 0; a < n; a++ {
		got[a] = make([]int, n)
		for b := 0; b < n; b++ {
			got[a][b] = -1
			var t *obitax.TaxNode
			var err error
			ok, _ := cx.do("TaxNode.LCA", m.ids[a], m.ids[b], -1, "", func() { t, err = cx.nodes[a].LCA(cx.nodes[b]) })
			if !ok {
				continue
			}
			rel := m.relation(a, b)
			cx.r.Count("lca_pairs", 1)
			cx.r.Count("lca_pairs:"+rel, 1)
			if err != nil || t == nil {
				cx.violate("TaxNode.LCA/error", "error %v (%s)", err, rel)
				continue
			}
			want := m.lca(a, b)
			if t.Taxid() != m.ids[want] {
				cx.violate("TaxNode.LCA/wrong-taxon:"+m.relClass(a, b), "got %d want %d (%s)", t.Taxid(), m.ids[want], rel)
			}
			if x, known := m.nodeOf[t.Taxid()]; known && t.Taxid() == m.ids[x] {
				got[a][b] = x
			}
		}
	}
	// laws on the implementation's own answers
	for a := 0; a < n; a++ {
		if got[a][a] != -1 && got[a][a] != a {
			cx.cur.Store(&c14op{"TaxNode.LCA", m.ids[a], m.ids[a], -1, "", cx.family})
			cx.violate("TaxNode.LCA/not-idempotent", "LCA(x,x)=%d", m.ids[got[a][a]])
		}
		for b := a + 1; b < n; b++ {
			if got[a][b] != got[b][a] {
				cx.cur.Store(&c14op{"TaxNode.LCA", m.ids[a], m.ids[b], -1, "", cx.family})
				cx.violate("TaxNode.LCA/not-commutative", "LCA(a,b)=%s LCA(b,a)=%s (node indices)", cx.id(got[a][b]), cx.id(got[b][a]))
			}
		}
	}
	if cx.light {
		return
	}
	// triples: LCA(LCA(a,b),c) and LCA(a,LCA(b,c)) computed by the implementation from its own intermediate nodes
	big := n > c14smallN // large structured trees: unordered triples only (ordered ones for the exhaustive small trees)
	for a := 0; a < n; a++ {
		for b := 0; b < n; b++ {
			if big && b < a {
				continue
			}
			for c := 0; c < n; c++ {
				if big && c < b {
					continue
				}
				want := m.ids[m.lcaSet([]int{a, b, c})]
				l, r := -1, -1
				okl, _ := cx.do("TaxNode.LCA", m.ids[a], m.ids[b], m.ids[c], "LCA(LCA(a,b),c)", func() {
					ab, err := cx.nodes[a].LCA(cx.nodes[b])
					if err != nil || ab == nil {
						return
					}
					t, err := ab.LCA(cx.nodes[c])
					if err == nil {
						l = c14tid(t)
					}
				})
				okr, _ := cx.do("TaxNode.LCA", m.ids[a], m.ids[b], m.ids[c], "LCA(a,LCA(b,c))", func() {
					bc, err := cx.nodes[b].LCA(cx.nodes[c])
					if err != nil || bc == nil {
						return
					}
					t, err := cx.nodes[a].LCA(bc)
					if err == nil {
						r = c14tid(t)
					}
				})
				if !okl || !okr {
					continue
				}
				cx.r.Count("lca_triples", 1)
				if a != b && b != c && a != c {
					cx.r.Count("lca_triples_distinct", 1)
				}
				if l != r {
					cx.violate("TaxNode.LCA/not-associative", "LCA(LCA(a,b),c)=%d LCA(a,LCA(b,c))=%d want %d", l, r, want)
				} else if l != want {
					cx.violate("TaxNode.LCA/wrong-taxon:triple", "got %d want %d", l, want)
				}
			}
		}
	}
}

func (cx *c14ctx) checkClades() {
	m, tax := cx.m, cx.tax
	n := m.n
	for a := 0; a < n; a++ {
		for b := 0; b < n; b++ {
			var g bool
			if ok, _ := cx.do("TaxNode.IsSubCladeOf", m.ids[a], m.ids[b], -1, "", func() { g = cx.nodes[a].IsSubCladeOf(cx.nodes[b]) }); ok {
				cx.r.Count("clade_pairs", 1)
				if m.isAnc[a][b] {
					cx.r.Count("clade_pairs_true", 1)
				}
				if g != m.isAnc[a][b] {
					class := "false-positive"
					if m.isAnc[a][b] {
						class = "false-negative"
					}
					cx.violate("TaxNode.IsSubCladeOf/"+class, "got %v want %v (%s)", g, m.isAnc[a][b], m.relation(a, b))
				}
			}
		}
		if cx.light {
			continue
		}
		cladeSet := func(members []int) {
			set := make(obitax.TaxonSet)
			want := false
			for _, x := range members {
				set.Inserts(cx.nodes[x])
				want = want || m.isAnc[a][x]
			}
			var g bool
			if ok, _ := cx.do("TaxNode.IsBelongingSubclades", m.ids[a], -1, -1, fmt.Sprint("clade nodes ", members), func() { g = cx.nodes[a].IsBelongingSubclades(&set) }); ok {
				cx.r.Count("clade_sets", 1)
				if g != want {
					class := "false-positive"
					if want {
						class = "false-negative"
					}
					cx.violate("TaxNode.IsBelongingSubclades/"+class, "clade set (node indices) %v: got %v want %v", members, g, want)
				}
			}
		}
		if n <= c14smallN { // every subset of the nodes, the empty one included
			for mask := 0; mask < 1<<n; mask++ {
				var members []int
				for x := 0; x < n; x++ {
					if mask&(1<<x) != 0 {
						members = append(members, x)
					}
				}
				cladeSet(members)
			}
		} else { // large structured trees: the empty set, every singleton, every pair
			cladeSet(nil)
			for x := 0; x < n; x++ {
				cladeSet([]int{x})
				for y := x + 1; y < n; y++ {
					cladeSet([]int{x, y})
				}
			}
		}
	}

	if cx.light {
		return
	}
	// sequence predicates: restrict-to (IsSubCladeOf(taxid), IsSubCladeOfSlot) and ignore (its negation)
	qs := append(append([]int{}, m.ids...), m.alias...)
	seqIDs := append(append([]int{}, qs...), m.unknown)

	// validity filter (alias resolution at the sequence level): a sequence is valid when its taxid or a merged
	// id of it is in the taxonomy; with auto-correction a merged id is replaced by the current taxid. Each
	// predicate is applied twice to every taxid (it remembers the deprecated taxids it has reported).
	for auto := 0; auto < 2; auto++ {
		var pred obiseq.SequencePredicate
		fn := "Taxonomy.IsAValidTaxon"
		if auto == 1 {
			fn = "Taxonomy.IsAValidTaxon(autocorrect)"
		}
		if ok, _ := cx.do(fn, -1, -1, -1, "", func() {
			if auto == 1 {
				pred = tax.IsAValidTaxon(true)
			} else {
				pred = tax.IsAValidTaxon()
			}
		}); !ok || pred == nil {
			continue
		}
		for rep := 0; rep < 2; rep++ {
			for _, S := range seqIDs {
				sn, sknown := m.nodeOf[S]
				s := c14seq(S)
				var g bool
				if ok, _ := cx.do(fn+"(seq)", S, -1, -1, "", func() { g = pred(s) }); !ok {
					continue
				}
				cx.r.Count("seq_validity_predicates", 1)
				if g != sknown {
					class := "taxid"
					if !sknown {
						class = "unknown-taxid"
					} else if S != m.ids[sn] {
						class = "alias"
					}
					cx.violate(fn+"/wrong:"+class, "sequence taxid %d: got %v want %v", S, g, sknown)
				}
				if auto == 1 && sknown && s.Taxid() != m.ids[sn] {
					cx.violate(fn+"/taxid-not-current", "sequence taxid %d became %d, want the current taxid %d", S, s.Taxid(), m.ids[sn])
				}
			}
		}
	}
	for _, P := range append(append([]int{}, qs...), m.unknown) {
		var pred obiseq.SequencePredicate
		ok, fatal := cx.do("Taxonomy.IsSubCladeOf(taxid)", P, -1, -1, "", func() { pred = cx.tax.IsSubCladeOf(P) })
		pn, pknown := m.nodeOf[P]
		if fatal {
			if pknown {
				cx.violate("Taxonomy.IsSubCladeOf(taxid)/fatal-on-known-taxid", "log.Fatal for taxid %d of the taxonomy", P)
			}
			// unknown clade taxid: refusing to run is a legitimate outcome
		} else if ok && pknown && pred != nil {
			for _, S := range seqIDs {
				sn, sknown := m.nodeOf[S]
				want := sknown && m.isAnc[sn][pn]
				var g bool
				if ok, _ := cx.do("Taxonomy.IsSubCladeOf(taxid)(seq)", P, S, -1, "", func() { g = pred(c14seq(S)) }); ok {
					cx.r.Count("seq_clade_predicates", 1)
					if g != want {
						class := "known-seq-taxid"
						if !sknown {
							class = "unknown-seq-taxid"
						}
						cx.violate("Taxonomy.IsSubCladeOf(taxid)/wrong:"+class, "restrict-to %d, sequence taxid %d: got %v want %v", P, S, g, want)
					}
				}
				if sknown {
					if ok, _ := cx.do("Taxonomy.IsSubCladeOf(taxid).Not()(seq)", P, S, -1, "", func() { g = pred.Not()(c14seq(S)) }); ok {
						if g != !want {
							cx.violate("Taxonomy.IsSubCladeOf(taxid).Not/wrong", "ignore %d, sequence taxid %d: got %v want %v", P, S, g, !want)
						}
					}
				}
			}
		}
		// slot form: the clade taxid is read from an attribute of the sequence (int or string valued)
		var spred obiseq.SequencePredicate
		if ok, _ := cx.do("Taxonomy.IsSubCladeOfSlot", -1, -1, -1, "clade", func() { spred = tax.IsSubCladeOfSlot("clade") }); ok && spred != nil {
			for k, S := range seqIDs {
				sn, sknown := m.nodeOf[S]
				want := sknown && pknown && m.isAnc[sn][pn]
				var g bool
				slotKind := "int-slot"
				if ok, _ := cx.do("Taxonomy.IsSubCladeOfSlot(seq)", P, S, -1, "clade", func() {
					s := c14seq(S)
					switch {
					case k%3 == 0:
						s.SetAttribute("clade", P)
					case k%3 == 1 || !c14txForms:
						slotKind = "decimal-string-slot"
						s.SetAttribute("clade", strconv.Itoa(P))
					default:
						slotKind = "TX-string-slot"
						s.SetAttribute("clade", c14stringForms(P)[(k/3)%2])
					}
					g = spred(s)
				}); ok {
					cx.r.Count("seq_clade_predicates", 1)
					if g != want {
						cx.violate("Taxonomy.IsSubCladeOfSlot/wrong:"+slotKind, "slot clade=%d, sequence taxid %d: got %v want %v", P, S, g, want)
					}
				}
			}
		}
	}
}

// sequence LCA with zero error tolerance over every merged_taxid map with <= 3 keys drawn from taxids and aliases
func (cx *c14ctx) checkSeqLCA() {
	m, tax := cx.m, cx.tax
	keys := append(append([]int{}, m.ids...), m.alias...)
	K := len(keys)
	var worker obiseq.SeqWorker
	cx.do("AddLCAWorker", -1, -1, -1, "lca_taxid", func() { worker = obitax.AddLCAWorker(tax, "lca_taxid", 1.0) })

	caseNo := 0
	run := func(sel []int) {
		nodes := make([]int, len(sel))
		for i, k := range sel {
			nodes[i] = m.nodeOf[keys[k]]
		}
		want := m.ids[m.lcaSet(nodes)]
		// weight patterns: all ones; first key heavy; last key heavy
		for wp := 0; wp < 3; wp++ {
			if len(sel) == 1 && wp > 0 {
				break
			}
			w := make([]int, len(sel))
			for i := range w {
				w[i] = 1
			}
			if wp == 1 {
				w[0] = 5
			}
			if wp == 2 {
				w[len(w)-1] = 3
			}
			caseNo++
			s := c14seq(keys[sel[0]])
			// the three representations StatsOn accepts (native, plain map, map decoded from a JSON header)
			switch caseNo % 3 {
			case 0:
				st := obiseq.StatsOnValues{}
				for i, k := range sel {
					st[strconv.Itoa(keys[k])] = w[i]
				}
				s.SetAttribute("merged_taxid", st)
			case 1:
				st := map[string]int{}
				for i, k := range sel {
					st[strconv.Itoa(keys[k])] = w[i]
				}
				s.SetAttribute("merged_taxid", st)
			default:
				st := map[string]interface{}{}
				for i, k := range sel {
					st[strconv.Itoa(keys[k])] = float64(w[i])
				}
				s.SetAttribute("merged_taxid", st)
			}
			desc := fmt.Sprintf("merged_taxid keys=%v weights=%v", func() []int {
				o := make([]int, len(sel))
				for i, k := range sel {
					o[i] = keys[k]
				}
				return o
			}(), w)
			var t *obitax.TaxNode
			if ok, _ := cx.do("Taxonomy.LCA(sequence,1.0)", -1, -1, -1, desc, func() { t, _, _ = tax.LCA(s, 1.0) }); ok {
				cx.r.Count("seq_lca", 1)
				if len(sel) > 1 {
					cx.r.Count("seq_lca_multi", 1)
				}
				if c14tid(t) != want {
					class := fmt.Sprintf("%d-taxids", len(sel))
					cx.violate("Taxonomy.LCA(sequence)/wrong-taxon:"+class, "got %d want %d", c14tid(t), want)
				}
			}
			if wp == 0 && worker != nil {
				var out obiseq.BioSequenceSlice
				var err error
				if ok, _ := cx.do("AddLCAWorker(seq)", -1, -1, -1, desc, func() { out, err = worker(s) }); ok {
					if err != nil || len(out) != 1 {
						cx.violate("AddLCAWorker/error", "err=%v, %d sequences returned", err, len(out))
					} else {
						g, has := out[0].GetIntAttribute("lca_taxid")
						if !has || g != want {
							cx.violate("AddLCAWorker/wrong-taxid", "lca_taxid=%d (present=%v) want %d", g, has, want)
						}
						if nm, _ := out[0].GetStringAttribute("lca_name"); has && g == want && nm != m.names[m.nodeOf[want]] {
							cx.violate("AddLCAWorker/wrong-name", "lca_name=%q want %q", nm, m.names[m.nodeOf[want]])
						}
					}
				}
				// history on one sequence object: it now carries the worker's annotations and whatever the first
				// two calls cached in it; the LCA is still the same
				var t2 *obitax.TaxNode
				if ok, _ := cx.do("Taxonomy.LCA(sequence,1.0)", -1, -1, -1, desc+" (third query on the same sequence)", func() { t2, _, _ = tax.LCA(s, 1.0) }); ok {
					cx.r.Count("seq_lca_repeated_on_same_sequence", 1)
					if c14tid(t2) != want {
						cx.violate("Taxonomy.LCA(sequence)/wrong-taxon:repeated-on-the-same-sequence", "got %d want %d", c14tid(t2), want)
					}
				}
			}
		}
	}
	for a := 0; a < K; a++ {
		run([]int{a})
		for b := a + 1; b < K; b++ {
			run([]int{a, b})
			for c := b + 1; c < K; c++ {
				if m.n > c14smallN && c >= m.n {
					break // large structured trees: three-key maps over the taxids proper only (keys[0:n])
				}
				run([]int{a, b, c})
			}
		}
	}
	// a sequence carrying only a taxid (no merged_taxid): the LCA is its own taxon
	for _, q := range keys {
		s := c14seq(q)
		var t *obitax.TaxNode
		if ok, _ := cx.do("Taxonomy.LCA(sequence,1.0)", q, -1, -1, "taxid only", func() { t, _, _ = tax.LCA(s, 1.0) }); ok {
			cx.r.Count("seq_lca", 1)
			if want := m.ids[m.nodeOf[q]]; c14tid(t) != want {
				cx.violate("Taxonomy.LCA(sequence)/wrong-taxon:taxid-only", "got %d want %d", c14tid(t), want)
			}
		}
	}
}

// ---------------------------------------------------------------------------------------------
// 3. rank queries

func (cx *c14ctx) checkRanks() {
	m, tax := cx.m, cx.tax
	ranks := append(append([]string{}, c14ranks...), c14absentRank)
	seqIDs := append(append(append([]int{}, m.ids...), m.alias...), m.unknown)
	inSet := func(x int, s []int) bool {
		for _, y := range s {
			if m.ids[y] == x {
				return true
			}
		}
		return false
	}
	for _, rank := range ranks {
		for a := 0; a < m.n; a++ {
			cand := m.atRank(a, rank)
			// TaxonAtRank
			calls := []struct {
				fn string
				f  func() *obitax.TaxNode
			}{{"TaxNode.TaxonAtRank", func() *obitax.TaxNode { return cx.nodes[a].TaxonAtRank(rank) }}}
			switch rank {
			case "species":
				calls = append(calls, struct {
					fn string
					f  func() *obitax.TaxNode
				}{"TaxNode.Species", func() *obitax.TaxNode { return cx.nodes[a].Species() }})
			case "genus":
				calls = append(calls, struct {
					fn string
					f  func() *obitax.TaxNode
				}{"TaxNode.Genus", func() *obitax.TaxNode { return cx.nodes[a].Genus() }})
			case "family":
				calls = append(calls, struct {
					fn string
					f  func() *obitax.TaxNode
				}{"TaxNode.Family", func() *obitax.TaxNode { return cx.nodes[a].Family() }})
			}
			for _, cl := range calls {
				var t *obitax.TaxNode
				if ok, _ := cx.do(cl.fn, m.ids[a], -1, -1, rank, func() { t = cl.f() }); ok {
					cx.r.Count("taxon_at_rank", 1)
					if len(cand) > 0 {
						cx.r.Count("taxon_at_rank_found", 1)
					}
					switch {
					case len(cand) == 0 && t != nil:
						cx.violate(cl.fn+"/taxon-for-absent-rank", "got %d but no ancestor-or-self has rank %q", t.Taxid(), rank)
					case len(cand) > 0 && t == nil:
						class := "missed"
						if cand[0] == m.root {
							class = "missed-rank-carried-by-root"
						}
						cx.violate(cl.fn+"/"+class, "got nil, ancestor-or-self %d has rank %q", m.ids[cand[0]], rank)
					case len(cand) > 0 && !inSet(t.Taxid(), cand):
						cx.violate(cl.fn+"/wrong-taxon", "got %d which is not an ancestor-or-self with rank %q", t.Taxid(), rank)
					case len(cand) > 1 && t.Taxid() != m.ids[cand[0]]:
						cx.r.Count("taxon_at_rank_not_nearest(unconstrained)", 1)
					}
				}
			}
			var g bool
			if ok, _ := cx.do("TaxNode.HasRankDefined", m.ids[a], -1, -1, rank, func() { g = cx.nodes[a].HasRankDefined(rank) }); ok {
				if g != (len(cand) > 0) {
					cx.violate("TaxNode.HasRankDefined/wrong", "got %v want %v", g, len(cand) > 0)
				}
			}
		}

		if cx.light {
			continue
		}
		// sequence layer: --require-rank
		var pred obiseq.SequencePredicate
		ok, fatal := cx.do("Taxonomy.HasRequiredRank", -1, -1, -1, rank, func() { pred = tax.HasRequiredRank(rank) })
		if fatal && m.hasRank[rank] {
			cx.violate("Taxonomy.HasRequiredRank/fatal-on-existing-rank", "rank %q exists in the taxonomy", rank)
		}
		if ok && pred != nil {
			for _, S := range seqIDs {
				sn, sknown := m.nodeOf[S]
				want := sknown && len(m.atRank(sn, rank)) > 0
				var g bool
				if ok, _ := cx.do("Taxonomy.HasRequiredRank(seq)", S, -1, -1, rank, func() { g = pred(c14seq(S)) }); ok {
					cx.r.Count("seq_rank_predicates", 1)
					if g != want {
						cx.violate("Taxonomy.HasRequiredRank/wrong", "sequence taxid %d rank %q: got %v want %v", S, rank, g, want)
					}
				}
			}
		}

		// sequence layer: --with-taxon-at-rank
		var worker obiseq.SeqWorker
		ok, fatal = cx.do("Taxonomy.MakeSetTaxonAtRankWorker", -1, -1, -1, rank, func() { worker = tax.MakeSetTaxonAtRankWorker(rank) })
		if fatal && m.hasRank[rank] {
			cx.violate("Taxonomy.MakeSetTaxonAtRankWorker/fatal-on-existing-rank", "rank %q exists in the taxonomy", rank)
		}
		if !ok {
			worker = nil
		}
		for _, S := range seqIDs {
			sn, sknown := m.nodeOf[S]
			var cand []int
			if sknown {
				cand = m.atRank(sn, rank)
			}
			variants := []struct {
				fn string
				f  func(s *obiseq.BioSequence) *obitax.TaxNode
			}{{"Taxonomy.SetTaxonAtRank", func(s *obiseq.BioSequence) *obitax.TaxNode { return tax.SetTaxonAtRank(s, rank) }}}
			if worker != nil {
				variants = append(variants, struct {
					fn string
					f  func(s *obiseq.BioSequence) *obitax.TaxNode
				}{"Taxonomy.MakeSetTaxonAtRankWorker(seq)", func(s *obiseq.BioSequence) *obitax.TaxNode { worker(s); return nil }})
			}
			switch rank {
			case "species":
				variants = append(variants, struct {
					fn string
					f  func(s *obiseq.BioSequence) *obitax.TaxNode
				}{"Taxonomy.SetSpecies", func(s *obiseq.BioSequence) *obitax.TaxNode { return tax.SetSpecies(s) }},
					struct {
						fn string
						f  func(s *obiseq.BioSequence) *obitax.TaxNode
					}{"Taxonomy.MakeSetSpeciesWorker(seq)", func(s *obiseq.BioSequence) *obitax.TaxNode { tax.MakeSetSpeciesWorker()(s); return nil }})
			case "genus":
				variants = append(variants, struct {
					fn string
					f  func(s *obiseq.BioSequence) *obitax.TaxNode
				}{"Taxonomy.SetGenus", func(s *obiseq.BioSequence) *obitax.TaxNode { return tax.SetGenus(s) }},
					struct {
						fn string
						f  func(s *obiseq.BioSequence) *obitax.TaxNode
					}{"Taxonomy.MakeSetGenusWorker(seq)", func(s *obiseq.BioSequence) *obitax.TaxNode { tax.MakeSetGenusWorker()(s); return nil }})
			case "family":
				variants = append(variants, struct {
					fn string
					f  func(s *obiseq.BioSequence) *obitax.TaxNode
				}{"Taxonomy.SetFamily", func(s *obiseq.BioSequence) *obitax.TaxNode { return tax.SetFamily(s) }},
					struct {
						fn string
						f  func(s *obiseq.BioSequence) *obitax.TaxNode
					}{"Taxonomy.MakeSetFamilyWorker(seq)", func(s *obiseq.BioSequence) *obitax.TaxNode { tax.MakeSetFamilyWorker()(s); return nil }})
			}
			for _, v := range variants {
				s := c14seq(S)
				if ok, _ := cx.do(v.fn, S, -1, -1, rank, func() { v.f(s) }); !ok {
					continue
				}
				cx.r.Count("seq_taxon_at_rank", 1)
				g, has := s.GetIntAttribute(rank + "_taxid")
				nm, hasName := s.GetStringAttribute(rank + "_name")
				_, annotatesATaxon := m.nodeOf[g]
				annotatesATaxon = annotatesATaxon && has
				switch {
				case len(cand) == 0:
					// the tree implies no taxon at that rank (or the sequence's taxid is unknown): the annotation,
					// if any, must not designate a taxon of the taxonomy
					if annotatesATaxon {
						cx.violate(v.fn+"/taxon-for-absent-rank", "sequence taxid %d: %s_taxid=%d but the tree has no such taxon", S, rank, g)
					}
				case !has:
					cx.violate(v.fn+"/missed", "sequence taxid %d: no %s_taxid, want %d", S, rank, m.ids[cand[0]])
				case !inSet(g, cand):
					cx.violate(v.fn+"/wrong-taxon", "sequence taxid %d: %s_taxid=%d, want %d", S, rank, g, m.ids[cand[0]])
				case !hasName || nm != m.names[m.nodeOf[g]]:
					cx.violate(v.fn+"/wrong-name", "sequence taxid %d: %s_name=%q (present=%v), want %q", S, rank, nm, hasName, m.names[m.nodeOf[g]])
				}
			}
		}
	}
}

// ---------------------------------------------------------------------------------------------
// one case = one taxonomy instance

// Query families. When a query of a family does not terminate, the family is switched off for the rest of
// the shard (the stuck goroutine cannot be killed) and the other families go on.
var c14disabled = map[string]bool{}

const c14stall = 20 * time.Second // one implementation call normally takes microseconds

// c14guarded runs a case in its own goroutine and watches its progress: every implementation call publishes
// a fresh c14op; when the same call is still the current one after c14stall it is reported as a hang
// (parent walks terminate only through the root self-loop). Returns the family that hung ("" if none).
func c14guarded(r *verifkit.Result, c c14case) (hungFamily string) {
	cx := &c14ctx{r: r, c: c, m: c14newModel(c)}
	c14submitted(r, c, cx.m)
	skip := map[string]bool{}
	for k, v := range c14disabled {
		skip[k] = v
	}
	done := make(chan struct{})
	go func() {
		defer close(done)
		c14runCaseOn(cx, skip)
	}()
	timer := time.NewTimer(time.Second)
	defer timer.Stop()
	last := cx.cur.Load()
	lastChange := time.Now()
	sameTicks := 0 // ticks this process really sat through with the same call pending (a clock jump adds none)
	for {
		select {
		case <-done:
			if cx.harnessErr != "" {
				panic("c14 harness: " + cx.harnessErr)
			}
			r.Eval(cx.evals)
			r.Trans(cx.evals)
			return ""
		case <-timer.C:
			now := cx.cur.Load()
			if now != last {
				last, lastChange = now, time.Now()
				sameTicks = 0
			} else if sameTicks++; now != nil && time.Since(lastChange) > c14stall && sameTicks >= int(c14stall/time.Second) {
				r.Violate(now.fn+"/hang", cx.describe(now)+fmt.Sprintf(": no answer within %v", c14stall), cx.c)
				fam := now.family
				c14disabled[fam] = true
				r.Cap("queries of family '" + fam + "' were switched off for the rest of a shard after a call that did not terminate")
				return fam
			}
			timer.Reset(time.Second)
		}
	}
}

// c14submitted counts, from the model alone and before any implementation call, what the case about to be
// submitted contains (the vacuity guards are on these counters: whether a query came back is an answer of the
// tree under test, what was asked is not).
func c14submitted(r *verifkit.Result, c c14case, m *c14model) {
	r.Count("submitted:taxonomies:"+c.Build, 1)
	if !c.Full {
		return
	}
	n := m.n
	r.Count("submitted:taxonomies_full_queries", 1)
	for a := 0; a < n; a++ {
		if len(m.anc[a]) > 1 {
			r.Count("submitted:paths_longer_than_1", 1)
		}
		sub := 0
		for b := 0; b < n; b++ {
			r.Count("submitted:lca_pairs:"+m.relation(a, b), 1)
			if m.isAnc[a][b] {
				r.Count("submitted:clade_pairs_true", 1)
			}
			if m.isAnc[b][a] {
				sub++
			}
		}
		if sub > 0 && sub < n {
			r.Count("submitted:set_filters_proper_subset", 1)
		}
		for _, rank := range c14ranks {
			if len(m.atRank(a, rank)) > 0 {
				r.Count("submitted:taxon_at_rank_found", 1)
			}
		}
	}
	if n >= 3 {
		r.Count("submitted:taxonomies_with_distinct_lca_triples", 1)
	}
	if n >= 2 {
		r.Count("submitted:taxonomies_with_multi_taxid_sequences", 1)
	}
}

func c14runCaseOn(cx *c14ctx, skip map[string]bool) {
	c, m := cx.c, cx.m
	cx.family = "build"
	if c.Build != "api" {
		if werr := c14writeDump(m, c14tmp); werr != nil {
			cx.harnessErr = "cannot write dump: " + werr.Error()
			return
		}
	}
	var tax *obitax.Taxonomy
	var berr error
	ok, fatal := cx.do("build:"+c.Build, -1, -1, -1, "", func() {
		switch c.Build {
		case "api":
			tax, berr = c14buildAPI(m)
		case "dump-sn", "dump-all":
			tax, berr = ncbitaxdump.LoadNCBITaxDump(c14tmp, c.Build == "dump-sn")
		default:
			panic("c14 harness: unknown build " + c.Build)
		}
	})
	site := "Taxonomy(api)"
	if c.Build != "api" {
		site = "LoadNCBITaxDump"
	}
	if fatal {
		cx.violate(site+"/fatal", "log.Fatal while building a valid taxonomy")
		return
	}
	if !ok {
		return
	}
	if berr != nil || tax == nil {
		cx.violate(site+"/error", "error %v while building a valid taxonomy", berr)
		return
	}
	cx.tax = tax
	if !cx.checkStructure() {
		return // queries on a taxonomy that is not the tree would only repeat the finding
	}
	run := func(family string, f func()) {
		if !skip[family] {
			cx.family = family
			f()
		}
	}
	run("rank", cx.checkRanks)
	if c.Full {
		run("path", cx.checkPaths)
		run("lca", cx.checkLCA)
		run("clade", cx.checkClades)
		run("seq-lca", cx.checkSeqLCA)
		run("sets", cx.checkSets)
		// call history on the same Taxonomy / TaxNode objects: the node-level queries once more, after the
		// sequence-level ones (which reverse paths in place, fill per-sequence statistics, ...) went through them
		cx.phase, cx.light = "@after-sequence-queries", true
		run("rank", cx.checkRanks)
		run("path", cx.checkPaths)
		run("lca", cx.checkLCA)
		run("clade", cx.checkClades)
		cx.phase, cx.light = "", false
		cx.r.Count("requery_passes", 1)
	}
}

// ---------------------------------------------------------------------------------------------
// 4. taxon sets, slices and the iterator filters built on clade membership and ranks (obifind -r / --rank)

func (cx *c14ctx) checkSets() {
	m, tax := cx.m, cx.tax
	n := m.n
	slice := make(obitax.TaxonSlice, 0, n)
	for i := n - 1; i >= 0; i-- {
		slice = append(slice, cx.nodes[i])
	}
	// a set built by Inserts answers Len / Get
	all := make(obitax.TaxonSet)
	if ok, _ := cx.do("TaxonSet.Inserts/Len/Get", -1, -1, -1, "", func() {
		for rep := 0; rep < 2; rep++ {
			for _, t := range cx.nodes {
				all.Inserts(t)
			}
		}
	}); ok {
		good := all.Len() == n
		for i := 0; i < n && good; i++ {
			good = all.Get(m.ids[i]) == cx.nodes[i]
		}
		if !good || all.Get(m.unknown) != nil {
			cx.violate("TaxonSet.Inserts/Len/Get/wrong", "a set in which the %d taxa were inserted twice has Len()=%d or does not give them back", n, all.Len())
		}
	}
	type source struct {
		name string
		it   func() *obitax.ITaxonSet
	}
	sources := []source{
		{"Taxonomy", func() *obitax.ITaxonSet { return tax.Iterator() }},
		{"TaxonSet", func() *obitax.ITaxonSet { return tax.TaxonSet().Iterator() }},
		{"TaxonSlice", func() *obitax.ITaxonSet { return slice.Iterator() }},
	}
	caseNo := 0
	// drains an iterator into the sorted list of its taxids (through TaxonSlice(): duplicates are kept; every
	// other time through TaxonSet())
	collect := func(it *obitax.ITaxonSet) []int {
		caseNo++
		var got []int
		if caseNo%2 == 0 {
			for _, t := range *it.TaxonSlice() {
				got = append(got, c14tid(t))
			}
		} else {
			for id := range *it.TaxonSet() {
				got = append(got, id)
			}
		}
		sort.Ints(got)
		return got
	}
	wantOf := func(keep func(x int) bool) []int {
		var w []int
		for x := 0; x < n; x++ {
			if keep(x) {
				w = append(w, m.ids[x])
			}
		}
		sort.Ints(w)
		return w
	}
	judge := func(fn string, got, want []int) {
		cx.r.Count("set_filters", 1)
		if len(want) > 0 && len(want) < n {
			cx.r.Count("set_filters_proper_subset", 1)
		}
		if fmt.Sprint(got) != fmt.Sprint(want) {
			class := "wrong-members"
			if len(got) > len(want) {
				class = "too-many"
			} else if len(got) < len(want) {
				class = "too-few"
			}
			cx.violate(fn+"/"+class, "got taxids %v want %v", got, want)
		}
	}
	for _, src := range sources {
		for b := 0; b < n; b++ {
			if n > c14smallN && b%7 != 0 && b != n-1 {
				continue // large structured trees: every 7th clade and the last node
			}
			var got []int
			fn := src.name + ".IFilterOnSubcladeOf"
			if ok, _ := cx.do(fn, m.ids[b], -1, -1, "", func() {
				switch src.name {
				case "Taxonomy":
					got = collect(tax.IFilterOnSubcladeOf(cx.nodes[b]))
				case "TaxonSet":
					got = collect(tax.TaxonSet().IFilterOnSubcladeOf(cx.nodes[b]))
				default:
					got = collect(slice.IFilterOnSubcladeOf(cx.nodes[b]))
				}
			}); ok {
				judge(fn, got, wantOf(func(x int) bool { return m.isAnc[x][b] }))
			}
		}
		for _, rank := range append(append([]string{}, c14ranks...), c14absentRank) {
			var got []int
			fn := src.name + ".IFilterOnTaxRank"
			if ok, _ := cx.do(fn, -1, -1, -1, rank, func() {
				switch src.name {
				case "Taxonomy":
					got = collect(tax.IFilterOnTaxRank(rank))
				case "TaxonSet":
					got = collect(tax.TaxonSet().IFilterOnTaxRank(rank))
				default:
					got = collect(slice.IFilterOnTaxRank(rank))
				}
			}); ok {
				judge(fn, got, wantOf(func(x int) bool { return m.ranks[x] == rank }))
			}
		}
	}
	// restriction to several clades at once (the set obifind builds from repeated -r): every non-empty subset
	// of the nodes (the empty set means "no restriction": not constrained), then a rank filter chained before it
	subsets := func(f func(members []int)) {
		if n <= c14smallN {
			for mask := 1; mask < 1<<n; mask++ {
				var members []int
				for x := 0; x < n; x++ {
					if mask&(1<<x) != 0 {
						members = append(members, x)
					}
				}
				f(members)
			}
			return
		}
		for x := 0; x < n-1; x += 5 { // n >= 29 here: the three members are distinct
			f([]int{x})
			f([]int{x, n - 1})
			if y := (x + n/2) % (n - 1); y != x {
				f([]int{x, y, n - 1})
			}
		}
	}
	subsets(func(members []int) {
		set := make(obitax.TaxonSet)
		for _, x := range members {
			set.Inserts(cx.nodes[x])
		}
		in := func(x int) bool {
			for _, c := range members {
				if m.isAnc[x][c] {
					return true
				}
			}
			return false
		}
		var got []int
		fn := "ITaxonSet.IFilterBelongingSubclades"
		class := ":several-clades"
		if len(members) == 1 {
			class = ":one-clade"
		}
		if ok, _ := cx.do(fn, -1, -1, -1, fmt.Sprint("clade nodes ", members), func() { got = collect(tax.Iterator().IFilterBelongingSubclades(&set)) }); ok {
			judge(fn+class, got, wantOf(in))
		}
		rank := c14ranks[len(members)%len(c14ranks)]
		if ok, _ := cx.do(fn, -1, -1, -1, fmt.Sprint("rank ", rank, " then clade nodes ", members), func() {
			got = collect(tax.IFilterOnTaxRank(rank).IFilterBelongingSubclades(&set))
		}); ok {
			judge("ITaxonSet.IFilterOnTaxRank.IFilterBelongingSubclades"+class, got, wantOf(func(x int) bool { return in(x) && m.ranks[x] == rank }))
		}
	})
}

// ---------------------------------------------------------------------------------------------
// enumeration

// every rooted labelled tree on n nodes as a parent array (root = its own parent): n^(n-1) of them
func c14trees(n int, f func(parent []int)) int {
	count := 0
	p := make([]int, n)
	var rec func(i, root int)
	valid := func(root int) bool {
		for i := 0; i < n; i++ {
			x, steps := i, 0
			for x != root {
				x = p[x]
				steps++
				if steps > n {
					return false
				}
			}
		}
		return true
	}
	rec = func(i, root int) {
		if i == n {
			if valid(root) {
				count++
				f(p)
			}
			return
		}
		if i == root {
			p[i] = i
			rec(i+1, root)
			return
		}
		for q := 0; q < n; q++ {
			if q == i {
				continue
			}
			p[i] = q
			rec(i+1, root)
		}
	}
	for root := 0; root < n; root++ {
		rec(0, root)
	}
	return count
}

func c14depths(parent []int) []int {
	d := make([]int, len(parent))
	for i := range parent {
		x := i
		for parent[x] != x {
			x = parent[x]
			d[i]++
		}
	}
	return d
}

// rank vectors of a tree: every assignment (all=true) or depth / index patterns ("along chains")
func c14rankVectors(parent []int, all bool, f func(ranks []string)) {
	n := len(parent)
	ranks := make([]string, n)
	if all {
		total := 1
		for i := 0; i < n; i++ {
			total *= len(c14ranks)
		}
		for v := 0; v < total; v++ {
			x := v
			for i := 0; i < n; i++ {
				ranks[i] = c14ranks[x%len(c14ranks)]
				x /= len(c14ranks)
			}
			f(ranks)
		}
		return
	}
	d := c14depths(parent)
	patterns := [][]string{
		{"no rank", "family", "genus", "species", "no rank", "no rank"}, // realistic lineage
		{"no rank", "no rank", "no rank", "no rank", "no rank", "no rank"},
		{"species", "genus", "family", "no rank", "species", "genus"}, // root carries a rank, repeated ranks
		{"family", "no rank", "family", "genus", "genus", "species"},
	}
	for _, pt := range patterns {
		for i := 0; i < n; i++ {
			ranks[i] = pt[d[i]%len(pt)]
		}
		f(ranks)
	}
	for i := 0; i < n; i++ { // by node index: siblings differ
		ranks[i] = c14ranks[i%len(c14ranks)]
	}
	f(ranks)
}

// large structured families (deterministic): chains around and beyond the 30 entries TaxNode.Path
// preallocates, stars, a caterpillar, a broom (siblings below depth 30), complete binary trees
func c14families(thorough bool) map[string][]int {
	fam := map[string][]int{}
	chain := func(n int, rootLast bool) []int {
		p := make([]int, n)
		for i := range p {
			if rootLast {
				p[i] = i + 1
				if i == n-1 {
					p[i] = i
				}
			} else {
				p[i] = i - 1
				if i == 0 {
					p[i] = 0
				}
			}
		}
		return p
	}
	star := func(n int) []int { return make([]int, n) }
	binary := func(n int) []int {
		p := make([]int, n)
		for i := 1; i < n; i++ {
			p[i] = (i - 1) / 2
		}
		return p
	}
	fam["chain29"] = chain(29, false)
	fam["chain30"] = chain(30, true)
	fam["chain31"] = chain(31, false)
	fam["chain32"] = chain(32, true)
	fam["chain65"] = chain(65, false)
	fam["star40"] = star(40)
	fam["binary63"] = binary(63)
	cat := chain(16, false) // caterpillar: a leaf on every node of a 16-chain
	for i := 0; i < 16; i++ {
		cat = append(cat, i)
	}
	fam["caterpillar32"] = cat
	broom := chain(31, false) // 8 leaves under the deepest node of a 31-chain
	for i := 0; i < 8; i++ {
		broom = append(broom, 30)
	}
	fam["broom39"] = broom
	if thorough {
		fam["chain129"] = chain(129, true)
		fam["star150"] = star(150)
		fam["binary127"] = binary(127)
	}
	return fam
}

func TestVerifC14(t *testing.T) {
	log.SetOutput(io.Discard)
	log.StandardLogger().ExitFunc = func(int) { panic(c14fatal{}) }
	r := verifkit.New("C14")
	defer r.Write()

	base := ""
	if st, err := os.Stat("/dev/shm"); err == nil && st.IsDir() {
		base = "/dev/shm" // memory backed: tens of thousands of small dumps are written
	}
	dir, err := os.MkdirTemp(base, "c14-")
	if err != nil && base != "" {
		dir, err = os.MkdirTemp("", "c14-")
	}
	if err != nil {
		t.Fatal(err)
	}
	defer os.RemoveAll(dir)
	c14tmp = dir

	if rc := r.ReplayCase(); rc != nil {
		var c c14case
		if err := json.Unmarshal(rc, &c); err != nil {
			t.Fatal(err)
		}
		if len(c.Parent) == 0 || len(c.Ranks) != len(c.Parent) {
			t.Fatal("c14: malformed replay case")
		}
		c14guarded(r, c)
		r.Replayed(1)
		return
	}

	maxN := 5
	allRanksAPI, allRanksDump := 4, 4
	if verifkit.Thorough() {
		maxN = 6
		allRanksAPI = 5
	}
	r.Bound("max_nodes", maxN)
	r.Bound("all_rank_assignments_up_to_nodes(api)", allRanksAPI)
	r.Bound("all_rank_assignments_up_to_nodes(dump)", allRanksDump)
	r.Bound("rank_alphabet", c14ranks)
	r.Bound("queried_ranks", append(append([]string{}, c14ranks...), c14absentRank))
	r.Bound("taxid_schemes", "0: id=i+1, alias=10000+i, unknown=9999; 1: id=100000-37i, alias=i+1, unknown=50000")
	r.Bound("builds", []string{"api", "dump-sn", "dump-all"})
	r.Bound("merged_taxid_keys", "every subset of size 1..3 of taxids+aliases, 3 weight patterns")
	c14txForms = c14probeTxForms()
	r.Bound("taxid_string_forms", fmt.Sprintf("decimal; %q (judged: %v); strings without a taxid", c14stringForms(5), c14txForms))
	r.Bound("call_histories", "node-level queries repeated after the sequence-level ones on the same objects; Path after the caller modified a previous answer; sequence LCA three times on one sequence object; validity predicate applied twice")

	k := 0
	stop := false
	for n := 1; n <= maxN && !stop; n++ {
		ntrees := c14trees(n, func(parent []int) {
			if stop {
				return
			}
			for scheme := 0; scheme < 2; scheme++ {
				for _, build := range []string{"api", "dump-sn", "dump-all"} {
					mine := r.Mine(k)
					k++
					if !mine {
						continue
					}
					all := n <= allRanksDump
					if build == "api" {
						all = n <= allRanksAPI
					}
					first := true
					c14rankVectors(parent, all, func(ranks []string) {
						if stop {
							return
						}
						c := c14case{Build: build, Scheme: scheme, Parent: append([]int{}, parent...),
							Ranks: append([]string{}, ranks...), Full: first}
						first = false
						if fam := c14guarded(r, c); fam != "" {
							if fam == "build" {
								r.Cap("building a taxonomy did not terminate: the remaining work of this shard was skipped")
								stop = true
							}
							return
						}
						r.Count("taxonomies", 1)
						r.Count("taxonomies:"+build, 1)
						if c.Full {
							r.Count("taxonomies_full_queries", 1)
						}
						r.State(fmt.Sprintf("%s|%d|%v|%v", build, scheme, parent, ranks))
						if c.Full && n >= 4 {
							r.Sample(c)
						}
					})
					if r.Expired() {
						stop = true
						return
					}
				}
			}
		})
		r.Bound(fmt.Sprintf("trees_n%d", n), ntrees)
	}

	// large structured trees
	fam := c14families(verifkit.Thorough())
	var famNames []string
	for name := range fam {
		famNames = append(famNames, name)
	}
	sort.Strings(famNames)
	r.Bound("structured_families", famNames)
	for _, name := range famNames {
		parent := fam[name]
		for scheme := 0; scheme < 2 && !stop; scheme++ {
			for _, build := range []string{"api", "dump-sn", "dump-all"} {
				mine := r.Mine(k)
				k++
				if !mine || stop {
					continue
				}
				first := true
				c14rankVectors(parent, false, func(ranks []string) {
					if stop {
						return
					}
					c := c14case{Build: build, Scheme: scheme, Parent: parent, Ranks: append([]string{}, ranks...), Full: first}
					first = false
					if fam := c14guarded(r, c); fam != "" {
						if fam == "build" {
							r.Cap("building a taxonomy did not terminate: the remaining work of this shard was skipped")
							stop = true
						}
						return
					}
					r.Count("taxonomies", 1)
					r.Count("taxonomies:"+build, 1)
					r.Count("taxonomies:structured-family", 1)
					if c.Full {
						r.Count("taxonomies_full_queries", 1)
					}
					r.State(fmt.Sprintf("%s|%d|%s|%v", build, scheme, name, ranks))
				})
				if r.Expired() {
					stop = true
				}
			}
		}
	}

	// vacuity guards (only meaningful when no query family had to be switched off)
	if len(c14disabled) == 0 && !stop {
		// on what was submitted (c14submitted); the counters of the queries that came back (lca_pairs:*,
		// lca_triples_distinct, seq_lca_multi, taxon_at_rank_found, clade_pairs_true, paths_longer_than_1,
		// taxonomies:*, requery_passes, path_ownership_histories, seq_lca_repeated_on_same_sequence,
		// set_filters_proper_subset, seq_paths, seq_validity_predicates) depend on the tree under test: counters only
		r.RequireNonVacuous("submitted:lca_pairs:unrelated-unequal-depth")
		r.RequireNonVacuous("submitted:lca_pairs:ancestor-descendant")
		r.RequireNonVacuous("submitted:lca_pairs:root-involved")
		r.RequireNonVacuous("submitted:taxonomies_with_distinct_lca_triples")
		r.RequireNonVacuous("submitted:taxonomies_with_multi_taxid_sequences")
		r.RequireNonVacuous("submitted:taxon_at_rank_found")
		r.RequireNonVacuous("submitted:clade_pairs_true")
		r.RequireNonVacuous("submitted:paths_longer_than_1")
		r.RequireNonVacuous("submitted:taxonomies:dump-sn")
		r.RequireNonVacuous("submitted:taxonomies:dump-all")
		r.RequireNonVacuous("submitted:taxonomies_full_queries")
		r.RequireNonVacuous("submitted:set_filters_proper_subset")
	}
}
