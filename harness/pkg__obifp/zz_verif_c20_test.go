//go:build verif

package obifp

// C20 — fixed-precision integers agree with exact arithmetic.
// Exhaustive over all limb tuples from a boundary alphabet (limbs are set directly through the
// unexported fields, not through the shifts under test), every unary op, every binary op on all
// operand pairs, every shift amount 0..width+64, all casts. Oracle: math/big.
//
// Audit extensions:
//   - the exported per-limb primitives of Uint64 are driven directly (LeftShift64 / RightShift64 with a
//     carry-in word and both outputs, Add64 / Sub64 with carry-in 0 and 1, Mul64 (value, carry));
//   - shifts "by any amount": amounts far beyond the width (2^31 .. 2^64-1), under a hang guard;
//   - operands 2^k-1, 2^k, 2^k+1 for EVERY k of the width (quantifier) next to the limb tuples, a
//     larger limb alphabet for Uint64 / Uint128, Set64 / From64 of every alphabet value on zero and
//     all-ones receivers, ZeroUint / OneUint;
//   - the operation sequences of the generic client (pkg/obikmer/kmermap.go) written against the
//     FPUint constraint and instantiated at the three widths: mask construction for every k, rolling
//     forward / reverse words, sparse squeeze, canonical choice, decoding; every intermediate result is
//     compared with math/big;
//   - the known finding Uint128.Mul/missed-overflow:both-operands>=2^64 is narrowed to the inputs whose
//     ONLY out-of-range partial product is w1*w1 (the one Mul never computes).

import (
	"encoding/json"
	"fmt"
	"io"
	"math/big"
	"strings"
	"testing"
	"time"

	"git.metabarcoding.org/obitools/obitools4/obitools4/pkg/verifkit"
	log "github.com/sirupsen/logrus"
)

type c20case struct {
	Width int      `json:"width"`
	Op    string   `json:"op"`
	A     []uint64 `json:"a"` // little-endian limbs
	B     []uint64 `json:"b,omitempty"`
	N     uint     `json:"n,omitempty"`
	Word  string   `json:"word,omitempty"` // Op "seq": nucleotide codes '0'..'3' rolled through the client sequence (k = N)
}

func c20big(l []uint64) *big.Int {
	x := new(big.Int)
	for i := len(l) - 1; i >= 0; i-- {
		x.Lsh(x, 64)
		x.Or(x, new(big.Int).SetUint64(l[i]))
	}
	return x
}

func c20limbs(x *big.Int, n int) []uint64 {
	out := make([]uint64, n)
	m := new(big.Int).Set(x)
	mask := new(big.Int).SetUint64(^uint64(0))
	for i := 0; i < n; i++ {
		out[i] = new(big.Int).And(m, mask).Uint64()
		m.Rsh(m, 64)
	}
	return out
}

func mk64(l []uint64) Uint64   { return Uint64{w0: l[0]} }
func mk128(l []uint64) Uint128 { return Uint128{w1: l[1], w0: l[0]} }
func mk256(l []uint64) Uint256 { return Uint256{w3: l[3], w2: l[2], w1: l[1], w0: l[0]} }
func l64(u Uint64) []uint64    { return []uint64{u.w0} }
func l128(u Uint128) []uint64  { return []uint64{u.w0, u.w1} }
func l256(u Uint256) []uint64  { return []uint64{u.w0, u.w1, u.w2, u.w3} }

// outcome of running one operation on the implementation
type c20out struct {
	panicked bool
	hung     bool
	limbs    []uint64 // numeric result (little endian), nil for bool/int results
	b        bool
	i        int
	limbs2   []uint64 // second result (remainder)
}

var c20leaked int

func c20guard(f func() c20out, mayHang bool) (o c20out) {
	if !mayHang {
		defer func() {
			if r := recover(); r != nil {
				o = c20out{panicked: true}
			}
		}()
		return f()
	}
	ch := make(chan c20out, 1)
	go func() {
		defer func() {
			if r := recover(); r != nil {
				ch <- c20out{panicked: true}
			}
		}()
		ch <- f()
	}()
	// a hang is declared only after 60 separate half-second waits this process really sat through (one
	// wall-clock reading could jump while the process is frozen)
	for tick := 0; tick < 60; tick++ {
		select {
		case o = <-ch:
			return o
		case <-time.After(500 * time.Millisecond):
		}
	}
	c20leaked++
	return c20out{hung: true}
}

// c20mayHang: operations that contain data-dependent loops and are run under the hang guard.
func c20mayHang(c c20case) bool {
	switch c.Op {
	case "Div", "Mod", "QuoRem":
		return c.Width > 64
	case "LeftShift", "RightShift":
		return c.N > uint(c.Width)+64
	}
	return false
}

// c20run executes op on the implementation.
func c20run(c c20case) c20out {
	num := func(l []uint64) c20out { return c20out{limbs: l} }
	for len(c.A) < c.Width/64 {
		c.A = append(append([]uint64{}, c.A...), 0)
	}
	switch c.Width {
	case 64:
		a := mk64(c.A)
		var b Uint64
		if c.B != nil {
			b = mk64(c.B)
		}
		return c20guard(func() c20out {
			switch c.Op {
			case "LeftShift":
				return num(l64(a.LeftShift(c.N)))
			case "RightShift":
				return num(l64(a.RightShift(c.N)))
			case "Add":
				return num(l64(a.Add(b)))
			case "Sub":
				return num(l64(a.Sub(b)))
			case "Mul":
				return num(l64(a.Mul(b)))
			case "And":
				return num(l64(a.And(b)))
			case "Or":
				return num(l64(a.Or(b)))
			case "Xor":
				return num(l64(a.Xor(b)))
			case "Not":
				return num(l64(a.Not()))
			case "Cmp":
				return c20out{i: a.Cmp(b)}
			case "Equals":
				return c20out{b: a.Equals(b)}
			case "LessThan":
				return c20out{b: a.LessThan(b)}
			case "LessThanOrEqual":
				return c20out{b: a.LessThanOrEqual(b)}
			case "GreaterThan":
				return c20out{b: a.GreaterThan(b)}
			case "GreaterThanOrEqual":
				return c20out{b: a.GreaterThanOrEqual(b)}
			case "IsZero":
				return c20out{b: a.IsZero()}
			case "AsUint64":
				return num([]uint64{a.AsUint64()})
			case "ToUint64":
				return num(l64(a.Uint64()))
			case "ToUint128":
				return num(l128(a.Uint128()))
			case "ToUint256":
				return num(l256(a.Uint256()))
			case "Set64":
				return num(l64(b.Set64(c.A[0])))
			case "From64":
				return num(l64(From64[Uint64](c.A[0])))
			case "ZeroUint":
				return num(l64(ZeroUint[Uint64]()))
			case "OneUint":
				return num(l64(OneUint[Uint64]()))
			case "Zero":
				return num(l64(a.Zero()))
			case "MaxValue":
				return num(l64(a.MaxValue()))
			case "LeftShift64": // B = [carryIn]
				v, cy := a.LeftShift64(c.N, c.B[0])
				return c20out{limbs: []uint64{v}, limbs2: []uint64{cy}}
			case "RightShift64":
				v, cy := a.RightShift64(c.N, c.B[0])
				return c20out{limbs: []uint64{v}, limbs2: []uint64{cy}}
			case "Add64": // B = [v, carryIn]
				v, cy := a.Add64(b, c.B[1])
				return c20out{limbs: []uint64{v}, limbs2: []uint64{cy}}
			case "Sub64":
				v, cy := a.Sub64(b, c.B[1])
				return c20out{limbs: []uint64{v}, limbs2: []uint64{cy}}
			case "Mul64":
				v, cy := a.Mul64(b)
				return c20out{limbs: []uint64{v}, limbs2: []uint64{cy}}
			}
			panic("unknown op " + c.Op)
		}, c20mayHang(c))
	case 128:
		a := mk128(c.A)
		var b Uint128
		if len(c.B) == 2 {
			b = mk128(c.B)
		}
		var b64 uint64
		if len(c.B) >= 1 {
			b64 = c.B[0]
		}
		return c20guard(func() c20out {
			switch c.Op {
			case "LeftShift":
				return num(l128(a.LeftShift(c.N)))
			case "RightShift":
				return num(l128(a.RightShift(c.N)))
			case "Add":
				return num(l128(a.Add(b)))
			case "Sub":
				return num(l128(a.Sub(b)))
			case "Mul":
				return num(l128(a.Mul(b)))
			case "Add64":
				return num(l128(a.Add64(b64)))
			case "Mul64":
				return num(l128(a.Mul64(b64)))
			case "Div":
				return num(l128(a.Div(b)))
			case "Mod":
				return num(l128(a.Mod(b)))
			case "QuoRem":
				q, r := a.QuoRem(b)
				return c20out{limbs: l128(q), limbs2: l128(r)}
			case "Div64":
				return num(l128(a.Div64(b64)))
			case "Mod64":
				return num([]uint64{a.Mod64(b64)})
			case "QuoRem64":
				q, r := a.QuoRem64(b64)
				return c20out{limbs: l128(q), limbs2: []uint64{r}}
			case "And":
				return num(l128(a.And(b)))
			case "Or":
				return num(l128(a.Or(b)))
			case "Xor":
				return num(l128(a.Xor(b)))
			case "Not":
				return num(l128(a.Not()))
			case "Cmp":
				return c20out{i: a.Cmp(b)}
			case "Cmp64":
				return c20out{i: a.Cmp64(b64)}
			case "Equals":
				return c20out{b: a.Equals(b)}
			case "LessThan":
				return c20out{b: a.LessThan(b)}
			case "LessThanOrEqual":
				return c20out{b: a.LessThanOrEqual(b)}
			case "GreaterThan":
				return c20out{b: a.GreaterThan(b)}
			case "GreaterThanOrEqual":
				return c20out{b: a.GreaterThanOrEqual(b)}
			case "IsZero":
				return c20out{b: a.IsZero()}
			case "AsUint64":
				return num([]uint64{a.AsUint64()})
			case "ToUint64":
				return num(l64(a.Uint64()))
			case "ToUint128":
				return num(l128(a.Uint128()))
			case "ToUint256":
				return num(l256(a.Uint256()))
			case "Set64":
				return num(l128(b.Set64(c.A[0])))
			case "From64":
				return num(l128(From64[Uint128](c.A[0])))
			case "ZeroUint":
				return num(l128(ZeroUint[Uint128]()))
			case "OneUint":
				return num(l128(OneUint[Uint128]()))
			case "Zero":
				return num(l128(a.Zero()))
			case "MaxValue":
				return num(l128(a.MaxValue()))
			}
			panic("unknown op " + c.Op)
		}, c20mayHang(c))
	case 256:
		a := mk256(c.A)
		var b Uint256
		if len(c.B) == 4 {
			b = mk256(c.B)
		}
		return c20guard(func() c20out {
			switch c.Op {
			case "LeftShift":
				return num(l256(a.LeftShift(c.N)))
			case "RightShift":
				return num(l256(a.RightShift(c.N)))
			case "Add":
				return num(l256(a.Add(b)))
			case "Sub":
				return num(l256(a.Sub(b)))
			case "Mul":
				return num(l256(a.Mul(b)))
			case "Div":
				return num(l256(a.Div(b)))
			case "And":
				return num(l256(a.And(b)))
			case "Or":
				return num(l256(a.Or(b)))
			case "Xor":
				return num(l256(a.Xor(b)))
			case "Not":
				return num(l256(a.Not()))
			case "Cmp":
				return c20out{i: a.Cmp(b)}
			case "Equals":
				return c20out{b: a.Equals(b)}
			case "LessThan":
				return c20out{b: a.LessThan(b)}
			case "LessThanOrEqual":
				return c20out{b: a.LessThanOrEqual(b)}
			case "GreaterThan":
				return c20out{b: a.GreaterThan(b)}
			case "GreaterThanOrEqual":
				return c20out{b: a.GreaterThanOrEqual(b)}
			case "IsZero":
				return c20out{b: a.IsZero()}
			case "AsUint64":
				return num([]uint64{a.AsUint64()})
			case "ToUint64":
				return num(l64(a.Uint64()))
			case "ToUint128":
				return num(l128(a.Uint128()))
			case "ToUint256":
				return num(l256(a.Uint256()))
			case "Set64":
				return num(l256(b.Set64(c.A[0])))
			case "From64":
				return num(l256(From64[Uint256](c.A[0])))
			case "ZeroUint":
				return num(l256(ZeroUint[Uint256]()))
			case "OneUint":
				return num(l256(OneUint[Uint256]()))
			case "Zero":
				return num(l256(a.Zero()))
			case "MaxValue":
				return num(l256(a.MaxValue()))
			}
			panic("unknown op " + c.Op)
		}, c20mayHang(c))
	}
	panic("bad width")
}

// c20check evaluates one case against math/big. It returns "" when the implementation agrees.
func c20check(c c20case) (msg string, nontrivial bool) {
	W := uint(c.Width)
	nl := c.Width / 64
	A := c20big(c.A)
	var B *big.Int
	if c.B != nil {
		B = c20big(c.B)
	}
	mod := new(big.Int).Lsh(big.NewInt(1), W)
	fits := func(x *big.Int, w uint) bool { return x.Sign() >= 0 && x.BitLen() <= int(w) }
	o := c20run(c)
	if o.hung {
		return "does not terminate (30 s)", true
	}
	eqNum := func(want *big.Int, n int, got []uint64) string {
		if c20big(got).Cmp(want) != 0 || len(got) != n {
			return fmt.Sprintf("got %x want %x", c20big(got), want)
		}
		return ""
	}
	exactOrPanic := func(exact *big.Int) (string, bool) {
		if fits(exact, W) {
			if o.panicked {
				return fmt.Sprintf("signals overflow but the exact result %x fits", exact), true
			}
			return eqNum(exact, nl, o.limbs), exact.Sign() != 0
		}
		if !o.panicked {
			return fmt.Sprintf("exact result %x does not fit %d bits but no overflow is signalled (returned %x)", exact, W, c20big(o.limbs)), true
		}
		return "", true
	}
	noPanic := func() string {
		if o.panicked {
			return "unexpected panic"
		}
		return ""
	}
	if c.Width == 64 {
		// exported per-limb primitives of Uint64 (two result words, never a panic)
		two := func(wantV, wantC uint64, checkV bool) (string, bool) {
			if o.panicked {
				return "unexpected panic", true
			}
			if checkV && o.limbs[0] != wantV {
				return fmt.Sprintf("value: got %x want %x (carry got %x want %x)", o.limbs[0], wantV, o.limbs2[0], wantC), true
			}
			if o.limbs2[0] != wantC {
				return fmt.Sprintf("carry: got %x want %x (value %x)", o.limbs2[0], wantC, o.limbs[0]), true
			}
			return "", true
		}
		u := c.A[0]
		switch c.Op {
		case "LeftShift64":
			// doc comment: value = u << n | (carryIn & ((1 << n) - 1)); carry = the bits moved out of the
			// word, i.e. the upper word of the 128-bit value u << n (0 once they left that word too).
			// n >= 128 with a non-zero carry-in: value left unconstrained (the code warns "overflow").
			cin, n := c.B[0], c.N
			x := new(big.Int)
			if n < 128 {
				x.Lsh(A, n)
			}
			l := c20limbs(x, 2)
			switch {
			case n == 0:
				return two(u, 0, true)
			case n < 64:
				return two(l[0]|cin&(uint64(1)<<n-1), l[1], true)
			default:
				return two(cin, l[1], n < 128 || cin == 0)
			}
		case "RightShift64":
			// mirror image: the carry-in word supplies the n upper bits, the carry is the lower word of
			// (u * 2^64) >> n. Carry-in words are generated inside that window only.
			cin, n := c.B[0], c.N
			x := new(big.Int).Lsh(A, 64)
			x.Rsh(x, n)
			l := c20limbs(x, 2)
			switch {
			case n == 0:
				return two(u, 0, true)
			case n < 64:
				return two(l[1]|cin, l[0], true)
			default:
				return two(cin, l[0], n < 128 || cin == 0)
			}
		case "Add64":
			x := new(big.Int).Add(A, new(big.Int).SetUint64(c.B[0]))
			x.Add(x, new(big.Int).SetUint64(c.B[1]))
			l := c20limbs(x, 2)
			return two(l[0], l[1], true)
		case "Sub64":
			x := new(big.Int).Sub(A, new(big.Int).SetUint64(c.B[0]))
			x.Sub(x, new(big.Int).SetUint64(c.B[1]))
			borrow := uint64(0)
			if x.Sign() < 0 {
				borrow = 1
				x.Add(x, mod)
			}
			return two(c20limbs(x, 1)[0], borrow, true)
		case "Mul64":
			l := c20limbs(new(big.Int).Mul(A, new(big.Int).SetUint64(c.B[0])), 2)
			return two(l[0], l[1], true)
		}
	}
	switch c.Op {
	case "Add", "Add64":
		return exactOrPanic(new(big.Int).Add(A, B))
	case "Sub":
		return exactOrPanic(new(big.Int).Sub(A, B))
	case "Mul", "Mul64":
		return exactOrPanic(new(big.Int).Mul(A, B))
	case "LeftShift":
		if m := noPanic(); m != "" {
			return m, true
		}
		x := new(big.Int)
		if c.N < W { // (a huge amount would make math/big allocate 2^n bits)
			x.Lsh(A, c.N)
			x.Mod(x, mod)
		}
		return eqNum(x, nl, o.limbs), c.N >= 64 || x.Sign() != 0
	case "RightShift":
		if m := noPanic(); m != "" {
			return m, true
		}
		x := new(big.Int).Rsh(A, c.N)
		return eqNum(x, nl, o.limbs), c.N >= 64 || x.Sign() != 0
	case "Div", "Div64", "Mod", "Mod64", "QuoRem", "QuoRem64":
		if B.Sign() == 0 {
			return "", false // division by zero: behaviour not constrained by the property
		}
		if m := noPanic(); m != "" {
			return m + " for a non-zero divisor", true
		}
		q, r := new(big.Int).QuoRem(A, B, new(big.Int))
		switch c.Op {
		case "Div", "Div64":
			return eqNum(q, nl, o.limbs), true
		case "Mod":
			return eqNum(r, nl, o.limbs), true
		case "Mod64":
			return eqNum(r, 1, o.limbs), true
		case "QuoRem":
			if m := eqNum(q, nl, o.limbs); m != "" {
				return "quotient " + m, true
			}
			m := eqNum(r, nl, o.limbs2)
			if m != "" {
				m = "remainder " + m
			}
			return m, true
		case "QuoRem64":
			if m := eqNum(q, nl, o.limbs); m != "" {
				return "quotient " + m, true
			}
			m := eqNum(r, 1, o.limbs2)
			if m != "" {
				m = "remainder " + m
			}
			return m, true
		}
	case "And":
		if m := noPanic(); m != "" {
			return m, true
		}
		return eqNum(new(big.Int).And(A, B), nl, o.limbs), true
	case "Or":
		if m := noPanic(); m != "" {
			return m, true
		}
		return eqNum(new(big.Int).Or(A, B), nl, o.limbs), true
	case "Xor":
		if m := noPanic(); m != "" {
			return m, true
		}
		return eqNum(new(big.Int).Xor(A, B), nl, o.limbs), true
	case "Not":
		if m := noPanic(); m != "" {
			return m, true
		}
		x := new(big.Int).Sub(mod, big.NewInt(1))
		x.Sub(x, A)
		return eqNum(x, nl, o.limbs), true
	case "Cmp", "Cmp64":
		if m := noPanic(); m != "" {
			return m, true
		}
		if o.i != A.Cmp(B) {
			return fmt.Sprintf("got %d want %d", o.i, A.Cmp(B)), true
		}
		return "", true
	case "Equals", "LessThan", "LessThanOrEqual", "GreaterThan", "GreaterThanOrEqual":
		if m := noPanic(); m != "" {
			return m, true
		}
		cmp := A.Cmp(B)
		want := map[string]bool{"Equals": cmp == 0, "LessThan": cmp < 0, "LessThanOrEqual": cmp <= 0,
			"GreaterThan": cmp > 0, "GreaterThanOrEqual": cmp >= 0}[c.Op]
		if o.b != want {
			return fmt.Sprintf("got %v want %v", o.b, want), true
		}
		return "", true
	case "IsZero":
		if o.panicked || o.b != (A.Sign() == 0) {
			return fmt.Sprintf("got %v", o.b), true
		}
		return "", true
	case "AsUint64", "ToUint64":
		// narrowing: every value that fits the target width is preserved (others unconstrained)
		if fits(A, 64) {
			if m := noPanic(); m != "" {
				return m, true
			}
			return eqNum(A, 1, o.limbs), true
		}
		return "", false
	case "ToUint128":
		if fits(A, 128) {
			if m := noPanic(); m != "" {
				return m, true
			}
			return eqNum(A, 2, o.limbs), true
		}
		return "", false
	case "ToUint256":
		if m := noPanic(); m != "" {
			return m, true
		}
		return eqNum(A, 4, o.limbs), true
	case "Set64", "From64":
		if m := noPanic(); m != "" {
			return m, true
		}
		return eqNum(new(big.Int).SetUint64(c.A[0]), nl, o.limbs), true
	case "Zero", "ZeroUint":
		if m := noPanic(); m != "" {
			return m, true
		}
		return eqNum(new(big.Int), nl, o.limbs), false
	case "OneUint":
		if m := noPanic(); m != "" {
			return m, true
		}
		return eqNum(big.NewInt(1), nl, o.limbs), true
	case "MaxValue":
		if m := noPanic(); m != "" {
			return m, true
		}
		return eqNum(new(big.Int).Sub(mod, big.NewInt(1)), nl, o.limbs), false
	}
	return "harness: unknown op " + c.Op, false
}

func c20tuples(alpha []uint64, n int) [][]uint64 {
	out := [][]uint64{{}}
	for i := 0; i < n; i++ {
		var nx [][]uint64
		for _, t := range out {
			for _, a := range alpha {
				nt := append(append([]uint64{}, t...), a)
				nx = append(nx, nt)
			}
		}
		out = nx
	}
	return out
}

// ---------------------------------------------------------------------------------------------
// Operation sequences of the generic client (pkg/obikmer/kmermap.go), written against the FPUint
// constraint exactly as the client is (ZeroUint / OneUint / From64 + methods through the type
// parameter). Every intermediate value is compared with math/big; after a mismatch the run is
// resynchronised on the model so that one defect does not cascade.

type c20p[T FPUint[T]] struct {
	v T
	b *big.Int
}

type c20g[T FPUint[T]] struct {
	W     uint
	toL   func(T) []uint64
	fromL func([]uint64) T
	mod   *big.Int
	fail  func(step, desc string)
	phase string
	n     int64
}

func (g *c20g[T]) ok(op string, v T, want *big.Int, in string) c20p[T] {
	g.n++
	if got := c20big(g.toL(v)); got.Cmp(want) != 0 {
		g.fail(g.phase+":"+op+"/wrong-value", fmt.Sprintf("%s(%s) = %x want %x", op, in, got, want))
		v = g.fromL(c20limbs(want, int(g.W/64)))
	}
	return c20p[T]{v, want}
}
func (g *c20g[T]) zero() c20p[T] { return g.ok("ZeroUint", ZeroUint[T](), new(big.Int), "") }
func (g *c20g[T]) one() c20p[T]  { return g.ok("OneUint", OneUint[T](), big.NewInt(1), "") }
func (g *c20g[T]) from64(x uint64) c20p[T] {
	return g.ok("From64", From64[T](x), new(big.Int).SetUint64(x), fmt.Sprint(x))
}
func (g *c20g[T]) lsh(p c20p[T], n uint) c20p[T] {
	w := new(big.Int).Lsh(p.b, n)
	return g.ok("LeftShift", p.v.LeftShift(n), w.Mod(w, g.mod), fmt.Sprintf("%x, %d", p.b, n))
}
func (g *c20g[T]) rsh(p c20p[T], n uint) c20p[T] {
	return g.ok("RightShift", p.v.RightShift(n), new(big.Int).Rsh(p.b, n), fmt.Sprintf("%x, %d", p.b, n))
}
func (g *c20g[T]) and(p, q c20p[T]) c20p[T] {
	return g.ok("And", p.v.And(q.v), new(big.Int).And(p.b, q.b), fmt.Sprintf("%x, %x", p.b, q.b))
}
func (g *c20g[T]) or(p, q c20p[T]) c20p[T] {
	return g.ok("Or", p.v.Or(q.v), new(big.Int).Or(p.b, q.b), fmt.Sprintf("%x, %x", p.b, q.b))
}

// sub returns ok=false when the exact difference is negative (the call must then panic).
func (g *c20g[T]) sub(p, q c20p[T]) (res c20p[T], ok bool) {
	w := new(big.Int).Sub(p.b, q.b)
	in := fmt.Sprintf("%x, %x", p.b, q.b)
	var v T
	panicked := func() (pn bool) {
		defer func() {
			if recover() != nil {
				pn = true
			}
		}()
		v = p.v.Sub(q.v)
		return false
	}()
	switch {
	case w.Sign() < 0 && !panicked:
		g.n++
		g.fail(g.phase+":Sub/missed-overflow", fmt.Sprintf("Sub(%s) = %x: no underflow signalled", in, c20big(g.toL(v))))
		return res, false
	case w.Sign() < 0:
		g.n++
		return res, false
	case panicked:
		g.n++
		g.fail(g.phase+":Sub/spurious-overflow", fmt.Sprintf("Sub(%s) signals underflow, exact result %x", in, w))
		return c20p[T]{g.fromL(c20limbs(w, int(g.W/64))), w}, true
	}
	return g.ok("Sub", v, w, in), true
}
func (g *c20g[T]) lessThan(p, q c20p[T]) bool {
	g.n++
	want := p.b.Cmp(q.b) < 0
	if got := p.v.LessThan(q.v); got != want {
		g.fail(g.phase+":LessThan/wrong-value", fmt.Sprintf("LessThan(%x, %x) = %v", p.b, q.b, got))
	}
	return want
}

type c20masks[T FPUint[T]] struct {
	kmer, left, right c20p[T]
	sparse, ok        bool
}

// masks builds the three masks of NewKmerMap for k (sparse mode <=> k odd, as NewKmerMap imposes).
func (g *c20g[T]) masks(k uint) (m c20masks[T]) {
	g.phase = "kmer-masks"
	one := g.one()
	if m.kmer, m.ok = g.sub(g.lsh(one, 2*k), one); !m.ok {
		return // 2k = width: 1<<2k leaves the word, 0-1 must signal underflow
	}
	m.left, m.right = g.zero(), g.zero()
	if m.sparse = k%2 == 1; m.sparse {
		at := k / 2
		left, right := 2*at, 2*(k-1-at)
		l, _ := g.sub(g.lsh(g.one(), left), g.one())
		m.left = g.lsh(l, right+2)
		m.right, _ = g.sub(g.lsh(g.one(), right), g.one())
	}
	return m
}

// roll mirrors KmerMap.NormalizedKmerSlice + KmerAsString on one word (codes 0..3).
func (g *c20g[T]) roll(k uint, m c20masks[T], word []byte) {
	cur, ccur := g.zero(), g.zero()
	size := uint(0)
	squeeze := func(x c20p[T]) c20p[T] {
		if !m.sparse {
			return x
		}
		return g.or(g.rsh(g.and(x, m.left), 2), g.and(x, m.right))
	}
	for _, code := range word {
		g.phase = "kmer-roll-forward"
		cur = g.or(g.and(g.lsh(cur, 2), m.kmer), g.from64(uint64(code)))
		g.phase = "kmer-roll-reverse"
		ccur = g.or(g.rsh(ccur, 2), g.lsh(g.from64(uint64(3-code)), 2*(k-1)))
		if size++; size < k {
			continue
		}
		size--
		g.phase = "kmer-canonical"
		fw, rv := squeeze(cur), squeeze(ccur)
		kmer := rv
		if g.lessThan(fw, rv) {
			kmer = fw
		}
		g.phase = "kmer-decode"
		ks := k
		if m.sparse {
			ks--
		}
		three := g.from64(3)
		for i := uint(0); i < ks; i++ {
			g.n++
			want := new(big.Int).And(kmer.b, three.b).Uint64()
			if got := g.and(kmer, three).v.AsUint64(); got != want {
				g.fail(g.phase+":AsUint64/wrong-value", fmt.Sprintf("AsUint64(%x & 3) = %d", kmer.b, got))
			}
			kmer = g.rsh(kmer, 2)
		}
	}
}

func c20seq[T FPUint[T]](W uint, toL func(T) []uint64, fromL func([]uint64) T, c c20case, fail func(step, desc string)) int64 {
	g := &c20g[T]{W: W, toL: toL, fromL: fromL, mod: new(big.Int).Lsh(big.NewInt(1), W), fail: fail}
	func() {
		defer func() {
			if p := recover(); p != nil {
				g.fail(g.phase+"/panic", fmt.Sprint(p))
			}
		}()
		m := g.masks(c.N)
		if m.ok && c.Word != "" {
			word := make([]byte, len(c.Word))
			for i := range word {
				word[i] = c.Word[i] - '0'
			}
			g.roll(c.N, m, word)
		}
	}()
	return g.n
}

// c20words: all words of period 1..3 over the four codes, cut at length n (rotations included).
func c20words(n int) []string {
	seen := map[string]bool{}
	var out []string
	for p := 1; p <= 3; p++ {
		for _, unit := range verifkit.AllStrings("0123", p, p) {
			w := strings.Repeat(unit, n/p+1)[:n]
			if !seen[w] {
				seen[w] = true
				out = append(out, w)
			}
		}
	}
	return out
}

func TestVerifC20(t *testing.T) {
	log.SetOutput(io.Discard)
	// a logrus Fatal raised by the code under test must not end the process: it becomes a panic, which the
	// guards around every implementation call turn into the outcome "signals an error" judged by the oracle
	log.StandardLogger().ExitFunc = func(code int) { panic(fmt.Sprintf("log.Fatal (exit status %d)", code)) }
	r := verifkit.New("C20")
	defer r.Write()

	eval := func(c c20case) {
		if c.Op == "seq" {
			fail := func(step, desc string) {
				r.Violate(fmt.Sprintf("FPUint[Uint%d]/%s", c.Width, step),
					fmt.Sprintf("generic client sequence, Uint%d k=%d word=%q: %s", c.Width, c.N, c.Word, desc), c)
			}
			var n int64
			switch c.Width {
			case 64:
				n = c20seq[Uint64](64, l64, mk64, c, fail)
			case 128:
				n = c20seq[Uint128](128, l128, mk128, c, fail)
			case 256:
				n = c20seq[Uint256](256, l256, mk256, c, fail)
			}
			r.Eval(1)
			r.Trans(n)
			r.Count("nontrivial", 1)
			r.Count("sequence_runs", 1)
			r.Count("sequence_op_applications", n)
			return
		}
		if c20leaked >= 3 && c20mayHang(c) {
			r.Cap("division / huge-shift cases skipped after 3 non-terminating calls")
			return
		}
		msg, nt := c20check(c)
		r.Eval(1)
		r.Trans(1)
		if nt {
			r.Count("nontrivial", 1)
		}
		if msg != "" {
			class := "wrong-value"
			switch {
			case strings.Contains(msg, "does not terminate"):
				class = "hang"
			case strings.Contains(msg, "signals overflow but"):
				class = "spurious-overflow"
			case strings.Contains(msg, "no overflow is signalled"):
				class = "missed-overflow"
				if c.Width == 128 && c.Op == "Mul" && c.A[1] != 0 && c.B[1] != 0 {
					// both operands >= 2^64: Mul never computes w1*w1 and the repository's own
					// TestUint128_Mul expects the wrapped product (see known_findings.txt). The key is
					// granted only when that product is the ONLY reason of the overflow, i.e. when
					// a0*b0 + (a1*b0 + a0*b1)*2^64 still fits 128 bits: a miss with an overflowing
					// lower part is another defect and keeps the plain key.
					lim := func(x uint64) *big.Int { return new(big.Int).SetUint64(x) }
					cross := new(big.Int).Mul(lim(c.A[1]), lim(c.B[0]))
					cross.Add(cross, new(big.Int).Mul(lim(c.A[0]), lim(c.B[1])))
					low := new(big.Int).Mul(lim(c.A[0]), lim(c.B[0]))
					low.Add(low, cross.Lsh(cross, 64))
					if low.BitLen() <= 128 {
						class = "missed-overflow:both-operands>=2^64"
						r.Count("known_Uint128.Mul_only-w1*w1-overflows", 1)
					}
				}
			case strings.Contains(msg, "unexpected panic"):
				class = "panic"
			case strings.HasPrefix(msg, "carry:"):
				class = "wrong-carry"
			}
			if (c.Op == "LeftShift" || c.Op == "RightShift") && c.N > uint(c.Width)+64 {
				class += ":amount>width+64"
			}
			key := fmt.Sprintf("Uint%d.%s/%s", c.Width, c.Op, class)
			r.Violate(key, fmt.Sprintf("Uint%d.%s(a=%x b=%x n=%d): %s", c.Width, c.Op, c.A, c.B, c.N, msg), c)
		}
	}

	if rc := r.ReplayCase(); rc != nil {
		var c c20case
		if err := json.Unmarshal(rc, &c); err != nil {
			t.Fatal(err)
		}
		eval(c)
		return
	}

	full := []uint64{0, 1, 2, 1 << 31, 1<<32 - 1, 1<<63 - 1, 1 << 63, ^uint64(0) - 1, ^uint64(0)}
	// wide: + 2^k+1 forms, 2^32, and three dense words (alternating bits both ways, an irregular one)
	wide := append(append([]uint64{}, full...), 3, 1<<32, 1<<32+1, 1<<63+1,
		0x5555555555555555, 0xAAAAAAAAAAAAAAAA, 0x9E3779B97F4A7C15)
	small := []uint64{0, 1, 1<<32 - 1, 1 << 63, ^uint64(0)}
	alpha := map[int][]uint64{64: wide, 128: wide, 256: small}
	if verifkit.Thorough() {
		alpha[256] = []uint64{0, 1, 2, 1<<32 - 1, 1<<63 - 1, 1 << 63, ^uint64(0) - 1, ^uint64(0)}
	}
	r.Bound("limb_alphabet_64_128", fmt.Sprintf("%x", wide))
	r.Bound("limb_alphabet_256", fmt.Sprintf("%x", alpha[256]))
	r.Bound("operands", "all limb tuples over the alphabet + 2^k-1, 2^k, 2^k+1 for every k of the width")
	r.Bound("shift_amounts", "0..width+64, then width+65, width+127, width+128, 2^31-1, 2^31, 2^32-1, 2^32, 2^32+1, 2^32+64, 2^63, 2^63+1, 2^64-64, 2^64-1")

	// operands of width W: limb tuples + the power family of the quantifier
	operands := func(W int) [][]uint64 {
		ops := c20tuples(alpha[W], W/64)
		seen := map[string]bool{}
		for _, o := range ops {
			seen[fmt.Sprint(o)] = true
		}
		one := big.NewInt(1)
		for k := uint(0); k <= uint(W); k++ {
			p := new(big.Int).Lsh(one, k)
			for _, x := range []*big.Int{new(big.Int).Sub(p, one), p, new(big.Int).Add(p, one)} {
				if x.BitLen() > W {
					continue
				}
				l := c20limbs(x, W/64)
				if !seen[fmt.Sprint(l)] {
					seen[fmt.Sprint(l)] = true
					ops = append(ops, l)
				}
			}
		}
		return ops
	}
	var words64 []uint64 // single words: alphabet + power family
	for _, o := range operands(64) {
		words64 = append(words64, o[0])
	}
	shifts := func(W int) []uint {
		var out []uint
		for n := uint(0); n <= uint(W)+64; n++ {
			out = append(out, n)
		}
		w := uint(W)
		return append(out, w+65, w+127, w+128, 1<<31-1, 1<<31, 1<<32-1, 1<<32, 1<<32+1, 1<<32+64,
			1<<63, 1<<63+1, ^uint(0)-63, ^uint(0))
	}

	unary := []string{"Not", "IsZero", "AsUint64", "ToUint64", "ToUint128", "ToUint256", "Zero", "MaxValue"}
	binary := map[int][]string{
		64:  {"Add", "Sub", "Mul", "And", "Or", "Xor", "Cmp", "Equals", "LessThan", "LessThanOrEqual", "GreaterThan", "GreaterThanOrEqual"},
		128: {"Add", "Sub", "Mul", "Div", "Mod", "QuoRem", "And", "Or", "Xor", "Cmp", "Equals", "LessThan", "LessThanOrEqual", "GreaterThan", "GreaterThanOrEqual"},
		256: {"Add", "Sub", "Mul", "Div", "And", "Or", "Xor", "Cmp", "Equals", "LessThan", "LessThanOrEqual", "GreaterThan", "GreaterThanOrEqual"},
	}
	k := 0

	// ---- 1. generic entry points and the client's operation sequences
	for _, W := range []int{64, 128, 256} {
		ones := make([]uint64, W/64)
		for i := range ones {
			ones[i] = ^uint64(0)
		}
		if r.Mine(k) {
			eval(c20case{Width: W, Op: "ZeroUint", A: []uint64{0}})
			eval(c20case{Width: W, Op: "OneUint", A: []uint64{0}})
			for _, v := range words64 {
				eval(c20case{Width: W, Op: "From64", A: []uint64{v}})
				eval(c20case{Width: W, Op: "Set64", A: []uint64{v}})          // zero receiver
				eval(c20case{Width: W, Op: "Set64", A: []uint64{v}, B: ones}) // all-ones receiver
			}
		}
		k++
		rollAt := map[uint]bool{}
		for _, b := range []uint{1, 2, 3, 4, 16, 32, 48, 64, 96} {
			for d := -1; d <= 1; d++ {
				rollAt[uint(int(b)+d)] = true
			}
		}
		rollAt[uint(W/2-1)], rollAt[uint(W/2-2)] = true, true
		for ks := uint(1); ks <= uint(W/2); ks++ {
			if r.Mine(k) {
				eval(c20case{Width: W, Op: "seq", N: ks})
				if rollAt[ks] && 2*ks < uint(W) {
					for _, w := range c20words(int(ks) + 2) {
						eval(c20case{Width: W, Op: "seq", N: ks, Word: w})
					}
				}
			}
			k++
		}
	}

	// ---- 2. the per-limb primitives of Uint64
	for _, a := range words64 {
		if r.Mine(k) {
			for _, n := range shifts(64) {
				seen := map[uint64]bool{}
				for _, x := range wide {
					eval(c20case{Width: 64, Op: "LeftShift64", A: []uint64{a}, B: []uint64{x}, N: n})
					cin := x // RightShift64: carry-in words inside the window of the n upper bits
					if n < 64 {
						cin = x &^ (uint64(1)<<(64-n) - 1)
					}
					if !seen[cin] {
						seen[cin] = true
						eval(c20case{Width: 64, Op: "RightShift64", A: []uint64{a}, B: []uint64{cin}, N: n})
					}
				}
			}
			for _, b := range words64 {
				eval(c20case{Width: 64, Op: "Mul64", A: []uint64{a}, B: []uint64{b}})
				for cin := uint64(0); cin <= 1; cin++ {
					eval(c20case{Width: 64, Op: "Add64", A: []uint64{a}, B: []uint64{b, cin}})
					eval(c20case{Width: 64, Op: "Sub64", A: []uint64{a}, B: []uint64{b, cin}})
				}
			}
		}
		k++
	}

	// ---- 3. every operation on every operand / operand pair
	for _, W := range []int{64, 128, 256} {
		ops := operands(W)
		r.Bound(fmt.Sprintf("operands_%d", W), len(ops))
		for _, a := range ops {
			r.State(fmt.Sprintf("%d:%x", W, a))
			if r.Mine(k) {
				for _, op := range unary {
					eval(c20case{Width: W, Op: op, A: a})
				}
				for _, n := range shifts(W) {
					eval(c20case{Width: W, Op: "LeftShift", A: a, N: n})
					eval(c20case{Width: W, Op: "RightShift", A: a, N: n})
				}
				if W == 128 {
					for _, b := range words64 {
						for _, op := range []string{"Add64", "Mul64", "Div64", "Mod64", "QuoRem64", "Cmp64"} {
							eval(c20case{Width: W, Op: op, A: a, B: []uint64{b}})
						}
					}
				}
			}
			k++
			for _, b := range ops {
				if r.Mine(k) {
					for _, op := range binary[W] {
						eval(c20case{Width: W, Op: op, A: a, B: b})
					}
				}
				k++
			}
			if r.Expired() {
				return
			}
		}
	}

	// ---- 4. divisions at the quotient-correction boundaries: dividends built as q*v + r with
	// r in {0, 1, v-1} (exact multiples, one above, one below the next multiple) for every divisor v of
	// the operand domain and every single-word quotient q, whenever the dividend fits the width.
	for _, W := range []int{128, 256} {
		divOps := []string{"Div", "Mod", "QuoRem"}
		if W == 256 {
			divOps = []string{"Div"}
		}
		for _, v := range operands(W) {
			V := c20big(v)
			if V.Sign() == 0 {
				continue
			}
			if r.Mine(k) {
				seen := map[string]bool{}
				for _, q := range words64 {
					QV := new(big.Int).Mul(new(big.Int).SetUint64(q), V)
					for _, rem := range []*big.Int{new(big.Int), big.NewInt(1), new(big.Int).Sub(V, big.NewInt(1))} {
						A := new(big.Int).Add(QV, rem)
						if rem.Cmp(V) >= 0 || A.BitLen() > W || seen[A.String()] {
							continue
						}
						seen[A.String()] = true
						r.Count("division_boundary_dividends", 1)
						for _, op := range divOps {
							eval(c20case{Width: W, Op: op, A: c20limbs(A, W/64), B: v})
						}
					}
				}
			}
			k++
		}
		if r.Expired() {
			return
		}
	}
	r.RequireNonVacuous("sequence_runs")
	r.RequireNonVacuous("division_boundary_dividends")
	r.Sample(c20case{Width: 256, Op: "Mul", A: []uint64{^uint64(0), 1, 0, 0}, B: []uint64{1 << 63, 0, 0, 0}})
	r.Sample(c20case{Width: 128, Op: "LeftShift", A: []uint64{1, 1 << 63}, N: 65})
	r.Sample(c20case{Width: 64, Op: "LeftShift64", A: []uint64{1 << 63}, B: []uint64{^uint64(0)}, N: 3})
	r.Sample(c20case{Width: 128, Op: "seq", N: 31, Word: "012012012012012012012012012012012"})
}

func c20bigOrNil(l []uint64) *big.Int {
	if l == nil {
		return new(big.Int)
	}
	return c20big(l)
}
