//go:build verif

package obifp

// C20 — fixed-precision integers agree with exact arithmetic.
// Exhaustive over all limb tuples from a boundary alphabet (limbs are set directly through the
// unexported fields, not through the shifts under test), every unary op, every binary op on all
// operand pairs, every shift amount 0..width+64, all casts. Oracle: math/big.

import (
	"encoding/json"
	"fmt"
	"io"
	"math/big"
	"strings"
	"testing"
	"time"

	"git.metabarcoding.org/obitools/obitools4/obitools4/pkg/verifkit"
	log "github.com/sirupsen/logrus"
)

type c20case struct {
	Width int      `json:"width"`
	Op    string   `json:"op"`
	A     []uint64 `json:"a"` // little-endian limbs
	B     []uint64 `json:"b,omitempty"`
	N     uint     `json:"n,omitempty"`
}

func c20big(l []uint64) *big.Int {
	x := new(big.Int)
	for i := len(l) - 1; i >= 0; i-- {
		x.Lsh(x, 64)
		x.Or(x, new(big.Int).SetUint64(l[i]))
	}
	return x
}

func c20limbs(x *big.Int, n int) []uint64 {
	out := make([]uint64, n)
	m := new(big.Int).Set(x)
	mask := new(big.Int).SetUint64(^uint64(0))
	for i := 0; i < n; i++ {
		out[i] = new(big.Int).And(m, mask).Uint64()
		m.Rsh(m, 64)
	}
	return out
}

func mk64(l []uint64) Uint64   { return Uint64{w0: l[0]} }
func mk128(l []uint64) Uint128 { return Uint128{w1: l[1], w0: l[0]} }
func mk256(l []uint64) Uint256 { return Uint256{w3: l[3], w2: l[2], w1: l[1], w0: l[0]} }
func l64(u Uint64) []uint64    { return []uint64{u.w0} }
func l128(u Uint128) []uint64  { return []uint64{u.w0, u.w1} }
func l256(u Uint256) []uint64  { return []uint64{u.w0, u.w1, u.w2, u.w3} }

// outcome of running one operation on the implementation
type c20out struct {
	panicked bool
	hung     bool
	limbs    []uint64 // numeric result (little endian), nil for bool/int results
	b        bool
	i        int
	limbs2   []uint64 // second result (remainder)
}

var c20leaked int

func c20guard(f func() c20out, mayHang bool) (o c20out) {
	if !mayHang {
		defer func() {
			if r := recover(); r != nil {
				o = c20out{panicked: true}
			}
		}()
		return f()
	}
	ch := make(chan c20out, 1)
	go func() {
		defer func() {
			if r := recover(); r != nil {
				ch <- c20out{panicked: true}
			}
		}()
		ch <- f()
	}()
	// a hang is declared only after 60 separate half-second waits this process really sat through (one
	// wall-clock reading could jump while the process is frozen)
	for tick := 0; tick < 60; tick++ {
		select {
		case o = <-ch:
			return o
		case <-time.After(500 * time.Millisecond):
		}
	}
	c20leaked++
	return c20out{hung: true}
}

// c20run executes op on the implementation.
func c20run(c c20case) c20out {
	num := func(l []uint64) c20out { return c20out{limbs: l} }
	for len(c.A) < c.Width/64 {
		c.A = append(append([]uint64{}, c.A...), 0)
	}
	switch c.Width {
	case 64:
		a := mk64(c.A)
		var b Uint64
		if c.B != nil {
			b = mk64(c.B)
		}
		return c20guard(func() c20out {
			switch c.Op {
			case "LeftShift":
				return num(l64(a.LeftShift(c.N)))
			case "RightShift":
				return num(l64(a.RightShift(c.N)))
			case "Add":
				return num(l64(a.Add(b)))
			case "Sub":
				return num(l64(a.Sub(b)))
			case "Mul":
				return num(l64(a.Mul(b)))
			case "And":
				return num(l64(a.And(b)))
			case "Or":
				return num(l64(a.Or(b)))
			case "Xor":
				return num(l64(a.Xor(b)))
			case "Not":
				return num(l64(a.Not()))
			case "Cmp":
				return c20out{i: a.Cmp(b)}
			case "Equals":
				return c20out{b: a.Equals(b)}
			case "LessThan":
				return c20out{b: a.LessThan(b)}
			case "LessThanOrEqual":
				return c20out{b: a.LessThanOrEqual(b)}
			case "GreaterThan":
				return c20out{b: a.GreaterThan(b)}
			case "GreaterThanOrEqual":
				return c20out{b: a.GreaterThanOrEqual(b)}
			case "IsZero":
				return c20out{b: a.IsZero()}
			case "AsUint64":
				return num([]uint64{a.AsUint64()})
			case "ToUint64":
				return num(l64(a.Uint64()))
			case "ToUint128":
				return num(l128(a.Uint128()))
			case "ToUint256":
				return num(l256(a.Uint256()))
			case "Set64":
				return num(l64(b.Set64(c.A[0])))
			case "From64":
				return num(l64(From64[Uint64](c.A[0])))
			case "Zero":
				return num(l64(a.Zero()))
			case "MaxValue":
				return num(l64(a.MaxValue()))
			}
			panic("unknown op " + c.Op)
		}, false)
	case 128:
		a := mk128(c.A)
		var b Uint128
		if len(c.B) == 2 {
			b = mk128(c.B)
		}
		var b64 uint64
		if len(c.B) >= 1 {
			b64 = c.B[0]
		}
		return c20guard(func() c20out {
			switch c.Op {
			case "LeftShift":
				return num(l128(a.LeftShift(c.N)))
			case "RightShift":
				return num(l128(a.RightShift(c.N)))
			case "Add":
				return num(l128(a.Add(b)))
			case "Sub":
				return num(l128(a.Sub(b)))
			case "Mul":
				return num(l128(a.Mul(b)))
			case "Add64":
				return num(l128(a.Add64(b64)))
			case "Mul64":
				return num(l128(a.Mul64(b64)))
			case "Div":
				return num(l128(a.Div(b)))
			case "Mod":
				return num(l128(a.Mod(b)))
			case "QuoRem":
				q, r := a.QuoRem(b)
				return c20out{limbs: l128(q), limbs2: l128(r)}
			case "Div64":
				return num(l128(a.Div64(b64)))
			case "Mod64":
				return num([]uint64{a.Mod64(b64)})
			case "QuoRem64":
				q, r := a.QuoRem64(b64)
				return c20out{limbs: l128(q), limbs2: []uint64{r}}
			case "And":
				return num(l128(a.And(b)))
			case "Or":
				return num(l128(a.Or(b)))
			case "Xor":
				return num(l128(a.Xor(b)))
			case "Not":
				return num(l128(a.Not()))
			case "Cmp":
				return c20out{i: a.Cmp(b)}
			case "Cmp64":
				return c20out{i: a.Cmp64(b64)}
			case "Equals":
				return c20out{b: a.Equals(b)}
			case "LessThan":
				return c20out{b: a.LessThan(b)}
			case "LessThanOrEqual":
				return c20out{b: a.LessThanOrEqual(b)}
			case "GreaterThan":
				return c20out{b: a.GreaterThan(b)}
			case "GreaterThanOrEqual":
				return c20out{b: a.GreaterThanOrEqual(b)}
			case "IsZero":
				return c20out{b: a.IsZero()}
			case "AsUint64":
				return num([]uint64{a.AsUint64()})
			case "ToUint64":
				return num(l64(a.Uint64()))
			case "ToUint128":
				return num(l128(a.Uint128()))
			case "ToUint256":
				return num(l256(a.Uint256()))
			case "Set64":
				return num(l128(b.Set64(c.A[0])))
			case "From64":
				return num(l128(From64[Uint128](c.A[0])))
			case "Zero":
				return num(l128(a.Zero()))
			case "MaxValue":
				return num(l128(a.MaxValue()))
			}
			panic("unknown op " + c.Op)
		}, c.Op == "Div" || c.Op == "Mod" || c.Op == "QuoRem")
	case 256:
		a := mk256(c.A)
		var b Uint256
		if len(c.B) == 4 {
			b = mk256(c.B)
		}
		return c20guard(func() c20out {
			switch c.Op {
			case "LeftShift":
				return num(l256(a.LeftShift(c.N)))
			case "RightShift":
				return num(l256(a.RightShift(c.N)))
			case "Add":
				return num(l256(a.Add(b)))
			case "Sub":
				return num(l256(a.Sub(b)))
			case "Mul":
				return num(l256(a.Mul(b)))
			case "Div":
				return num(l256(a.Div(b)))
			case "And":
				return num(l256(a.And(b)))
			case "Or":
				return num(l256(a.Or(b)))
			case "Xor":
				return num(l256(a.Xor(b)))
			case "Not":
				return num(l256(a.Not()))
			case "Cmp":
				return c20out{i: a.Cmp(b)}
			case "Equals":
				return c20out{b: a.Equals(b)}
			case "LessThan":
				return c20out{b: a.LessThan(b)}
			case "LessThanOrEqual":
				return c20out{b: a.LessThanOrEqual(b)}
			case "GreaterThan":
				return c20out{b: a.GreaterThan(b)}
			case "GreaterThanOrEqual":
				return c20out{b: a.GreaterThanOrEqual(b)}
			case "IsZero":
				return c20out{b: a.IsZero()}
			case "AsUint64":
				return num([]uint64{a.AsUint64()})
			case "ToUint64":
				return num(l64(a.Uint64()))
			case "ToUint128":
				return num(l128(a.Uint128()))
			case "ToUint256":
				return num(l256(a.Uint256()))
			case "Set64":
				return num(l256(b.Set64(c.A[0])))
			case "From64":
				return num(l256(From64[Uint256](c.A[0])))
			case "Zero":
				return num(l256(a.Zero()))
			case "MaxValue":
				return num(l256(a.MaxValue()))
			}
			panic("unknown op " + c.Op)
		}, c.Op == "Div")
	}
	panic("bad width")
}

// c20check evaluates one case against math/big. It returns "" when the implementation agrees.
func c20check(c c20case) (msg string, nontrivial bool) {
	W := uint(c.Width)
	nl := c.Width / 64
	A := c20big(c.A)
	var B *big.Int
	if c.B != nil {
		B = c20big(c.B)
	}
	mod := new(big.Int).Lsh(big.NewInt(1), W)
	fits := func(x *big.Int, w uint) bool { return x.Sign() >= 0 && x.BitLen() <= int(w) }
	o := c20run(c)
	if o.hung {
		return "does not terminate (30 s)", true
	}
	eqNum := func(want *big.Int, n int, got []uint64) string {
		if c20big(got).Cmp(want) != 0 || len(got) != n {
			return fmt.Sprintf("got %x want %x", c20big(got), want)
		}
		return ""
	}
	exactOrPanic := func(exact *big.Int) (string, bool) {
		if fits(exact, W) {
			if o.panicked {
				return fmt.Sprintf("signals overflow but the exact result %x fits", exact), true
			}
			return eqNum(exact, nl, o.limbs), exact.Sign() != 0
		}
		if !o.panicked {
			return fmt.Sprintf("exact result %x does not fit %d bits but no overflow is signalled (returned %x)", exact, W, c20big(o.limbs)), true
		}
		return "", true
	}
	noPanic := func() string {
		if o.panicked {
			return "unexpected panic"
		}
		return ""
	}
	switch c.Op {
	case "Add", "Add64":
		return exactOrPanic(new(big.Int).Add(A, B))
	case "Sub":
		return exactOrPanic(new(big.Int).Sub(A, B))
	case "Mul", "Mul64":
		return exactOrPanic(new(big.Int).Mul(A, B))
	case "LeftShift":
		if m := noPanic(); m != "" {
			return m, true
		}
		x := new(big.Int).Lsh(A, c.N)
		x.Mod(x, mod)
		return eqNum(x, nl, o.limbs), c.N >= 64 || x.Sign() != 0
	case "RightShift":
		if m := noPanic(); m != "" {
			return m, true
		}
		x := new(big.Int).Rsh(A, c.N)
		return eqNum(x, nl, o.limbs), c.N >= 64 || x.Sign() != 0
	case "Div", "Div64", "Mod", "Mod64", "QuoRem", "QuoRem64":
		if B.Sign() == 0 {
			return "", false // division by zero: behaviour not constrained by the property
		}
		if m := noPanic(); m != "" {
			return m + " for a non-zero divisor", true
		}
		q, r := new(big.Int).QuoRem(A, B, new(big.Int))
		switch c.Op {
		case "Div", "Div64":
			return eqNum(q, nl, o.limbs), true
		case "Mod":
			return eqNum(r, nl, o.limbs), true
		case "Mod64":
			return eqNum(r, 1, o.limbs), true
		case "QuoRem":
			if m := eqNum(q, nl, o.limbs); m != "" {
				return "quotient " + m, true
			}
			m := eqNum(r, nl, o.limbs2)
			if m != "" {
				m = "remainder " + m
			}
			return m, true
		case "QuoRem64":
			if m := eqNum(q, nl, o.limbs); m != "" {
				return "quotient " + m, true
			}
			m := eqNum(r, 1, o.limbs2)
			if m != "" {
				m = "remainder " + m
			}
			return m, true
		}
	case "And":
		if m := noPanic(); m != "" {
			return m, true
		}
		return eqNum(new(big.Int).And(A, B), nl, o.limbs), true
	case "Or":
		if m := noPanic(); m != "" {
			return m, true
		}
		return eqNum(new(big.Int).Or(A, B), nl, o.limbs), true
	case "Xor":
		if m := noPanic(); m != "" {
			return m, true
		}
		return eqNum(new(big.Int).Xor(A, B), nl, o.limbs), true
	case "Not":
		if m := noPanic(); m != "" {
			return m, true
		}
		x := new(big.Int).Sub(mod, big.NewInt(1))
		x.Sub(x, A)
		return eqNum(x, nl, o.limbs), true
	case "Cmp", "Cmp64":
		if m := noPanic(); m != "" {
			return m, true
		}
		if o.i != A.Cmp(B) {
			return fmt.Sprintf("got %d want %d", o.i, A.Cmp(B)), true
		}
		return "", true
	case "Equals", "LessThan", "LessThanOrEqual", "GreaterThan", "GreaterThanOrEqual":
		if m := noPanic(); m != "" {
			return m, true
		}
		cmp := A.Cmp(B)
		want := map[string]bool{"Equals": cmp == 0, "LessThan": cmp < 0, "LessThanOrEqual": cmp <= 0,
			"GreaterThan": cmp > 0, "GreaterThanOrEqual": cmp >= 0}[c.Op]
		if o.b != want {
			return fmt.Sprintf("got %v want %v", o.b, want), true
		}
		return "", true
	case "IsZero":
		if o.panicked || o.b != (A.Sign() == 0) {
			return fmt.Sprintf("got %v", o.b), true
		}
		return "", true
	case "AsUint64", "ToUint64":
		// narrowing: every value that fits the target width is preserved (others unconstrained)
		if fits(A, 64) {
			if m := noPanic(); m != "" {
				return m, true
			}
			return eqNum(A, 1, o.limbs), true
		}
		return "", false
	case "ToUint128":
		if fits(A, 128) {
			if m := noPanic(); m != "" {
				return m, true
			}
			return eqNum(A, 2, o.limbs), true
		}
		return "", false
	case "ToUint256":
		if m := noPanic(); m != "" {
			return m, true
		}
		return eqNum(A, 4, o.limbs), true
	case "Set64", "From64":
		if m := noPanic(); m != "" {
			return m, true
		}
		return eqNum(new(big.Int).SetUint64(c.A[0]), nl, o.limbs), true
	case "Zero":
		if m := noPanic(); m != "" {
			return m, true
		}
		return eqNum(new(big.Int), nl, o.limbs), false
	case "MaxValue":
		if m := noPanic(); m != "" {
			return m, true
		}
		return eqNum(new(big.Int).Sub(mod, big.NewInt(1)), nl, o.limbs), false
	}
	return "harness: unknown op " + c.Op, false
}

func c20tuples(alpha []uint64, n int) [][]uint64 {
	out := [][]uint64{{}}
	for i := 0; i < n; i++ {
		var nx [][]uint64
		for _, t := range out {
			for _, a := range alpha {
				nt := append(append([]uint64{}, t...), a)
				nx = append(nx, nt)
			}
		}
		out = nx
	}
	return out
}

func TestVerifC20(t *testing.T) {
	log.SetOutput(io.Discard)
	r := verifkit.New("C20")
	defer r.Write()

	eval := func(c c20case) {
		if c20leaked >= 3 && (c.Op == "Div" || c.Op == "Mod" || c.Op == "QuoRem") {
			r.Cap("division cases skipped after 3 non-terminating divisions")
			return
		}
		msg, nt := c20check(c)
		r.Eval(1)
		r.Trans(1)
		if nt {
			r.Count("nontrivial", 1)
		}
		if msg != "" {
			class := "wrong-value"
			switch {
			case strings.Contains(msg, "does not terminate"):
				class = "hang"
			case strings.Contains(msg, "signals overflow but"):
				class = "spurious-overflow"
			case strings.Contains(msg, "no overflow is signalled"):
				class = "missed-overflow"
				if c.Width == 128 && c.Op == "Mul" && c.A[1] != 0 && c.B[1] != 0 {
					// both operands >= 2^64: the repository's own TestUint128_Mul expects the
					// wrapped product here (see known_findings.txt)
					class = "missed-overflow:both-operands>=2^64"
				}
			case strings.Contains(msg, "unexpected panic"):
				class = "panic"
			}
			key := fmt.Sprintf("Uint%d.%s/%s", c.Width, c.Op, class)
			r.Violate(key, fmt.Sprintf("Uint%d.%s(a=%x b=%x n=%d): %s", c.Width, c.Op, c20big(c.A), c20bigOrNil(c.B), c.N, msg), c)
		}
	}

	if rc := r.ReplayCase(); rc != nil {
		var c c20case
		if err := json.Unmarshal(rc, &c); err != nil {
			t.Fatal(err)
		}
		eval(c)
		return
	}

	full := []uint64{0, 1, 2, 1 << 31, 1<<32 - 1, 1<<63 - 1, 1 << 63, ^uint64(0) - 1, ^uint64(0)}
	small := []uint64{0, 1, 1<<32 - 1, 1 << 63, ^uint64(0)}
	alpha := map[int][]uint64{64: full, 128: full, 256: small}
	if verifkit.Thorough() {
		alpha[256] = []uint64{0, 1, 2, 1<<32 - 1, 1 << 63, ^uint64(0) - 1, ^uint64(0)}
	}
	r.Bound("limb_alphabet_64_128", fmt.Sprintf("%x", full))
	r.Bound("limb_alphabet_256", fmt.Sprintf("%x", alpha[256]))
	r.Bound("shift_amounts", "0..width+64")

	unary := []string{"Not", "IsZero", "AsUint64", "ToUint64", "ToUint128", "ToUint256", "Zero", "MaxValue"}
	binary := map[int][]string{
		64:  {"Add", "Sub", "Mul", "And", "Or", "Xor", "Cmp", "Equals", "LessThan", "LessThanOrEqual", "GreaterThan", "GreaterThanOrEqual"},
		128: {"Add", "Sub", "Mul", "Div", "Mod", "QuoRem", "And", "Or", "Xor", "Cmp", "Equals", "LessThan", "LessThanOrEqual", "GreaterThan", "GreaterThanOrEqual"},
		256: {"Add", "Sub", "Mul", "Div", "And", "Or", "Xor", "Cmp", "Equals", "LessThan", "LessThanOrEqual", "GreaterThan", "GreaterThanOrEqual"},
	}
	k := 0
	for _, W := range []int{64, 128, 256} {
		ops := c20tuples(alpha[W], W/64)
		for ia, a := range ops {
			r.State(fmt.Sprintf("%d:%x", W, a))
			if r.Mine(k) {
				for _, op := range unary {
					eval(c20case{Width: W, Op: op, A: a})
				}
				for n := uint(0); n <= uint(W)+64; n++ {
					eval(c20case{Width: W, Op: "LeftShift", A: a, N: n})
					eval(c20case{Width: W, Op: "RightShift", A: a, N: n})
				}
				if ia < len(full) || W == 64 {
					eval(c20case{Width: W, Op: "Set64", A: []uint64{a[0]}})
					eval(c20case{Width: W, Op: "From64", A: []uint64{a[0]}})
				}
				if W == 128 {
					for _, b := range full {
						for _, op := range []string{"Add64", "Mul64", "Div64", "Mod64", "QuoRem64", "Cmp64"} {
							eval(c20case{Width: W, Op: op, A: a, B: []uint64{b}})
						}
					}
				}
			}
			k++
			for _, b := range ops {
				if r.Mine(k) {
					for _, op := range binary[W] {
						eval(c20case{Width: W, Op: op, A: a, B: b})
					}
				}
				k++
			}
			if r.Expired() {
				return
			}
		}
	}
	r.Sample(c20case{Width: 256, Op: "Mul", A: []uint64{^uint64(0), 1, 0, 0}, B: []uint64{1 << 63, 0, 0, 0}})
	r.Sample(c20case{Width: 128, Op: "LeftShift", A: []uint64{1, 1 << 63}, N: 65})
}

func c20bigOrNil(l []uint64) *big.Int {
	if l == nil {
		return new(big.Int)
	}
	return c20big(l)
}
