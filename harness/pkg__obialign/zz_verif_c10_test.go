//go:build verif

package obialign

// C10 (second part) — LocatePattern, the end-gap-free DP that re-aligns the indel hits of obiapat.
// Exhaustive: every pattern of length 1..3 over the 15 IUPAC codes (+ length 4 over {A,C,G,T,N,R,V}) x every
// non-empty sequence over {a,c,g,t} up to length 6 (7 thorough) - also the sequences NOT longer than the pattern: the old
// precondition "fragment longer than the pattern" was removed from LocatePattern (fix 631dde9) because BestMatch and
// AllMatches hand it such fragments for reads about as long as the primer.
// Demanded: the returned span lies inside the sequence and the returned error count equals the edit distance between
// the pattern and that span (IUPAC classes match at cost 0). "The returned count is the minimum over all substrings"
// is what makes obiapat's AllMatches keep a hit; it is reported under its own key.

import (
	"encoding/json"
	"fmt"
	"io"
	"testing"

	"git.metabarcoding.org/obitools/obitools4/obitools4/pkg/verifkit"
	log "github.com/sirupsen/logrus"
)

var c10lpIupac = map[byte]uint8{'A': 1, 'C': 2, 'G': 4, 'T': 8, 'R': 5, 'Y': 10, 'M': 3, 'K': 12, 'S': 6, 'W': 9,
	'B': 14, 'D': 13, 'H': 11, 'V': 7, 'N': 15}

func c10lpBase(b byte) uint8 {
	switch b {
	case 'a':
		return 1
	case 'c':
		return 2
	case 'g':
		return 4
	case 't':
		return 8
	}
	panic("c10: sequence alphabet is acgt")
}

func c10lpMasks(pat string) []uint8 {
	out := make([]uint8, len(pat))
	for i := range pat {
		m, ok := c10lpIupac[pat[i]]
		if !ok {
			panic("c10: bad pattern symbol")
		}
		out[i] = m
	}
	return out
}

// global edit distance pattern / span
func c10lpEd(masks []uint8, span []byte, prev, cur []int) int {
	prev = prev[:len(span)+1]
	cur = cur[:len(span)+1]
	for j := range prev {
		prev[j] = j
	}
	for i := 1; i <= len(masks); i++ {
		cur[0] = i
		for j := 1; j <= len(span); j++ {
			cost := 1
			if masks[i-1]&c10lpBase(span[j-1]) != 0 {
				cost = 0
			}
			v := prev[j-1] + cost
			if prev[j]+1 < v {
				v = prev[j] + 1
			}
			if cur[j-1]+1 < v {
				v = cur[j-1] + 1
			}
			cur[j] = v
		}
		prev, cur = cur, prev
	}
	return prev[len(span)]
}

// minimum edit distance between the pattern and any substring of seq (Sellers)
func c10lpMin(masks []uint8, seq []byte, col []int) int {
	m := len(masks)
	col = col[:m+1]
	for i := range col {
		col[i] = i
	}
	best := m // empty substring
	for j := 1; j <= len(seq); j++ {
		b := c10lpBase(seq[j-1])
		diag := col[0]
		col[0] = 0
		for i := 1; i <= m; i++ {
			cost := 1
			if masks[i-1]&b != 0 {
				cost = 0
			}
			v := diag + cost
			if col[i]+1 < v {
				v = col[i] + 1
			}
			if col[i-1]+1 < v {
				v = col[i-1] + 1
			}
			diag = col[i]
			col[i] = v
		}
		if col[m] < best {
			best = col[m]
		}
	}
	return best
}

type c10lpCase struct {
	Part string `json:"part"`
	Pat  string `json:"pat"`
	Seq  string `json:"seq"`
}

func TestVerifC10Locate(t *testing.T) {
	log.SetOutput(io.Discard)
	// a logrus Fatal inside LocatePattern unwinds like a panic (judged below) instead of ending the process
	log.StandardLogger().ExitFunc = func(code int) { panic(fmt.Sprintf("log.Fatal (exit status %d)", code)) }
	r := verifkit.New("C10")
	defer r.Write()

	prev := make([]int, 64)
	cur := make([]int, 64)
	col := make([]int, 64)
	seen := map[string]int{}
	violate := func(key string, c c10lpCase, format string, a ...any) {
		seen[key]++
		if seen[key] > 3 {
			r.Violate(key, "", nil)
			return
		}
		r.Violate(key, fmt.Sprintf("LocatePattern(pattern=%q, sequence=%q): ", c.Pat, c.Seq)+fmt.Sprintf(format, a...), c)
	}
	eval := func(pat string, masks []uint8, seq []byte) {
		r.Eval(1)
		r.Trans(1)
		c := c10lpCase{Part: "locate", Pat: pat, Seq: string(seq)}
		sfx := ""
		if len(pat) == 1 {
			sfx = ":patlen=1"
		}
		// what is submitted, classified by the reference (vacuity guards: counted whatever the implementation answers)
		mn := c10lpMin(masks, seq, col)
		if mn > 0 {
			r.Count("cases_whose_best_site_has_errors", 1)
		}
		if len(seq) <= len(pat) {
			r.Count("cases_with_fragment_not_longer_than_pattern", 1)
		}
		var from, to, score int
		var pmsg string
		func() {
			defer func() {
				if v := recover(); v != nil {
					pmsg = fmt.Sprint(v)
					if e, ok := v.(*log.Entry); ok {
						pmsg = e.Message
					}
				}
			}()
			from, to, score = LocatePattern("c10", []byte(pat), seq)
		}()
		if pmsg != "" {
			violate("LocatePattern/panic"+sfx, c, "panics: %s", pmsg)
			return
		}
		if from < 0 || to > len(seq) || from > to {
			violate("LocatePattern/span-outside-sequence"+sfx, c, "returned span [%d,%d) score=%d on a sequence of length %d", from, to, score, len(seq))
			return
		}
		d := c10lpEd(masks, seq[from:to], prev, cur)
		if d != score {
			violate("LocatePattern/score-not-editdistance", c, "returned [%d,%d)=%q score=%d but the edit distance between pattern and span is %d", from, to, string(seq[from:to]), score, d)
			return
		}
		if score != mn {
			violate("LocatePattern/score-not-minimal", c, "returned [%d,%d) score=%d but a substring at edit distance %d exists", from, to, score, mn)
			return
		}
		if score > 0 {
			r.Count("located_with_errors", 1)
		}
		if len(seq) <= len(pat) {
			r.Count("located_in_fragment_not_longer_than_pattern", 1)
		}
		if from == 0 || to == len(seq) {
			r.Count("located_touching_an_end", 1)
		}
	}

	if rc := r.ReplayCase(); rc != nil {
		var c c10lpCase
		if err := json.Unmarshal(rc, &c); err != nil {
			t.Fatal(err)
		}
		eval(c.Pat, c10lpMasks(c.Pat), []byte(c.Seq))
		return
	}

	maxL := 6
	if verifkit.Thorough() {
		maxL = 7
	}
	pats := verifkit.AllStrings("ACGTRYMKSWBDHVN", 1, 3)
	pats = append(pats, verifkit.AllStrings("ACGTNRV", 4, 4)...)
	r.Bound("locate_patterns", "all of length 1..3 over the 15 IUPAC codes + length 4 over {A,C,G,T,N,R,V}")
	r.Bound("locate_sequences", fmt.Sprintf("all over acgt of length 1..%d (shorter than, as long as, longer than the pattern)", maxL))
	seqs := verifkit.AllStrings("acgt", 1, maxL)
	for k, pat := range pats {
		if !r.Mine(k) {
			continue
		}
		r.State("locate-pattern:" + pat)
		masks := c10lpMasks(pat)
		for _, s := range seqs {
			eval(pat, masks, []byte(s))
		}
		if r.Expired() {
			return
		}
	}
	// guards on what the harness submitted (the located_* counters need right answers of the implementation, and which
	// of several optimal sites it returns is its choice: they are reported, not required)
	r.RequireNonVacuous("cases_whose_best_site_has_errors")
	r.RequireNonVacuous("cases_with_fragment_not_longer_than_pattern")
	r.Sample(c10lpCase{Part: "locate", Pat: "ACV", Seq: "ttagcg"})
}
