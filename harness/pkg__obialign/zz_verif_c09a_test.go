//go:build verif

package obialign

// C09 (engine A) — the kernels are pure functions of their arguments: two goroutines calling them at
// the same time (nil scratch buffer, or each with its own buffer, as the worker goroutines of
// obiconsensus / obirefidx / obiclean do) get the answers of the sequential calls, whatever the
// interleaving. Any package-level scratch state introduced behind the API shows up as a conflicting
// write site, becomes a scheduling point and is explored.

import (
	"encoding/json"
	"fmt"
	"io"
	"strings"
	"testing"

	"git.metabarcoding.org/obitools/obitools4/obitools4/pkg/obiseq"
	"git.metabarcoding.org/obitools/obitools4/obitools4/pkg/verifkit"
	"git.metabarcoding.org/obitools/obitools4/obitools4/pkg/vsched"
	vsync "git.metabarcoding.org/obitools/obitools4/obitools4/pkg/vsched/vsync"
	log "github.com/sirupsen/logrus"
)

type c09aParam struct {
	Pairs   [][2]string `json:"pairs"` // one pair per thread
	Bound   int         `json:"max_error"`
	OwnBuf  bool        `json:"own_buffers"`
	Kernel  string      `json:"kernel"`
	Mode    string      `json:"mode"`
	Policy  int         `json:"policy"`
	Choices []int       `json:"choices,omitempty"`
}

func c09aCall(p c09aParam, a, b string, buf *[]uint64) string {
	sa := obiseq.NewBioSequence("a", []byte(a), "")
	sb := obiseq.NewBioSequence("b", []byte(b), "")
	switch p.Kernel {
	case "FastLCSScore":
		l, n := FastLCSScore(sa, sb, p.Bound, buf)
		return fmt.Sprintf("(%d,%d)", l, n)
	case "FastLCSEGFScore":
		l, n, _ := FastLCSEGFScore(sa, sb, p.Bound, buf)
		return fmt.Sprintf("(%d,%d)", l, n)
	case "D1Or0":
		d, pos, x, y := D1Or0(sa, sb)
		return fmt.Sprintf("(%d,%d,%c,%c)", d, pos, x, y)
	}
	panic("kernel")
}

func c09aBody(p c09aParam) string {
	res := make([]string, len(p.Pairs))
	var wg vsync.WaitGroup
	wg.Add(len(p.Pairs))
	for i := range p.Pairs {
		i := i
		vsched.Go(func() {
			var buf *[]uint64
			if p.OwnBuf {
				var own []uint64
				buf = &own
			}
			// two calls per thread: the second one meets whatever the first (or the other thread) left behind
			r1 := c09aCall(p, p.Pairs[i][0], p.Pairs[i][1], buf)
			r2 := c09aCall(p, p.Pairs[i][1], p.Pairs[i][0], buf)
			res[i] = r1 + r2
			wg.Done()
		})
	}
	wg.Wait()
	return strings.Join(res, " ")
}

func c09aSequential(p c09aParam) string {
	res := make([]string, len(p.Pairs))
	for i := range p.Pairs {
		res[i] = c09aCall(p, p.Pairs[i][0], p.Pairs[i][1], nil) + c09aCall(p, p.Pairs[i][1], p.Pairs[i][0], nil)
	}
	return strings.Join(res, " ")
}

// c09aControl runs the sequential calls (the reference of a job) twice on the test goroutine. fail != "": the tree
// under test gives no reference (the calls panic, call log.Fatal, or do not answer the same twice): the caller reports
// that as a violation and skips the job.
func c09aControl(p c09aParam) (want, class, fail string) {
	run := func() (out, msg string) {
		defer func() {
			if e := recover(); e != nil {
				msg = fmt.Sprintf("%v (%T)", e, e) // vsched's exit sentinel {status} = log.Fatal / os.Exit of the implementation
			}
		}()
		return c09aSequential(p), ""
	}
	a, msg := run()
	if msg != "" {
		return "", "sequential-calls-panic", "the calls made one after the other on the test goroutine end with: " + msg
	}
	b, msg := run()
	if msg != "" {
		return "", "sequential-calls-panic", "the calls made one after the other a second time end with: " + msg
	}
	if a != b {
		return "", "sequential-calls-not-deterministic", "the same sequential calls answer " + a + " and then " + b
	}
	return a, "", ""
}

// explore runs vsched.Explore. div != "": the explorer found that one schedule, executed twice, does not give the same
// execution (its own "replay ... diverged" panics): the code under test keeps state from one execution to the next or is
// not deterministic. That is a verdict on the tree (reported by the caller), not an engine error; the explorer is not
// used any further by this shard.
func c09aExplore(cfg vsched.Config, body func(x *vsched.Exec)) (st *vsched.Stats, div string) {
	defer func() {
		if e := recover(); e != nil {
			s, ok := e.(string)
			if !ok || !strings.HasPrefix(s, "vsched: replay") {
				panic(e)
			}
			st, div = nil, s
		}
	}()
	return vsched.Explore(cfg, body), ""
}

func TestVerifC09A(t *testing.T) {
	log.SetOutput(io.Discard)
	log.StandardLogger().ExitFunc = vsched.Exit
	r := verifkit.New("C09")
	defer r.Write()

	// check: the judge of a job, built from its control run; nil: no reference (reported here), the job is skipped
	check := func(p c09aParam) func(x *vsched.Exec) string {
		want, class, fail := c09aControl(p)
		if fail != "" {
			key := p.Kernel + "/control-run/" + class
			if !p.OwnBuf {
				key += ":nil-buffer"
			}
			r.Eval(1)
			r.Violate(key, fmt.Sprintf("%s pairs=%v maxError=%d: %s", p.Kernel, p.Pairs, p.Bound, fail), p)
			return nil
		}
		return func(x *vsched.Exec) string {
			if x.Outcome() != "" {
				return x.Outcome() + "|" + x.Detail()
			}
			if got, _ := x.Obs.(string); got != want {
				return "differs|concurrent calls answered " + got + ", the sequential calls answer " + want
			}
			return ""
		}
	}

	if rc := r.ReplayCase(); rc != nil {
		var p c09aParam
		if err := json.Unmarshal(rc, &p); err != nil {
			t.Fatal(err)
		}
		found := 0
		cfg := vsched.Config{Name: p.Kernel, DelayBounding: true, Preemptions: 1, Policy: p.Policy, Horizon: 50000, MaxExec: 100000}
		chk := check(p)
		if chk == nil {
			return
		}
		cfg.Check = func(x *vsched.Exec) string {
			m := chk(x)
			if m != "" {
				found++
			}
			return m
		}
		st, div := c09aExplore(cfg, func(x *vsched.Exec) { x.Obs = c09aBody(p) })
		if div != "" {
			r.Violate(p.Kernel+"/control-run/execution-not-reproducible", div, p)
			return
		}
		r.Eval(st.Executions)
		if found > 0 {
			r.Violate("concurrent-calls/replay", fmt.Sprintf("%d executions differ from the sequential answers", found), p)
		}
		fmt.Println("replay: differing executions:", found)
		return
	}

	pairSets := [][][2]string{
		{{"acgtacgtac", "acgtccgtac"}, {"ttgacca", "ttgcca"}},
		{{"acgtacgtacgt", "aagtacgtaagt"}, {"acgacgtacgtt", "acgtacggtacgtt"}},
		{{"aaaa", "aaaa"}, {"acgt", "tgca"}},
	}
	if verifkit.Thorough() {
		pairSets = append(pairSets,
			[][2]string{{"acgtacgtacgtacgtacgt", "acgtacctacgtacgaacgt"}, {"gattacagattaca", "gattagattacca"}},
			[][2]string{{"acgtac", "acgtac"}, {"acgtac", "acgtacc"}, {"ccgtac", "acgtaa"}})
	}
	var jobs []c09aParam
	for _, ps := range pairSets {
		for _, kernel := range []string{"FastLCSScore", "FastLCSEGFScore", "D1Or0"} {
			bounds := []int{-1, 2}
			if kernel == "D1Or0" {
				bounds = []int{0}
			}
			for _, b := range bounds {
				for _, own := range []bool{false, true} {
					if kernel == "D1Or0" && own {
						continue
					}
					for pol := 0; pol <= 1; pol++ {
						jobs = append(jobs, c09aParam{Pairs: ps, Bound: b, OwnBuf: own, Kernel: kernel, Mode: "delay", Policy: pol})
					}
					jobs = append(jobs, c09aParam{Pairs: ps, Bound: b, OwnBuf: own, Kernel: kernel, Mode: "full"})
				}
			}
		}
	}
	r.Bound("jobs", len(jobs))
	r.Bound("exploration", "2 (thorough: up to 3) threads x 2 calls each; delay bound 1 (thorough 2) from two default schedulers + full mode; L2 conflict sites to fixpoint")
	for k, p := range jobs {
		if !r.Mine(k) {
			continue
		}
		if r.Expired() {
			break
		}
		r.Count("jobs_submitted", 1)
		chk := check(p)
		if chk == nil {
			continue
		}
		if k < 2 {
			if want, _, fail := c09aControl(p); fail == "" {
				r.Sample(map[string]any{"param": p, "sequential": want})
			}
		}
		bound := 1
		if verifkit.Thorough() {
			bound = 2
		}
		cfg := vsched.Config{Name: p.Kernel, DelayBounding: p.Mode == "delay", Full: p.Mode == "full", Preemptions: bound, Policy: p.Policy,
			Horizon: 50000, MaxExec: 60000, Expired: r.Expired, Check: chk}
		st, div := c09aExplore(cfg, func(x *vsched.Exec) { x.Obs = c09aBody(p) })
		if div != "" {
			r.Eval(1)
			r.Violate(p.Kernel+"/control-run/execution-not-reproducible", fmt.Sprintf("%s pairs=%v maxError=%d own_buffers=%v mode=%s policy=%d: the same schedule executed twice does not give the same execution: %s", p.Kernel, p.Pairs, p.Bound, p.OwnBuf, p.Mode, p.Policy, div), p)
			r.Cap("executions of the tree under test are not reproducible: the exploration of this shard stops")
			return
		}
		r.Eval(st.Executions)
		r.Trace(st.Executions)
		r.Trans(st.Points)
		r.Replayed(st.ReplaysChecked)
		r.Count("hb_states", st.States)
		r.Count("conflict_sites", int64(len(st.ConflictSites)))
		for o, n := range st.Outcomes {
			r.Count("outcome_"+o, n)
		}
		for h := range st.TraceHashes {
			r.StateH(h)
		}
		if st.Capped {
			r.Cap(fmt.Sprintf("execution cap / deadline reached for %s mode=%s", p.Kernel, p.Mode))
		}
		for _, s := range st.ConflictSites {
			r.Note("conflict site: %s", s)
		}
		seen := map[string]bool{}
		for _, v := range st.Violations {
			parts := strings.SplitN(v.Desc, "|", 2)
			key := p.Kernel + "/concurrent-calls/" + parts[0]
			if !p.OwnBuf {
				key += ":nil-buffer"
			}
			if seen[key] {
				continue
			}
			seen[key] = true
			q := p
			q.Choices = v.Choices
			r.Violate(key, fmt.Sprintf("%s pairs=%v maxError=%d own_buffers=%v mode=%s policy=%d schedule=%v: %s", p.Kernel, p.Pairs, p.Bound, p.OwnBuf, p.Mode, p.Policy, v.Choices, parts[1]), q)
		}
	}
	// guard on what the harness did (outcome_* depend on how the executions of the tree under test end)
	r.RequireNonVacuous("jobs_submitted")
}
