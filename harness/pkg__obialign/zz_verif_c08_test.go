//go:build verif

package obialign

// C08 (part 0, package obialign) — paired-end alignment: valid path, score == score recomputed along
// the path under the end-gap-free scheme, exact mode == optimum of an independent DP, consensus
// columns, reassembly of error-free reads, arena reuse.
//
// Enumerations (all exhaustive within their bounds, nothing sampled):
//   (i)   every pair of reads over {a,c,g,t} with lengths 1..Lmax x quality patterns x
//         {exact, fast-rel, fast-abs} x delta x gap x scale (+ IUPAC alphabet at short lengths, thorough)
//   (ii)  every overlap geometry (la, lb, offset; containment, identical starts, overlap 0..) of reads cut
//         from prefixes of two fixed source sequences, error free and with one substitution at every position
//   (iii) every ordered pair / triple of calls from a fixed call subset on one shared arena + shift buffer
//   (iv)  the geometries of (ii) at short fragment lengths with ONE INDEL error: one base deleted at every
//         position / one base inserted at every position of either read (fast mode then works on a band
//         around a diagonal that is right for a part of the overlap only)
//   (v)   LONG reads (fragments of 60, thorough 40/60/100) cut from two long sources (all 4-mers distinct;
//         tandem repeats + homopolymers) in structured geometry families (every overlap length for six read
//         lengths, containment at every offset for four lengths, both orders) x error free / one
//         substitution / deletion / insertion at the ends and the middle of either read
//   (vi)  the single-scheme entry points PELeftAlign / PERightAlign with NilPEAlignArena on every pair of
//         (i): score == optimum of that scheme in the independent DP == score along the returned path
//   In (iv) and (v) BuildQualityConsensus is also called with statOnMismatch=false: same consensus.
//
// Oracle: the harness's own forward DP (cross-checked against brute-force enumeration of all alignments
// for short reads), its own path walker and its own 4-mer diagonal count.  The scoring tables and the gap
// penalty formula are read from the package (the property is about path/score/optimum consistency, not
// about the numerical values of the tables).

import (
	"encoding/json"
	"fmt"
	"io"
	"os"
	"strings"
	"testing"

	"git.metabarcoding.org/obitools/obitools4/obitools4/pkg/obiseq"
	"git.metabarcoding.org/obitools/obitools4/obitools4/pkg/verifkit"
	log "github.com/sirupsen/logrus"
)

type c08call struct {
	A     string  `json:"a"`
	B     string  `json:"b"`
	QA    []int   `json:"qa"`
	QB    []int   `json:"qb"`
	Fast  bool    `json:"fast"`
	Rel   bool    `json:"rel"`
	Delta int     `json:"delta"`
	Gap   float64 `json:"gap"`
	Scale float64 `json:"scale"`
}

// c08case: Calls are executed in order on ONE arena + shift buffer (a single call = fresh arena).
// U/A0/B0 (optional) describe the fragment the reads of the LAST call were cut from.
type c08case struct {
	Kind  string    `json:"kind"` // "pair" | "geom" | "history"
	Calls []c08call `json:"calls"`
	U     string    `json:"u,omitempty"`
	A0    int       `json:"a0,omitempty"`
	B0    int       `json:"b0,omitempty"`
}

type c08res struct {
	Panicked  bool
	PanicMsg  string
	IsLeft    bool
	Score     int
	Path      []int
	FastCount int
	Over      int
	FastScore float64
	// consensus (only when the path is valid)
	ConsDone  bool
	ConsPanic string
	ConsSeq   string
	ConsQual  []byte
	Match     int
	// second consensus built with statOnMismatch=false (sections iv, v), "" = not run
	NoStatDiff string
}

// c08noStat: also build the consensus with statOnMismatch=false and compare (set by sections iv and v)
var c08noStat bool

func c08bytes(q []int) []byte {
	out := make([]byte, len(q))
	for i, v := range q {
		out[i] = byte(v)
	}
	return out
}

func c08mkseq(id, s string, q []int) *obiseq.BioSequence {
	return obiseq.NewBioSequenceWithQualities(id, []byte(s), "", c08bytes(q))
}

// c08run executes one PEAlign call (and, when the path is usable, BuildQualityConsensus) on the given arena.
func c08run(c c08call, sa, sb *obiseq.BioSequence, arena PEAlignArena, shifts *map[int]int, withCons bool) (res c08res) {
	func() {
		defer func() {
			if e := recover(); e != nil {
				res.Panicked = true
				res.PanicMsg = fmt.Sprint(e)
				// a real run dies here; give later calls of a history a clean shift buffer
				for k := range *shifts {
					delete(*shifts, k)
				}
			}
		}()
		isLeft, score, path, fc, over, fs := PEAlign(sa, sb, c.Gap, c.Scale, c.Fast, c.Delta, c.Rel, arena, shifts)
		res.IsLeft, res.Score, res.FastCount, res.Over, res.FastScore = isLeft, score, fc, over, fs
		res.Path = append([]int(nil), path...)
	}()
	if res.Panicked || !withCons {
		return
	}
	if _, _, ok := c08walk(res.Path, len(c.A), len(c.B)); !ok {
		return
	}
	func() {
		defer func() {
			if e := recover(); e != nil {
				res.ConsPanic = fmt.Sprint(e)
			}
		}()
		cons, match := BuildQualityConsensus(sa, sb, res.Path, true, arena)
		res.ConsDone = true
		res.ConsSeq = string(cons.Sequence())
		res.ConsQual = append([]byte(nil), cons.Qualities()...)
		res.Match = match
		if c08noStat {
			cons2, match2 := BuildQualityConsensus(sa, sb, res.Path, false, arena)
			if string(cons2.Sequence()) != res.ConsSeq || string(cons2.Qualities()) != string(res.ConsQual) || match2 != match {
				res.NoStatDiff = fmt.Sprintf("statOnMismatch=true: %q %v match=%d; statOnMismatch=false: %q %v match=%d",
					res.ConsSeq, res.ConsQual, match, cons2.Sequence(), []byte(cons2.Qualities()), match2)
			}
		}
	}()
	return
}

// c08walk checks the well-formedness of a path ((indel, diag) pairs; indel<0 consumes |indel| of A,
// indel>0 consumes indel of B, diag>=0 consumes diag of both) and returns what it consumes.
func c08walk(path []int, la, lb int) (ca, cb int, ok bool) {
	if len(path)%2 != 0 {
		return 0, 0, false
	}
	ok = true
	for p := 0; p < len(path); p += 2 {
		in, dg := path[p], path[p+1]
		if dg < 0 {
			ok = false
		}
		if in < 0 {
			ca -= in
		} else {
			cb += in
		}
		if dg > 0 {
			ca += dg
			cb += dg
		}
		if ca > la || cb > lb {
			ok = false
		}
	}
	if ca != la || cb != lb {
		ok = false
	}
	return
}

// column score of two aligned bases (formula of the documented scheme, tables of the package)
func c08pair(a, qa, b, qb byte, scale float64) int {
	pm := _NucPartMatch[a&31][b&31]
	mm := c08clamp(_NucScorePartMatchMatch[qa][qb])
	mis := c08clamp(_NucScorePartMatchMismatch[qa][qb])
	switch int(pm * 100) {
	case 100:
		return mm
	case 0:
		return int(float64(mis)*scale + 0.5)
	}
	return int(pm*float64(mm) + (1-pm)*float64(mis)*scale + 0.5)
}

// c08clamp: a table entry that is not a finite score (NaN converted to int = MinInt64) is read by the
// oracle as "minus infinity that does not wrap" so that the oracle's own sums never overflow.
func c08clamp(v int) int {
	if v < -(1 << 40) {
		return -(1 << 40)
	}
	if v > 1<<40 {
		return 1 << 40
	}
	return v
}

var c08tableBroken bool // some table entry is not finite

// c08overflowClass: the pair can put two quality-0 bases that differ in one column while the
// mismatch table entry for (0,0) is not finite: every sum through that column wraps around.
func c08overflowClass(c *c08call) bool {
	if !c08tableBroken {
		return false
	}
	for i, qa := range c.QA {
		for j, qb := range c.QB {
			v := _NucScorePartMatchMismatch[qa][qb]
			if (v < -(1<<40) || v > 1<<40) && int(_NucPartMatch[c.A[i]&31][c.B[j]&31]*100) != 100 {
				return true
			}
		}
	}
	return false
}

func c08gapPenalty(gap, scale float64) int {
	return int(scale*gap*float64(_NucScorePartMatchMismatch[40][40]) + 0.5)
}

// c08pathScore recomputes the score of a (valid) path under the end-gap-free scheme:
// left : A-only columns before any base of B is consumed are free, B-only columns after A is exhausted are free
// right: B-only columns before any base of A is consumed are free, A-only columns after B is exhausted are free
func c08pathScore(c *c08call, qa, qb []byte, path []int, isLeft bool) int {
	la, lb := len(c.A), len(c.B)
	gp := c08gapPenalty(c.Gap, c.Scale)
	i, j, s := 0, 0, 0
	for p := 0; p < len(path); p += 2 {
		in, dg := path[p], path[p+1]
		for k := 0; k < -in; k++ { // A-only column
			free := (isLeft && j == 0) || (!isLeft && j == lb)
			if !free {
				s += gp
			}
			i++
		}
		for k := 0; k < in; k++ { // B-only column
			free := (isLeft && i == la) || (!isLeft && i == 0)
			if !free {
				s += gp
			}
			j++
		}
		for k := 0; k < dg; k++ {
			s += c08pair(c.A[i], qa[i], c.B[j], qb[j], c.Scale)
			i++
			j++
		}
	}
	return s
}

// c08dp: independent forward DP. Returns optimum and number of distinct optimal alignments (capped).
func c08dp(c *c08call, qa, qb []byte, isLeft bool) (int, int) {
	la, lb := len(c.A), len(c.B)
	gp := c08gapPenalty(c.Gap, c.Scale)
	const neg = -1 << 60
	S := make([][]int, la+1)
	N := make([][]int, la+1)
	for i := range S {
		S[i] = make([]int, lb+1)
		N[i] = make([]int, lb+1)
		for j := range S[i] {
			S[i][j] = neg
		}
	}
	S[0][0], N[0][0] = 0, 1
	upd := func(i, j, v, n int) {
		if v > S[i][j] {
			S[i][j], N[i][j] = v, n
		} else if v == S[i][j] {
			N[i][j] += n
			if N[i][j] > 1000000 {
				N[i][j] = 1000000
			}
		}
	}
	for i := 0; i <= la; i++ {
		for j := 0; j <= lb; j++ {
			if S[i][j] == neg {
				continue
			}
			v, n := S[i][j], N[i][j]
			if i < la { // A-only column
				cost := gp
				if (isLeft && j == 0) || (!isLeft && j == lb) {
					cost = 0
				}
				upd(i+1, j, v+cost, n)
			}
			if j < lb { // B-only column
				cost := gp
				if (isLeft && i == la) || (!isLeft && i == 0) {
					cost = 0
				}
				upd(i, j+1, v+cost, n)
			}
			if i < la && j < lb {
				upd(i+1, j+1, v+c08pair(c.A[i], qa[i], c.B[j], qb[j], c.Scale), n)
			}
		}
	}
	return S[la][lb], N[la][lb]
}

// c08brute: maximum over ALL alignments (explicit enumeration of every path), short reads only.
func c08brute(c *c08call, qa, qb []byte, isLeft bool) int {
	la, lb := len(c.A), len(c.B)
	gp := c08gapPenalty(c.Gap, c.Scale)
	best := -1 << 60
	var rec func(i, j, s int)
	rec = func(i, j, s int) {
		if i == la && j == lb {
			if s > best {
				best = s
			}
			return
		}
		if i < la {
			cost := gp
			if (isLeft && j == 0) || (!isLeft && j == lb) {
				cost = 0
			}
			rec(i+1, j, s+cost)
		}
		if j < lb {
			cost := gp
			if (isLeft && i == la) || (!isLeft && i == 0) {
				cost = 0
			}
			rec(i, j+1, s+cost)
		}
		if i < la && j < lb {
			rec(i+1, j+1, s+c08pair(c.A[i], qa[i], c.B[j], qb[j], c.Scale))
		}
	}
	rec(0, 0, 0)
	return best
}

// c08fourmerBest: harness's own 4-mer diagonal statistics (reads over acgt only).
// Returns whether shift d0 (= posA - posB) is the STRICT maximiser of the diagonal score.
func c08fourmerStrict(a, b string, rel bool, d0 int) bool {
	la, lb := len(a), len(b)
	cnt := map[int]int{}
	for i := 0; i+4 <= la; i++ {
		for j := 0; j+4 <= lb; j++ {
			if a[i:i+4] == b[j:j+4] {
				cnt[i-j]++
			}
		}
	}
	sc := func(d int) float64 {
		n, ok := cnt[d]
		if !ok {
			return -1
		}
		if !rel {
			return float64(n)
		}
		// overlap length of the two reads on diagonal d
		lo, hi := d, d+lb
		if lo < 0 {
			lo = 0
		}
		if hi > la {
			hi = la
		}
		return float64(n) / float64(hi-lo-3)
	}
	s0 := sc(d0)
	if s0 <= 0 {
		return false
	}
	for d := range cnt {
		if d != d0 && sc(d) >= s0 {
			return false
		}
	}
	return true
}

func c08isACGT(s string) bool {
	for i := 0; i < len(s); i++ {
		switch s[i] {
		case 'a', 'c', 'g', 't':
		default:
			return false
		}
	}
	return true
}

type c08viol struct{ key, desc string }

// per (A,B,QA,QB,gap,scale) oracle values, shared by the mode/delta configurations
type c08oracle struct {
	done                   bool
	optL, optR, cntL, cntR int
}

func c08mode(c *c08call) string {
	if !c.Fast {
		return "exact"
	}
	return "fast"
}

func c08desc(c *c08call) string {
	return fmt.Sprintf("A=%s qA=%v B=%s qB=%v fast=%v rel=%v delta=%d gap=%g scale=%g", c.A, c.QA, c.B, c.QB, c.Fast, c.Rel, c.Delta, c.Gap, c.Scale)
}

// c08check judges one executed call. u/a0/b0: optional fragment geometry (reads error-free cuts of u).
func c08check(r *verifkit.Result, c *c08call, res *c08res, orc *c08oracle, u string, a0, b0 int) (out []c08viol) {
	la, lb := len(c.A), len(c.B)
	qa, qb := c08bytes(c.QA), c08bytes(c.QB)
	mode := c08mode(c)
	// input classes used in the keys of fast mode
	iupac := ""
	if c.Fast && (!c08isACGT(c.A) || !c08isACGT(c.B)) {
		iupac = ":iupac"
	}
	// input class: no 4-mer is shared and the predicted overlap is <= 3 (the unchanged tree then takes the
	// "both overlapping regions are identical" shortcut without any evidence)
	noEvidence := c.Fast && !res.Panicked && res.FastCount <= 0 && res.FastCount+3 >= res.Over
	if noEvidence {
		iupac = ":no-shared-4mer,predicted-overlap<=3"
	}
	ovf := c08overflowClass(c)
	add := func(key, format string, a ...any) {
		if ovf {
			// one defect, one key: all symptoms of the wrapped sums are filed together
			format = "[" + key + "] " + format
			key = "PEAlign/score-overflow:two-quality-0-bases-mismatch"
		}
		out = append(out, c08viol{key, c08desc(c) + " :: " + fmt.Sprintf(format, a...)})
	}
	if res.Panicked {
		cls := "panic"
		if c.Fast && (la == 3 || lb == 3) {
			cls = "panic:read-of-length-3"
		}
		add("PEAlign/"+mode+"/"+cls, "panics: %s", res.PanicMsg)
		return
	}
	ca, cb, ok := c08walk(res.Path, la, lb)
	if !ok {
		cls := "path-consumption"
		if noEvidence {
			cls += iupac
		} else if c.Fast && len(res.Path) >= 2 && len(res.Path)%2 == 0 {
			// too much / too little of each read consumed
			cls += fmt.Sprintf(":dA=%+d,dB=%+d", c08sign(ca-la), c08sign(cb-lb))
		}
		add("PEAlign/"+mode+"/"+cls, "path %v consumes %d of A (len %d) and %d of B (len %d) [isLeft=%v score=%d fastcount=%d over=%d]",
			res.Path, ca, la, cb, lb, res.IsLeft, res.Score, res.FastCount, res.Over)
		return
	}
	r.Count("valid_paths", 1)
	ps := c08pathScore(c, qa, qb, res.Path, res.IsLeft)
	if ps != res.Score {
		add("PEAlign/"+mode+"/score!=path-score"+iupac, "reported score %d but the path %v (isLeft=%v) scores %d under the end-gap-free scheme",
			res.Score, res.Path, res.IsLeft, ps)
	}
	ensure := func() {
		if !orc.done {
			orc.optL, orc.cntL = c08dp(c, qa, qb, true)
			orc.optR, orc.cntR = c08dp(c, qa, qb, false)
			orc.done = true
			if la <= 4 && lb <= 4 {
				if bl, br := c08brute(c, qa, qb, true), c08brute(c, qa, qb, false); bl != orc.optL || br != orc.optR {
					panic(fmt.Sprintf("harness self-check: DP (%d,%d) != brute force (%d,%d) for %s", orc.optL, orc.optR, bl, br, c08desc(c)))
				}
				r.Count("oracle_dp_crosschecked_by_brute_force", 1)
			}
		}
	}
	if !c.Fast {
		ensure()
		opt := orc.optL
		if orc.optR > opt {
			opt = orc.optR
		}
		if ps != opt {
			add("PEAlign/exact/path-not-optimal"+iupac, "path %v (isLeft=%v) scores %d, independent DP optimum is %d (left %d, right %d)",
				res.Path, res.IsLeft, ps, opt, orc.optL, orc.optR)
		} else {
			r.Count("exact_paths_optimal", 1)
		}
	}

	// ---- consensus columns ----
	colA, colB, cqa, cqb := c08columns(c, qa, qb, res.Path)
	if res.ConsPanic != "" {
		add("BuildQualityConsensus/panic", "panics on valid path %v: %s", res.Path, res.ConsPanic)
		return
	}
	if res.NoStatDiff != "" {
		add("BuildQualityConsensus/consensus-depends-on-statOnMismatch", "path %v: %s", res.Path, res.NoStatDiff)
	}
	if res.ConsDone {
		if len(res.ConsSeq) != len(colA) || len(res.ConsQual) != len(colA) {
			add("BuildQualityConsensus/column-count", "path %v has %d columns, consensus has %d bases and %d qualities",
				res.Path, len(colA), len(res.ConsSeq), len(res.ConsQual))
		} else {
			for k := range colA {
				got := res.ConsSeq[k]
				switch {
				case colA[k] != 0 && colB[k] != 0:
					if cqa[k] > cqb[k] && got != colA[k] {
						add("BuildQualityConsensus/higher-quality-base-loses", "column %d: A=%c q%d, B=%c q%d, consensus %c (path %v, consensus %s)",
							k, colA[k], cqa[k], colB[k], cqb[k], got, res.Path, res.ConsSeq)
					}
					if cqb[k] > cqa[k] && got != colB[k] {
						add("BuildQualityConsensus/higher-quality-base-loses", "column %d: A=%c q%d, B=%c q%d, consensus %c (path %v, consensus %s)",
							k, colA[k], cqa[k], colB[k], cqb[k], got, res.Path, res.ConsSeq)
					}
					if cqa[k] != cqb[k] {
						r.Count("columns_with_quality_winner", 1)
					}
				default:
					only := colA[k] | colB[k]
					if _FourBitsBaseCode[got&31] != _FourBitsBaseCode[only&31] || got == ' ' {
						add("BuildQualityConsensus/single-read-column-base", "column %d holds only %c but consensus has %q (path %v, consensus %q)",
							k, only, got, res.Path, res.ConsSeq)
					}
				}
			}
		}
	}

	// ---- reassembly of error-free reads ----
	if u != "" && res.ConsDone && c08isACGT(u) {
		d0 := b0 - a0 // start of B in A coordinates
		ovl := c08min(a0+la, b0+lb) - c08max(a0, b0)
		leftGeom := a0 == 0 && b0+lb == len(u)  // A starts the fragment, B ends it
		rightGeom := b0 == 0 && a0+la == len(u) // B starts the fragment, A ends it
		if ovl >= 1 && (leftGeom || rightGeom) {
			// The true alignment must be THE unique optimum of the independent DP: an aligner driven by
			// the qualities is otherwise free to return another alignment (low-quality or repeated
			// bases).  Fast mode aligns a window around the chosen diagonal only; every alignment of the
			// window extends to an alignment of the reads with the same score, so the unique optimum of
			// the whole is also the unique optimum of any window that contains it.
			ensure()
			tp := c08truePath(la, lb, d0)
			tl := c08pathScore(c, qa, qb, tp, true)
			tr := c08pathScore(c, qa, qb, tp, false)
			opt := c08max(orc.optL, orc.optR)
			demand := true
			if orc.optL == opt && (tl != opt || orc.cntL != 1) {
				demand = false
			}
			if orc.optR == opt && (tr != opt || orc.cntR != 1) {
				demand = false
			}
			if c.Fast && demand {
				// ... and the true offset must be the strict maximiser of the 4-mer diagonal score
				demand = c08fourmerStrict(c.A, c.B, c.Rel, d0)
			}
			if demand {
				r.Count("reassembly_demanded_"+mode, 1)
				if len(u) > 24 {
					r.Count("reassembly_demanded_fragment_over_24_"+mode, 1)
				}
			}
			if demand && res.ConsSeq != u {
				g := ":A-starts-first"
				if d0 < 0 {
					g = ":B-starts-first"
				} else if d0 == 0 {
					g = ":identical-starts"
				}
				add("reassembly/"+mode+"/consensus!=fragment"+g, "error-free reads cut from %s (A at %d, B at %d, overlap %d) give consensus %s (path %v isLeft=%v)",
					u, a0, b0, ovl, res.ConsSeq, res.Path, res.IsLeft)
			}
		}
	}
	return
}

func c08sign(x int) int {
	switch {
	case x < 0:
		return -1
	case x > 0:
		return 1
	}
	return 0
}
func c08min(a, b int) int {
	if a < b {
		return a
	}
	return b
}
func c08max(a, b int) int {
	if a > b {
		return a
	}
	return b
}

// path of the alignment putting B at offset d (in A coordinates), no internal gaps
func c08truePath(la, lb, d int) []int {
	var p []int
	i, j := 0, 0
	if d > 0 {
		p = append(p, -d)
		i = d
	} else {
		p = append(p, -d)
		j = -d
	}
	n := c08min(la-i, lb-j)
	p = append(p, n)
	i += n
	j += n
	if i < la {
		p = append(p, -(la - i), 0)
	} else if j < lb {
		p = append(p, lb-j, 0)
	}
	return p
}

func c08columns(c *c08call, qa, qb []byte, path []int) (colA, colB, cqa, cqb []byte) {
	i, j := 0, 0
	for p := 0; p < len(path); p += 2 {
		in, dg := path[p], path[p+1]
		for k := 0; k < -in; k++ {
			colA, colB, cqa, cqb = append(colA, c.A[i]), append(colB, 0), append(cqa, qa[i]), append(cqb, 0)
			i++
		}
		for k := 0; k < in; k++ {
			colA, colB, cqa, cqb = append(colA, 0), append(colB, c.B[j]), append(cqa, 0), append(cqb, qb[j])
			j++
		}
		for k := 0; k < dg; k++ {
			colA, colB, cqa, cqb = append(colA, c.A[i]), append(colB, c.B[j]), append(cqa, qa[i]), append(cqb, qb[j])
			i++
			j++
		}
	}
	return
}

// ---- quality patterns ----
var c08patterns = []string{"u40", "u2", "alt", "zero", "q93", "u93"}

func c08quals(pat string, n int, isB bool) []int {
	q := make([]int, n)
	for i := range q {
		switch pat {
		case "u40":
			q[i] = 40
		case "u2":
			q[i] = 2
		case "u93": // very high qualities everywhere: a mismatch costs more than two gaps
			q[i] = 93
		case "alt": // A: 10,40,10.. B: 40,10,40..
			if (i%2 == 0) != isB {
				q[i] = 10
			} else {
				q[i] = 40
			}
		case "zero": // quality 0 at the first position of A and at the last position of B, else 30
			q[i] = 30
			if (!isB && i == 0) || (isB && i == n-1) {
				q[i] = 0
			}
		case "zero2": // quality 0 at the first position of both reads
			q[i] = 30
			if i == 0 {
				q[i] = 0
			}
		case "q93": // 93 at the last position of A and the first of B, else 20
			q[i] = 20
			if (!isB && i == n-1) || (isB && i == 0) {
				q[i] = 93
			}
		case "ramp": // A decreasing, B increasing (typical read ends)
			if !isB {
				q[i] = 38 - (i*30)/c08max(n-1, 1)
			} else {
				q[i] = 8 + (i*30)/c08max(n-1, 1)
			}
		}
	}
	return q
}

type c08cfg struct {
	Fast, Rel  bool
	Delta      int
	Gap, Scale float64
}

func c08configs(deltas []int) []c08cfg {
	var out []c08cfg
	for _, gap := range []float64{1, 2, 0.5} {
		for _, scale := range []float64{1, 0.5} {
			out = append(out, c08cfg{false, false, 0, gap, scale})
			for _, rel := range []bool{true, false} {
				for _, d := range deltas {
					out = append(out, c08cfg{true, rel, d, gap, scale})
				}
			}
		}
	}
	return out
}

// de Bruijn sequence B(4,4) over acgt: every 4-mer exactly once (cyclically)
func c08deBruijn() string {
	k, n := 4, 4
	a := make([]int, k*n)
	var seq []int
	var db func(t, p int)
	db = func(t, p int) {
		if t > n {
			if n%p == 0 {
				seq = append(seq, a[1:p+1]...)
			}
			return
		}
		a[t] = a[t-p]
		db(t+1, p)
		for j := a[t-p] + 1; j < k; j++ {
			a[t] = j
			db(t+1, t)
		}
	}
	db(1, 1)
	var sb strings.Builder
	for _, v := range seq {
		sb.WriteByte("acgt"[v])
	}
	return sb.String()
}

func c08sources() []string {
	db := c08deBruijn()
	s1 := db[100:140] // all 4-mers distinct
	// s2 contains a repeated 6-mer (gattac) and a homopolymer run: ties between diagonals
	s2 := "gattacctgattacaaaagcatgcgattacgt"
	return []string{s1, s2}
}

type c08runner struct {
	r      *verifkit.Result
	shifts map[int]int
}

// c08installExit: a logrus Fatal inside the implementation unwinds like a panic (and is judged as one) instead of
// ending the process.
func c08installExit() {
	log.StandardLogger().ExitFunc = func(code int) { panic(fmt.Sprintf("log.Fatal (exit status %d)", code)) }
}

// guard: the calls made around PEAlign / BuildQualityConsensus (arena and sequence construction, accessors) belong to the
// tree under test too: a panic there is a verdict on the tree (the case is skipped), not the end of the shard.  The
// harness's own self-checks are passed on.
func (x *c08runner) guard(site string, mk func() c08case, f func()) {
	defer func() {
		if e := recover(); e != nil {
			msg := fmt.Sprint(e)
			if strings.HasPrefix(msg, "harness self-check") {
				panic(e)
			}
			rc := mk() // (built only here: evalSingle is the hot path)
			desc := ""
			if len(rc.Calls) > 0 {
				desc = c08desc(&rc.Calls[len(rc.Calls)-1]) + " :: "
			}
			x.r.Violate(site+"/panic-around-the-aligner-call", desc+"panics outside PEAlign / BuildQualityConsensus (arena or sequence construction, accessors): "+msg, rc)
		}
	}()
	f()
}

// evalSingle runs one call on a fresh arena and judges it.
func (x *c08runner) evalSingle(kind string, c c08call, sa, sb *obiseq.BioSequence, orc *c08oracle, u string, a0, b0 int) {
	x.guard("PEAlign/"+c08mode(&c), func() c08case { return c08case{Kind: kind, Calls: []c08call{c}, U: u, A0: a0, B0: b0} }, func() {
		x.evalSingle1(kind, c, sa, sb, orc, u, a0, b0)
	})
}

func (x *c08runner) evalSingle1(kind string, c c08call, sa, sb *obiseq.BioSequence, orc *c08oracle, u string, a0, b0 int) {
	r := x.r
	// what is submitted (vacuity guards: counted whatever the implementation answers)
	if u != "" {
		r.Count("error_free_fragment_calls_"+c08mode(&c), 1)
		if len(u) > 24 {
			r.Count("error_free_fragment_over_24_calls_"+c08mode(&c), 1)
		}
	}
	if sa == nil {
		sa, sb = c08mkseq("A", c.A, c.QA), c08mkseq("B", c.B, c.QB)
	}
	arena := MakePEAlignArena(len(c.A), len(c.B))
	shifts := map[int]int{} // fresh: a single call never depends on earlier ones (histories are part iii)
	res := c08run(c, sa, sb, arena, &shifts, true)
	r.Eval(1)
	r.Trans(1)
	r.Count("calls_"+c08mode(&c), 1)
	r.Count("evals_"+kind, 1)
	if c.Fast && !res.Panicked {
		if res.FastCount+3 < res.Over {
			r.Count("fast_dp_branch", 1)
		} else {
			r.Count("fast_identical_branch", 1)
		}
	}
	if len(res.Path) > 2 {
		r.Count("paths_with_several_runs", 1)
	}
	if c.Fast && len(res.Path) >= 6 {
		for p := 2; p+2 < len(res.Path); p += 2 {
			if res.Path[p] != 0 && res.Path[p-1] > 0 && res.Path[p+1] > 0 {
				r.Count("paths_with_inner_indel_fast", 1)
				break
			}
		}
	}
	for _, v := range c08check(r, &c, &res, orc, u, a0, b0) {
		r.Violate(v.key, v.desc, c08case{Kind: kind, Calls: []c08call{c}, U: u, A0: a0, B0: b0})
	}
}

// evalScheme: PELeftAlign / PERightAlign with NilPEAlignArena (the arena is made by the callee).  The reported
// score must be the optimum of that scheme in the independent DP and the score along the returned path.
func (x *c08runner) evalScheme(kind string, c c08call, sa, sb *obiseq.BioSequence, orc *c08oracle) {
	x.guard("PELeftAlign|PERightAlign(nil-arena)", func() c08case { return c08case{Kind: "scheme", Calls: []c08call{c}} }, func() { x.evalScheme1(kind, c, sa, sb, orc) })
}

func (x *c08runner) evalScheme1(kind string, c c08call, sa, sb *obiseq.BioSequence, orc *c08oracle) {
	r := x.r
	qa, qb := c08bytes(c.QA), c08bytes(c.QB)
	if c08overflowClass(&c) {
		return
	}
	for _, isLeft := range []bool{true, false} {
		name := "PERightAlign"
		if isLeft {
			name = "PELeftAlign"
		}
		var score int
		var path []int
		pmsg := ""
		func() {
			defer func() {
				if e := recover(); e != nil {
					pmsg = fmt.Sprint(e)
				}
			}()
			var p []int
			if isLeft {
				score, p = PELeftAlign(sa, sb, c.Gap, c.Scale, NilPEAlignArena)
			} else {
				score, p = PERightAlign(sa, sb, c.Gap, c.Scale, NilPEAlignArena)
			}
			path = append([]int(nil), p...)
		}()
		r.Eval(1)
		r.Trans(1)
		r.Count("calls_single_scheme_nil_arena", 1)
		rc := c08case{Kind: "scheme", Calls: []c08call{c}}
		desc := fmt.Sprintf("A=%s qA=%v B=%s qB=%v gap=%g scale=%g NilPEAlignArena", c.A, c.QA, c.B, c.QB, c.Gap, c.Scale)
		if pmsg != "" {
			r.Violate(name+"(nil-arena)/panic", desc+" :: panics: "+pmsg, rc)
			continue
		}
		ca, cb, ok := c08walk(path, len(c.A), len(c.B))
		if !ok {
			r.Violate(name+"(nil-arena)/path-consumption", fmt.Sprintf("%s :: path %v consumes %d of A and %d of B", desc, path, ca, cb), rc)
			continue
		}
		if ps := c08pathScore(&c, qa, qb, path, isLeft); ps != score {
			r.Violate(name+"(nil-arena)/score!=path-score", fmt.Sprintf("%s :: reported score %d, the path %v scores %d", desc, score, path, ps), rc)
		}
		if !orc.done {
			orc.optL, orc.cntL = c08dp(&c, qa, qb, true)
			orc.optR, orc.cntR = c08dp(&c, qa, qb, false)
			orc.done = true
		}
		opt := orc.optR
		if isLeft {
			opt = orc.optL
		}
		if score != opt {
			r.Violate(name+"(nil-arena)/score-not-optimal", fmt.Sprintf("%s :: reported score %d (path %v), independent DP optimum of the scheme %d", desc, score, path, opt), rc)
		} else {
			r.Count("single_scheme_optimal", 1)
		}
	}
}

// ---- error variants of a read ----

// c08next: a->c->g->t->a
func c08next(b byte) byte {
	switch b {
	case 'a':
		return 'c'
	case 'c':
		return 'g'
	case 'g':
		return 't'
	}
	return 'a'
}

// c08del removes position p
func c08del(s string, p int) string { return s[:p] + s[p+1:] }

// c08ins inserts before position p (p = len(s): appended) a base differing from its left neighbour
// (from its right neighbour at p = 0)
func c08ins(s string, p int) string {
	ref := s[0]
	if p > 0 {
		ref = s[p-1]
	}
	return s[:p] + string(c08next(ref)) + s[p:]
}

type c08variant struct {
	a, b string
	what string
}

// c08indelVariants: one deletion at each listed position (reads of length >= 2) and one insertion before
// each listed position (and after the last base) of A, then of B.  posA/posB nil = every position.
func c08indelVariants(a, b string, posA, posB []int) []c08variant {
	var out []c08variant
	all := func(n int) []int {
		p := make([]int, n)
		for i := range p {
			p[i] = i
		}
		return p
	}
	if posA == nil {
		posA = all(len(a))
	}
	if posB == nil {
		posB = all(len(b))
	}
	if len(a) >= 2 {
		for _, p := range posA {
			out = append(out, c08variant{c08del(a, p), b, "delA"})
		}
	}
	for _, p := range posA {
		out = append(out, c08variant{c08ins(a, p), b, "insA"})
	}
	out = append(out, c08variant{c08ins(a, len(a)), b, "insA"})
	if len(b) >= 2 {
		for _, p := range posB {
			out = append(out, c08variant{a, c08del(b, p), "delB"})
		}
	}
	for _, p := range posB {
		out = append(out, c08variant{a, c08ins(b, p), "insB"})
	}
	out = append(out, c08variant{a, c08ins(b, len(b)), "insB"})
	return out
}

// c08keyPositions: both ends, their neighbours and the middle of a read of length n
func c08keyPositions(n int, dense bool) []int {
	seen := map[int]bool{}
	var out []int
	add := func(p int) {
		if p >= 0 && p < n && !seen[p] {
			seen[p] = true
			out = append(out, p)
		}
	}
	for _, p := range []int{0, 1, n / 2, n - 2, n - 1} {
		add(p)
	}
	if dense {
		for p := 3; p < n; p += 4 {
			add(p)
		}
	}
	return out
}

type c08geo struct{ a0, la, b0, lb int }

// c08allGeometries: every (a0, la, b0, lb) of two reads cut from a fragment of length L such that one read
// starts the fragment: A first (B ends the fragment, or lies anywhere inside A when A is the whole
// fragment), then B first (symmetric).
func c08allGeometries(L int) []c08geo {
	var geos []c08geo
	for la := 1; la <= L; la++ {
		if la < L {
			for b0 := 0; b0 <= la; b0++ { // overlap la-b0 >= 0, B ends the fragment
				geos = append(geos, c08geo{0, la, b0, L - b0})
			}
		} else {
			for b0 := 0; b0 < L; b0++ { // B anywhere inside A (containment, identical starts/ends)
				for lb := 1; lb <= L-b0; lb++ {
					geos = append(geos, c08geo{0, la, b0, lb})
				}
			}
		}
	}
	for lb := 1; lb <= L; lb++ {
		if lb < L {
			for a0 := 1; a0 <= lb; a0++ {
				geos = append(geos, c08geo{a0, L - a0, 0, lb})
			}
		} else {
			for a0 := 1; a0 < L; a0++ {
				for la := 1; la <= L-a0; la++ {
					geos = append(geos, c08geo{a0, la, 0, lb})
				}
			}
		}
	}
	return geos
}

// c08familyGeometries: structured families for long fragments: every overlap length for six lengths of
// the first read, containment at every offset for four lengths of the inner read, in both orders.
func c08familyGeometries(L int) []c08geo {
	var geos []c08geo
	seen := map[c08geo]bool{}
	add := func(g c08geo) {
		if g.la >= 1 && g.lb >= 1 && !seen[g] {
			seen[g] = true
			geos = append(geos, g)
		}
	}
	for _, l1 := range []int{L - 1, L - 5, 2 * L / 3, L / 2, 20, 7} {
		if l1 < 1 || l1 >= L {
			continue
		}
		for o := 0; o <= l1; o++ {
			add(c08geo{0, l1, o, L - o}) // A = u[:l1], B = u[o:]
			if o >= 1 {
				add(c08geo{o, L - o, 0, l1}) // B = u[:l1], A = u[o:]
			}
		}
	}
	for _, l2 := range []int{3, 4, 11, L / 2} {
		for o := 0; o+l2 <= L; o++ {
			add(c08geo{0, L, o, l2}) // B inside A
			if o >= 1 {
				add(c08geo{o, l2, 0, L}) // A inside B
			}
		}
	}
	return geos
}

// c08longSources: [0] 100 consecutive bases of the de Bruijn sequence (all 4-mers distinct);
// [1] tandem repeats, homopolymers and a repeated 14-mer (ties and near ties between diagonals)
func c08longSources() []string {
	db := c08deBruijn()
	return []string{db[60:160],
		"gattacctgattacaaaagcatgcgattacgt" + "acacacacacac" + "ggtctagattacctgatt" + "aaaaaaaat" + "cgcatgcgattacgtcca" + "tgtgtgtgcag"}
}

func c08sameRes(a, b *c08res) string {
	switch {
	case a.Panicked != b.Panicked:
		return fmt.Sprintf("panicked %v vs %v (%s%s)", a.Panicked, b.Panicked, a.PanicMsg, b.PanicMsg)
	case a.Panicked:
		return ""
	case a.IsLeft != b.IsLeft:
		return fmt.Sprintf("isLeft %v vs %v", a.IsLeft, b.IsLeft)
	case a.Score != b.Score:
		return fmt.Sprintf("score %d vs %d", a.Score, b.Score)
	case fmt.Sprint(a.Path) != fmt.Sprint(b.Path):
		return fmt.Sprintf("path %v vs %v", a.Path, b.Path)
	case a.FastCount != b.FastCount || a.Over != b.Over || a.FastScore != b.FastScore:
		return fmt.Sprintf("fast stats (%d,%d,%g) vs (%d,%d,%g)", a.FastCount, a.Over, a.FastScore, b.FastCount, b.Over, b.FastScore)
	case a.ConsDone != b.ConsDone || a.ConsSeq != b.ConsSeq || string(a.ConsQual) != string(b.ConsQual) || a.Match != b.Match || a.ConsPanic != b.ConsPanic:
		return fmt.Sprintf("consensus %q %v match=%d vs %q %v match=%d", a.ConsSeq, a.ConsQual, a.Match, b.ConsSeq, b.ConsQual, b.Match)
	}
	return ""
}

// evalHistory: all calls on ONE arena and shift buffer; each result must equal the fresh-arena result.
func (x *c08runner) evalHistory(calls []c08call, fresh []*c08res) {
	x.guard("arena-reuse", func() c08case { return c08case{Kind: "history", Calls: calls} }, func() { x.evalHistory1(calls, fresh) })
}

func (x *c08runner) evalHistory1(calls []c08call, fresh []*c08res) {
	r := x.r
	r.Count("histories_submitted", 1)
	n := 0
	for _, c := range calls {
		n = c08max(n, c08max(len(c.A), len(c.B)))
	}
	first := calls[0]
	arena := MakePEAlignArena(len(first.A), len(first.B)) // sized for the first call: later calls must grow it
	shifts := map[int]int{}
	for k, c := range calls {
		sa, sb := c08mkseq("A", c.A, c.QA), c08mkseq("B", c.B, c.QB)
		res := c08run(c, sa, sb, arena, &shifts, true)
		r.Eval(1)
		r.Trans(1)
		var want *c08res
		if fresh != nil {
			want = fresh[k]
		} else {
			w := c08run(c, c08mkseq("A", c.A, c.QA), c08mkseq("B", c.B, c.QB), MakePEAlignArena(len(c.A), len(c.B)), &map[int]int{}, true)
			want = &w
		}
		if d := c08sameRes(&res, want); d != "" {
			r.Violate("arena-reuse/"+c08mode(&c)+"/result-depends-on-history",
				fmt.Sprintf("call %d of the history (%s) on a reused arena differs from the same call on a fresh arena: %s; history=%d calls, first: %s",
					k+1, c08desc(&c), d, len(calls), c08desc(&calls[0])),
				c08case{Kind: "history", Calls: calls[:k+1]})
			return
		}
	}
	r.Count("histories", 1)
}

func TestVerifC08(t *testing.T) {
	log.SetOutput(io.Discard)
	log.SetLevel(log.PanicLevel)
	c08installExit()
	r := verifkit.New("C08")
	defer r.Write()
	if !_InitializedDnaScore {
		_InitDNAScoreMatrix()
	}
	x := &c08runner{r: r, shifts: map[int]int{}}

	// sanity of the tables the oracle reads (reported as a note, not as a verdict)
	extreme := 0
	for i := 0; i < 100; i++ {
		for j := 0; j < 100; j++ {
			for _, v := range []int{_NucScorePartMatchMatch[i][j], _NucScorePartMatchMismatch[i][j]} {
				if v > 1<<40 || v < -(1<<40) {
					extreme++
				}
			}
		}
	}
	c08tableBroken = extreme > 0
	if extreme > 0 {
		r.Note("score tables hold %d entries beyond +-2^40 (Mismatch[0][0]=%d): NaN converted to int", extreme, _NucScorePartMatchMismatch[0][0])
	}
	if rc := r.ReplayCase(); rc != nil {
		var c c08case
		if err := json.Unmarshal(rc, &c); err != nil {
			t.Fatal(err)
		}
		if c.Kind == "history" {
			x.evalHistory(c.Calls, nil)
		} else if c.Kind == "scheme" {
			cc := c.Calls[0]
			x.evalScheme(c.Kind, cc, c08mkseq("A", cc.A, cc.QA), c08mkseq("B", cc.B, cc.QB), &c08oracle{})
		} else {
			c08noStat = c.Kind == "indel" || c.Kind == "long"
			x.evalSingle(c.Kind, c.Calls[0], nil, nil, &c08oracle{}, c.U, c.A0, c.B0)
		}
		return
	}

	r.Bound("gap_penalties", fmt.Sprintf("gap{1,2,0.5} x scale{1,0.5} -> %d %d %d %d", c08gapPenalty(1, 1), c08gapPenalty(1, 0.5), c08gapPenalty(2, 1), c08gapPenalty(2, 0.5)))

	thorough := verifkit.Thorough()
	k := 0 // work item index

	srcs := c08sources()
	secI := func() bool {
		// ---------- (i) all short read pairs ----------
		lmax := 4
		if thorough {
			lmax = 5
		}
		pats := c08patterns
		if thorough {
			pats = append(append([]string{}, c08patterns...), "zero2")
		}
		r.Bound("i_alphabet", "acgt")
		r.Bound("i_lengths", fmt.Sprintf("1..%d x 1..%d", lmax, lmax))
		r.Bound("i_quality_patterns", pats)
		r.Bound("configs", "exact + fast{rel,abs} x delta{0,2}, each x gap{1,2,0.5} x scale{1,0.5} (quick tier, part i: quality patterns other than u40/alt with exact and fast-rel-delta0 only)")
		cfgs := c08configs([]int{0, 2})
		doPairs := func(kind string, reads []string, pats []string) bool {
			for _, a := range reads {
				for _, b := range reads {
					if !r.Mine(k) {
						k++
						continue
					}
					k++
					r.State(kind + ":" + a + "|" + b)
					for _, pat := range pats {
						qa, qb := c08quals(pat, len(a), false), c08quals(pat, len(b), true)
						sa, sb := c08mkseq("A", a, qa), c08mkseq("B", b, qb)
						var orcs [6]c08oracle
						for ci, cf := range cfgs {
							if !thorough && pat != "u40" && pat != "alt" && cf.Fast && (cf.Delta != 0 || !cf.Rel) {
								continue // quick tier: secondary quality patterns with exact and fast-rel-delta0 only
							}
							c := c08call{A: a, B: b, QA: qa, QB: qb, Fast: cf.Fast, Rel: cf.Rel, Delta: cf.Delta, Gap: cf.Gap, Scale: cf.Scale}
							oi := 0
							if cf.Gap == 2 {
								oi += 2
							} else if cf.Gap == 0.5 {
								oi += 4
							}
							if cf.Scale == 0.5 {
								oi++
							}
							_ = ci
							// the optimum oracle is needed by exact mode only; make sure it is filled first
							x.evalSingle(kind, c, sa, sb, &orcs[oi], "", 0, 0)
							if !cf.Fast && (pat == "u40" || pat == "alt" || pat == "u93") {
								// (vi) the two single-scheme entry points, no arena given
								x.evalScheme(kind, c, sa, sb, &orcs[oi])
							}
						}
					}
				}
				if r.Expired() {
					return false
				}
			}
			return true
		}
		if !doPairs("pair", verifkit.AllStrings("acgt", 1, lmax), pats) {
			return false
		}
		// IUPAC symbols (ambiguity codes score as partial matches)
		il := 2
		if thorough {
			il = 3
		}
		r.Bound("i_iupac", fmt.Sprintf("alphabet acgtnry, lengths 1..%d", il))
		if !doPairs("iupac", verifkit.AllStrings("acgtnry", 1, il), []string{"u40", "alt"}) {
			return false
		}
		// longer IUPAC reads so that the 4-mer heuristic is exercised: a fixed 10-mer with one symbol replaced
		{
			base := "gattacagtc"
			var reads []string
			reads = append(reads, base, base[2:], base[:8])
			for p := 0; p < len(base); p++ {
				for _, s := range "nry" {
					reads = append(reads, base[:p]+string(s)+base[p+1:])
				}
			}
			r.Bound("i_iupac_long", fmt.Sprintf("%d reads: %s, two cuts of it, and every single replacement by n/r/y", len(reads), base))
			if !doPairs("iupac10", reads, []string{"u40", "alt"}) {
				return false
			}
		}

		return true
	}
	secII := func() bool {
		// ---------- (ii) all overlap geometries ----------
		lmin, lmaxU := 8, 16
		if thorough {
			lmaxU = 24
		}
		r.Bound("ii_sources", srcs)
		r.Bound("ii_fragment_lengths", fmt.Sprintf("%d..%d (prefixes of each source)", lmin, lmaxU))
		gpats := []string{"u40", "alt", "ramp"}
		if thorough {
			gpats = []string{"u40", "u2", "alt", "ramp", "zero", "q93"}
		}
		r.Bound("ii_quality_patterns", gpats)
		gcfgs := c08configs([]int{0, 2})
		for _, src := range srcs {
			for L := lmin; L <= lmaxU; L++ {
				u := src[:L]
				type geo struct{ a0, la, b0, lb int }
				var geos []geo
				// A starts the fragment
				for la := 1; la <= L; la++ {
					if la < L {
						for b0 := 0; b0 <= la; b0++ { // overlap la-b0 >= 0, B ends the fragment
							geos = append(geos, geo{0, la, b0, L - b0})
						}
					} else {
						for b0 := 0; b0 < L; b0++ { // B anywhere inside A (containment, identical starts/ends)
							for lb := 1; lb <= L-b0; lb++ {
								geos = append(geos, geo{0, la, b0, lb})
							}
						}
					}
				}
				// B starts the fragment, A starts later
				for lb := 1; lb <= L; lb++ {
					if lb < L {
						for a0 := 1; a0 <= lb; a0++ {
							geos = append(geos, geo{a0, L - a0, 0, lb})
						}
					} else {
						for a0 := 1; a0 < L; a0++ {
							for la := 1; la <= L-a0; la++ {
								geos = append(geos, geo{a0, la, 0, lb})
							}
						}
					}
				}
				for _, g := range geos {
					if !r.Mine(k) {
						k++
						continue
					}
					k++
					a, b := u[g.a0:g.a0+g.la], u[g.b0:g.b0+g.lb]
					r.State(fmt.Sprintf("geom:%s:%d:%d:%d:%d", u, g.a0, g.la, g.b0, g.lb))
					r.Count("geometries", 1)
					// variants: error free, then one substitution at every position of A and of B
					nvar := 1 + g.la + g.lb
					for v := 0; v < nvar; v++ {
						va, vb, vu := a, b, u
						if v >= 1 {
							vu = "" // no reassembly claim for reads with an error
							p := v - 1
							if p < g.la {
								va = c08subst(a, p)
							} else {
								vb = c08subst(b, p-g.la)
							}
						}
						vp := gpats
						if v >= 1 && !thorough {
							vp = gpats[:2]
						}
						for _, pat := range vp {
							qa, qb := c08quals(pat, len(va), false), c08quals(pat, len(vb), true)
							sa, sb := c08mkseq("A", va, qa), c08mkseq("B", vb, qb)
							var orcs [6]c08oracle
							for _, cf := range gcfgs {
								c := c08call{A: va, B: vb, QA: qa, QB: qb, Fast: cf.Fast, Rel: cf.Rel, Delta: cf.Delta, Gap: cf.Gap, Scale: cf.Scale}
								oi := 0
								if cf.Gap == 2 {
									oi += 2
								} else if cf.Gap == 0.5 {
									oi += 4
								}
								if cf.Scale == 0.5 {
									oi++
								}
								x.evalSingle("geom", c, sa, sb, &orcs[oi], vu, g.a0, g.b0)
							}
						}
					}
					if r.Expired() {
						return false
					}
				}
			}
		}

		return true
	}
	secIII := func() bool {
		// ---------- (iii) arena histories ----------
		{
			var sub []c08call
			u := srcs[0][:20]
			u2 := srcs[1][:24]
			mk := func(a, b, pat string, cf c08cfg) {
				sub = append(sub, c08call{A: a, B: b, QA: c08quals(pat, len(a), false), QB: c08quals(pat, len(b), true),
					Fast: cf.Fast, Rel: cf.Rel, Delta: cf.Delta, Gap: cf.Gap, Scale: cf.Scale})
			}
			ex := c08cfg{false, false, 0, 2, 1}
			fr := c08cfg{true, true, 2, 2, 1}
			fa := c08cfg{true, false, 0, 1, 0.5}
			type pr struct{ a, b string }
			pairs := []pr{
				{u[:12], u[6:20]},                // left overlap 6
				{u[6:20], u[:12]},                // right geometry
				{u, u[4:12]},                     // containment
				{u[:10], u[:10]},                 // identical
				{u[:9], c08subst(u[4:18], 2)},    // one error in the overlap
				{"ac", "gt"},                     // tiny
				{u2, u2[3:]},                     // long, repeats
				{u2[:8], u2[12:24]},              // unrelated pieces
				{"acgta", "cgtac"},               // short with gaps likely
				{u2[:16], c08subst(u2[6:24], 5)}, // error, repeats
				{"a", u[:14]},                    // length 1 vs long
				{c08subst(u[:15], 7), u[5:20]},   // error in A
				{u[:14], u[10:20]},               // overlap 4
				{u[:14], u[12:20]},               // overlap 2
			}
			for i, p := range pairs {
				mk(p.a, p.b, "alt", ex)
				mk(p.a, p.b, "ramp", fr)
				if i < 12 {
					mk(p.a, p.b, "u40", fa)
				}
			}
			r.Bound("iii_call_subset", len(sub))
			fresh := make([]*c08res, len(sub))
			for i, c := range sub {
				// control run on a fresh arena (c08run turns a panic of the aligner into a result; a panic of the arena /
				// sequence construction gives a "panicked" reference too: the history on the reused arena is then
				// expected to fail the same way, and evalSingle reports the call itself)
				w := c08res{Panicked: true, PanicMsg: "arena or sequence construction panics"}
				func() {
					defer func() { recover() }()
					w = c08run(c, c08mkseq("A", c.A, c.QA), c08mkseq("B", c.B, c.QB), MakePEAlignArena(len(c.A), len(c.B)), &map[int]int{}, true)
				}()
				fresh[i] = &w
			}
			n := len(sub)
			for i := 0; i < n; i++ {
				for j := 0; j < n; j++ {
					if r.Mine(k) {
						x.evalHistory([]c08call{sub[i], sub[j]}, []*c08res{fresh[i], fresh[j]})
						for l := 0; l < n; l++ {
							x.evalHistory([]c08call{sub[i], sub[j], sub[l]}, []*c08res{fresh[i], fresh[j], fresh[l]})
						}
					}
					k++
				}
				if r.Expired() {
					return false
				}
			}
		}

		return true
	}
	// evalVariant: one read pair x quality patterns x every configuration, fresh arena each
	cfgs02 := c08configs([]int{0, 2})
	cfgs025 := c08configs([]int{0, 2, 5}) // 5 = default of obipairing --delta
	evalVariant := func(kind, va, vb, vu string, a0, b0 int, pats []string) {
		allCfgs := cfgs02
		if kind == "long" {
			allCfgs = cfgs025
		}
		for _, pat := range pats {
			qa, qb := c08quals(pat, len(va), false), c08quals(pat, len(vb), true)
			sa, sb := c08mkseq("A", va, qa), c08mkseq("B", vb, qb)
			var orcs [6]c08oracle
			for _, cf := range allCfgs {
				c := c08call{A: va, B: vb, QA: qa, QB: qb, Fast: cf.Fast, Rel: cf.Rel, Delta: cf.Delta, Gap: cf.Gap, Scale: cf.Scale}
				oi := 0
				if cf.Gap == 2 {
					oi += 2
				} else if cf.Gap == 0.5 {
					oi += 4
				}
				if cf.Scale == 0.5 {
					oi++
				}
				x.evalSingle(kind, c, sa, sb, &orcs[oi], vu, a0, b0)
			}
		}
	}
	secIV := func() bool {
		// ---------- (iv) all overlap geometries, one indel error ----------
		c08noStat = true
		defer func() { c08noStat = false }()
		lmin, lmaxU := 8, 11
		if thorough {
			lmaxU = 16
		}
		ipats := []string{"alt", "u93"}
		if thorough {
			ipats = []string{"u40", "alt", "u93", "ramp"}
		}
		r.Bound("iv_indel_fragment_lengths", fmt.Sprintf("%d..%d (prefixes of each source of ii); one deletion at every position, one insertion before every position and at the end, of A then of B", lmin, lmaxU))
		r.Bound("iv_quality_patterns", ipats)
		for _, src := range srcs {
			for L := lmin; L <= lmaxU; L++ {
				u := src[:L]
				for _, g := range c08allGeometries(L) {
					if !r.Mine(k) {
						k++
						continue
					}
					k++
					a, b := u[g.a0:g.a0+g.la], u[g.b0:g.b0+g.lb]
					r.State(fmt.Sprintf("indel:%s:%d:%d:%d:%d", u, g.a0, g.la, g.b0, g.lb))
					for _, v := range c08indelVariants(a, b, nil, nil) {
						r.Count("indel_variants_"+v.what, 1)
						evalVariant("indel", v.a, v.b, "", 0, 0, ipats)
					}
					if r.Expired() {
						return false
					}
				}
			}
		}
		return true
	}
	secV := func() bool {
		// ---------- (v) long reads, structured families ----------
		c08noStat = true
		defer func() { c08noStat = false }()
		lsrc := c08longSources()
		Ls := []int{60}
		if thorough {
			Ls = []int{40, 60, 100}
		}
		r.Bound("v_long_sources", lsrc)
		r.Bound("v_long_fragment_lengths", Ls)
		r.Bound("v_long_configs", "as (i) with delta {0,2,5}")
		r.Bound("v_long_geometries", "first read of length L-1, L-5, 2L/3, L/2, 20, 7 x every overlap 0..length, both orders; inner read of length 3, 4, 11, L/2 at every offset of the whole fragment, both orders")
		r.Bound("v_long_variants", "error free (u40, alt, ramp); one substitution / deletion / insertion at positions 0, 1, n/2, n-2, n-1 (thorough: + every 4th) of either read (alt, u93)")
		for _, src := range lsrc {
			for _, L := range Ls {
				u := src[:L]
				for _, g := range c08familyGeometries(L) {
					if !r.Mine(k) {
						k++
						continue
					}
					k++
					a, b := u[g.a0:g.a0+g.la], u[g.b0:g.b0+g.lb]
					r.State(fmt.Sprintf("long:%s:%d:%d:%d:%d", u, g.a0, g.la, g.b0, g.lb))
					r.Count("long_geometries", 1)
					if c08max(g.la, g.lb) > 24 {
						r.Count("long_geometries_with_a_read_over_24", 1)
					}
					evalVariant("long", a, b, u, g.a0, g.b0, []string{"u40", "alt", "ramp"})
					pa, pb := c08keyPositions(len(a), thorough), c08keyPositions(len(b), thorough)
					vpats := []string{"alt", "u93"}
					for _, p := range pa {
						evalVariant("long", c08subst(a, p), b, "", 0, 0, vpats)
					}
					for _, p := range pb {
						evalVariant("long", a, c08subst(b, p), "", 0, 0, vpats)
					}
					for _, v := range c08indelVariants(a, b, pa, pb) {
						r.Count("indel_variants_"+v.what, 1)
						evalVariant("long", v.a, v.b, "", 0, 0, vpats)
					}
					if r.Expired() {
						return false
					}
				}
			}
		}
		return true
	}
	// cheap sections first: under an internal deadline the bulk section (i) is the one cut short.
	// VERIF_C08_SECTIONS (development only, e.g. "iv,v") restricts the run to some sections.
	only := os.Getenv("VERIF_C08_SECTIONS")
	for _, sec := range []struct {
		name string
		run  func() bool
	}{{"iii", secIII}, {"iv", secIV}, {"v", secV}, {"ii", secII}, {"i", secI}} {
		if only != "" && !strings.Contains(","+only+",", ","+sec.name+",") {
			continue
		}
		if !sec.run() {
			return
		}
	}
	if only != "" {
		r.Note("development run restricted to sections %s", only)
		return
	}
	// guards on what the harness submitted.  The counters that need an answer of the implementation (valid_paths,
	// exact_paths_optimal, single_scheme_optimal, fast_dp_branch, fast_identical_branch, paths_with_inner_indel_fast,
	// columns_with_quality_winner, reassembly_demanded_*, histories) are reported in the evidence, not required: a tree
	// that answers otherwise is judged by the oracle, not by the guard.
	r.RequireNonVacuous("indel_variants_delA")
	r.RequireNonVacuous("indel_variants_insB")
	r.RequireNonVacuous("long_geometries_with_a_read_over_24")
	r.RequireNonVacuous("calls_single_scheme_nil_arena")
	r.RequireNonVacuous("calls_exact")
	r.RequireNonVacuous("calls_fast")
	r.RequireNonVacuous("error_free_fragment_calls_exact")
	r.RequireNonVacuous("error_free_fragment_calls_fast")
	r.RequireNonVacuous("error_free_fragment_over_24_calls_exact")
	r.RequireNonVacuous("error_free_fragment_over_24_calls_fast")
	r.RequireNonVacuous("histories_submitted")
	r.Sample(c08case{Kind: "geom", U: srcs[0][:16], A0: 0, B0: 6, Calls: []c08call{{A: srcs[0][:12], B: srcs[0][6:16],
		QA: c08quals("alt", 12, false), QB: c08quals("alt", 10, true), Fast: true, Rel: true, Delta: 2, Gap: 2, Scale: 1}}})
}

// c08subst replaces position p by the next base (a->c->g->t->a)
func c08subst(s string, p int) string {
	b := []byte(s)
	switch b[p] {
	case 'a':
		b[p] = 'c'
	case 'c':
		b[p] = 'g'
	case 'g':
		b[p] = 't'
	default:
		b[p] = 'a'
	}
	return string(b)
}
