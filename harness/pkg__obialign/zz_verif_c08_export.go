//go:build verif

package obialign

// C08 hook (see properties.jsonl, hook_needed): read-only access to the private scoring tables so that
// the harness of package obipairing can run its own independent dynamic program.  Injected by the
// overlay of /verif/check only; nothing of the implementation is changed.

// VerifC08Tables returns the per-quality match / mismatch score tables and the IUPAC partial-match table.
func VerifC08Tables() (match, mismatch *[100][100]int, partMatch *[32][32]float64) {
	if !_InitializedDnaScore {
		_InitDNAScoreMatrix()
	}
	return &_NucScorePartMatchMatch, &_NucScorePartMatchMismatch, &_NucPartMatch
}
