//go:build verif

package obialign

// C09 — LCS and one-difference kernels are exact within their error bound.
//
// Bounded exhaustive enumeration on the real kernels (FastLCSScore, FastLCSEGFScore, D1Or0):
//   * every ordered pair of sequences over {a,c,g,t} up to a small length x every error bound
//     x end-gap-free on/off x {nil buffer, long-lived reused buffer, all-ones pre-filled buffer};
//   * every ordered pair of IUPAC symbols, every ordered pair over {a,c,r,n,w} and over the 15
//     IUPAC symbols up to a small length;
//   * a fixed structured family of long pairs (60..300 bases, scattered substitutions and
//     deletions placed to push the optimal path towards the band edges) x every bound;
//   * buffer histories: every ordered pair of calls of a fixed call set on one shared buffer;
//   * D1Or0 on every ordered pair up to a small length, and on every single / double edit of a
//     40-base sequence;
//   * the exported byte-slice entry point FastLCSEGFScoreByte on raw input: every ordered pair
//     over {a,c,g,r} in lower and upper case (nil slice for the empty sequence);
//   * very unequal lengths (0..2 bases against 6..41) x every bound up to the length + 2;
//   * lengths around the capacities of the packed 16-bit score / path-length fields and of the
//     30000 "not available" sentinel (2^8, 2^15, 2^16, 30000 +- 3) with answers proved by
//     elementary arguments.
// Oracle: boring quadratic dynamic programming written here (lexicographic: most
// IUPAC-compatible matches, then shortest alignment) and Levenshtein distance.

import (
	"encoding/json"
	"fmt"
	"io"
	"sort"
	"strings"
	"testing"

	"git.metabarcoding.org/obitools/obitools4/obitools4/pkg/obiseq"
	"git.metabarcoding.org/obitools/obitools4/obitools4/pkg/verifkit"
	log "github.com/sirupsen/logrus"
)

// ---------------------------------------------------------------- cases

type c09call struct {
	A     string `json:"a"`
	B     string `json:"b"`
	Bound int    `json:"bound"`
	EGF   bool   `json:"egf"`
	// Raw: A and B are passed as they are (upper case kept, "" as a nil slice) to the byte-slice
	// entry point FastLCSEGFScoreByte instead of going through obiseq.BioSequence
	Raw bool `json:"raw,omitempty"`
}

type c09case struct {
	Kind string `json:"kind"` // "lcs" | "d1" | "xl" (extreme-length family of XL bases, regenerated on replay)
	XL   int    `json:"xl,omitempty"`
	c09call
	// Buf: "nil" (no buffer), "hist" (fresh empty buffer on which Hist is executed first),
	// "poison" (buffer pre-filled with all-ones words). Replaying a case runs every buffer mode.
	Buf  string    `json:"buf,omitempty"`
	Hist []c09call `json:"hist,omitempty"`
	Note string    `json:"note,omitempty"`
}

// ---------------------------------------------------------------- reference model

// standard IUPAC nucleotide codes as bit sets over {a,c,g,t}
var c09iupacMap = map[byte]byte{
	'a': 1, 'c': 2, 'g': 4, 't': 8,
	'r': 1 | 4, 'y': 2 | 8, 's': 2 | 4, 'w': 1 | 8, 'k': 4 | 8, 'm': 1 | 2,
	'b': 2 | 4 | 8, 'd': 1 | 4 | 8, 'h': 1 | 2 | 8, 'v': 1 | 2 | 4, 'n': 15,
}

const c09iupacAlphabet = "acgtryswkmbdhvn"

var c09iupac = func() (t [256]byte) {
	for k, v := range c09iupacMap {
		t[k] = v
	}
	return
}()

func c09compatible(a, b byte) bool {
	return c09iupac[a]&c09iupac[b] != 0
}

const c09big = 1 << 20

// c09pack orders (score, length): higher score first, then shorter length.
func c09pack(score, length int) int { return score*c09big - length }
func c09unpack(v int) (int, int) {
	s := (v + c09big - 1) / c09big // v > -c09big always (score >= 0, 0 <= length < c09big)
	return s, s*c09big - v
}

// c09global: exact LCS length and the length of the shortest global alignment achieving it.
func (h *c09h) global(a, b string) (int, int) {
	la, lb := len(a), len(b)
	prev, cur := h.scratch(la + 1)
	for j := 0; j <= la; j++ {
		prev[j] = c09pack(0, j)
	}
	for i := 1; i <= lb; i++ {
		cur[0] = c09pack(0, i)
		for j := 1; j <= la; j++ {
			d := prev[j-1] - 1
			if c09compatible(a[j-1], b[i-1]) {
				d += c09big
			}
			if u := prev[j] - 1; u > d {
				d = u
			}
			if l := cur[j-1] - 1; l > d {
				d = l
			}
			cur[j] = d
		}
		prev, cur = cur, prev
	}
	return c09unpack(prev[la])
}

// egf: best (score, shortest length) under an end-gap-free model.
//   freeShort=false: only the overhang of `long` over `short` is free (gaps in `short` at both ends)
//   freeShort=true : every end gap is free (overhangs of both sequences)
// returns the best (score, length) pair.
func (h *c09h) egf(long, short string, freeShort bool) (int, int) {
	la, lb := len(long), len(short)
	prev, cur := h.scratch(la + 1)
	for j := 0; j <= la; j++ {
		prev[j] = c09pack(0, 0)
	}
	for i := 1; i <= lb; i++ {
		if freeShort {
			cur[0] = c09pack(0, 0)
		} else {
			cur[0] = c09pack(0, i)
		}
		for j := 1; j <= la; j++ {
			d := prev[j-1] - 1
			if c09compatible(long[j-1], short[i-1]) {
				d += c09big
			}
			u := prev[j] - 1
			if freeShort && j == la {
				u = prev[j]
			}
			if u > d {
				d = u
			}
			l := cur[j-1] - 1
			if i == lb {
				l = cur[j-1]
			}
			if l > d {
				d = l
			}
			cur[j] = d
		}
		prev, cur = cur, prev
	}
	return c09unpack(prev[la])
}

func (h *c09h) scratch(n int) ([]int, []int) {
	if len(h.dp1) < n {
		h.dp1 = make([]int, 2*n)
		h.dp2 = make([]int, 2*n)
	}
	return h.dp1[:n], h.dp2[:n]
}

// Levenshtein distance on bytes
func c09lev(a, b string) int {
	la, lb := len(a), len(b)
	var p1, p2 [32]int
	prev, cur := p1[:], p2[:]
	if lb+1 > len(p1) {
		prev, cur = make([]int, lb+1), make([]int, lb+1)
	}
	prev, cur = prev[:lb+1], cur[:lb+1]
	for j := 0; j <= lb; j++ {
		prev[j] = j
	}
	for i := 1; i <= la; i++ {
		cur[0] = i
		for j := 1; j <= lb; j++ {
			d := prev[j-1]
			if a[i-1] != b[j-1] {
				d++
			}
			if prev[j]+1 < d {
				d = prev[j] + 1
			}
			if cur[j-1]+1 < d {
				d = cur[j-1] + 1
			}
			cur[j] = d
		}
		prev, cur = cur, prev
	}
	return prev[lb]
}

// ---------------------------------------------------------------- running the implementation

var c09seqCache = map[string]*obiseq.BioSequence{}

func c09seq(s string) *obiseq.BioSequence {
	if q, ok := c09seqCache[s]; ok {
		return q
	}
	q := obiseq.NewBioSequence("s", []byte(s), "")
	if len(c09seqCache) < 200000 {
		c09seqCache[s] = q
	}
	return q
}

type c09res struct {
	lcs, alen int
	panicked  string
}

func (x c09res) String() string {
	if x.panicked != "" {
		return "panic(" + x.panicked + ")"
	}
	return fmt.Sprintf("(%d,%d)", x.lcs, x.alen)
}

func c09runLCS(a, b *obiseq.BioSequence, bound int, egf bool, buf *[]uint64) (res c09res) {
	defer func() {
		if r := recover(); r != nil {
			res = c09res{panicked: fmt.Sprint(r)}
		}
	}()
	if egf {
		s, l, _ := FastLCSEGFScore(a, b, bound, buf)
		return c09res{lcs: s, alen: l}
	}
	s, l := FastLCSScore(a, b, bound, buf)
	return c09res{lcs: s, alen: l}
}

type c09d1res struct {
	d, pos   int
	a1, a2   byte
	panicked string
}

func c09runD1(a, b *obiseq.BioSequence) (res c09d1res) {
	defer func() {
		if r := recover(); r != nil {
			res = c09d1res{panicked: fmt.Sprint(r)}
		}
	}()
	d, p, x, y := D1Or0(a, b)
	return c09d1res{d: d, pos: p, a1: x, a2: y}
}

// ---------------------------------------------------------------- oracles

type c09ref struct {
	lcs, glen int // global: exact LCS, shortest alignment length
	// End-gap-free alignment lengths (for score == lcs) under the readings of "the returned length
	// does not include the end gaps":
	//   egfFirst : the overhang of the longer sequence is free; equal lengths: the first argument
	//              plays the longer one (what the kernel does, it swaps only when lA < lB)
	//   egfSecond: same, equal lengths: the second argument plays the longer one
	//   egfAll   : every end gap (overhang of either sequence) is free
	egfFirst, egfSecond, egfAll int
}

func (h *c09h) reference(a, b string) c09ref {
	var r c09ref
	r.lcs, r.glen = h.global(a, b)
	long, short := a, b
	if len(long) < len(short) {
		long, short = short, long
	}
	s1, l1 := h.egf(long, short, false)
	s2, l2 := h.egf(long, short, true)
	s3, l3 := s1, l1
	if len(a) == len(b) && a != b {
		s3, l3 = h.egf(short, long, false)
	}
	if s1 != r.lcs || s2 != r.lcs || s3 != r.lcs {
		panic("harness: reference models disagree on the LCS length")
	}
	r.egfFirst, r.egfSecond, r.egfAll = l1, l3, l2
	return r
}

// swap gives the reference seen from the call (b,a)
func (r c09ref) swap() c09ref {
	r.egfFirst, r.egfSecond = r.egfSecond, r.egfFirst
	return r
}

// c09judge1 judges an answer against one exact pair (lcs, wantLen).
func c09judge1(bound, lcs, wantLen int, got c09res) (string, string) {
	diff := wantLen - lcs
	notfound := got.lcs == -1 && got.alen == -1
	if bound < 0 || diff <= bound {
		// exact answer required
		if notfound {
			return "notfound-within-bound", fmt.Sprintf("answers not-found but the exact answer (%d,%d) has %d differences <= bound", lcs, wantLen, diff)
		}
		if got.lcs != lcs {
			return "wrong-lcs", fmt.Sprintf("got %v, exact LCS length is %d (shortest alignment %d)", got, lcs, wantLen)
		}
		if got.alen != wantLen {
			return "wrong-length", fmt.Sprintf("got %v, shortest alignment achieving LCS %d has length %d", got, lcs, wantLen)
		}
		return "", ""
	}
	// beyond the bound: not-found, or a pair that is itself beyond the bound
	if notfound {
		return "", ""
	}
	if got.lcs < 0 || got.alen < 0 {
		return "malformed", fmt.Sprintf("got %v: neither not-found nor a pair", got)
	}
	if got.alen-got.lcs <= bound {
		return "spurious-within-bound", fmt.Sprintf("got %v (%d differences <= bound %d) but the exact answer (%d,%d) has %d differences", got, got.alen-got.lcs, bound, lcs, wantLen, diff)
	}
	return "", ""
}

// c09judgeLCS returns (failure class, message) or ("","").
// FastLCSScore (global alignment): the full statement.
// FastLCSEGFScore (end-gap-free): the LCS length does not depend on the gap model; the statement
// does not say which end gaps are excluded from the alignment length, so an answer is accepted
// when it is correct under at least one reading (see c09ref). The class/message reported is the
// one of the reading the kernel implements (egfFirst).
func c09judgeLCS(c c09call, ref c09ref, got c09res) (string, string) {
	if got.panicked != "" {
		return "panic", "panics: " + got.panicked
	}
	if !c.EGF {
		return c09judge1(c.Bound, ref.lcs, ref.glen, got)
	}
	cl, msg := c09judge1(c.Bound, ref.lcs, ref.egfFirst, got)
	if cl == "" {
		return "", ""
	}
	for _, l := range []int{ref.egfSecond, ref.egfAll} {
		if l != ref.egfFirst {
			if c2, _ := c09judge1(c.Bound, ref.lcs, l, got); c2 == "" {
				return "", ""
			}
		}
	}
	return cl, msg + fmt.Sprintf(" (end-gap-free lengths under the other readings: %d, %d)", ref.egfSecond, ref.egfAll)
}

func c09site(egf bool) string {
	if egf {
		return "FastLCSEGFScore"
	}
	return "FastLCSScore"
}

// ---------------------------------------------------------------- harness state

type c09h struct {
	r      *verifkit.Result
	shared []uint64 // long-lived buffer reused by every call of the shard
	poison []uint64 // buffer refilled with all-ones words before each call
	ring   []c09call
	dp1    []int
	dp2    []int
	// IUPAC symbol pairs on which the kernel disagrees with the standard table (found by phase 0)
	badPairs [][2]byte
	seen     map[string]int
}

const c09ringLen = 12

func (h *c09h) remember(c c09call) {
	h.ring = append(h.ring, c)
	if len(h.ring) > c09ringLen {
		h.ring = h.ring[len(h.ring)-c09ringLen:]
	}
}

// iupacBlame: ambiguity symbols of the wrongly compared symbol pairs that occur in the input
func (h *c09h) iupacBlame(a, b string) string {
	ab := a + b
	blamed := ""
	for _, p := range h.badPairs {
		if strings.IndexByte(ab, p[0]) >= 0 && strings.IndexByte(ab, p[1]) >= 0 {
			for _, x := range p {
				if strings.IndexByte("acgt", x) < 0 && strings.IndexByte(blamed, x) < 0 {
					blamed += string(x)
				}
			}
		}
	}
	bs := []byte(blamed)
	sort.Slice(bs, func(i, j int) bool { return bs[i] < bs[j] })
	return string(bs)
}

func (h *c09h) violate(site, class string, c c09case, msg string) {
	key := site + "/" + class
	if strings.Trim(c.A+c.B, "acgt") != "" {
		if bl := h.iupacBlame(c.A, c.B); bl != "" {
			// one defect of the symbol table gives one key whatever the way it surfaces
			key = "LCS/iupac-compatibility:" + bl
		}
	}
	if h.seen == nil {
		h.seen = map[string]int{}
	}
	h.seen[key]++
	if h.seen[key] > 3 {
		h.r.Violate(key, "", nil) // counted only (the kit stores the first 3 per key)
		return
	}
	desc := fmt.Sprintf("%s(%q, %q", site, c.A, c.B)
	if c.Kind == "lcs" || c.Kind == "xl" {
		desc += fmt.Sprintf(", maxError=%d, buffer=%s", c.Bound, c.Buf)
	}
	desc += "): " + msg
	if c.Note != "" {
		desc += " [" + c.Note + "]"
	}
	h.r.Violate(key, desc, c)
}

// lcsOrdered evaluates one call configuration with no buffer, the shared reused buffer and a
// poisoned buffer; returns the no-buffer answer.
func (h *c09h) lcsOrdered(a, b string, sa, sb *obiseq.BioSequence, bound int, egf bool, ref c09ref) c09res {
	r := h.r
	call := c09call{A: a, B: b, Bound: bound, EGF: egf}
	site := c09site(egf)

	gotNil := c09runLCS(sa, sb, bound, egf, nil)
	r.Eval(1)
	r.Trans(1)
	if cl, msg := c09judgeLCS(call, ref, gotNil); cl != "" {
		h.violate(site, cl, c09case{Kind: "lcs", c09call: call, Buf: "nil"}, msg)
	}

	gotSh := c09runLCS(sa, sb, bound, egf, &h.shared)
	r.Eval(1)
	r.Trans(1)
	if gotSh != gotNil {
		// the reused buffer changed the answer: try to pin it to the recent history
		hist := append([]c09call{}, h.ring...)
		var fresh []uint64
		for _, p := range hist {
			c09runLCS(c09seq(p.A), c09seq(p.B), p.Bound, p.EGF, &fresh)
		}
		again := c09runLCS(sa, sb, bound, egf, &fresh)
		note := "answer with a reused buffer differs from the answer with no buffer"
		cs := c09case{Kind: "lcs", c09call: call, Buf: "hist", Hist: hist}
		if again == gotNil {
			note += "; not reproduced by the last calls alone (older buffer content)"
			cs.Note = "history longer than stored"
		}
		h.violate(site, "buffer-dependent", cs, fmt.Sprintf("%s: reused buffer %v, nil buffer %v", note, gotSh, gotNil))
	}
	h.remember(call)

	// scratch buffer with arbitrary (worst case: all-ones = in band, maximal score) content
	var gotPo c09res
	for try := 0; try < 2; try++ {
		h.poison = h.poison[:cap(h.poison)]
		for i := range h.poison {
			h.poison[i] = ^uint64(0)
		}
		c0 := cap(h.poison)
		gotPo = c09runLCS(sa, sb, bound, egf, &h.poison)
		if cap(h.poison) == c0 {
			break // not reallocated by the kernel: the poisoned words were in use
		}
	}
	r.Eval(1)
	r.Trans(1)
	if gotPo != gotNil {
		h.violate(site, "buffer-dependent:arbitrary-content", c09case{Kind: "lcs", c09call: call, Buf: "poison"},
			fmt.Sprintf("buffer pre-filled with all-ones words: %v, nil buffer %v", gotPo, gotNil))
	}

	// classification counters (vacuity)
	diff := ref.glen - ref.lcs
	if egf {
		diff = ref.egfFirst - ref.lcs
	}
	switch {
	case bound < 0:
		r.Count("unbounded", 1)
	case diff <= bound:
		r.Count("within_bound", 1)
		if diff == bound {
			r.Count("exactly_at_bound", 1)
		}
	default:
		r.Count("beyond_bound", 1)
		if gotNil.lcs == -1 {
			r.Count("beyond_bound_notfound", 1)
		} else {
			r.Count("beyond_bound_pair", 1)
		}
	}
	return gotNil
}

// lcsPair evaluates the unordered pair {a,b} in both argument orders and checks that the two
// verdicts are identical.
func (h *c09h) lcsPair(a, b string, sa, sb *obiseq.BioSequence, bound int, egf bool, ref c09ref) {
	x := h.lcsOrdered(a, b, sa, sb, bound, egf, ref)
	if a == b {
		return
	}
	y := h.lcsOrdered(b, a, sb, sa, bound, egf, ref.swap())
	if x != y {
		h.violate(c09site(egf), c09asymClass(bound, egf, len(a) == len(b), ref, x, y), c09case{Kind: "lcs", c09call: c09call{A: a, B: b, Bound: bound, EGF: egf}, Buf: "nil"},
			fmt.Sprintf("f(a,b)=%v but f(b,a)=%v", x, y))
	}
}

// c09asymClass names an asymmetry f(a,b)=x, f(b,a)=y (ref is the reference seen from (a,b)).
// One asymmetry is a listed finding: in end-gap-free mode with sequences of EQUAL length the kernel
// frees the overhang of its FIRST argument only. It gets its own class only when the two answers
// are what that behaviour predicts: x is right when a's overhang is free (ref.egfFirst) and y is
// right when b's overhang is free (ref.egfSecond) - within the bound that pins both answers, which
// then differ because the two readings differ; beyond the bound each call may return any pair that
// is itself beyond the bound, and the band explored under the two readings is not the same one.
// Any other pair of different answers (different LCS within the bound, found on one side only,
// lengths that follow no reading or the reading of the other argument ...) is a plain "asymmetric".
func c09asymClass(bound int, egf, sameLen bool, ref c09ref, x, y c09res) string {
	if egf && sameLen && x.panicked == "" && y.panicked == "" {
		cx, _ := c09judge1(bound, ref.lcs, ref.egfFirst, x)
		cy, _ := c09judge1(bound, ref.lcs, ref.egfSecond, y)
		if cx == "" && cy == "" {
			return "asymmetric:equal-length-alignment-length"
		}
	}
	return "asymmetric"
}

func (h *c09h) d1Point(a, b string, sa, sb *obiseq.BioSequence) {
	r := h.r
	got := c09runD1(sa, sb)
	r.Eval(1)
	r.Trans(1)
	c := c09case{Kind: "d1", c09call: c09call{A: a, B: b}}
	dist := c09lev(a, b)
	// (classification counters: from the reference distance, whatever the kernel answers)
	switch {
	case dist == 0:
		r.Count("d1_identical", 1)
	case dist == 1:
		r.Count("d1_distance1", 1)
	default:
		r.Count("d1_distance>=2", 1)
	}
	if got.panicked != "" {
		h.violate("D1Or0", "panic", c, "panics: "+got.panicked)
		return
	}
	switch {
	case dist == 0:
		if got.d != 0 {
			h.violate("D1Or0", "identical-not-0", c, fmt.Sprintf("identical sequences, got %d", got.d))
		}
	case dist == 1:
		if got.d != 1 {
			h.violate("D1Or0", "missed-d1", c, fmt.Sprintf("edit distance is 1, got %d", got.d))
			break
		}
		if msg := c09editReproduces(a, b, got); msg != "" {
			h.violate("D1Or0", "edit-not-reproduced", c, fmt.Sprintf("got (1, pos=%d, %q, %q): %s", got.pos, got.a1, got.a2, msg))
		}
	default:
		if got.d != -1 {
			h.violate("D1Or0", "spurious", c, fmt.Sprintf("edit distance is %d, got %d", dist, got.d))
		}
	}
}

// d1Pair: both orders and the symmetry of the verdict
func (h *c09h) d1Pair(a, b string, sa, sb *obiseq.BioSequence) {
	h.d1Point(a, b, sa, sb)
	if a == b {
		return
	}
	h.d1Point(b, a, sb, sa)
	x, y := c09runD1(sa, sb), c09runD1(sb, sa)
	if x.panicked == "" && y.panicked == "" && x.d != y.d {
		h.violate("D1Or0", "asymmetric", c09case{Kind: "d1", c09call: c09call{A: a, B: b}}, fmt.Sprintf("D1Or0(a,b)=%d but D1Or0(b,a)=%d", x.d, y.d))
	}
}

// c09editReproduces: applying (pos, a1, a2) to one sequence yields the other.
func c09editReproduces(a, b string, g c09d1res) string {
	p := g.pos
	switch {
	case g.a1 != '-' && g.a2 != '-':
		if len(a) != len(b) || p < 0 || p >= len(a) {
			return "substitution reported but position/lengths do not fit"
		}
		if a[p] != g.a1 || b[p] != g.a2 {
			return "reported symbols are not the symbols at the position"
		}
		if a[:p]+string(g.a2)+a[p+1:] != b {
			return "substituting does not yield the second sequence"
		}
	case g.a2 == '-' && g.a1 != '-':
		if p < 0 || p >= len(a) || a[p] != g.a1 {
			return "reported symbol of the first sequence is not at the position"
		}
		if a[:p]+a[p+1:] != b {
			return "deleting the position from the first sequence does not yield the second"
		}
	case g.a1 == '-' && g.a2 != '-':
		if p < 0 || p >= len(b) || b[p] != g.a2 {
			return "reported symbol of the second sequence is not at the position"
		}
		if b[:p]+b[p+1:] != a {
			return "deleting the position from the second sequence does not yield the first"
		}
	default:
		return "both symbols are gaps"
	}
	return ""
}

// ---------------------------------------------------------------- structured long pairs

// deterministic non-repetitive base sequence (fixed linear congruential generator; this only
// fixes the family of structured cases, every member of the family is executed)
func c09base(n int) string {
	x := uint32(12345)
	b := make([]byte, n)
	for i := range b {
		x = x*1664525 + 1013904223
		b[i] = "acgt"[(x>>24)&3]
	}
	return string(b)
}

func c09positions(n, L int, pattern string) []int {
	out := make([]int, 0, n)
	for k := 0; k < n; k++ {
		switch pattern {
		case "start":
			out = append(out, 1+2*k)
		case "end":
			out = append(out, L-2-2*k)
		case "spread":
			out = append(out, (k+1)*L/(n+1))
		case "mid":
			out = append(out, L/2+2*k)
		}
	}
	return out
}

func c09delete(s string, pos []int) string {
	del := map[int]bool{}
	for _, p := range pos {
		del[p] = true
	}
	var sb strings.Builder
	for i := 0; i < len(s); i++ {
		if !del[i] {
			sb.WriteByte(s[i])
		}
	}
	return sb.String()
}

func c09subst(s string, pos []int) string {
	b := []byte(s)
	for _, p := range pos {
		b[p] = "acgt"[(strings.IndexByte("acgt", b[p])+1)&3]
	}
	return string(b)
}

type c09long struct{ a, b, what string }

func c09longPairs(thorough bool) []c09long {
	lengths := []int{60, 151}
	maxDelA, maxDelB, maxSub := 6, 2, 3
	if thorough {
		lengths = []int{60, 151, 300}
		maxDelA, maxDelB, maxSub = 6, 3, 4
	}
	placements := [][2]string{{"start", "end"}, {"end", "start"}, {"spread", "spread"}, {"mid", "mid"}}
	var out []c09long
	for _, L := range lengths {
		base := c09base(L)
		for da := 0; da <= maxDelA; da++ {
			for db := 0; db <= maxDelB; db++ {
				for ns := 0; ns <= maxSub; ns++ {
					for _, pl := range placements {
						pa := c09positions(da, L, pl[0])
						pb := c09positions(db, L, pl[1])
						if pl[0] == pl[1] {
							// same region: shift B's edits so that they do not coincide with A's
							for i := range pb {
								pb[i] += 7
							}
						}
						ps := c09positions(ns, L, "spread")
						for i := range ps {
							ps[i] += 3
						}
						a := c09delete(base, pa)
						b := c09delete(c09subst(base, ps), pb)
						out = append(out, c09long{a, b, fmt.Sprintf("L=%d delA=%d(%s) delB=%d(%s) sub=%d", L, da, pl[0], db, pl[1], ns)})
						if pl[0] == "spread" && ns > 0 {
							// IUPAC variant: the substituted positions carry ambiguity codes, compatible
							// ('n') in one sequence, possibly incompatible ('r','y') in the other
							ai := []byte(base)
							bi := []byte(base)
							for i, p := range ps {
								bi[p] = 'n'
								ai[p+5] = "ry"[i&1]
							}
							out = append(out, c09long{c09delete(string(ai), pa), c09delete(string(bi), pb),
								fmt.Sprintf("L=%d delA=%d delB=%d iupac=%d", L, da, db, ns)})
						}
					}
				}
			}
		}
	}
	return out
}

// ---------------------------------------------------------------- the test

// phase 0: every ordered pair of IUPAC symbols as two one-base sequences. The first pass
// (report=false, every shard) records the pairs the kernel compares differently from the standard
// table; they key every later failure on IUPAC input. The second pass reports them.
func (h *c09h) symbolPairs(report bool) {
	broken := false
	var bad [][2]byte
	for i := 0; i < len(c09iupacAlphabet); i++ {
		for j := 0; j < len(c09iupacAlphabet); j++ {
			x, y := c09iupacAlphabet[i], c09iupacAlphabet[j]
			got := c09runLCS(c09seq(string(x)), c09seq(string(y)), -1, false, nil)
			want := 0
			if c09compatible(x, y) {
				want = 1
			}
			fails := got.panicked != "" || got.lcs != want
			if fails {
				if got.panicked != "" || got.alen != 1 || got.lcs < 0 || got.lcs > 1 || (i < 4 && j < 4) {
					// not a compatibility verdict, or plain bases compared wrongly: the kernel is
					// broken in general, nothing is attributed to the symbol table
					broken = true
				}
				bad = append(bad, [2]byte{x, y})
			}
			if report {
				h.r.Eval(1)
				h.r.Count("iupac_symbol_pairs", 1)
				if fails {
					h.violate("FastLCSScore", "wrong-lcs", c09case{Kind: "lcs", c09call: c09call{A: string(x), B: string(y), Bound: -1}, Buf: "nil"},
						fmt.Sprintf("symbols %q and %q: IUPAC-compatible=%v but the kernel answers %v", x, y, want == 1, got))
				}
			}
		}
	}
	if !report {
		if broken {
			bad = nil
		}
		h.badPairs = bad
	}
}

func TestVerifC09(t *testing.T) {
	log.SetOutput(io.Discard)
	// a logrus Fatal inside a kernel unwinds like a panic (c09runLCS / c09runD1 / c09runByte turn it into an answer
	// that the oracle judges) instead of ending the process
	log.StandardLogger().ExitFunc = func(code int) { panic(fmt.Sprintf("log.Fatal (exit status %d)", code)) }
	r := verifkit.New("C09")
	defer r.Write()
	h := &c09h{r: r}
	h.symbolPairs(false)

	if rc := r.ReplayCase(); rc != nil {
		var c c09case
		if err := json.Unmarshal(rc, &c); err != nil {
			t.Fatal(err)
		}
		c09replay(h, c)
		return
	}

	thorough := verifkit.Thorough()
	maxLen, d1All, d1Len := 5, 5, 6
	iupac5Len, iupac15Len := 3, 2
	longBound := 9
	if thorough {
		maxLen, d1All, d1Len = 6, 6, 7
		iupac5Len, iupac15Len = 4, 3
	}
	maxBound := 2*maxLen + 1
	r.Bound("acgt_pairs_max_length", maxLen)
	r.Bound("error_bounds", fmt.Sprintf("-1..%d (long pairs -1..%d, IUPAC -1..3)", maxBound, longBound))
	r.Bound("d1or0", fmt.Sprintf("all ordered pairs up to length %d; up to length %d when the lengths differ by at most 2", d1All, d1Len))
	r.Bound("iupac", fmt.Sprintf("all pairs of the 15 IUPAC symbols; {a,c,r,n,w} length<=%d; all 15 symbols length<=%d", iupac5Len, iupac15Len))
	r.Bound("buffers", "nil, one long-lived reused buffer per shard, all-ones pre-filled buffer; explicit two-call histories")
	r.Bound("modes", "FastLCSScore and FastLCSEGFScore")

	k := 0 // work item index

	// ---- phase 0: IUPAC symbol pairs
	if r.Mine(k) {
		h.symbolPairs(true)
	}
	k++

	// ---- phase 1: all ordered pairs over {a,c,g,t} (enumerated as unordered pairs, both orders run)
	strs := verifkit.AllStrings("acgt", 0, maxLen)
	seqs := make([]*obiseq.BioSequence, len(strs))
	for i, s := range strs {
		seqs[i] = obiseq.NewBioSequence("s", []byte(s), "")
	}
	// work items are interleaved from both ends so that shards get equal shares of the triangle
	for ia := range strs {
		if r.Mine(k) {
			a := strs[ia]
			for ib := ia; ib < len(strs); ib++ {
				b := strs[ib]
				ref := h.reference(a, b)
				r.State(a + "|" + b)
				r.State(b + "|" + a)
				for bound := -1; bound <= maxBound; bound++ {
					h.lcsPair(a, b, seqs[ia], seqs[ib], bound, false, ref)
					h.lcsPair(a, b, seqs[ia], seqs[ib], bound, true, ref)
				}
			}
			if r.Expired() {
				return
			}
		}
		k++
	}

	// ---- phase 2: IUPAC
	for _, spec := range []struct {
		alpha string
		n     int
	}{{"acrnw", iupac5Len}, {c09iupacAlphabet, iupac15Len}} {
		is := verifkit.AllStrings(spec.alpha, 0, spec.n)
		iseqs := make([]*obiseq.BioSequence, len(is))
		for i, s := range is {
			iseqs[i] = obiseq.NewBioSequence("s", []byte(s), "")
		}
		for ia, a := range is {
			if r.Mine(k) {
				for ib := ia; ib < len(is); ib++ {
					b := is[ib]
					ref := h.reference(a, b)
					r.State(a + "|" + b)
					r.State(b + "|" + a)
					for bound := -1; bound <= 3; bound++ {
						h.lcsPair(a, b, iseqs[ia], iseqs[ib], bound, false, ref)
						h.lcsPair(a, b, iseqs[ia], iseqs[ib], bound, true, ref)
					}
					r.Count("iupac_pairs", 1)
				}
				if r.Expired() {
					return
				}
			}
			k++
		}
	}

	// ---- phase 3: structured long pairs x every bound
	for _, lp := range c09longPairs(thorough) {
		if r.Mine(k) {
			ref := h.reference(lp.a, lp.b)
			r.State(lp.a + "|" + lp.b)
			r.State(lp.b + "|" + lp.a)
			sa, sb := obiseq.NewBioSequence("a", []byte(lp.a), ""), obiseq.NewBioSequence("b", []byte(lp.b), "")
			for bound := -1; bound <= longBound; bound++ {
				h.lcsPair(lp.a, lp.b, sa, sb, bound, false, ref)
				h.lcsPair(lp.a, lp.b, sa, sb, bound, true, ref)
			}
			r.Count("long_pairs", 1)
			if r.Expired() {
				return
			}
		}
		k++
	}

	// ---- phase 4: buffer histories: every ordered pair of calls of a fixed call set
	calls := c09historyCalls()
	r.Bound("history_call_set", len(calls))
	for _, first := range calls {
		if r.Mine(k) {
			for _, second := range calls {
				var buf []uint64
				c09runLCS(c09seq(first.A), c09seq(first.B), first.Bound, first.EGF, &buf)
				got := c09runLCS(c09seq(second.A), c09seq(second.B), second.Bound, second.EGF, &buf)
				want := c09runLCS(c09seq(second.A), c09seq(second.B), second.Bound, second.EGF, nil)
				r.Eval(1)
				r.Trans(2)
				r.Count("history_pairs", 1)
				if got != want {
					h.violate(c09site(second.EGF), "buffer-dependent", c09case{Kind: "lcs", c09call: second, Buf: "hist", Hist: []c09call{first}},
						fmt.Sprintf("after one earlier call on the same buffer: %v, with no buffer: %v", got, want))
				}
			}
		}
		k++
	}
	if r.Expired() {
		return
	}

	// ---- phase 5: D1Or0
	dstrs := verifkit.AllStrings("acgt", 0, d1Len)
	dseqs := make([]*obiseq.BioSequence, len(dstrs))
	for i, s := range dstrs {
		dseqs[i] = obiseq.NewBioSequence("s", []byte(s), "")
	}
	for ia, a := range dstrs {
		if r.Mine(k) {
			for ib := ia; ib < len(dstrs); ib++ {
				b := dstrs[ib]
				if len(b) > d1All && len(b)-len(a) > 2 {
					break // strings are ordered by length
				}
				h.d1Pair(a, b, dseqs[ia], dseqs[ib])
			}
			if r.Expired() {
				return
			}
		}
		k++
	}

	// ---- phase 6: D1Or0 on a longer sequence: every single edit and every pair of edits
	{
		base := c09base(40)
		edit := func(s string, kind, p int) string {
			switch kind {
			case 0: // substitution
				return c09subst(s, []int{p})
			case 1: // deletion
				return s[:p] + s[p+1:]
			default: // insertion of the successor of the base at p
				return s[:p] + c09subst(s[p:p+1], []int{0}) + s[p:]
			}
		}
		sb := obiseq.NewBioSequence("b", []byte(base), "")
		for p1 := 0; p1 < len(base); p1++ {
			if r.Mine(k) {
				for k1 := 0; k1 < 3; k1++ {
					v1 := edit(base, k1, p1)
					h.d1Pair(v1, base, obiseq.NewBioSequence("v", []byte(v1), ""), sb)
					r.Count("d1_long_single_edit", 1)
					for p2 := 0; p2 < len(v1); p2++ {
						for k2 := 0; k2 < 3; k2++ {
							v2 := edit(v1, k2, p2)
							h.d1Pair(v2, base, obiseq.NewBioSequence("v", []byte(v2), ""), sb)
							r.Count("d1_long_double_edit", 1)
						}
					}
				}
			}
			k++
		}
	}

	if r.Expired() {
		return
	}

	// ---- phase 7: the exported byte-slice entry point FastLCSEGFScoreByte on raw input (the two
	// wrappers only ever pass the lower-cased bytes of a BioSequence): every ordered pair of
	// strings over {a,c,g,r} x {lower,upper case} up to a small length, nil slices for the empty
	// sequence, both values of the endgapfree flag
	rawLen := 3
	if thorough {
		rawLen = 4
	}
	r.Bound("raw_bytes", fmt.Sprintf("FastLCSEGFScoreByte: all ordered pairs over acgrACGR up to length %d x bounds -1..3 x endgapfree x {nil, reused buffer}", rawLen))
	{
		rs := verifkit.AllStrings("acgrACGR", 0, rawLen)
		low := make([]string, len(rs))
		for i, x := range rs {
			low[i] = strings.ToLower(x)
		}
		for ia, a := range rs {
			if r.Mine(k) {
				for ib := ia; ib < len(rs); ib++ {
					b := rs[ib]
					ref := h.reference(low[ia], low[ib])
					r.State("raw:" + a + "|" + b)
					r.State("raw:" + b + "|" + a)
					for bound := -1; bound <= 3; bound++ {
						h.rawPair(a, b, bound, false, ref)
						h.rawPair(a, b, bound, true, ref)
					}
					if a != low[ia] || b != low[ib] {
						r.Count("raw_pairs_with_upper_case", 1)
					}
				}
				if r.Expired() {
					return
				}
			}
			k++
		}
	}

	// ---- phase 8: very unequal lengths x every bound (the band is as wide as the length
	// difference): every string up to length 2 (3) against sequences of 6..13, 20, 21, 40, 41 bases
	{
		shortLen := 2
		if thorough {
			shortLen = 3
		}
		shorts := verifkit.AllStrings("acgt", 0, shortLen)
		r.Bound("unequal_lengths", fmt.Sprintf("every string up to length %d x sequences of 6..13,20,21,40,41 bases x bounds -1..length+2", shortLen))
		for _, L := range []int{6, 7, 8, 9, 10, 11, 12, 13, 20, 21, 40, 41} {
			if r.Mine(k) {
				// two long sequences: a deterministic mixed one and a low-complexity one
				for _, a := range []string{c09base(L), strings.Repeat("ac", L)[:L]} {
					sa := obiseq.NewBioSequence("a", []byte(a), "")
					for _, b := range shorts {
						sb := c09seq(b)
						ref := h.reference(a, b)
						r.State(a + "|" + b)
						r.State(b + "|" + a)
						for bound := -1; bound <= L+2; bound++ {
							h.lcsPair(a, b, sa, sb, bound, false, ref)
							h.lcsPair(a, b, sa, sb, bound, true, ref)
						}
						r.Count("unequal_pairs", 1)
					}
				}
				if r.Expired() {
					return
				}
			}
			k++
		}
	}

	// ---- phase 9: lengths around the capacities of the packed score / path-length word
	// (2^8, 2^15, 2^16 and the 30000 used for "not available" cells): near-identical pairs with
	// small bounds, and a very long sequence against 0..2 bases with bounds around the length
	// difference. Expected answers are proved by elementary arguments (c09nearExact), no quadratic
	// table is filled for the long ones.
	{
		xl := []int{254, 255, 256, 257, 29999, 30000, 30001, 30002, 30003, 32766, 32767, 32768, 32769, 65533, 65534, 65535, 65536, 65537, 65538}
		if thorough {
			xl = append(xl, 1023, 1024, 1025, 4095, 4096, 4097, 16383, 16384, 16385, 70000, 100000, 131071, 131072, 131073)
		}
		r.Bound("extreme_lengths", fmt.Sprint(xl))
		for _, L := range xl {
			if r.Mine(k) {
				h.extremeLength(L)
				if r.Expired() {
					return
				}
			}
			k++
		}
	}

	r.RequireNonVacuous("raw_pairs_with_upper_case")
	r.RequireNonVacuous("unequal_pairs")
	r.RequireNonVacuous("xl_within_bound")
	r.RequireNonVacuous("xl_beyond_bound")
	r.RequireNonVacuous("within_bound")
	r.RequireNonVacuous("exactly_at_bound")
	r.RequireNonVacuous("beyond_bound")
	r.RequireNonVacuous("d1_distance1")
	r.RequireNonVacuous("long_pairs")
	r.Sample(c09case{Kind: "lcs", c09call: c09call{A: "acgta", B: "cgt", Bound: 2}, Buf: "nil"})
	r.Sample(c09case{Kind: "d1", c09call: c09call{A: "acgt", B: "act"}})
}

// fixed call set for the buffer histories: short and long pairs, all bounds that change the band
// width, both modes (so that a small band is computed on a buffer left by a wide band and back)
func c09historyCalls() []c09call {
	base := c09base(80)
	pairs := [][2]string{
		{"", ""}, {"a", ""}, {"acgt", "acgt"}, {"acgt", "agt"}, {"acgt", "tgca"}, {"aacc", "ccaa"},
		{"acgtacgt", "acgacgtt"}, {"acgtacgtac", "gtacg"},
		{base, base}, {base, c09delete(base, []int{5, 40})}, {c09delete(base, []int{70}), c09subst(base, []int{10, 30})},
		{base[:40], base[20:60]},
	}
	var out []c09call
	for _, p := range pairs {
		for _, bound := range []int{-1, 0, 1, 3, 6} {
			out = append(out, c09call{A: p[0], B: p[1], Bound: bound, EGF: false})
		}
		out = append(out, c09call{A: p[0], B: p[1], Bound: 2, EGF: true})
		out = append(out, c09call{A: p[1], B: p[0], Bound: -1, EGF: true})
	}
	return out
}

func c09replay(h *c09h, c c09case) {
	if c.Kind == "xl" {
		h.extremeLength(c.XL)
		return
	}
	if c.Raw {
		ref := h.reference(strings.ToLower(c.A), strings.ToLower(c.B))
		h.rawPair(c.A, c.B, c.Bound, c.EGF, ref)
		return
	}
	sa, sb := c09seq(c.A), c09seq(c.B)
	switch c.Kind {
	case "d1":
		h.d1Pair(c.A, c.B, sa, sb)
	case "lcs":
		ref := h.reference(c.A, c.B)
		if c.Buf == "hist" {
			var buf []uint64
			for _, p := range c.Hist {
				c09runLCS(c09seq(p.A), c09seq(p.B), p.Bound, p.EGF, &buf)
			}
			got := c09runLCS(sa, sb, c.Bound, c.EGF, &buf)
			want := c09runLCS(sa, sb, c.Bound, c.EGF, nil)
			h.r.Eval(1)
			if got != want {
				h.violate(c09site(c.EGF), "buffer-dependent", c, fmt.Sprintf("after the stored history on one buffer: %v, with no buffer: %v", got, want))
			}
		}
		h.lcsPair(c.A, c.B, sa, sb, c.Bound, c.EGF, ref)
	}
}

// ---------------------------------------------------------------- raw byte-slice entry point

func c09bytes(x string) []byte {
	if x == "" {
		return nil // the empty sequence as a nil slice
	}
	return []byte(x)
}

func c09runByte(a, b string, bound int, egf bool, buf *[]uint64) (res c09res) {
	defer func() {
		if r := recover(); r != nil {
			res = c09res{panicked: fmt.Sprint(r)}
		}
	}()
	s, l, _ := FastLCSEGFScoreByte(c09bytes(a), c09bytes(b), bound, egf, buf)
	return c09res{lcs: s, alen: l}
}

// rawOrdered: one call of FastLCSEGFScoreByte on raw bytes. Upper and lower case letters denote
// the same IUPAC symbols: the answer on the lower-cased input is judged against the reference as
// everywhere else (ordinary keys of the wrappers: same code), and the answer on the raw input must
// be that very answer (one key for whatever a case-dependent comparison breaks).
func (h *c09h) rawOrdered(a, b string, bound int, egf bool, ref c09ref) c09res {
	r := h.r
	la, lb := strings.ToLower(a), strings.ToLower(b)
	call := c09call{A: la, B: lb, Bound: bound, EGF: egf}
	cs := c09case{Kind: "lcs", c09call: c09call{A: a, B: b, Bound: bound, EGF: egf, Raw: true}, Buf: "nil"}
	got := c09runByte(a, b, bound, egf, nil)
	r.Eval(1)
	r.Trans(1)
	r.Count("raw_byte_calls", 1)
	lowGot := got
	if la != a || lb != b {
		lowGot = c09runByte(la, lb, bound, egf, nil)
		r.Eval(1)
		r.Trans(1)
		if got != lowGot {
			h.violate("FastLCSEGFScoreByte", "upper-case-input-differs", cs, fmt.Sprintf("got %v, the lower-cased input gives %v", got, lowGot))
		}
	}
	if cl, msg := c09judgeLCS(call, ref, lowGot); cl != "" {
		h.violate(c09site(egf), cl, c09case{Kind: "lcs", c09call: c09call{A: la, B: lb, Bound: bound, EGF: egf, Raw: true}, Buf: "nil"}, msg)
	}
	got2 := c09runByte(a, b, bound, egf, &h.shared)
	r.Eval(1)
	r.Trans(1)
	if got2 != got {
		cs.Note = "long-lived reused buffer"
		h.violate("FastLCSEGFScoreByte", "buffer-dependent", cs, fmt.Sprintf("reused buffer %v, nil buffer %v", got2, got))
	}
	return lowGot
}

// rawPair: both argument orders; the symmetry is judged on the answers of the lower-cased input
// (a case-dependent answer was reported by rawOrdered already).
func (h *c09h) rawPair(a, b string, bound int, egf bool, ref c09ref) {
	x := h.rawOrdered(a, b, bound, egf, ref)
	if a == b {
		return
	}
	y := h.rawOrdered(b, a, bound, egf, ref.swap())
	if x != y {
		la, lb := strings.ToLower(a), strings.ToLower(b)
		h.violate(c09site(egf), c09asymClass(bound, egf, len(a) == len(b), ref, x, y),
			c09case{Kind: "lcs", c09call: c09call{A: la, B: lb, Bound: bound, EGF: egf, Raw: true}, Buf: "nil"},
			fmt.Sprintf("f(a,b)=%v but f(b,a)=%v", x, y))
	}
}

// ---------------------------------------------------------------- extreme lengths

func c09isSubseq(short, long string) bool {
	i := 0
	for j := 0; j < len(long) && i < len(short); j++ {
		if short[i] == long[j] {
			i++
		}
	}
	return i == len(short)
}

// c09nearExact proves the exact (LCS, shortest alignment length) of two sequences over {a,c,g,t}
// (plain equality, no ambiguity code) from a common subsequence of length mc known by
// construction. With n = len(short), m the LCS and `mis` the mismatch columns of an alignment:
// alignment length = len(a)+len(b)-m-mis and mis <= n-m.
//   - short is a subsequence of long          => m = n, mis = 0: (n, len(long))
//   - otherwise m <= n-1; the construction gives m >= mc, so mc must be n-1 (else: not provable,
//     harness error). Then mis <= 1 and the length is len(long) when an alignment with n-1 matches,
//     one mismatch and gaps in `short` only exists, else len(long)+1. For len(long)-len(short) = 0
//     that is "Hamming distance 1"; for 1 it is "some single deletion of long is at Hamming
//     distance 1 of short" (prefix / suffix mismatch counts).
func c09nearExact(a, b string, mc int) (int, int) {
	long, short := a, b
	if len(long) < len(short) {
		long, short = short, long
	}
	n, d := len(short), len(long)-len(short)
	if c09isSubseq(short, long) {
		return n, len(long)
	}
	if mc != n-1 {
		panic(fmt.Sprintf("harness: extreme-length family member not provable (mc=%d, n=%d)", mc, n))
	}
	switch d {
	case 0:
		hd := 0
		for i := 0; i < n; i++ {
			if long[i] != short[i] {
				hd++
			}
		}
		if hd == 1 {
			return n - 1, n
		}
		return n - 1, n + 1
	case 1:
		// suf[p] = mismatches of long[i+1] vs short[i] for i >= p
		suf := make([]int32, n+1)
		for i := n - 1; i >= 0; i-- {
			suf[i] = suf[i+1]
			if long[i+1] != short[i] {
				suf[i]++
			}
		}
		pre := int32(0) // mismatches of long[i] vs short[i] for i < p
		for p := 0; p <= n; p++ {
			if pre+suf[p] == 1 {
				return n - 1, n + 1
			}
			if p < n && long[p] != short[p] {
				pre++
			}
		}
		return n - 1, n + 2
	}
	panic("harness: extreme-length family member with a length difference above 1 must be a subsequence")
}

type c09xl struct {
	L         int
	a, b      string
	lcs, glen int
	what      string
}

func c09extremeFamily(L int) []c09xl {
	base := c09base(L)
	var out []c09xl
	add := func(a, b string, mc int, what string) {
		m, l := c09nearExact(a, b, mc)
		out = append(out, c09xl{L, a, b, m, l, fmt.Sprintf("L=%d %s", L, what)})
	}
	add(base, base, L, "identical")
	for _, p := range []int{0, L / 2, L - 1} {
		add(base, c09delete(base, []int{p}), L-1, fmt.Sprintf("one deletion at %d", p))
		add(base, c09subst(base, []int{p}), L-1, fmt.Sprintf("one substitution at %d", p))
	}
	add(base, c09delete(base, []int{1, L - 2}), L-2, "two deletions in one sequence")
	add(base, c09delete(base, []int{1, L / 2, L - 2}), L-3, "three deletions in one sequence")
	add(base, c09delete(c09subst(base, []int{L / 3}), []int{2 * L / 3}), L-2, "one substitution and one deletion")
	add(c09delete(base, []int{L / 4}), c09delete(base, []int{3 * L / 4}), L-2, "one deletion in each sequence")
	// one ambiguity code: 'n' is compatible with every base, every column matches
	nb := []byte(base)
	nb[L/2], nb[L-1] = 'n', 'n'
	out = append(out, c09xl{L, base, string(nb), L, L, fmt.Sprintf("L=%d two positions replaced by n", L)})
	return out
}

func c09xlSuffix(a, b string) string {
	la, lb := len(a), len(b)
	if la < lb {
		la, lb = lb, la
	}
	switch {
	case la > 65500:
		// the 16-bit fields hold scores up to 65535 and path lengths up to 65534; the kernel also
		// scores in-band paths a few columns longer than the optimal one
		return ":length>65500"
	case la-lb > 30000:
		return ":length-difference>30000"
	}
	return ":long"
}

// xlOrdered: one call configuration on an extreme-length pair with a known exact answer
// (lcs, glen). Global mode: the full statement. End-gap-free mode: the alignment length depends on
// the reading of the mode and lies between the LCS and glen under every reading, so within the
// (global) bound the LCS is demanded exactly and the length must be in [lcs, glen]; beyond it only
// malformed answers are reported.
func (h *c09h) xlOrdered(p c09xl, a, b string, sa, sb *obiseq.BioSequence, bound int, egf bool, bufs [2]*[]uint64) c09res {
	r := h.r
	call := c09call{A: a, B: b, Bound: bound, EGF: egf}
	cs := c09case{Kind: "xl", XL: p.L, c09call: c09call{Bound: bound, EGF: egf}, Note: p.what}
	if len(a)+len(b) <= 600 {
		cs = c09case{Kind: "lcs", c09call: call, Buf: "nil", Note: p.what}
	}
	suffix := c09xlSuffix(a, b)
	report := func(class, msg string) {
		key := class
		if suffix != ":long" && class != "panic" && !strings.HasPrefix(class, "buffer-dependent") {
			key = "inexact" // one capacity limit shows as several failure classes
		}
		// h.violate builds the description from c.A / c.B: keep it readable
		c := cs
		if c.Kind == "xl" {
			c.A, c.B = fmt.Sprintf("<%d bases>", len(a)), fmt.Sprintf("<%d bases>", len(b))
		}
		h.violate(c09site(egf), key+suffix, c, msg)
	}
	got := c09runLCS(sa, sb, bound, egf, nil)
	r.Eval(1)
	r.Trans(1)
	diff := p.glen - p.lcs
	within := bound < 0 || diff <= bound
	if within {
		r.Count("xl_within_bound", 1)
	} else {
		r.Count("xl_beyond_bound", 1)
	}
	switch {
	case got.panicked != "":
		report("panic", "panics: "+got.panicked)
	case !egf:
		if cl, msg := c09judge1(bound, p.lcs, p.glen, got); cl != "" {
			report(cl, msg)
		}
	case within:
		if got.lcs != p.lcs || got.alen < p.lcs || got.alen > p.glen {
			report("wrong-lcs", fmt.Sprintf("got %v, exact LCS length is %d and the end-gap-free alignment length lies in [%d,%d]", got, p.lcs, p.lcs, p.glen))
		}
	default:
		if !(got.lcs == -1 && got.alen == -1) && (got.lcs < 0 || got.alen < got.lcs) {
			report("malformed", fmt.Sprintf("got %v: neither not-found nor a pair", got))
		}
	}
	// reused buffer (shared by every call of this length) and all-ones pre-filled buffer
	if g := c09runLCS(sa, sb, bound, egf, bufs[0]); g != got {
		report("buffer-dependent", fmt.Sprintf("reused buffer %v, nil buffer %v", g, got))
	}
	po := bufs[1]
	for try := 0; try < 2; try++ {
		*po = (*po)[:cap(*po)]
		for i := range *po {
			(*po)[i] = ^uint64(0)
		}
		c0 := cap(*po)
		g := c09runLCS(sa, sb, bound, egf, po)
		if cap(*po) == c0 {
			if g != got {
				report("buffer-dependent:arbitrary-content", fmt.Sprintf("buffer pre-filled with all-ones words: %v, nil buffer %v", g, got))
			}
			break
		}
	}
	r.Eval(2)
	r.Trans(2)
	return got
}

func (h *c09h) xlPair(p c09xl, sa, sb *obiseq.BioSequence, bound int, egf bool, bufs [2]*[]uint64) {
	x := h.xlOrdered(p, p.a, p.b, sa, sb, bound, egf, bufs)
	if p.a == p.b {
		return
	}
	y := h.xlOrdered(p, p.b, p.a, sb, sa, bound, egf, bufs)
	if x != y && !(egf && len(p.a) == len(p.b) && x.lcs == y.lcs) {
		// (end-gap-free, equal lengths: the length asymmetry is judged on the short pairs, where
		// the reference of every reading is computed)
		c := c09case{Kind: "xl", XL: p.L, c09call: c09call{A: fmt.Sprintf("<%d bases>", len(p.a)), B: fmt.Sprintf("<%d bases>", len(p.b)), Bound: bound, EGF: egf}, Note: p.what}
		class := "asymmetric"
		if sfx := c09xlSuffix(p.a, p.b); sfx != ":long" {
			class = "inexact"
		}
		h.violate(c09site(egf), class+c09xlSuffix(p.a, p.b), c, fmt.Sprintf("f(a,b)=%v but f(b,a)=%v", x, y))
	}
}

func (h *c09h) extremeLength(L int) {
	r := h.r
	var shared, poison []uint64
	bufs := [2]*[]uint64{&shared, &poison}
	fam := c09extremeFamily(L)
	if L <= 2100 {
		// the elementary proofs against the quadratic table, where the table is affordable
		for _, p := range fam {
			ref := h.reference(p.a, p.b)
			if ref.lcs != p.lcs || ref.glen != p.glen {
				panic(fmt.Sprintf("harness: c09nearExact disagrees with the quadratic reference on %s: (%d,%d) vs (%d,%d)", p.what, p.lcs, p.glen, ref.lcs, ref.glen))
			}
		}
	}
	for _, p := range fam {
		sa, sb := obiseq.NewBioSequence("a", []byte(p.a), ""), obiseq.NewBioSequence("b", []byte(p.b), "")
		r.State(fmt.Sprintf("xl:%s", p.what))
		for bound := 0; bound <= 4; bound++ {
			h.xlPair(p, sa, sb, bound, false, bufs)
			h.xlPair(p, sa, sb, bound, true, bufs)
		}
		r.Count("xl_near_pairs", 1)
	}
	// one very long sequence against 0, 1 or 2 of its own bases (subsequences: LCS = their
	// length, shortest alignment = L), unbounded and with bounds around the number of differences
	if L >= 1000 {
		base := c09base(L)
		sa := obiseq.NewBioSequence("a", []byte(base), "")
		for _, b := range []string{"", base[L-1:], base[:1], base[:1] + base[L-1:]} {
			p := c09xl{L, base, b, len(b), L, fmt.Sprintf("L=%d against %q", L, b)}
			sb := obiseq.NewBioSequence("b", []byte(b), "")
			r.State(fmt.Sprintf("xl:%s", p.what))
			d := L - len(b)
			for _, bound := range []int{-1, d - 1, d, d + 1} {
				h.xlPair(p, sa, sb, bound, false, bufs)
				h.xlPair(p, sa, sb, bound, true, bufs)
			}
			r.Count("xl_unequal_pairs", 1)
		}
	}
}
