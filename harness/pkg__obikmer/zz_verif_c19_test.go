//go:build verif

package obikmer

// C19 — exact De Bruijn weights and heaviest path; strand-invariant canonical k-mers; exact 4-mer tables.
//
// Bounded exhaustive enumeration on the real code (no sampling):
//   graph  : every set of 1..2 sequences over {a,c,g,t} up to a length bound, counts {1,2}, k=2..4;
//            single sequences with 1..2 IUPAC ambiguity codes; every window of fixed 80-mers alone and
//            paired with every single-edit variant of the window for k in {5,16,31}.
//   index  : every sequence over {a,c,g,t} up to a length bound for small k, and every window of fixed
//            80-mers for EVERY k-mer size 2..64 asked of NewKmerMap in BOTH modes (the constructor adapts a
//            size of the wrong parity, the size it settled on is read from the map), with every key width
//            that holds 2k bits; Query on an index built by NewKmerMap from the 80-mers (same sizes, modes,
//            widths) with windows of the 80-mers on both strands.
//   4-mers : Count4Mer on every sequence up to a length bound (fresh and recycled buffers), Common4Mer on
//            all pairs of a smaller bound; every ordered pair of sequences (empty one included) through one
//            recycled buffer / table in the three ways the commands pass them.
//   histories: Push, query (weights, HasCycle, HaviestPath, LongestConsensus), Push again, query again ...
//            on one graph object, every ordered pair of short sequences; the k-mer index called with one
//            recycled result buffer across sequences.
//   every k : the graph for EVERY k = 2..31 on windows of the 80-mers with their single-edit variants (thin
//            grid), and every multiset of three short sequences (three-way branches).
// Oracles are written on strings / plain integers in this file (see c19graphCheck, c19indexCheck).

import (
	"encoding/json"
	"fmt"
	"io"
	"os"
	"runtime"
	"runtime/debug"
	"sort"
	"strings"
	"syscall"
	"testing"

	"git.metabarcoding.org/obitools/obitools4/obitools4/pkg/obifp"
	"git.metabarcoding.org/obitools/obitools4/obitools4/pkg/obiseq"
	"git.metabarcoding.org/obitools/obitools4/obitools4/pkg/verifkit"
	log "github.com/sirupsen/logrus"
)

type c19case struct {
	Kind   string   `json:"kind"`        // graph | graphhist | index | query | count4 | count4hist | common4
	K      int      `json:"k,omitempty"` // index, query: the k-mer size NewKmerMap is ASKED for
	Seqs   []string `json:"seqs"`        // query: the query, then the indexed sequences
	Counts []int    `json:"counts,omitempty"`
	Sparse bool     `json:"sparse,omitempty"`
	Width  int      `json:"width,omitempty"`
}

// ---------------------------------------------------------------------------------------------
// reference helpers (strings)

var c19iupac = map[byte]string{
	'a': "a", 'c': "c", 'g': "g", 't': "t",
	'r': "ag", 'y': "ct", 's': "cg", 'w': "at", 'k': "gt", 'm': "ac",
	'b': "cgt", 'd': "agt", 'h': "act", 'v': "acg", 'n': "acgt",
}

func c19code(b byte) uint64 {
	switch b {
	case 'a':
		return 0
	case 'c':
		return 1
	case 'g':
		return 2
	case 't':
		return 3
	}
	panic("c19code: not acgt: " + string(b))
}

func c19pure(s string) bool {
	for i := 0; i < len(s); i++ {
		switch s[i] {
		case 'a', 'c', 'g', 't':
		default:
			return false
		}
	}
	return true
}

// c19enc encodes a pure k-mer (k <= 32), first base most significant, a=0 c=1 g=2 t=3.
func c19enc(s string) uint64 {
	var x uint64
	for i := 0; i < len(s); i++ {
		x = x<<2 | c19code(s[i])
	}
	return x
}

func c19dec(x uint64, k int) string {
	b := make([]byte, k)
	for i := k - 1; i >= 0; i-- {
		b[i] = "acgt"[x&3]
		x >>= 2
	}
	return string(b)
}

func c19rc(s string) string {
	b := make([]byte, len(s))
	for i := 0; i < len(s); i++ {
		var c byte
		switch s[len(s)-1-i] {
		case 'a':
			c = 't'
		case 'c':
			c = 'g'
		case 'g':
			c = 'c'
		case 't':
			c = 'a'
		case 'r':
			c = 'y'
		case 'y':
			c = 'r'
		case 'k':
			c = 'm'
		case 'm':
			c = 'k'
		case 'b':
			c = 'v'
		case 'v':
			c = 'b'
		case 'd':
			c = 'h'
		case 'h':
			c = 'd'
		default: // s w n
			c = s[len(s)-1-i]
		}
		b[i] = c
	}
	return string(b)
}

// c19expand lists every concrete expansion of an IUPAC string.
func c19expand(s string) []string {
	out := []string{""}
	for i := 0; i < len(s); i++ {
		alts := c19iupac[s[i]]
		nx := make([]string, 0, len(out)*len(alts))
		for _, p := range out {
			for j := 0; j < len(alts); j++ {
				nx = append(nx, p+string(alts[j]))
			}
		}
		out = nx
	}
	return out
}

// ---------------------------------------------------------------------------------------------
// De Bruijn graph

type c19wmap map[uint64]int

func c19wEqual(a c19wmap, g *DeBruijnGraph) bool {
	if len(a) != g.Len() {
		return false
	}
	for k, w := range a {
		if g.Weight(k) != w {
			return false
		}
	}
	return true
}

// c19models returns the weight models of the statement "sum over sequences of count x occurrences".
// For sequences over acgt both are identical. With ambiguity codes the statement leaves two readings:
//
//	A: an occurrence of k-mer K is a window compatible with K (each window counted once per compatible K);
//	B: the ambiguous sequence stands for all its expansions, each with the count of the sequence.
//
// minLen is the smallest sequence length that contributes (k per the statement).
func c19models(seqs []string, counts []int, k int, minLen int) (a, b c19wmap) {
	a, b = c19wmap{}, c19wmap{}
	for i, s := range seqs {
		if len(s) < minLen || len(s) < k {
			continue
		}
		if c19pure(s) {
			for p := 0; p+k <= len(s); p++ {
				c := c19enc(s[p : p+k])
				a[c] += counts[i]
				b[c] += counts[i]
			}
			continue
		}
		for p := 0; p+k <= len(s); p++ {
			for _, e := range c19expand(s[p : p+k]) {
				a[c19enc(e)] += counts[i]
			}
		}
		for _, e := range c19expand(s) {
			for p := 0; p+k <= len(e); p++ {
				b[c19enc(e[p:p+k])] += counts[i]
			}
		}
	}
	return
}

// c19modelRewalk is NOT a reading of the statement: it predicts the weights produced by the known defect
// of Push listed in known_findings.txt (the rest of the sequence is walked again once per expansion of an
// ambiguity code, so a window is counted once per expansion of everything that PRECEDES it). It only
// serves to keep the key of that finding fine: weights that fit neither reading of the statement and do
// not follow this pattern either are a different defect and get a different key.
func c19modelRewalk(seqs []string, counts []int, k int) c19wmap {
	m := c19wmap{}
	for i, s := range seqs {
		if len(s) < k {
			continue
		}
		mult := 1
		for p := 0; p+k <= len(s); p++ {
			if p > 0 {
				mult *= len(c19iupac[s[p-1]])
			}
			for _, e := range c19expand(s[p : p+k]) {
				m[c19enc(e)] += counts[i] * mult
			}
		}
	}
	return m
}

type c19wS struct {
	m map[uint64]int
	k int
}

func (w c19wS) String() string { return c19wStringNow(w.m, w.k) }

// c19wString is lazy: formatted only when a violation record is kept.
func c19wString(m map[uint64]int, k int) c19wS { return c19wS{m, k} }

func c19wStringNow(m map[uint64]int, k int) string {
	keys := make([]uint64, 0, len(m))
	for c := range m {
		keys = append(keys, c)
	}
	sort.Slice(keys, func(i, j int) bool { return keys[i] < keys[j] })
	var sb strings.Builder
	for _, c := range keys {
		fmt.Fprintf(&sb, "%s:%d ", c19dec(c, k), m[c])
	}
	return sb.String()
}

// c19dag analyses the ACTUAL node set of a graph with the adjacency of the statement
// (u -> v iff the last k-1 bases of u are the first k-1 bases of v).
type c19dag struct {
	k       int
	w       map[uint64]int
	cyclic  bool
	sources map[uint64]bool
	best    int // maximal total weight of a walk starting at a source (acyclic only)
}

func c19adj(u, v uint64, k int) bool {
	low := uint64(1)<<(2*uint(k-1)) - 1 // the k-1 last bases
	return v>>2 == u&low
}

func c19analyse(w map[uint64]int, k int) *c19dag {
	d := &c19dag{k: k, w: w, sources: map[uint64]bool{}}
	low := uint64(1)<<(2*uint(k-1)) - 1
	succ := func(u uint64) []uint64 {
		var out []uint64
		for b := uint64(0); b < 4; b++ {
			v := (u&low)<<2 | b
			if _, ok := w[v]; ok {
				out = append(out, v)
			}
		}
		return out
	}
	indeg := map[uint64]int{}
	for u := range w {
		for _, v := range succ(u) {
			indeg[v]++
		}
	}
	// Kahn
	var order []uint64
	var ready []uint64
	deg := map[uint64]int{}
	for u := range w {
		deg[u] = indeg[u]
		if indeg[u] == 0 {
			ready = append(ready, u)
			d.sources[u] = true
		}
	}
	for len(ready) > 0 {
		u := ready[len(ready)-1]
		ready = ready[:len(ready)-1]
		order = append(order, u)
		for _, v := range succ(u) {
			deg[v]--
			if deg[v] == 0 {
				ready = append(ready, v)
			}
		}
	}
	if len(order) != len(w) {
		d.cyclic = true
		return d
	}
	// longest (heaviest) walk from each node, reverse topological order
	from := map[uint64]int{}
	for i := len(order) - 1; i >= 0; i-- {
		u := order[i]
		m := 0
		for _, v := range succ(u) {
			if from[v] > m {
				m = from[v]
			}
		}
		from[u] = w[u] + m
	}
	for s := range d.sources {
		if from[s] > d.best {
			d.best = from[s]
		}
	}
	return d
}

// walkProblem validates a node path against the statement; "" when fine.
func (d *c19dag) walkProblem(path []uint64) (class, msg string) {
	if len(path) == 0 {
		return "no-path-on-acyclic-graph", "no path returned although the graph has no cycle"
	}
	tot := 0
	for i, n := range path {
		wn, ok := d.w[n]
		if !ok {
			return "invalid-walk", fmt.Sprintf("node %s of the path is not in the graph", c19dec(n, d.k))
		}
		if i > 0 && !c19adj(path[i-1], n, d.k) {
			return "invalid-walk", fmt.Sprintf("%s -> %s is not an edge", c19dec(path[i-1], d.k), c19dec(n, d.k))
		}
		tot += wn
	}
	if !d.sources[path[0]] {
		return "not-from-source", fmt.Sprintf("first node %s has a predecessor in the graph", c19dec(path[0], d.k))
	}
	if tot != d.best {
		return "not-maximal", fmt.Sprintf("path weight %d, heaviest walk from a source weighs %d", tot, d.best)
	}
	return "", ""
}

func c19try(f func()) (panicked string) {
	defer func() {
		if r := recover(); r != nil {
			panicked = fmt.Sprint(r)
			if len(panicked) > 200 {
				panicked = panicked[:200]
			}
		}
	}()
	f()
	return ""
}

type c19ctx struct {
	r      *verifkit.Result
	nviol  map[string]int
	seqobj map[string]*obiseq.BioSequence // (seq,count) -> object, read-only use
}

// violate formats the description only for the records that are kept (3 per key); all are counted.
func (x *c19ctx) violate(key string, c c19case, prefix func() string, format string, a ...any) {
	x.nviol[key]++
	if x.nviol[key] <= 3 {
		x.r.Violate(key, prefix()+fmt.Sprintf(format, a...), c)
	} else {
		x.r.Violate(key, "", c)
	}
}

func (x *c19ctx) seq(s string, count int) *obiseq.BioSequence {
	key := s + "/" + string(rune('0'+count))
	if o, ok := x.seqobj[key]; ok {
		return o
	}
	o := obiseq.NewBioSequence("s", []byte(s), "")
	o.SetCount(count)
	if len(x.seqobj) < 200000 {
		x.seqobj[key] = o
	}
	return o
}

func c19distinctKmers(s string, k int) bool {
	seen := map[string]bool{}
	for p := 0; p+k <= len(s); p++ {
		if seen[s[p:p+k]] {
			return false
		}
		seen[s[p:p+k]] = true
	}
	return true
}

func (x *c19ctx) graphCheck(c c19case) {
	r := x.r
	k := c.K
	var g *DeBruijnGraph
	if p := c19try(func() {
		if g = MakeDeBruijnGraph(k); g == nil {
			panic("MakeDeBruijnGraph returned nil")
		}
		for i, s := range c.Seqs {
			g.Push(x.seq(s, c.Counts[i]))
			r.Trans(1)
		}
	}); p != "" {
		x.violate("DeBruijnGraph.Push/panic", c, func() string { return fmt.Sprintf("k=%d seqs=%v counts=%v: ", k, c.Seqs, c.Counts) }, "%s", p)
		return
	}
	x.graphJudge(g, c, c, "")
}

// graphHistCheck: one graph object lives through Push, queries, Push, queries ...: after every Push the
// graph is judged as if it had just been built from the sequences pushed so far (the queries must leave
// nothing behind: no cached heads, no stale visit marks, no pruned node), then everything is asked a second time.
func (x *c19ctx) graphHistCheck(c c19case) {
	r := x.r
	k := c.K
	r.Count("graph_histories", 1) // histories generated (whatever the implementation answers)
	var g *DeBruijnGraph
	for i := range c.Seqs {
		if p := c19try(func() {
			if g == nil {
				if g = MakeDeBruijnGraph(k); g == nil {
					panic("MakeDeBruijnGraph returned nil")
				}
			}
			g.Push(x.seq(c.Seqs[i], c.Counts[i]))
		}); p != "" {
			x.violate("DeBruijnGraph.Push/panic:history", c, func() string { return fmt.Sprintf("k=%d pushes=%v counts=%v step %d: ", k, c.Seqs, c.Counts, i) }, "%s", p)
			return
		}
		r.Trans(1)
		sub := c19case{Kind: "graph", K: k, Seqs: c.Seqs[:i+1], Counts: c.Counts[:i+1]}
		suffix := ""
		if i > 0 {
			suffix = ":after-queries-and-another-push"
		}
		if !x.graphJudge(g, sub, c, suffix) {
			return
		}
	}
	// the same questions again on the final graph
	x.graphJudge(g, c19case{Kind: "graph", K: k, Seqs: c.Seqs, Counts: c.Counts}, c, ":asked-twice")
}

// graphJudge compares graph g with the model of the sequences of c. replay is the case stored with a
// violation, suffix is appended to the keys (call histories). It returns false when a violation was found.
func (x *c19ctx) graphJudge(g *DeBruijnGraph, c c19case, replay c19case, suffix string) bool {
	r := x.r
	k := c.K
	r.Eval(1)
	clean := true
	viol := func(key, format string, a ...any) {
		clean = false
		x.violate(key+suffix, replay, func() string { return fmt.Sprintf("k=%d seqs=%v counts=%v: ", k, c.Seqs, c.Counts) }, format, a...)
	}

	// ---- 1. weights
	pure := true
	hasLenK := false
	for _, s := range c.Seqs {
		pure = pure && c19pure(s)
		hasLenK = hasLenK || len(s) == k
	}
	ma, mb := c19models(c.Seqs, c.Counts, k, k)
	actual := map[uint64]int{}
	for n, w := range g.graph {
		actual[n] = int(w)
	}
	if len(ma) > 0 {
		r.Count("graph_nonempty_model", 1)
	}
	if !pure {
		r.Count("graph_ambiguous_sets", 1)
	}
	// a single sequence without repeated k-mer (section 3): decided on the model, counted before anything is
	// asked of the implementation
	singleDistinct := len(c.Seqs) == 1 && pure && len(c.Seqs[0]) >= k && c19distinctKmers(c.Seqs[0], k)
	singleAcyclic := false
	if singleDistinct {
		if md := c19analyse(ma, k); md.cyclic {
			r.Count("single_distinct_but_cyclic(k-1 repeat)", 1)
		} else {
			singleAcyclic = true
			r.Count("single_distinct_acyclic", 1)
		}
	}
	asModel := c19wEqual(ma, g) || c19wEqual(mb, g)
	if !asModel {
		ma2, mb2 := c19models(c.Seqs, c.Counts, k, k+1)
		switch {
		case hasLenK && (c19wEqual(ma2, g) || c19wEqual(mb2, g)):
			viol("DeBruijnGraph.Push/sequence-of-length-k-ignored",
				"the k-mer of a sequence of length exactly k is not counted: graph {%s} want {%s}", c19wString(actual, k), c19wString(ma, k))
		case pure:
			viol("DeBruijnGraph.Push/wrong-weight",
				"graph {%s} want {%s}", c19wString(actual, k), c19wString(ma, k))
		case c19wEqual(c19modelRewalk(c.Seqs, c.Counts, k), g):
			// the known finding, and only it: a window counted once per expansion of what precedes it
			viol("DeBruijnGraph.Push/ambiguity-weights-fit-no-reading",
				"graph {%s}; window-compatible reading {%s}; expansion reading {%s}", c19wString(actual, k), c19wString(ma, k), c19wString(mb, k))
		default:
			viol("DeBruijnGraph.Push/wrong-weight:ambiguous-sequence(not the tail-re-walk pattern)",
				"graph {%s}; window-compatible reading {%s}; expansion reading {%s}; weights of the known re-walk defect {%s}",
				c19wString(actual, k), c19wString(ma, k), c19wString(mb, k), c19wString(c19modelRewalk(c.Seqs, c.Counts, k), k))
		}
	}

	// ---- 2. cycle, heaviest path, consensus: judged on the graph as it was actually built
	d := c19analyse(actual, k)
	{ // vacuity counters of part B: the shape of the graph of the MODEL (it is the graph built whenever the
		// weights were right; otherwise the first reading of the statement is analysed)
		md := d
		if !asModel {
			md = c19analyse(ma, k)
		}
		if md.cyclic {
			r.Count("model_graph_cyclic", 1)
		} else if len(md.w) > len(md.sources) {
			r.Count("model_graph_acyclic_with_edges", 1)
		}
	}
	{ // distinct graphs reached (order-independent hash of the node:weight set)
		h := uint64(k) * 0x9e3779b97f4a7c15
		for n, w := range actual {
			z := (n+1)*0xbf58476d1ce4e5b9 ^ uint64(w)*0x94d049bb133111eb
			z ^= z >> 31
			z *= 0xd6e8feb86659fd93
			z ^= z >> 29
			h += z
		}
		r.StateH(h)
	}
	var hc bool
	if p := c19try(func() { hc = g.HasCycle() }); p != "" {
		viol("DeBruijnGraph.HasCycle/panic", "%s", p)
		return false
	}
	if hc != d.cyclic {
		viol("DeBruijnGraph.HasCycle/wrong-answer", "HasCycle()=%v, graph {%s} cyclic=%v", hc, c19wString(actual, k), d.cyclic)
	}
	if len(actual) == 0 {
		r.Count("graph_empty", 1)
	} else {
		if d.cyclic {
			r.Count("graph_cyclic", 1)
		} else {
			r.Count("graph_acyclic", 1)
			if len(actual) > len(d.sources) {
				r.Count("graph_acyclic_with_edges", 1)
			}
		}
		var path []uint64
		if p := c19try(func() { path = g.HaviestPath() }); p != "" {
			viol("DeBruijnGraph.HaviestPath/panic", "%s", p)
		} else if d.cyclic {
			if len(path) != 0 {
				viol("DeBruijnGraph.HaviestPath/path-on-cyclic-graph", "returned %d nodes although the graph {%s} has a cycle", len(path), c19wString(actual, k))
			}
		} else if cl, msg := d.walkProblem(path); cl != "" {
			viol("DeBruijnGraph.HaviestPath/"+cl, "%s; path=%v graph {%s}", msg, c19pathString(path, k), c19wString(actual, k))
		}
		var cons *obiseq.BioSequence
		var err error
		if p := c19try(func() { cons, err = g.LongestConsensus("c", 0) }); p != "" {
			viol("DeBruijnGraph.LongestConsensus/panic", "%s", p)
		} else if d.cyclic {
			if cons != nil || err == nil {
				viol("DeBruijnGraph.LongestConsensus/consensus-on-cyclic-graph", "returned %v although the graph has a cycle", cons)
			}
		} else if cons == nil {
			viol("DeBruijnGraph.LongestConsensus/no-consensus-on-acyclic-graph", "error %v on graph {%s}", err, c19wString(actual, k))
		} else {
			cs := string(cons.Sequence())
			if len(cs) < k || !c19pure(cs) {
				viol("DeBruijnGraph.LongestConsensus/invalid-walk", "consensus %q is not a k-mer walk", cs)
			} else {
				p := make([]uint64, 0, len(cs))
				for i := 0; i+k <= len(cs); i++ {
					p = append(p, c19enc(cs[i:i+k]))
				}
				if cl, msg := d.walkProblem(p); cl != "" {
					viol("DeBruijnGraph.LongestConsensus/"+cl, "consensus %q: %s; graph {%s}", cs, msg, c19wString(actual, k))
				}
			}
		}
	}

	// ---- 3. a single sequence without repeated k-mer comes back unchanged (demanded when the graph
	// of the statement is acyclic, since the statement also says that a cyclic graph yields no path)
	if singleDistinct {
		s := c.Seqs[0]
		if singleAcyclic {
			var cons *obiseq.BioSequence
			var err error
			p := c19try(func() { cons, err = g.LongestConsensus("c", 0) })
			got := "<nil>"
			if cons != nil {
				got = string(cons.Sequence())
			}
			if p != "" || got != s {
				key := "DeBruijnGraph.LongestConsensus/single-sequence-not-returned-unchanged"
				if len(s) == k {
					key += ":length-k"
				}
				viol(key, "single sequence %q without repeated %d-mer: consensus %s err=%v panic=%q", s, k, got, err, p)
			}
		}
	}
	return clean
}

type c19pS struct {
	p []uint64
	k int
}

func (w c19pS) String() string              { return c19pathStringNow(w.p, w.k) }
func c19pathString(p []uint64, k int) c19pS { return c19pS{p, k} }

func c19pathStringNow(p []uint64, k int) string {
	s := make([]string, len(p))
	for i, n := range p {
		s[i] = c19dec(n, k)
	}
	return strings.Join(s, ">")
}

// ---------------------------------------------------------------------------------------------
// k-mer index

type c19km interface {
	// run lists the canonical k-mers of seq; recycled: through a result buffer that served before
	// (otherwise a nil buffer)
	run(seq *obiseq.BioSequence, recycled bool) (vals [][4]uint64, strs []string, panicked string)
	// ksize is the k-mer size the map works with: NewKmerMap adapts the size it is asked for to the
	// mode (the statement's "even, and odd in sparse mode"), the oracle reads the outcome here
	ksize() int
	// query: the sequences of the index (see c19newKm, refs) sharing canonical k-mers with seq
	query(seq *obiseq.BioSequence) (match map[*obiseq.BioSequence]int, panicked string)
}

type c19kmT[T obifp.FPUint[T]] struct {
	km    *KmerMap[T]
	limbs int
	buf   []T
}

func (w *c19kmT[T]) ksize() int { return int(w.km.Kmersize) }

func (w *c19kmT[T]) query(seq *obiseq.BioSequence) (match map[*obiseq.BioSequence]int, panicked string) {
	panicked = c19try(func() { match = w.km.Query(seq) })
	return
}

func (w *c19kmT[T]) run(seq *obiseq.BioSequence, recycled bool) (vals [][4]uint64, strs []string, panicked string) {
	panicked = c19try(func() {
		var ks []T
		if recycled {
			// a buffer that served before: full of leftovers, longer than the coming result (even sequence
			// lengths) or too small for it (odd ones). Same state for every case, so that a case replays alone.
			if cap(w.buf) < 128 {
				w.buf = make([]T, 128)
			}
			b := w.buf[:128]
			if seq.Len()%2 == 1 {
				b = make([]T, 2)
			}
			for i := range b {
				b[i] = obifp.From64[T](0x5a5a5a5a5a5a5a5a)
			}
			ks = w.km.NormalizedKmerSlice(seq, &b)
		} else {
			ks = w.km.NormalizedKmerSlice(seq, nil)
		}
		for _, kmer := range ks {
			var l [4]uint64
			x := kmer
			for i := 0; i < w.limbs; i++ {
				l[i] = x.AsUint64()
				x = x.RightShift(64)
			}
			vals = append(vals, l)
			strs = append(strs, w.km.KmerAsString(kmer))
		}
	})
	return
}

func c19mkKm[T obifp.FPUint[T]](limbs, k int, sparse bool, refs obiseq.BioSequenceSlice) c19km {
	km := NewKmerMap[T](refs, uint(k), sparse, -1)
	if km == nil {
		panic("NewKmerMap returned nil") // (inside c19try: reported as the outcome of the constructor)
	}
	return &c19kmT[T]{km: km, limbs: limbs}
}

var c19devnull *os.File

// c19newKm builds the index the way the commands do: NewKmerMap(sequences to index, the k-mer size
// ASKED for, mode, no occurrence limit). k is the size asked for, of either parity.
func c19newKm(width, k int, sparse bool, refs ...*obiseq.BioSequence) (km c19km, panicked string) {
	if len(refs) > 0 {
		// NewKmerMap draws a progress bar on os.Stderr when it is given sequences
		if c19devnull == nil {
			c19devnull, _ = os.OpenFile(os.DevNull, os.O_WRONLY, 0)
		}
		if c19devnull != nil {
			saved := os.Stderr
			os.Stderr = c19devnull
			defer func() { os.Stderr = saved }()
		}
	}
	seqs := obiseq.BioSequenceSlice{}
	seqs = append(seqs, refs...)
	panicked = c19try(func() {
		switch width {
		case 64:
			km = c19mkKm[obifp.Uint64](1, k, sparse, seqs)
		case 128:
			km = c19mkKm[obifp.Uint128](2, k, sparse, seqs)
		case 256:
			km = c19mkKm[obifp.Uint256](4, k, sparse, seqs)
		default:
			panic("bad width")
		}
	})
	return
}

// c19canon: reference canonical form of one k-mer on strings.
// dense : the smaller of w and rc(w).
// sparse: the smaller of the two once their central base (index k/2) is removed; the result is
// shown with '#' at the centre and its key holds the k-1 remaining bases.
func c19canon(w string, sparse bool) (str string, bases string, fwSmaller bool, tie bool) {
	rc := c19rc(w)
	if !sparse {
		if w <= rc {
			return w, w, w < rc, w == rc
		}
		return rc, rc, false, false
	}
	m := len(w) / 2
	fs := w[:m] + w[m+1:]
	rs := rc[:m] + rc[m+1:]
	if fs <= rs {
		return w[:m] + "#" + w[m+1:], fs, fs < rs, fs == rs
	}
	return rc[:m] + "#" + rc[m+1:], rs, false, false
}

func c19limbsOf(bases string) [4]uint64 {
	var l [4]uint64
	for i := 0; i < len(bases); i++ {
		// shift left by 2 over 4 limbs
		l[3] = l[3]<<2 | l[2]>>62
		l[2] = l[2]<<2 | l[1]>>62
		l[1] = l[1]<<2 | l[0]>>62
		l[0] = l[0]<<2 | c19code(bases[i])
	}
	return l
}

func c19sortedCopy(s []string) []string {
	o := append([]string(nil), s...)
	sort.Strings(o)
	return o
}

func (x *c19ctx) kmFor(width, k int, sparse bool, cache map[[3]int]c19km) c19km {
	sp := 0
	if sparse {
		sp = 1
	}
	key := [3]int{width, k, sp}
	if km, ok := cache[key]; ok {
		return km
	}
	km, p := c19newKm(width, k, sparse)
	if p != "" {
		x.r.Violate("NewKmerMap/panic", fmt.Sprintf("NewKmerMap[Uint%d](k=%d sparse=%v) panics: %s", width, k, sparse, p),
			c19case{Kind: "index", K: k, Sparse: sparse, Width: width, Seqs: []string{strings.Repeat("a", k)}})
		km = nil
	} else if !x.kmInRange(km, width, k) {
		km = nil
	}
	cache[key] = km
	return km
}

// kmInRange: the k-mer size the map settled on (NewKmerMap adapts the size asked for to the mode) must be
// one the statement speaks about (2..64) and one whose masks fit the key; otherwise nothing is demanded.
func (x *c19ctx) kmInRange(km c19km, width, asked int) bool {
	eff := km.ksize()
	if eff != asked {
		x.r.Count("index_maps_with_size_adapted_by_NewKmerMap", 1)
	}
	if eff < 2 || eff > 64 || 2*eff >= width {
		x.r.Count(fmt.Sprintf("info_NewKmerMap[Uint%d](asked k=%d)_works_with_k=%d(unconstrained)", width, asked, eff), 1)
		return false
	}
	return true
}

var c19kmCache = map[[3]int]c19km{}

func (x *c19ctx) indexCheck(c c19case) {
	r := x.r
	k := c.K
	s := c.Seqs[0]
	mode := "dense"
	if c.Sparse {
		mode = "sparse"
	}
	// c.K is the size NewKmerMap is asked for; the map tells the size it works with (k from here on)
	km := x.kmFor(c.Width, c.K, c.Sparse, c19kmCache)
	if km == nil {
		x.indexFacts(c, c.K, false, 0) // no usable map: the facts of the case for the size asked
		return
	}
	k = km.ksize()
	adapted := ""
	if k != c.K {
		// a defect that shows only when the constructor had to adapt the size gets keys of its own
		adapted = ":size-adapted-by-NewKmerMap"
		r.Count("index_cases_with_size_adapted_by_NewKmerMap", 1)
	}
	r.Eval(1)
	viol := func(key, format string, a ...any) {
		x.violate(key+adapted, c, func() string {
			return fmt.Sprintf("Uint%d k=%d (NewKmerMap asked for %d) %s seq=%q: ", c.Width, k, c.K, mode, s)
		}, format, a...)
	}
	// vacuity counters of part E: whatever way this function is left, the windows not yet visited by the
	// comparison loop below are counted on the model
	factsFrom := 0
	defer func() { x.indexFacts(c, k, adapted != "", factsFrom) }()
	rs := c19rc(s)
	fv, fs, p := km.run(obiseq.NewBioSequence("f", []byte(s), ""), false)
	if p != "" {
		viol("KmerMap.NormalizedKmerSlice/panic", "%s", p)
		return
	}
	// the reverse complement goes through a result buffer that served before (leftovers, too long or too small)
	rseq := obiseq.NewBioSequence("r", []byte(rs), "")
	_, bs, p := km.run(rseq, true)
	if p != "" {
		viol("KmerMap.NormalizedKmerSlice/panic", "%s", "on the reverse complement (recycled buffer): "+p)
		return
	}
	r.Trans(int64(len(fs) + len(bs)))

	// (a) strand invariance of the multiset
	a, b := c19sortedCopy(fs), c19sortedCopy(bs)
	if strings.Join(a, ",") != strings.Join(b, ",") {
		if _, bs2, p2 := km.run(rseq, false); p2 == "" && strings.Join(bs2, ",") != strings.Join(bs, ",") {
			viol("KmerMap.NormalizedKmerSlice/recycled-buffer-changes-the-result:"+mode,
				"reverse complement %q: %v with the buffer of the previous calls, %v with a nil buffer", rs, c19head(bs), c19head(bs2))
			return
		}
		nd := 0
		cnt := map[string]int{}
		for _, v := range a {
			cnt[v]++
		}
		for _, v := range b {
			cnt[v]--
		}
		for _, v := range cnt {
			if v > 0 {
				nd += v
			}
		}
		viol("KmerMap.NormalizedKmerSlice/strand-variant-multiset:"+mode,
			"%d of %d canonical k-mers of the sequence are not produced by its reverse complement %q; forward %v reverse %v", nd, len(a), rs, c19head(fs), c19head(bs))
	}

	pure := c19pure(s)
	if !pure {
		r.Count("index_ambiguous_sequences", 1)
		// with ambiguity codes the statement fixes no window list: every produced k-mer must still be
		// canonical (not larger than its own reverse complement)
		for i, ks := range fs {
			if c.Sparse {
				ks = strings.Replace(ks, "#", "a", 1)
			}
			if len(ks) != k || !c19pure(ks) {
				viol("KmerMap.KmerAsString/wrong-decoding", "k-mer %d shown as %q", i, fs[i])
				return
			}
			if _, _, fwS, tie := c19canon(ks, c.Sparse); !fwS && !tie {
				viol("KmerMap.NormalizedKmerSlice/not-min-of-kmer-and-revcomp:"+mode+":ambiguous-sequence",
					"k-mer %d = %s is larger than its reverse complement", i, fs[i])
				return
			}
		}
		return
	}

	// (b) exact list on sequences over acgt
	want := len(s) - k + 1
	if want < 0 {
		want = 0
	}
	if want > 0 {
		r.Count("index_sequences_with_kmers", 1)
	}
	if len(s) > k {
		r.Count("index_sequences_longer_than_k", 1)
	}
	if len(fs) != want {
		viol("KmerMap.NormalizedKmerSlice/wrong-kmer-count", "%d k-mers, want %d", len(fs), want)
		return
	}
	for i := 0; i < want; i++ {
		w := s[i : i+k]
		estr, ebases, fwSmaller, _ := c19canon(w, c.Sparse)
		factsFrom = i + 1
		if fwSmaller && i > 0 {
			r.Count("index_forward_smaller_after_first_window", 1)
			if adapted != "" {
				r.Count("index_size_adapted_forward_smaller_after_first_window", 1)
			}
		}
		ev := c19limbsOf(ebases)
		if fv[i] == ev && fs[i] == estr {
			continue
		}
		switch {
		case fv[i] == ev:
			viol("KmerMap.KmerAsString/wrong-decoding", "window %d %s: key %x is right but shown as %q, want %q", i, w, fv[i], fs[i], estr)
		case fs[i] == estr:
			viol("KmerMap.NormalizedKmerSlice/stray-bits-in-key:"+mode, "window %d %s: key %x want %x (same low bits)", i, w, fv[i], ev)
		default:
			ostr, _, _, _ := c19canonOther(w, c.Sparse)
			class := "neither-strand"
			if fs[i] == ostr {
				if fwSmaller {
					class = "revcomp-returned-though-forward-smaller"
				} else {
					class = "forward-returned-though-revcomp-smaller"
				}
			}
			viol("KmerMap.NormalizedKmerSlice/not-min-of-kmer-and-revcomp:"+mode+":"+class,
				"window %d %s (rc %s): got %s key %x, want %s key %x", i, w, c19rc(w), fs[i], fv[i], estr, ev)
		}
		return
	}
}

// indexFacts counts, on the model alone, the windows from index `from` on of a sequence over acgt whose
// forward strand is the canonical one (what part E is there for).
func (x *c19ctx) indexFacts(c c19case, k int, adapted bool, from int) {
	s := c.Seqs[0]
	if k < 1 || !c19pure(s) {
		return
	}
	for i := max(from, 1); i+k <= len(s); i++ {
		if _, _, fwSmaller, _ := c19canon(s[i:i+k], c.Sparse); fwSmaller {
			x.r.Count("index_forward_smaller_after_first_window", 1)
			if adapted {
				x.r.Count("index_size_adapted_forward_smaller_after_first_window", 1)
			}
		}
	}
}

// ---- Query on an index built by NewKmerMap from reference sequences

type c19qidx struct {
	c      c19case // Seqs[0]: the query (filled per case), Seqs[1:]: the indexed sequences
	km     c19km
	objs   []*obiseq.BioSequence
	sets   []map[string]bool // model: canonical k-mers (bases of the key) of each indexed sequence
	fwsets []map[string]bool // its k-mers as written (forward strand only), for the vacuity counters
}

func (q *c19qidx) ksize() int {
	if q.km != nil {
		return q.km.ksize()
	}
	return q.c.K
}

// c19canonSet: the canonical k-mers of s on strings (windows holding an ambiguity code give none)
func c19canonSet(s string, k int, sparse bool) (canon, fw map[string]bool) {
	canon, fw = map[string]bool{}, map[string]bool{}
	for i := 0; i+k <= len(s); i++ {
		w := s[i : i+k]
		if !c19pure(w) {
			continue
		}
		_, bases, _, _ := c19canon(w, sparse)
		canon[bases] = true
		fw[w] = true
	}
	return
}

func (x *c19ctx) newQueryIndex(c c19case) *c19qidx {
	q := &c19qidx{c: c}
	for i, s := range c.Seqs[1:] {
		q.objs = append(q.objs, obiseq.NewBioSequence(fmt.Sprintf("ref%d", i), []byte(s), ""))
	}
	km, p := c19newKm(c.Width, c.K, c.Sparse, q.objs...)
	if p != "" {
		x.r.Violate("NewKmerMap/panic:with-sequences", fmt.Sprintf("NewKmerMap[Uint%d](%d sequences, k=%d sparse=%v) panics: %s", c.Width, len(q.objs), c.K, c.Sparse, p), c)
	} else if x.kmInRange(km, c.Width, c.K) {
		q.km = km
	}
	// (without a usable map q.km stays nil: the queries are then only counted, on the model of the size asked)
	for _, s := range c.Seqs[1:] {
		cs, fw := c19canonSet(s, q.ksize(), c.Sparse)
		q.sets = append(q.sets, cs)
		q.fwsets = append(q.fwsets, fw)
	}
	return q
}

// queryCheck: Query(s) and Query(reverse complement of s) must both report exactly the indexed sequences
// that share at least one canonical k-mer with s (string model), with the same score on both strands
// (same multiset of canonical k-mers). What the score is (Query counts one more than the shared
// occurrences) is not constrained.
func (x *c19ctx) queryCheck(q *c19qidx, s string) {
	r := x.r
	c := q.c
	c.Seqs = append([]string{s}, q.c.Seqs[1:]...)
	k := q.ksize()
	mode, adapted := "dense", ""
	if c.Sparse {
		mode = "sparse"
	}
	if k != c.K {
		adapted = ":size-adapted-by-NewKmerMap"
	}
	viol := func(key, format string, a ...any) {
		x.violate(key+":"+mode+adapted, c, func() string {
			return fmt.Sprintf("Uint%d k=%d (NewKmerMap asked for %d) %s, index of %d sequences, query %q: ", c.Width, k, c.K, mode, len(q.objs), s)
		}, format, a...)
	}
	canon, fw := c19canonSet(s, k, c.Sparse)
	want := make([]bool, len(q.objs))
	nwant, onlyRev := 0, false
	for j := range q.objs {
		for b := range canon {
			if q.sets[j][b] {
				want[j] = true
				break
			}
		}
		if want[j] {
			nwant++
			shared := false
			for w := range fw {
				if q.fwsets[j][w] {
					shared = true
					break
				}
			}
			onlyRev = onlyRev || !shared
		}
	}
	// vacuity counters of part Q: facts of the query generated, counted before the index is asked
	if nwant > 0 {
		r.Count("query_with_matches", 1)
		if nwant < len(q.objs) {
			r.Count("query_matches_some_but_not_all", 1)
		}
		if onlyRev {
			r.Count("query_matches_only_through_the_reverse_strand", 1)
			if adapted != "" {
				r.Count("query_size_adapted_matches_only_through_the_reverse_strand", 1)
			}
		}
	}
	if q.km == nil {
		return
	}
	r.Eval(1)
	rs := c19rc(s)
	var got [2]map[*obiseq.BioSequence]int
	for strand, qs := range []string{s, rs} {
		m, p := q.km.query(obiseq.NewBioSequence("q", []byte(qs), ""))
		if p != "" {
			viol("KmerMap.Query/panic", "strand %d: %s", strand, p)
			return
		}
		got[strand] = m
		r.Trans(1)
	}
	// the reverse complement of the query has the reverse complements of its k-mers: same canonical set
	for strand, qs := range []string{s, rs} {
		for j, o := range q.objs {
			_, has := got[strand][o]
			switch {
			case want[j] && !has:
				viol("KmerMap.Query/misses-a-sequence-sharing-a-canonical-kmer",
					"query %q does not report indexed sequence %d %q (reported %d of %d expected)", qs, j, c.Seqs[1+j], len(got[strand]), nwant)
				return
			case !want[j] && has:
				viol("KmerMap.Query/reports-a-sequence-sharing-no-canonical-kmer",
					"query %q reports indexed sequence %d %q (score %d)", qs, j, c.Seqs[1+j], got[strand][o])
				return
			}
		}
		if len(got[strand]) != nwant {
			viol("KmerMap.Query/reports-a-sequence-that-is-not-indexed", "query %q: %d sequences reported, %d indexed ones expected", qs, len(got[strand]), nwant)
			return
		}
	}
	for j, o := range q.objs {
		if got[0][o] != got[1][o] {
			viol("KmerMap.Query/strand-variant-score", "indexed sequence %d %q: score %d for the query, %d for its reverse complement %q", j, c.Seqs[1+j], got[0][o], got[1][o], rs)
			return
		}
	}
}

// c19canonOther: the display of the strand that is NOT the canonical one.
func c19canonOther(w string, sparse bool) (str string, bases string, a, b bool) {
	cs, _, _, _ := c19canon(w, sparse)
	rc := c19rc(w)
	show := func(z string) string {
		if !sparse {
			return z
		}
		m := len(z) / 2
		return z[:m] + "#" + z[m+1:]
	}
	if show(w) == cs {
		return show(rc), "", false, false
	}
	return show(w), "", false, false
}

func c19head(s []string) []string {
	if len(s) > 6 {
		return append(append([]string(nil), s[:6]...), "...")
	}
	return s
}

// ---------------------------------------------------------------------------------------------
// 4-mer tables

func c19naive4(s string) [256]int {
	var t [256]int
	for p := 0; p+4 <= len(s); p++ {
		t[c19enc(s[p:p+4])]++
	}
	return t
}

type c19fm struct {
	buf []byte
	tab Table4mer
}

func (x *c19ctx) count4Check(c c19case, reuse *c19fm) {
	r := x.r
	s := c.Seqs[0]
	r.Eval(1)
	want := c19naive4(s)
	cmp := func(label string, got *Table4mer) {
		for i := 0; i < 256; i++ {
			if int(got[i]) != want[i] {
				r.Violate("Count4Mer/wrong-count:"+label, fmt.Sprintf("seq=%q 4-mer %s counted %d, occurs %d", s, c19dec(uint64(i), 4), got[i], want[i]), c)
				return
			}
		}
	}
	if len(s) >= 4 {
		r.Count("count4_sequences_with_4mers", 1)
	}
	seq := obiseq.NewBioSequence("s", []byte(s), "")
	var fresh *Table4mer
	if p := c19try(func() {
		if fresh = Count4Mer(seq, nil, nil); fresh == nil {
			panic("Count4Mer returned nil")
		}
	}); p != "" {
		key := "Count4Mer/panic"
		if len(s) == 3 {
			key += ":sequence-of-length-3"
		}
		r.Violate(key, fmt.Sprintf("seq=%q: %s", s, p), c)
		return
	}
	cmp("fresh-table", fresh)
	if reuse != nil {
		// recycled buffer and table (as obitag/obirefidx do): leftovers of the previous sequence must vanish
		var got *Table4mer
		if p := c19try(func() {
			if got = Count4Mer(seq, &reuse.buf, &reuse.tab); got == nil {
				panic("Count4Mer returned nil")
			}
		}); p != "" {
			r.Violate("Count4Mer/panic", fmt.Sprintf("seq=%q recycled: %s", s, p), c)
			return
		}
		cmp("recycled-table", got)
	}
	r.Trans(1)
}

// count4HistCheck: two sequences in a row through the same buffer and table, in the three ways the
// commands pass them (buffer+table; buffer only, as obitag / obirefidx do; table only). The table of the
// second call must count the second sequence only, whatever the first one left behind.
func (x *c19ctx) count4HistCheck(c c19case, objs [2]*obiseq.BioSequence, want *[256]int) {
	r := x.r
	r.Eval(1)
	if objs[0] == nil {
		objs[0] = obiseq.NewBioSequence("p", []byte(c.Seqs[0]), "")
		objs[1] = obiseq.NewBioSequence("s", []byte(c.Seqs[1]), "")
		w := c19naive4(c.Seqs[1])
		want = &w
	}
	for _, mode := range []string{"buffer+table", "buffer", "table"} {
		var buf []byte
		var tab Table4mer
		pb, pt := &buf, &tab
		if mode == "buffer" {
			pt = nil
		}
		if mode == "table" {
			pb = nil
		}
		var got *Table4mer
		if p := c19try(func() {
			Count4Mer(objs[0], pb, pt)
			if got = Count4Mer(objs[1], pb, pt); got == nil {
				panic("Count4Mer returned nil")
			}
		}); p != "" {
			r.Violate("Count4Mer/panic:history:"+mode, fmt.Sprintf("%q then %q: %s", c.Seqs[0], c.Seqs[1], p), c)
			continue
		}
		r.Trans(2)
		for i := 0; i < 256; i++ {
			if int(got[i]) != want[i] {
				cls := "same-length"
				if len(c.Seqs[1]) < len(c.Seqs[0]) {
					cls = "shorter-after-longer"
					if len(c.Seqs[1]) < 4 {
						cls = "no-4-mer-after-some"
					}
				} else if len(c.Seqs[1]) > len(c.Seqs[0]) {
					cls = "longer-after-shorter"
				}
				r.Violate("Count4Mer/wrong-count:history:"+mode+":"+cls,
					fmt.Sprintf("%q then %q: 4-mer %s counted %d, occurs %d in the second", c.Seqs[0], c.Seqs[1], c19dec(uint64(i), 4), got[i], want[i]), c)
				break
			}
		}
	}
}

func (x *c19ctx) common4Check(c c19case) {
	r := x.r
	r.Eval(1)
	a, b := c19naive4(c.Seqs[0]), c19naive4(c.Seqs[1])
	want := 0
	for i := 0; i < 256; i++ {
		want += min(a[i], b[i])
	}
	if want > 0 {
		r.Count("common4_pairs_sharing", 1)
	}
	var got int
	if p := c19try(func() {
		ta := Count4Mer(obiseq.NewBioSequence("a", []byte(c.Seqs[0]), ""), nil, nil)
		tb := Count4Mer(obiseq.NewBioSequence("b", []byte(c.Seqs[1]), ""), nil, nil)
		got = Common4Mer(ta, tb)
	}); p != "" {
		r.Violate("Common4Mer/panic", fmt.Sprintf("%q vs %q: %s", c.Seqs[0], c.Seqs[1], p), c)
	} else if got != want {
		r.Violate("Common4Mer/wrong-count", fmt.Sprintf("%q vs %q: %d shared 4-mer occurrences, want %d", c.Seqs[0], c.Seqs[1], got, want), c)
	}
}

// ---------------------------------------------------------------------------------------------
// enumeration

const c19ref80a = "ctagcatcggatcttaggcatcgaacgtttagcatgcaatgcgtacgttaacctgaggatcaagtcctgaatgcgatccg"
const c19ref80b = "aaaaaaaaaaaaaaaaaaaaccccccccccttttttttttttttttttttggggggggggacacacacatatatatgcgc"

// c19edits lists every single-edit variant (substitution, deletion, insertion) of s, without duplicates.
func c19edits(s string) []string {
	seen := map[string]bool{s: true}
	var out []string
	add := func(v string) {
		if !seen[v] {
			seen[v] = true
			out = append(out, v)
		}
	}
	for i := 0; i < len(s); i++ {
		for _, b := range "acgt" {
			add(s[:i] + string(b) + s[i+1:])
		}
		add(s[:i] + s[i+1:])
	}
	for i := 0; i <= len(s); i++ {
		for _, b := range "acgt" {
			add(s[:i] + string(b) + s[i:])
		}
	}
	return out
}

func (x *c19ctx) dispatch(c c19case) {
	switch c.Kind {
	case "graph":
		x.graphCheck(c)
	case "graphhist":
		x.graphHistCheck(c)
	case "count4hist":
		x.count4HistCheck(c, [2]*obiseq.BioSequence{}, nil)
	case "index":
		x.indexCheck(c)
	case "query":
		x.queryCheck(x.newQueryIndex(c), c.Seqs[0])
	case "count4":
		x.count4Check(c, &c19fm{buf: []byte{1, 2, 3}, tab: Table4mer{7: 9, 255: 1}})
	case "common4":
		x.common4Check(c)
	default:
		panic("unknown case kind " + c.Kind)
	}
}

func TestVerifC19(t *testing.T) {
	log.SetOutput(io.Discard)
	// a logrus Fatal raised by the code under test must not end the shard: it becomes a panic, which c19try
	// (around every implementation call) reports as the outcome of that call
	log.StandardLogger().ExitFunc = func(code int) { panic(fmt.Sprintf("log.Fatal (exit status %d)", code)) }
	// the harness is single-threaded and 16 shards run side by side: keep the Go runtime (GC workers)
	// from oversubscribing the machine
	runtime.GOMAXPROCS(2)
	debug.SetGCPercent(400)
	if len(c19ref80a) != 80 || len(c19ref80b) != 80 {
		t.Fatalf("harness: reference sequences must be 80 long (%d, %d)", len(c19ref80a), len(c19ref80b))
	}
	r := verifkit.New("C19")
	defer r.Write()
	x := &c19ctx{r: r, seqobj: map[string]*obiseq.BioSequence{}, nviol: map[string]int{}}

	if rc := r.ReplayCase(); rc != nil {
		var c c19case
		if err := json.Unmarshal(rc, &c); err != nil {
			t.Fatal(err)
		}
		x.dispatch(c)
		r.Replayed(1)
		return
	}

	thorough := verifkit.Thorough()
	// ---- bounds
	singleMax, pairMax := 8, 5
	ambMax := 5
	idxSmallMax := 8
	c4Max, common4Max := 8, 5
	c4HistMax, graphHistMax, tripleMax := 5, 4, 3
	winStep := 4 // graph windows of the 80-mers: start and length on a grid of this step (quick)
	if thorough {
		c4HistMax, graphHistMax, tripleMax = 6, 5, 4
		singleMax, pairMax = 10, 6
		ambMax = 6
		idxSmallMax = 10
		c4Max, common4Max = 10, 6
		winStep = 1
	}
	r.Bound("graph_k_small", "2..4")
	r.Bound("graph_single_seq_maxlen", singleMax)
	r.Bound("graph_pair_seq_maxlen", pairMax)
	r.Bound("graph_counts", "{1,2}")
	r.Bound("graph_ambiguous_seq_maxlen", ambMax)
	r.Bound("graph_ambiguity_codes", "r b n (1 position), n (2 positions)")
	r.Bound("graph_k_large", "5,16,31 on windows of 3 fixed 80-mers (grid step "+fmt.Sprint(winStep)+") alone and with every single-edit variant")
	r.Bound("index_k", "every size 2..64 asked of NewKmerMap x {dense, sparse} (a size of the wrong parity is adapted by the constructor: the model uses the size of the map), widths with 2k < width")
	r.Bound("index_query", "index of the 3 fixed 80-mers built by NewKmerMap, same sizes x modes x widths; queries: windows of the 80-mers (quick: lengths k-1, k, k+1, 2k and every suffix window; thorough: all) and their reverse complements")
	r.Bound("index_windows", "every window (start, length >= k) of 3 fixed 80-mers, and its reverse complement")
	r.Bound("index_small_seq_maxlen", idxSmallMax)
	r.Bound("count4_history_pair_maxlen", c4HistMax)
	r.Bound("graph_history", fmt.Sprintf("push a, push b, push a again with every query after each push; all ordered pairs of length 2..%d, k=2..3, counts (1,1,1) (1,2,3)", graphHistMax))
	r.Bound("graph_triples", fmt.Sprintf("all multisets of 3 sequences of length <= %d, k=2..3, counts (1,1,1) (1,2,3) (3,1,2); three-way forks / merges of length %d at k=3", tripleMax, tripleMax+1))
	r.Bound("graph_every_k", "k=2..31 on windows (lengths k, k+1, k+2, 2k-1, 2k, 2k+1, 3k, to the end) of the 80-mers with every single-edit variant")
	r.Bound("count4_maxlen", c4Max)
	r.Bound("common4_pair_maxlen", common4Max)

	// third reference: a reverse-complement palindrome (k-mers equal to their own reverse complement, ties)
	refs := []string{c19ref80a, c19ref80b, c19ref80a[:40] + c19rc(c19ref80a[:40])}
	item := 0
	mine := func() bool { item++; return r.Mine(item - 1) }
	stop := false
	expired := func() bool {
		if !stop && r.Expired() {
			stop = true
		}
		return stop
	}

	cpu := func() int64 {
		var ru syscall.Rusage
		syscall.Getrusage(syscall.RUSAGE_SELF, &ru)
		return (ru.Utime.Nano() + ru.Stime.Nano()) / 1e6
	}
	only := os.Getenv("C19_SECTIONS") // development aid: restrict to some parts (the run is then not exhaustive)
	if only != "" {
		r.Cap("restricted to parts " + only)
	}
	// part runs one part of the enumeration and accounts its CPU time and evaluations
	part := func(name string, f func()) {
		if only != "" && !strings.Contains(only, name) {
			return
		}
		if expired() {
			return
		}
		c0, e0 := cpu(), r.Evaluations
		f()
		r.Count("cpu_ms_part_"+name, cpu()-c0)
		r.Count("evals_part_"+name, r.Evaluations-e0)
		if !stop && only == "" {
			// a completed part must have exercised what it is there for (evaluated on the merged counters);
			// every counter named here is a fact of the cases GENERATED (decided on the model before the
			// implementation is asked), never of what the implementation answered
			for _, c := range map[string][]string{
				"A": {"single_distinct_acyclic"},
				"B": {"model_graph_acyclic_with_edges", "model_graph_cyclic"},
				// (the *_size_adapted_* counters depend on what NewKmerMap does with a size of the wrong
				// parity, which is left to it: information only)
				"E": {"index_forward_smaller_after_first_window"},
				"Q": {"query_matches_only_through_the_reverse_strand", "query_matches_some_but_not_all"},
				"G": {"count4_sequences_with_4mers"},
				"H": {"common4_pairs_sharing"},
				"J": {"graph_histories"},
				"K": {"graph_every_k_windows"},
			}[name] {
				r.RequireNonVacuous(c)
			}
		}
	}

	// Order (breadth first): the cheap parts, one per class of question (4-mer tables, single-sequence
	// graphs, ambiguity codes, Query, short indexed sequences, call histories, triples), run before the
	// four deep enumerations (E, K, B, D: 85% of the CPU time), so that a run cut by its deadline or by a
	// tree that is slow has still asked every kind of question.
	// ---- G. 4-mer tables
	part("G", func() {
		c4 := verifkit.AllStrings("acgt", 1, c4Max)
		for i := 0; i < len(c4) && !expired(); i += 1024 {
			if !mine() {
				continue
			}
			reuse := &c19fm{}
			for j := i; j < i+1024 && j < len(c4); j++ {
				x.count4Check(c19case{Kind: "count4", Seqs: []string{c4[j]}}, reuse)
			}
		}
	})
	part("H", func() {
		cm := verifkit.AllStrings("acgt", 4, common4Max) // shorter sequences: see part G (Count4Mer)
		tabs := make([]*Table4mer, len(cm))
		naive := make([][256]int, len(cm))
		for i, s := range cm {
			if p := c19try(func() {
				if tabs[i] = Count4Mer(obiseq.NewBioSequence("s", []byte(s), ""), nil, nil); tabs[i] == nil {
					panic("Count4Mer returned nil")
				}
			}); p != "" {
				r.Violate("Count4Mer/panic", fmt.Sprintf("seq=%q: %s", s, p), c19case{Kind: "count4", Seqs: []string{s}})
				tabs[i] = &Table4mer{}
			}
			naive[i] = c19naive4(s)
		}
		for i := 0; i < len(cm) && !expired(); i++ {
			if !mine() {
				continue
			}
			for j := 0; j < len(cm); j++ {
				want := 0
				for c := 0; c < 256; c++ {
					want += min(naive[i][c], naive[j][c])
				}
				r.Eval(1)
				if want > 0 {
					r.Count("common4_pairs_sharing", 1)
				}
				var got int
				if p := c19try(func() { got = Common4Mer(tabs[i], tabs[j]) }); p != "" {
					r.Violate("Common4Mer/panic", fmt.Sprintf("%q vs %q: %s", cm[i], cm[j], p), c19case{Kind: "common4", Seqs: []string{cm[i], cm[j]}})
				} else if got != want {
					r.Violate("Common4Mer/wrong-count", fmt.Sprintf("%q vs %q: %d shared 4-mer occurrences, want %d", cm[i], cm[j], got, want),
						c19case{Kind: "common4", Seqs: []string{cm[i], cm[j]}})
				}
			}
		}
	})
	// ---- A. graph, k = 2..4, single sequences
	part("A", func() {
		singles := verifkit.AllStrings("acgt", 1, singleMax)
		for i := 0; i < len(singles) && !expired(); i += 64 {
			if !mine() {
				continue
			}
			for j := i; j < i+64 && j < len(singles); j++ {
				for k := 2; k <= 4; k++ {
					for _, cnt := range []int{1, 2} {
						x.graphCheck(c19case{Kind: "graph", K: k, Seqs: []string{singles[j]}, Counts: []int{cnt}})
					}
				}
			}
		}
	})
	// ---- C. graph, sequences with ambiguity codes
	part("C", func() {
		amb := verifkit.AllStrings("acgt", 2, ambMax)
		for i := 0; i < len(amb) && !expired(); i += 16 {
			if !mine() {
				continue
			}
			for j := i; j < i+16 && j < len(amb); j++ {
				s := amb[j]
				var vars []string
				for p := 0; p < len(s); p++ {
					if s[p] != 'a' {
						continue // the replaced base is irrelevant: enumerate each (context, position) once
					}
					for _, code := range "rbn" {
						vars = append(vars, s[:p]+string(code)+s[p+1:])
					}
					for q := p + 1; q < len(s); q++ {
						if s[q] == 'a' {
							vars = append(vars, s[:p]+"n"+s[p+1:q]+"n"+s[q+1:])
						}
					}
				}
				for _, v := range vars {
					for k := 2; k <= 4; k++ {
						x.graphCheck(c19case{Kind: "graph", K: k, Seqs: []string{v}, Counts: []int{1}})
					}
					// together with a plain sequence
					x.graphCheck(c19case{Kind: "graph", K: 3, Seqs: []string{v, s}, Counts: []int{2, 1}})
				}
			}
		}
	})
	// ---- Q. index built by NewKmerMap from the three 80-mers (what obikmermatch / obikmersimcount do with
	// their references), every size asked 2..64 in both modes, every width: Query with windows of the 80-mers
	// and with their reverse complements
	part("Q", func() {
		for k := 2; k <= 64 && !expired(); k++ {
			for _, sparse := range []bool{false, true} {
				for _, width := range []int{64, 128, 256} {
					if 2*k >= width {
						continue
					}
					if !mine() {
						continue
					}
					q := x.newQueryIndex(c19case{Kind: "query", K: k, Sparse: sparse, Width: width, Seqs: append([]string{""}, refs...)})
					ke := q.ksize()
					for _, ref := range refs {
						x.queryCheck(q, ref[:ke-1])
						for st := 0; st+ke <= len(ref); st++ {
							for ln := ke; st+ln <= len(ref); ln++ {
								// quick: lengths k, k+1, 2k and up to the end of the 80-mer; thorough: every window
								if thorough || ln == ke || ln == ke+1 || ln == 2*ke || st+ln == len(ref) {
									x.queryCheck(q, ref[st:st+ln])
								}
							}
						}
					}
				}
			}
		}
	})
	// ---- F. index: every short sequence, small k asked in both modes, every width; plus one ambiguity code
	part("F", func() {
		small := verifkit.AllStrings("acgt", 1, idxSmallMax)
		for i := 0; i < len(small) && !expired(); i += 256 {
			if !mine() {
				continue
			}
			for j := i; j < i+256 && j < len(small); j++ {
				s := small[j]
				for _, k := range []int{2, 3, 4, 5} {
					for _, sparse := range []bool{false, true} {
						for _, width := range []int{64, 128, 256} {
							x.indexCheck(c19case{Kind: "index", K: k, Sparse: sparse, Width: width, Seqs: []string{s}})
						}
					}
				}
				if len(s) <= idxSmallMax-2 {
					for p := 0; p < len(s); p++ {
						if s[p] != 'a' {
							continue
						}
						for _, code := range "nr" {
							v := s[:p] + string(code) + s[p+1:]
							for _, k := range []int{2, 3, 4, 5} {
								for _, sparse := range []bool{false, true} {
									x.indexCheck(c19case{Kind: "index", K: k, Sparse: sparse, Width: 64, Seqs: []string{v}})
								}
							}
						}
					}
				}
			}
		}
	})
	// ---- G2. 4-mer tables, call histories: every ordered pair of sequences of length 0..histMax through one
	// recycled buffer / table
	part("G2", func() {
		hs := verifkit.AllStrings("acgt", 0, c4HistMax)
		objs := make([]*obiseq.BioSequence, len(hs))
		naive := make([][256]int, len(hs))
		for i, s := range hs {
			objs[i] = obiseq.NewBioSequence("s", []byte(s), "")
			naive[i] = c19naive4(s)
		}
		for i := 0; i < len(hs) && !expired(); i++ {
			if !mine() {
				continue
			}
			for j := 0; j < len(hs); j++ {
				x.count4HistCheck(c19case{Kind: "count4hist", Seqs: []string{hs[i], hs[j]}}, [2]*obiseq.BioSequence{objs[i], objs[j]}, &naive[j])
			}
		}
	})
	// ---- J. graph, call histories: Push, queries, Push, queries, Push (the first sequence again), queries,
	// and all queries twice — every ordered pair of sequences
	part("J", func() {
		hs := verifkit.AllStrings("acgt", 2, graphHistMax)
		for i := 0; i < len(hs) && !expired(); i++ {
			if !mine() {
				continue
			}
			for j := 0; j < len(hs); j++ {
				for k := 2; k <= 3; k++ {
					if len(hs[i]) < k && len(hs[j]) < k {
						continue
					}
					for _, cc := range [][]int{{1, 1, 1}, {1, 2, 3}} {
						x.graphHistCheck(c19case{Kind: "graphhist", K: k, Seqs: []string{hs[i], hs[j], hs[i]}, Counts: cc})
					}
				}
			}
		}
	})
	// ---- T. graph, every multiset of three sequences (three-way branches, three weights)
	part("T", func() {
		ts := verifkit.AllStrings("acgt", 1, tripleMax)
		ex := verifkit.AllStrings("acgt", tripleMax+1, tripleMax+1)
		for i := 0; i < len(ts) && !expired(); i++ {
			for j := i; j < len(ts); j++ {
				if !mine() {
					continue
				}
				for l := j; l < len(ts); l++ {
					for k := 2; k <= 3; k++ {
						for _, cc := range [][]int{{1, 1, 1}, {1, 2, 3}, {3, 1, 2}} {
							x.graphCheck(c19case{Kind: "graph", K: k, Seqs: []string{ts[i], ts[j], ts[l]}, Counts: cc})
						}
					}
				}
			}
		}
		// three sequences of the next length that share their first k-1 = 2 bases or their last 2 bases
		// (what makes a three-way fork or a three-way merge at k=3), one count vector
		for i := 0; i < len(ex) && !expired(); i++ {
			if !mine() {
				continue
			}
			for j := i + 1; j < len(ex); j++ {
				for l := j + 1; l < len(ex); l++ {
					a, b, c := ex[i], ex[j], ex[l]
					n := len(a)
					fork := a[:2] == b[:2] && b[:2] == c[:2]
					merge := a[n-2:] == b[n-2:] && b[n-2:] == c[n-2:]
					if !fork && !merge {
						continue
					}
					x.graphCheck(c19case{Kind: "graph", K: 3, Seqs: []string{a, b, c}, Counts: []int{1, 2, 3}})
				}
			}
		}
	})
	// ---- I. information only: key widths that cannot hold the masks of NewKmerMap (2k = width)
	part("I", func() {
		for _, wk := range [][2]int{{64, 32}, {128, 64}} {
			if !mine() {
				continue
			}
			if _, p := c19newKm(wk[0], wk[1], false); p != "" {
				r.Count(fmt.Sprintf("info_NewKmerMap[Uint%d](k=%d)_panics(unconstrained)", wk[0], wk[1]), 1)
			}
		}
	})
	// ---- E. index: every window of the 80-mers, every k-mer size 2..64 ASKED of NewKmerMap in BOTH modes
	// (the constructor adapts a size of the wrong parity: even -> +1 sparse, odd -> -1 dense; the size it
	// settled on is read from the map and is the k of the model), every width that holds the key
	part("E", func() {
		for _, ref := range refs {
			for k := 2; k <= 64 && !expired(); k++ {
				for _, sparse := range []bool{false, true} {
					for _, width := range []int{64, 128, 256} {
						if 2*k >= width {
							continue // 1<<2k is not representable: NewKmerMap cannot build its masks
						}
						if !mine() {
							continue
						}
						km := x.kmFor(width, k, sparse, c19kmCache)
						if km == nil {
							continue
						}
						ke := km.ksize()
						// shorter than k (one case), then every window of length >= k
						x.indexCheck(c19case{Kind: "index", K: k, Sparse: sparse, Width: width, Seqs: []string{ref[:ke-1]}})
						for st := 0; st+ke <= len(ref); st++ {
							for ln := ke; st+ln <= len(ref); ln++ {
								x.indexCheck(c19case{Kind: "index", K: k, Sparse: sparse, Width: width, Seqs: []string{ref[st : st+ln]}})
							}
						}
					}
				}
			}
		}
	})
	// ---- K. graph, EVERY k = 2..31: windows of the 80-mers on a thin grid, alone and with each single-edit variant
	part("K", func() {
		krefs := refs
		starts := []int{0, 21}
		if thorough {
			starts = []int{0, 7, 14, 21, 28, 35, 42}
		} else {
			krefs = []string{refs[0], refs[2]}
		}
		for _, ref := range krefs {
			for k := 2; k <= 31; k++ {
				for _, st := range starts {
					lens := map[int]bool{}
					for _, ln := range []int{k, k + 1, k + 2, 2*k - 1, 2 * k, 2*k + 1, 3 * k, len(ref) - st} {
						if ln >= k && st+ln <= len(ref) && ln <= 48+k {
							lens[ln] = true
						}
					}
					for ln := k; st+ln <= len(ref) && !expired(); ln++ {
						if !lens[ln] {
							continue
						}
						if !mine() {
							continue
						}
						r.Count("graph_every_k_windows", 1)
						w := ref[st : st+ln]
						x.graphCheck(c19case{Kind: "graph", K: k, Seqs: []string{w}, Counts: []int{3}})
						for _, v := range c19edits(w) {
							for _, cc := range [][]int{{2, 1}, {1, 2}} {
								x.graphCheck(c19case{Kind: "graph", K: k, Seqs: []string{w, v}, Counts: cc})
							}
						}
					}
				}
			}
		}
	})
	// ---- B. graph, k = 2..4, unordered pairs (with repetition) of sequences, all count combinations
	part("B", func() {
		pairs := verifkit.AllStrings("acgt", 1, pairMax)
		for i := 0; i < len(pairs) && !expired(); i++ {
			if !mine() {
				continue
			}
			for j := i; j < len(pairs); j++ {
				for k := 2; k <= 4; k++ {
					if len(pairs[i]) < k && len(pairs[j]) < k {
						continue // nothing can enter the graph: covered by the single-sequence part
					}
					for _, cc := range [][]int{{1, 1}, {1, 2}, {2, 1}, {2, 2}} {
						x.graphCheck(c19case{Kind: "graph", K: k, Seqs: []string{pairs[i], pairs[j]}, Counts: cc})
					}
				}
			}
		}
	})

	// ---- D. graph, k in {5,16,31}: windows of the 80-mers, alone and with every single-edit variant
	part("D", func() {
		for _, ref := range refs {
			for _, k := range []int{5, 16, 31} {
				for st := 0; st < len(ref) && !expired(); st += winStep {
					for ln := k; st+ln <= len(ref); ln++ {
						if winStep > 1 && (ln-k)%winStep != 0 && ln != k+1 && st+ln != len(ref) {
							continue
						}
						if !mine() {
							continue
						}
						w := ref[st : st+ln]
						for _, cnt := range []int{1, 2} {
							x.graphCheck(c19case{Kind: "graph", K: k, Seqs: []string{w}, Counts: []int{cnt}})
						}
						for _, v := range c19edits(w) {
							for _, cc := range [][]int{{1, 1}, {2, 1}, {1, 2}} {
								x.graphCheck(c19case{Kind: "graph", K: k, Seqs: []string{w, v}, Counts: cc})
							}
						}
					}
				}
			}
		}
	})
	// ---- B2 (thorough). graph, k = 4: all unordered pairs of sequences of length pairMax+1
	if thorough {
		part("B2", func() {
			big := verifkit.AllStrings("acgt", pairMax+1, pairMax+1)
			for i := 0; i < len(big) && !expired(); i++ {
				if !mine() {
					continue
				}
				for j := i; j < len(big); j++ {
					for _, cc := range [][]int{{1, 1}, {1, 2}} {
						x.graphCheck(c19case{Kind: "graph", K: 4, Seqs: []string{big[i], big[j]}, Counts: cc})
					}
				}
			}
		})
	}
	r.Sample(c19case{Kind: "graph", K: 3, Seqs: []string{"acgtt", "acctt"}, Counts: []int{2, 1}})
	r.Sample(c19case{Kind: "index", K: 4, Width: 64, Seqs: []string{"caaaa"}})
	r.Sample(c19case{Kind: "index", K: 33, Sparse: true, Width: 128, Seqs: []string{c19ref80a[3:70]}})
	r.Sample(c19case{Kind: "count4", Seqs: []string{"acgtacg"}})
}
