//go:build verif

package obikmer

// C07 (part: k-mer complement table) — obikmer.revcompnuc agrees with the sequence complement of obiseq
// and with the IUPAC complement on every IUPAC code, and is an involution on them.

import (
	"encoding/json"
	"fmt"
	"io"
	"testing"

	"git.metabarcoding.org/obitools/obitools4/obitools4/pkg/obiseq"
	"git.metabarcoding.org/obitools/obitools4/obitools4/pkg/verifkit"
	log "github.com/sirupsen/logrus"
)

type c07kmCase struct {
	Kind string `json:"kind"`
	Sym  string `json:"sym"`
}

var c07kmComp = map[byte]byte{'a': 't', 'c': 'g', 'g': 'c', 't': 'a', 'r': 'y', 'y': 'r', 'm': 'k', 'k': 'm',
	's': 's', 'w': 'w', 'b': 'v', 'v': 'b', 'd': 'h', 'h': 'd', 'n': 'n'}

func c07kmCheck(r *verifkit.Result, c c07kmCase) {
	r.Eval(1)
	r.Count("iupac_symbols", 1) // symbols submitted (counted whatever the tables answer)
	// a panic / log.Fatal of the sequence complement is an answer of the tree under test, not the end of the run
	defer func() {
		if e := recover(); e != nil {
			r.Violate("tables/obiseq-ReverseComplement/panic", fmt.Sprintf("BioSequence.ReverseComplement of %q panics: %v", c.Sym, e), c)
		}
	}()
	x := c.Sym[0]
	got, ok := revcompnuc[x]
	if !ok {
		r.Violate("tables/obikmer-revcompnuc-misses-iupac-code", fmt.Sprintf("revcompnuc has no entry for %q", x), c)
		return
	}
	if got != c07kmComp[x] {
		r.Violate("tables/obikmer-revcompnuc-not-iupac-complement", fmt.Sprintf("revcompnuc[%q]=%q, IUPAC complement is %q", x, got, c07kmComp[x]), c)
	}
	viaSeq := obiseq.NewBioSequence("", []byte{x}, "").ReverseComplement(true).String()
	if viaSeq != string([]byte{got}) {
		r.Violate("tables/obikmer-vs-obiseq-disagree", fmt.Sprintf("revcompnuc[%q]=%q but BioSequence.ReverseComplement gives %q", x, got, viaSeq), c)
	}
	if back := revcompnuc[got]; back != x {
		r.Violate("tables/obikmer-revcompnuc-not-involutive", fmt.Sprintf("revcompnuc[revcompnuc[%q]]=%q", x, back), c)
	}
}

func TestVerifC07Kmer(t *testing.T) {
	log.SetOutput(io.Discard)
	log.StandardLogger().ExitFunc = func(code int) { panic(fmt.Sprintf("log.Fatal (exit status %d)", code)) }
	r := verifkit.New("C07")
	defer r.Write()
	if rc := r.ReplayCase(); rc != nil {
		var c c07kmCase
		if err := json.Unmarshal(rc, &c); err != nil {
			t.Fatal(err)
		}
		c07kmCheck(r, c)
		return
	}
	for k, x := range []byte("acgtrymkswbdhvn") {
		if r.Mine(k) {
			r.State("kmer:" + string(x))
			c07kmCheck(r, c07kmCase{Kind: "kmer-table", Sym: string(x)})
		}
	}
	r.Sample(c07kmCase{Kind: "kmer-table", Sym: "b"})
	r.RequireNonVacuous("iupac_symbols")
}
