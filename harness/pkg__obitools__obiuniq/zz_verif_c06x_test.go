//go:build verif

package obiuniq

// C06, command level ("x" family of cases, kind "cli").
//
// The cases of zz_verif_c06_test.go set the option variables of the package directly and use one
// category attribute, one merge attribute and the default NA value. Here the options travel the way a
// user gives them:
//   - mode "parser": the argument vector goes through the real option parser of the command
//     (obioptions.GenerateOptionParser(OptionSet) resp. obidemerge.OptionSet) in this process, then
//     CLIUnique / CLIDemergeSequences run on records built from their FASTA title lines;
//   - mode "binary": the real obiuniq / obidemerge executables (built from the tree under test, no
//     overlay) read a FASTA file resp. their standard input and their standard output is parsed by a
//     small independent FASTA/JSON reader.
// Enumerated on top of the record multisets and orderings: -m given 0..3 times, -c given 0..3 times
// (and in swapped order), --na-value (absent / another string / colliding with a real value),
// --no-singleton, --in-memory or on-disk, --chunk-count (absent = 100, 1, 2, 3, 7 > number of
// distinct sequences), --batch-size, --max-cpu; category values of different JSON types (string "1",
// number 1, true, "true"); sequences differing only by case (binary mode); inputs longer than one
// batch; records already carrying merged_<k> maps; obidemerge on records without the map; and the
// round trip obiuniq -m k [-c ..] | obidemerge -d k | obiuniq -m k [-c ..].
//
// Oracle (same as the rest of C06, generalised): key = lower-case nucleotide string + for every
// requested category the string form of the value (NA value when missing); one output record per key,
// count = sum of counts, every requested merged_<k> = summed weights per string form of the value (an
// input record that already has merged_<k> contributes that map), --no-singleton drops exactly the
// classes of count 1. Nothing else is constrained.

import (
	"bytes"
	"context"
	"encoding/json"
	"fmt"
	"os"
	"os/exec"
	"path/filepath"
	"runtime"
	"sort"
	"strings"
	"time"

	"git.metabarcoding.org/obitools/obitools4/obitools4/pkg/obiformats"
	"git.metabarcoding.org/obitools/obitools4/obitools4/pkg/obiiter"
	"git.metabarcoding.org/obitools/obitools4/obitools4/pkg/obioptions"
	"git.metabarcoding.org/obitools/obitools4/obitools4/pkg/obiseq"
	"git.metabarcoding.org/obitools/obitools4/obitools4/pkg/obitools/obidemerge"
	"git.metabarcoding.org/obitools/obitools4/obitools4/pkg/verifkit"
)

type c06xrec struct {
	Seq   string         `json:"seq"`             // as written in the input (case kept)
	Count int            `json:"count,omitempty"` // 0: no count attribute (= 1)
	A     map[string]any `json:"a,omitempty"`     // other attributes: string | number | bool | merged_<k> map
}

type c06xopt struct {
	Cats        []string `json:"cats,omitempty"`   // -c, in the order given
	Merges      []string `json:"merges,omitempty"` // -m, in the order given
	NA          string   `json:"na,omitempty"`     // --na-value ("" = option absent)
	NoSingleton bool     `json:"nosingleton,omitempty"`
	InMemory    bool     `json:"inmemory,omitempty"`
	Chunks      int      `json:"chunks,omitempty"` // --chunk-count (0 = option absent, the default is 100)
	Batch       int      `json:"batch,omitempty"`  // --batch-size (0 = option absent, the command sets 10)
	MaxCPU      int      `json:"maxcpu,omitempty"` // --max-cpu (0 = option absent)
	Files       int      `json:"files,omitempty"`  // binary mode: the input is given as that many files (0, 1: one file)
}

type c06xcase struct {
	Mode string    `json:"mode"` // "parser" | "binary"
	What string    `json:"what"` // "uniq" | "roundtrip" | "demerge"
	Recs []c06xrec `json:"recs"`
	Opt  c06xopt   `json:"opt"`
}

func (o c06xopt) na() string {
	if o.NA == "" {
		return "NA"
	}
	return o.NA
}

// the argument vector (without the program name): short and long spellings alternate
func (o c06xopt) args() []string {
	var a []string
	im, ic := 0, 0
	// interleave -m and -c as a user would: m c m c ...
	for im < len(o.Merges) || ic < len(o.Cats) {
		if im < len(o.Merges) {
			switch im % 3 {
			case 0:
				a = append(a, "-m", o.Merges[im])
			case 1:
				a = append(a, "--merge", o.Merges[im])
			default:
				a = append(a, "--merge="+o.Merges[im])
			}
			im++
		}
		if ic < len(o.Cats) {
			switch ic % 2 {
			case 0:
				a = append(a, "-c", o.Cats[ic])
			default:
				a = append(a, "--category-attribute", o.Cats[ic])
			}
			ic++
		}
	}
	if o.NA != "" {
		a = append(a, "--na-value", o.NA)
	}
	if o.NoSingleton {
		a = append(a, "--no-singleton")
	}
	if o.InMemory {
		a = append(a, "--in-memory")
	}
	if o.Chunks != 0 {
		a = append(a, "--chunk-count", fmt.Sprint(o.Chunks))
	}
	if o.Batch != 0 {
		a = append(a, "--batch-size", fmt.Sprint(o.Batch))
	}
	if o.MaxCPU != 0 {
		a = append(a, "--max-cpu", fmt.Sprint(o.MaxCPU))
	}
	return a
}

// string form of an attribute value (what a class key / a merged_ map key is made of)
func c06xstr(v any) string {
	switch x := v.(type) {
	case string:
		return x
	case bool:
		return fmt.Sprint(x)
	case int:
		return fmt.Sprint(x)
	case float64:
		if x == float64(int64(x)) {
			return fmt.Sprint(int64(x))
		}
		return fmt.Sprint(x)
	case json.Number:
		return x.String()
	}
	return fmt.Sprintf("<%T>%v", v, v)
}

func c06xjsonType(v any) string {
	switch v.(type) {
	case string:
		return "string"
	case bool:
		return "bool"
	case int, float64, json.Number:
		return "number"
	}
	return fmt.Sprintf("%T", v)
}

func c06xintMap(v any) (map[string]int, bool) {
	switch m := v.(type) {
	case map[string]int:
		return m, true
	case map[string]any:
		o := map[string]int{}
		for k, w := range m {
			switch n := w.(type) {
			case int:
				o[k] = n
			case float64:
				if n != float64(int(n)) {
					return nil, false
				}
				o[k] = int(n)
			default:
				return nil, false
			}
		}
		return o, true
	}
	return nil, false
}

func (rc c06xrec) count() int {
	if rc.Count == 0 {
		return 1
	}
	return rc.Count
}

func (rc c06xrec) header() string {
	a := map[string]any{}
	for k, v := range rc.A {
		a[k] = v
	}
	if rc.Count != 0 {
		a["count"] = rc.Count
	}
	if len(a) == 0 {
		return ""
	}
	b, err := json.Marshal(a)
	if err != nil {
		panic(err)
	}
	return string(b)
}

func c06xfasta(recs []c06xrec) []byte {
	var b bytes.Buffer
	for i, rc := range recs {
		fmt.Fprintf(&b, ">r%d", i)
		if h := rc.header(); h != "" {
			b.WriteString(" " + h)
		}
		b.WriteString("\n" + rc.Seq + "\n")
	}
	return b.Bytes()
}

func c06xbuild(recs []c06xrec) obiseq.BioSequenceSlice {
	out := make(obiseq.BioSequenceSlice, len(recs))
	for i, rc := range recs {
		s := obiseq.NewBioSequence(fmt.Sprintf("r%d", i), []byte(rc.Seq), "")
		if h := rc.header(); h != "" {
			s.SetDefinition(h)
			obiformats.ParseFastSeqJsonHeader(s)
		}
		out[i] = s
	}
	return out
}

// ---- reference model ----

type c06xclass struct {
	Seq     string
	Cats    []string
	Count   int
	Stats   []map[string]int // one per requested merge key
	Members int
	Mixed   []bool // per category: members give the value with different JSON types
	types   []string
	PreMrg  []bool // per merge key: a member carried merged_<k> already
}

func c06xkey(seq string, cats []string) string { return seq + "|" + strings.Join(cats, "|") }

func c06xmodel(recs []c06xrec, o c06xopt, noSingleton bool) map[string]*c06xclass {
	na := o.na()
	m := map[string]*c06xclass{}
	for _, rc := range recs {
		seq := strings.ToLower(rc.Seq)
		cats := make([]string, len(o.Cats))
		typ := make([]string, len(o.Cats))
		for i, c := range o.Cats {
			cats[i] = na
			typ[i] = "missing"
			if v, ok := rc.A[c]; ok {
				cats[i] = c06xstr(v)
				typ[i] = c06xjsonType(v)
			}
		}
		k := c06xkey(seq, cats)
		cl := m[k]
		if cl == nil {
			cl = &c06xclass{Seq: seq, Cats: cats, Mixed: make([]bool, len(o.Cats)), types: typ, PreMrg: make([]bool, len(o.Merges))}
			for range o.Merges {
				cl.Stats = append(cl.Stats, map[string]int{})
			}
			m[k] = cl
		}
		for i := range typ {
			if typ[i] != cl.types[i] && typ[i] != "missing" && cl.types[i] != "missing" {
				cl.Mixed[i] = true
			}
			if cl.types[i] == "missing" {
				cl.types[i] = typ[i]
			}
		}
		cl.Count += rc.count()
		cl.Members++
		for i, mk := range o.Merges {
			if mv, ok := rc.A["merged_"+mk]; ok {
				im, good := c06xintMap(mv)
				if !good {
					panic("bad merged map in the alphabet")
				}
				for v, w := range im {
					cl.Stats[i][v] += w
				}
				cl.PreMrg[i] = true
			} else if v, ok := rc.A[mk]; ok {
				cl.Stats[i][c06xstr(v)] += rc.count()
			} else {
				cl.Stats[i][na] += rc.count()
			}
		}
	}
	if noSingleton {
		for k, cl := range m {
			if cl.Count == 1 {
				delete(m, k)
			}
		}
	}
	return m
}

// ---- observation ----

type c06xout struct {
	Id  string
	Seq string
	A   map[string]any
}

// c06xparseFasta is the harness' own reader of the commands' output: ">id {json} text" + sequence lines.
func c06xparseFasta(b []byte) ([]c06xout, error) {
	var out []c06xout
	for _, line := range strings.Split(string(b), "\n") {
		line = strings.TrimRight(line, "\r")
		if line == "" {
			continue
		}
		if line[0] == '>' {
			h := line[1:]
			id, rest := h, ""
			if i := strings.IndexAny(h, " \t"); i >= 0 {
				id, rest = h[:i], strings.TrimSpace(h[i+1:])
			}
			o := c06xout{Id: id, A: map[string]any{}}
			if strings.HasPrefix(rest, "{") {
				dec := json.NewDecoder(strings.NewReader(rest))
				if err := dec.Decode(&o.A); err != nil {
					return nil, fmt.Errorf("title line %q: %v", line, err)
				}
			}
			out = append(out, o)
			continue
		}
		if len(out) == 0 {
			return nil, fmt.Errorf("output does not start with a title line: %q", line)
		}
		out[len(out)-1].Seq += line
	}
	return out, nil
}

func c06xfromSeqs(sl obiseq.BioSequenceSlice) ([]c06xout, error) {
	out := make([]c06xout, len(sl))
	for i, s := range sl {
		o := c06xout{Id: s.Id(), Seq: s.String(), A: map[string]any{}}
		if h := obiformats.FormatFastSeqJsonHeader(s); h != "" {
			if err := json.Unmarshal([]byte(h), &o.A); err != nil {
				return nil, fmt.Errorf("annotations of %s are not JSON: %q", s.Id(), h)
			}
		}
		out[i] = o
	}
	return out, nil
}

type c06xobs struct {
	Seq   string
	Cats  []string
	Count int
	Stats []map[string]int
	Err   []string // per merge key: why the map could not be read
	K     string   // scalar value of the first merge key (round trip)
	HasM  bool     // still carries merged_<first merge key>
}

func c06xobserve(r c06xout, o c06xopt) c06xobs {
	na := o.na()
	ob := c06xobs{Seq: r.Seq, Count: 1, Cats: make([]string, len(o.Cats))}
	if v, ok := r.A["count"]; ok {
		if f, ok := v.(float64); ok && f == float64(int(f)) {
			ob.Count = int(f)
		} else {
			ob.Count = -1
		}
	}
	for i, c := range o.Cats {
		ob.Cats[i] = na
		if v, ok := r.A[c]; ok {
			ob.Cats[i] = c06xstr(v)
		}
	}
	for i, mk := range o.Merges {
		ob.Stats = append(ob.Stats, nil)
		ob.Err = append(ob.Err, "")
		v, ok := r.A["merged_"+mk]
		if !ok {
			ob.Err[i] = "absent"
			continue
		}
		im, good := c06xintMap(v)
		if !good {
			ob.Err[i] = fmt.Sprintf("not a map of integers: %v", v)
			continue
		}
		ob.Stats[i] = im
	}
	ob.K = "<absent>"
	if len(o.Merges) > 0 {
		if v, ok := r.A[o.Merges[0]]; ok {
			ob.K = c06xstr(v)
		}
		_, ob.HasM = r.A["merged_"+o.Merges[0]]
	}
	return ob
}

func c06xline(seq string, cats []string, n int, stats []map[string]int, errs []string, o c06xopt) string {
	s := fmt.Sprintf("%s n=%d", c06xkey(seq, cats), n)
	for i, mk := range o.Merges {
		s += " " + mk + "="
		if errs != nil && errs[i] != "" {
			s += "<" + errs[i] + ">"
		} else {
			s += c06statsString(stats[i])
		}
	}
	return s
}

func c06xcanonObs(obs []c06xobs, o c06xopt) string {
	l := make([]string, len(obs))
	for i, ob := range obs {
		l[i] = c06xline(ob.Seq, ob.Cats, ob.Count, ob.Stats, ob.Err, o)
	}
	sort.Strings(l)
	return strings.Join(l, " ; ")
}

func c06xcanonModel(m map[string]*c06xclass, o c06xopt, dropMixed bool) string {
	l := make([]string, 0, len(m))
	for _, cl := range m {
		cats := cl.Cats
		if dropMixed { // the symptom of one particular defect: a category given with two JSON types is lost
			cats = append([]string{}, cl.Cats...)
			for i := range cats {
				if cl.Mixed[i] {
					cats[i] = o.na()
				}
			}
		}
		l = append(l, c06xline(cl.Seq, cats, cl.Count, cl.Stats, nil, o))
	}
	sort.Strings(l)
	return strings.Join(l, " ; ")
}

// ---- running ----

type c06xenv struct {
	bin string // directory of the obiuniq / obidemerge executables ("" = not available)
	tmp string
	seq int
}

var c06x c06xenv

func c06xresetOptions() {
	// what a fresh obiuniq process starts with
	_StatsOn = make([]string, 0, 10)
	_Keys = make([]string, 0, 10)
	_InMemory = false
	_chunks = 100
	_NAValue = "NA"
	_NoSingleton = false
	obioptions.SetWorkerPerCore(1.0)
	obioptions.SetBatchSize(10) // main() of obiuniq
	obioptions.SetReadQualities(false)
}

// c06xparse pushes the argument vector through the real option parser of the command.
func c06xparse(tool string, args []string) {
	procs := runtime.GOMAXPROCS(0)
	defer runtime.GOMAXPROCS(procs) // the parser sets GOMAXPROCS from --max-cpu
	var p obioptions.ArgumentParser
	if tool == "obidemerge" {
		p = obioptions.GenerateOptionParser(obidemerge.OptionSet)
	} else {
		p = obioptions.GenerateOptionParser(OptionSet)
	}
	p(append([]string{tool}, args...))
}

func c06xbatchIn(o c06xopt) int {
	if o.Batch > 0 {
		return o.Batch
	}
	return 10
}

// one step of a pipeline in "parser" mode
func c06xrunParser(tool string, args []string, in obiseq.BioSequenceSlice, batch int) c06outcome {
	c06xresetOptions()
	return c06guard(func() obiseq.BioSequenceSlice {
		c06xparse(tool, args)
		it := obiiter.IBatchOver("c06x", in, batch)
		if tool == "obidemerge" {
			return c06drain(obidemerge.CLIDemergeSequences(it))
		}
		return c06drain(CLIUnique(it))
	})
}

type c06xstep struct {
	out      []c06xout
	abnormal string // failure class ("" = the step delivered an output)
	detail   string
}

func (e *c06xenv) runBinary(tool string, args []string, files []string, stdin []byte) c06xstep {
	if e.bin == "" {
		return c06xstep{abnormal: "harness", detail: "the executables are not available"}
	}
	ctx, cancel := context.WithTimeout(context.Background(), c06timeout)
	defer cancel()
	a := append([]string{}, args...)
	a = append(a, files...)
	cmd := exec.CommandContext(ctx, filepath.Join(e.bin, tool), a...)
	if len(files) == 0 {
		cmd.Stdin = bytes.NewReader(stdin)
	}
	var so, se bytes.Buffer
	cmd.Stdout = &so
	cmd.Stderr = &se
	err := cmd.Run()
	if ctx.Err() != nil {
		return c06xstep{abnormal: "hang", detail: fmt.Sprintf("%s %v still running after %v", tool, a, c06timeout)}
	}
	if err != nil {
		es := se.String()
		if strings.Contains(es, "panic: ") || strings.Contains(es, "fatal error: ") {
			fn, excerpt := c06crashSite(es)
			return c06xstep{abnormal: "crash:" + fn, detail: excerpt}
		}
		if len(es) > 500 {
			es = es[len(es)-500:]
		}
		return c06xstep{abnormal: "exit-status", detail: fmt.Sprintf("%s %v: %v; stderr ends with %q", tool, a, err, es)}
	}
	recs, perr := c06xparseFasta(so.Bytes())
	if perr != nil {
		return c06xstep{abnormal: "unreadable-output", detail: perr.Error()}
	}
	return c06xstep{out: recs}
}

// step runs one command of a pipeline on `in` (records of the previous step, or nil for the case's input).
func (x *c06ctx) xstep(c c06xcase, tool string, args []string, in []c06xout) c06xstep {
	var text []byte
	if in == nil {
		text = c06xfasta(c.Recs)
	} else {
		var b bytes.Buffer
		for _, r := range in {
			b.WriteString(">" + r.Id)
			if len(r.A) > 0 {
				h, _ := json.Marshal(r.A)
				b.WriteString(" " + string(h))
			}
			b.WriteString("\n" + r.Seq + "\n")
		}
		text = b.Bytes()
	}
	x.r.Eval(1)
	if c.Mode == "binary" {
		x.r.Count("runs_cli_binary", 1)
		if in == nil { // the first command reads a file, the following ones their standard input (a pipe)
			parts := [][]c06xrec{c.Recs}
			if c.Opt.Files >= 2 && len(c.Recs) >= 2 { // contiguous, non-empty parts
				parts = nil
				n := c.Opt.Files
				if n > len(c.Recs) {
					n = len(c.Recs)
				}
				for i := 0; i < n; i++ {
					parts = append(parts, c.Recs[i*len(c.Recs)/n:(i+1)*len(c.Recs)/n])
				}
				x.r.Count("cli_binary_runs_on_several_files", 1)
			}
			var files []string
			for i, p := range parts {
				f := filepath.Join(c06x.tmp, fmt.Sprintf("in%d.fasta", i))
				if err := os.WriteFile(f, c06xfasta(p), 0o644); err != nil {
					return c06xstep{abnormal: "harness", detail: err.Error()}
				}
				files = append(files, f)
			}
			return c06x.runBinary(tool, args, files, nil)
		}
		return c06x.runBinary(tool, args, nil, text)
	}
	x.r.Count("runs_cli_parser", 1)
	var sl obiseq.BioSequenceSlice
	if in == nil {
		sl = c06xbuild(c.Recs)
	} else {
		sl = make(obiseq.BioSequenceSlice, len(in))
		for i, r := range in {
			s := obiseq.NewBioSequence(r.Id, []byte(r.Seq), "")
			if len(r.A) > 0 {
				h, _ := json.Marshal(r.A)
				s.SetDefinition(string(h))
				obiformats.ParseFastSeqJsonHeader(s)
			}
			sl[i] = s
		}
	}
	o := c06xrunParser(tool, args, sl, c06xbatchIn(c.Opt))
	switch {
	case o.hung:
		x.broken++
		return c06xstep{abnormal: "hang", detail: fmt.Sprintf("output iterator not finished after %v; fatal=%q", c06timeout, o.fatal)}
	case o.panicked != "":
		return c06xstep{abnormal: "panic", detail: o.panicked}
	case len(o.fatal) > 0:
		return c06xstep{abnormal: "fatal", detail: fmt.Sprint(o.fatal)}
	}
	recs, err := c06xfromSeqs(o.recs)
	if err != nil {
		return c06xstep{abnormal: "unreadable-output", detail: err.Error()}
	}
	return c06xstep{out: recs}
}

func c06xcaseString(c c06xcase) string {
	var b strings.Builder
	fmt.Fprintf(&b, "%s %s obiuniq %s  on", c.Mode, c.What, strings.Join(c.Opt.args(), " "))
	if c.Opt.Files >= 2 {
		fmt.Fprintf(&b, " (%d files)", c.Opt.Files)
	}
	for i, rc := range c.Recs {
		if i >= 8 {
			fmt.Fprintf(&b, " ... (%d records)", len(c.Recs))
			break
		}
		fmt.Fprintf(&b, " [%s %s]", rc.Seq, rc.header())
	}
	return b.String()
}

func (c c06xcase) site() string {
	mode := "disk"
	if c.Opt.InMemory {
		mode = "memory"
	}
	return "cli(" + c.Mode + ")/" + mode
}

// compare one obiuniq output with the model
func (x *c06ctx) xcheckUniq(site string, out []c06xout, c c06xcase, full c06case) string {
	o := c.Opt
	model := c06xmodel(c.Recs, o, o.NoSingleton)
	obs := make([]c06xobs, len(out))
	seen := map[string]int{}
	for i, r := range out {
		obs[i] = c06xobserve(r, o)
		seen[c06xkey(obs[i].Seq, obs[i].Cats)]++
	}
	canon := c06xcanonObs(obs, o)
	want := c06xcanonModel(model, o, false)
	if canon == want {
		return canon
	}
	desc := fmt.Sprintf("%s: got {%s} want {%s}", c06xcaseString(c), canon, want)
	viol := func(class string) { x.r.Violate(site+"/"+class, desc, full) }
	// one particular, separately named symptom: the classes are right but a class whose category value
	// was given with two JSON types (1 and "1") comes out without that attribute
	if canon == c06xcanonModel(model, o, true) {
		viol("category-attribute-dropped:value-given-with-two-json-types")
		return canon
	}
	all := c06xmodel(c.Recs, o, false)
	reported := false
	for k, n := range seen {
		_, ok := model[k]
		switch {
		case !ok && o.NoSingleton && all[k] != nil:
			viol("singleton-kept")
			reported = true
		case !ok:
			viol("unexpected-class")
			reported = true
		case n > 1:
			if len(o.Cats) >= 2 {
				viol("class-split:2-or-more-categories")
			} else {
				viol("class-split")
			}
			reported = true
		}
	}
	for k, cl := range model {
		if seen[k] == 0 {
			switch {
			case o.NoSingleton && cl.Members == 1:
				viol("class-lost:single-record-of-count>1-under-nosingleton")
			case len(o.Cats) >= 2:
				viol("class-lost:2-or-more-categories")
			default:
				viol("class-lost")
			}
			reported = true
		}
	}
	if reported {
		return canon
	}
	for _, ob := range obs {
		cl := model[c06xkey(ob.Seq, ob.Cats)]
		if ob.Count != cl.Count {
			viol("count")
			reported = true
		}
		for i := range o.Merges {
			// the key names what the class / the option vector is made of, so that a defect of one
			// ingredient does not hide behind a finding about another
			tag := ""
			if i > 0 {
				tag = ":2nd-or-later-m"
			}
			if cl.PreMrg[i] {
				tag += ":merged-input"
			}
			if ob.Err[i] != "" {
				viol("merged-map-missing" + tag)
				reported = true
			} else if c06statsString(ob.Stats[i]) != c06statsString(cl.Stats[i]) {
				if o.NA != "" && o.NA != "NA" {
					// same map once the weight found under the default "NA" is moved to the requested NA value?
					alt := map[string]int{}
					for v, w := range ob.Stats[i] {
						if v == "NA" {
							v = o.NA
						}
						alt[v] += w
					}
					if _, has := ob.Stats[i]["NA"]; has && c06statsString(alt) == c06statsString(cl.Stats[i]) {
						tag += ":default-NA-instead-of-the-na-value-option"
					}
				}
				viol("merged-map" + tag)
				reported = true
			}
		}
	}
	if !reported {
		viol("other")
	}
	return canon
}

func (x *c06ctx) xabnormal(site string, st c06xstep, c c06xcase, full c06case) bool {
	if st.abnormal == "" {
		return false
	}
	if st.abnormal == "harness" {
		x.r.Note("C06 cli block: %s", st.detail)
		x.r.Cap("cli binary case could not be run: " + st.detail)
		return true
	}
	x.r.Violate(site+"/"+st.abnormal, fmt.Sprintf("%s: %s", c06xcaseString(c), st.detail), full)
	return true
}

func (x *c06ctx) evalX(full c06case) {
	c := *full.X
	r := x.r
	o := c.Opt
	site := c.site()
	args := o.args()
	r.Trans(int64(len(c.Recs)))
	if len(o.Merges) >= 2 {
		r.Count("cli_runs_with_2+_merge_keys", 1)
	}
	if len(o.Cats) >= 2 {
		r.Count("cli_runs_with_2+_categories", 1)
	}
	if o.NA != "" {
		r.Count("cli_runs_with_na_value_option", 1)
	}
	switch c.What {
	case "uniq":
		// (vacuity counters of this file: what the reference model demands, counted before the run)
		if len(c06xmodel(c.Recs, o, o.NoSingleton)) < len(c.Recs) {
			r.Count("cli_runs_with_a_merge", 1)
		}
		st := x.xstep(c, "obiuniq", args, nil)
		if x.xabnormal(site, st, c, full) {
			return
		}
		canon := x.xcheckUniq(site, st.out, c, full)
		r.State("x|" + strings.Join(args, " ") + "|" + canon)

	case "demerge":
		// obidemerge -d <k> on the raw records: a record with merged_<k> gives one record per value with
		// that count; a record without the map goes through (same sequence, same count, same k)
		mk := o.Merges[0]
		st := x.xstep(c, "obidemerge", []string{"-d", mk}, nil)
		if x.xabnormal("cli("+c.Mode+")/demerge", st, c, full) {
			return
		}
		var want, got []string
		split := false
		for _, rc := range c.Recs {
			seq := strings.ToLower(rc.Seq)
			if mv, ok := rc.A["merged_"+mk]; ok {
				im, _ := c06xintMap(mv)
				for v, w := range im {
					want = append(want, fmt.Sprintf("%s k=%s n=%d", seq, v, w))
				}
				split = true
			} else {
				k := "<absent>"
				if v, ok := rc.A[mk]; ok {
					k = c06xstr(v)
				}
				want = append(want, fmt.Sprintf("%s k=%s n=%d", seq, k, rc.count()))
			}
		}
		for _, rr := range st.out {
			ob := c06xobserve(rr, c06xopt{Merges: []string{mk}})
			s := fmt.Sprintf("%s k=%s n=%d", ob.Seq, ob.K, ob.Count)
			if ob.HasM {
				s += " +merged_" + mk
			}
			got = append(got, s)
		}
		sort.Strings(want)
		sort.Strings(got)
		if split {
			r.Count("cli_demerge_with_a_split", 1)
		}
		if len(want) > 0 && !split {
			r.Count("cli_demerge_without_any_map", 1)
		}
		if strings.Join(got, " ; ") != strings.Join(want, " ; ") {
			cls := "records:raw-input"
			if !split {
				cls = "records:input-without-merged-map"
			}
			r.Violate("cli("+c.Mode+")/demerge/"+cls, fmt.Sprintf("%s: obidemerge -d %s gave {%s} want {%s}", c06xcaseString(c), mk,
				strings.Join(got, " ; "), strings.Join(want, " ; ")), full)
		}

	case "roundtrip":
		mk := o.Merges[0]
		for _, cl := range c06xmodel(c.Recs, o, o.NoSingleton) {
			if len(cl.Stats[0]) > 1 {
				r.Count("cli_roundtrips_with_a_split", 1)
				break
			}
		}
		s1 := x.xstep(c, "obiuniq", args, nil)
		if x.xabnormal(site, s1, c, full) {
			return
		}
		obs1 := make([]c06xobs, len(s1.out))
		var wantD []string
		for i, rr := range s1.out {
			obs1[i] = c06xobserve(rr, o)
			for v, w := range obs1[i].Stats[0] {
				wantD = append(wantD, fmt.Sprintf("%s k=%s n=%d", c06xkey(obs1[i].Seq, obs1[i].Cats), v, w))
			}
		}
		canon1 := c06xcanonObs(obs1, o)
		s2 := x.xstep(c, "obidemerge", []string{"-d", mk}, s1.out)
		if x.xabnormal("cli("+c.Mode+")/demerge", s2, c, full) {
			return
		}
		var gotD []string
		for _, rr := range s2.out {
			ob := c06xobserve(rr, o)
			s := fmt.Sprintf("%s k=%s n=%d", c06xkey(ob.Seq, ob.Cats), ob.K, ob.Count)
			if ob.HasM {
				s += " +merged_" + mk
			}
			gotD = append(gotD, s)
		}
		sort.Strings(wantD)
		sort.Strings(gotD)
		if strings.Join(gotD, " ; ") != strings.Join(wantD, " ; ") {
			r.Violate("cli("+c.Mode+")/demerge/records", fmt.Sprintf("%s: obiuniq gave {%s}; obidemerge -d %s gave {%s} want {%s}", c06xcaseString(c),
				canon1, mk, strings.Join(gotD, " ; "), strings.Join(wantD, " ; ")), full)
		}
		s3 := x.xstep(c, "obiuniq", args, s2.out)
		if x.xabnormal(site+"/roundtrip", s3, c, full) {
			return
		}
		obs3 := make([]c06xobs, len(s3.out))
		for i, rr := range s3.out {
			obs3[i] = c06xobserve(rr, o)
		}
		canon3 := c06xcanonObs(obs3, o)
		r.State("xrt|" + canon3)
		if canon3 != canon1 {
			r.Violate(site+"/roundtrip/differs", fmt.Sprintf("%s: obiuniq gave {%s}; obiuniq|obidemerge -d %s|obiuniq gave {%s}", c06xcaseString(c), canon1, mk, canon3), full)
		}
	default:
		panic("c06x: what=" + c.What)
	}
}

// ---- the executables ----

func c06xrepoRoot() (string, error) {
	d, err := os.Getwd()
	if err != nil {
		return "", err
	}
	for {
		if _, err := os.Stat(filepath.Join(d, "go.mod")); err == nil {
			if _, err := os.Stat(filepath.Join(d, "cmd", "obitools", "obiuniq")); err == nil {
				return d, nil
			}
		}
		p := filepath.Dir(d)
		if p == d {
			return "", fmt.Errorf("repository root not found above the working directory")
		}
		d = p
	}
}

// c06xbinaries builds obiuniq and obidemerge from the tree under test once per run (the shards share
// the directory; the first one to arrive builds, the others wait for it).
func c06xbinaries(r *verifkit.Result, base string) (string, error) {
	dir := filepath.Join(base, "c06bin")
	done := filepath.Join(dir, "ready")
	ready := func() bool { _, err := os.Stat(done); return err == nil }
	if ready() {
		return dir, nil
	}
	os.MkdirAll(dir, 0o755)
	lock, err := os.OpenFile(filepath.Join(dir, "lock"), os.O_CREATE|os.O_EXCL|os.O_WRONLY, 0o644)
	if err != nil { // somebody else is building
		t0 := time.Now()
		for time.Since(t0) < 15*time.Minute {
			if ready() {
				return dir, nil
			}
			if _, err := os.Stat(filepath.Join(dir, "failed")); err == nil {
				b, _ := os.ReadFile(filepath.Join(dir, "failed"))
				return "", fmt.Errorf("build of the commands failed in another shard: %s", b)
			}
			time.Sleep(200 * time.Millisecond)
		}
		return "", fmt.Errorf("timed out waiting for another shard to build the commands")
	}
	lock.Close()
	root, err := c06xrepoRoot()
	if err != nil {
		os.WriteFile(filepath.Join(dir, "failed"), []byte(err.Error()), 0o644)
		return "", err
	}
	t0 := time.Now()
	cmd := exec.Command("go", "build", "-o", dir+string(os.PathSeparator), "./cmd/obitools/obiuniq", "./cmd/obitools/obidemerge")
	cmd.Dir = root
	env := []string{}
	for _, e := range os.Environ() {
		if strings.HasPrefix(e, "GOFLAGS=") || strings.HasPrefix(e, "GOMAXPROCS=") {
			continue
		}
		env = append(env, e)
	}
	cmd.Env = append(env, "GOFLAGS=-mod=mod", "GOPROXY=off", "GOSUMDB=off", "GOTOOLCHAIN=local", "GOWORK=off")
	if out, err := cmd.CombinedOutput(); err != nil {
		tail := string(out)
		if len(tail) > 3000 {
			tail = tail[len(tail)-3000:]
		}
		os.WriteFile(filepath.Join(dir, "failed"), []byte(tail), 0o644)
		return "", fmt.Errorf("go build of obiuniq/obidemerge failed: %v\n%s", err, tail)
	}
	for _, b := range []string{"obiuniq", "obidemerge"} {
		if _, err := os.Stat(filepath.Join(dir, b)); err != nil {
			os.WriteFile(filepath.Join(dir, "failed"), []byte(b+" missing after the build"), 0o644)
			return "", fmt.Errorf("%s missing after the build", b)
		}
	}
	r.Bound("binaries_built_from", root)
	r.Count("build_binaries_s", int64(time.Since(t0).Seconds()))
	os.WriteFile(done, []byte("ok"), 0o644)
	return dir, nil
}

// ---- enumeration ----

type c06xblock struct {
	Name      string
	Mode      string
	What      string
	Types     []c06xrec
	Fixed     [][]c06xrec // explicit inputs (instead of the multisets over Types)
	Nmin      int
	Nmax      int
	AllOrders bool
	Opts      []c06xopt
}

func c06xm(kv ...any) map[string]any {
	m := map[string]any{}
	for i := 0; i+1 < len(kv); i += 2 {
		m[kv[i].(string)] = kv[i+1]
	}
	return m
}

func c06xmerge(ms ...map[string]any) map[string]any {
	o := map[string]any{}
	for _, m := range ms {
		for k, v := range m {
			o[k] = v
		}
	}
	return o
}

// XM: several categories (c, d, e) and several merge attributes (k, j, l; numbers, booleans, already merged maps)
func c06xalphabetMulti() []c06xrec {
	cats := []map[string]any{
		{},
		c06xm("c", "x", "d", "p", "e", "s"),
		c06xm("c", "x", "d", "q", "e", "s"),
		c06xm("c", "y", "d", "p"),
		c06xm("c", "x", "d", "p", "e", "t"),
	}
	type mv struct {
		n int
		a map[string]any
	}
	ms := []mv{
		{0, map[string]any{}},
		{2, c06xm("k", "u", "j", 1, "l", true)},
		{0, c06xm("k", "v", "j", 1)},
		{2, c06xm("merged_k", map[string]any{"u": 1, "v": 1}, "merged_j", map[string]any{"1": 2}, "l", "true")},
	}
	var t []c06xrec
	for _, s := range c06seqs {
		for _, c := range cats {
			for _, m := range ms {
				t = append(t, c06xrec{Seq: s, Count: m.n, A: c06xmerge(c, m.a)})
			}
		}
	}
	return t
}

// XT: one sequence; category values of several JSON types and literal NA strings; merge values colliding with the NA strings
func c06xalphabetTypes() []c06xrec {
	cs := []map[string]any{{}, c06xm("c", "1"), c06xm("c", 1), c06xm("c", true), c06xm("c", "true"), c06xm("c", "NA"), c06xm("c", "zz")}
	type mv struct {
		n int
		a map[string]any
	}
	ms := []mv{
		{0, map[string]any{}},
		{2, c06xm("k", "u")},
		{0, c06xm("k", "zz")},
		{2, c06xm("merged_k", map[string]any{"NA": 1, "zz": 1})},
	}
	var t []c06xrec
	for _, c := range cs {
		for _, m := range ms {
			t = append(t, c06xrec{Seq: c06seqs[0], Count: m.n, A: c06xmerge(c, m.a)})
		}
	}
	return t
}

// XB: what the executables read: sequences differing only by case, a numeric category, merged records
func c06xalphabetBinary(thorough bool) []c06xrec {
	type mv struct {
		n int
		a map[string]any
	}
	ms := []mv{{0, map[string]any{}}, {2, c06xm("merged_k", map[string]any{"u": 1, "v": 1})}}
	if thorough {
		ms = append(ms, mv{2, c06xm("k", "u")})
	}
	var t []c06xrec
	for _, s := range []string{"acgt", "ACGT", "acga"} {
		for _, c := range []map[string]any{{}, c06xm("c", "x"), c06xm("c", 1)} {
			for _, m := range ms {
				t = append(t, c06xrec{Seq: s, Count: m.n, A: c06xmerge(c, m.a)})
			}
		}
	}
	return t
}

// inputs longer than the batch size of the command (10): every type of XM several times, in three rotations
func c06xlargeInputs() [][]c06xrec {
	t := c06xalphabetMulti()
	var out [][]c06xrec
	for _, step := range []int{7, 11, 13} {
		var l []c06xrec
		for i := 0; i < 32; i++ {
			l = append(l, t[(i*step+i/5)%len(t)])
		}
		out = append(out, l)
	}
	return out
}

func c06xshapes(cats [][]string, merges [][]string, rest []c06xopt) []c06xopt {
	var out []c06xopt
	for _, c := range cats {
		for _, m := range merges {
			for _, o := range rest {
				o.Cats = c
				o.Merges = m
				out = append(out, o)
			}
		}
	}
	return out
}

func c06xblocks(thorough bool) []c06xblock {
	catShapes := [][]string{nil, {"c"}, {"c", "d"}, {"c", "d", "e"}, {"d", "c"}}
	mergeShapes := [][]string{nil, {"k"}, {"k", "j"}, {"k", "j", "l"}}
	multi := c06xalphabetMulti()
	types := c06xalphabetTypes()
	bin := c06xalphabetBinary(thorough)
	var bl []c06xblock

	// --- parser mode
	memRest := []c06xopt{
		{InMemory: true, MaxCPU: 2},
		{InMemory: true, MaxCPU: 2, Chunks: 2, NoSingleton: true, Batch: 1},
		{InMemory: true, MaxCPU: 3, Chunks: 3, Batch: 2, NA: "zz"},
	}
	// (number of -c, number of -m): everything with two or more of one of them (one -c / one -m alone is what the
	// other blocks do); index 4 of catShapes is "-c d -c c"
	multiShapes := [][2]int{{0, 2}, {0, 3}, {1, 2}, {1, 3}, {2, 0}, {2, 1}, {2, 2}, {2, 3}, {3, 0}, {3, 1}, {3, 3}, {4, 2}}
	shaped := func(shapes [][2]int, rest []c06xopt) []c06xopt {
		var out []c06xopt
		for _, sh := range shapes {
			for _, o := range rest {
				o.Cats, o.Merges = catShapes[sh[0]], mergeShapes[sh[1]]
				out = append(out, o)
			}
		}
		return out
	}
	bl = append(bl, c06xblock{Name: "cli/multi", Mode: "parser", What: "uniq", Types: multi, Nmax: 2, AllOrders: true,
		Opts: shaped(multiShapes, memRest[1:])})
	bl = append(bl, c06xblock{Name: "cli/multi-defaults", Mode: "parser", What: "uniq", Types: multi, Nmax: 2,
		Opts: shaped([][2]int{{0, 3}, {2, 2}, {3, 3}, {3, 1}, {4, 2}}, memRest[:1])})
	diskShapes := []c06xopt{}
	for _, sh := range [][2]int{{2, 2}, {3, 3}, {0, 3}} {
		for _, rest := range []c06xopt{{MaxCPU: 2, Chunks: 7}, {MaxCPU: 2, NA: "zz", NoSingleton: true}} {
			rest.Cats, rest.Merges = catShapes[sh[0]], mergeShapes[sh[1]]
			diskShapes = append(diskShapes, rest)
		}
	}
	bl = append(bl, c06xblock{Name: "cli/multi-disk", Mode: "parser", What: "uniq", Types: multi, Nmax: 2, Opts: diskShapes})
	typeOpts := []c06xopt{}
	for _, na := range []string{"", "zz"} {
		for _, ns := range []bool{false, true} {
			typeOpts = append(typeOpts, c06xopt{Cats: []string{"c"}, Merges: []string{"k"}, NA: na, NoSingleton: ns, InMemory: true, MaxCPU: 2, Chunks: 2})
		}
	}
	bl = append(bl, c06xblock{Name: "cli/types", Mode: "parser", What: "uniq", Types: types, Nmax: 2, AllOrders: true, Opts: typeOpts})
	bl = append(bl, c06xblock{Name: "cli/types", Mode: "parser", What: "uniq", Types: types, Nmin: 3, Nmax: 3, AllOrders: thorough,
		Opts: []c06xopt{typeOpts[0], typeOpts[2]}})
	bl = append(bl, c06xblock{Name: "cli/types-disk", Mode: "parser", What: "uniq", Types: types, Nmax: 2,
		Opts: []c06xopt{{Cats: []string{"c"}, Merges: []string{"k"}, NA: "zz", MaxCPU: 2}}})
	bl = append(bl, c06xblock{Name: "cli/demerge", Mode: "parser", What: "demerge", Types: multi, Nmax: 2,
		Opts: []c06xopt{{Merges: []string{"k"}, MaxCPU: 2}, {Merges: []string{"l"}, MaxCPU: 2, Batch: 1}}})
	bl = append(bl, c06xblock{Name: "cli/roundtrip", Mode: "parser", What: "roundtrip", Types: multi, Nmax: 2,
		Opts: []c06xopt{{Merges: []string{"k"}, Cats: []string{"c", "d"}, InMemory: true, MaxCPU: 2, NA: "zz"},
			{Merges: []string{"k"}, Cats: []string{"c", "d", "e"}, MaxCPU: 2, Chunks: 7}}})
	largeOpts := c06xshapes([][]string{{"c"}, {"c", "d", "e"}}, [][]string{{"k"}, {"k", "j", "l"}},
		[]c06xopt{{InMemory: true, MaxCPU: 2}, {InMemory: true, MaxCPU: 3, Batch: 7, Chunks: 3, NoSingleton: true}, {MaxCPU: 2}, {MaxCPU: 2, Chunks: 7, NA: "zz"}})
	bl = append(bl, c06xblock{Name: "cli/large", Mode: "parser", What: "uniq", Fixed: c06xlargeInputs(), Opts: largeOpts})
	if thorough {
		bl = append(bl, c06xblock{Name: "cli/multi", Mode: "parser", What: "uniq", Types: multi, Nmin: 3, Nmax: 3, AllOrders: true,
			Opts: shaped([][2]int{{2, 2}, {3, 3}, {0, 3}, {3, 0}}, memRest[1:2])})
		bl = append(bl, c06xblock{Name: "cli/multi-disk", Mode: "parser", What: "uniq", Types: multi, Nmin: 3, Nmax: 3, Opts: diskShapes[2:4]})
	}

	// --- the executables
	binOpts := []c06xopt{
		{Cats: []string{"c"}, Merges: []string{"k"}, InMemory: true},
		{Cats: []string{"c"}, Merges: []string{"k"}},
		{Cats: []string{"c"}, Merges: []string{"k"}, Chunks: 7, MaxCPU: 2},
		{Cats: []string{"c"}, Merges: []string{"k"}, InMemory: true, NoSingleton: true, Chunks: 2, NA: "zz"},
		{Cats: []string{"c"}, Merges: []string{"k"}, InMemory: true, Files: 2},
	}
	bl = append(bl, c06xblock{Name: "bin/uniq", Mode: "binary", What: "uniq", Types: bin, Nmax: 2, Opts: binOpts})
	bl = append(bl, c06xblock{Name: "bin/roundtrip", Mode: "binary", What: "roundtrip", Types: bin, Nmax: 2,
		Opts: []c06xopt{{Merges: []string{"k"}, Cats: []string{"c"}, InMemory: true}, {Merges: []string{"k"}}}})
	bl = append(bl, c06xblock{Name: "bin/demerge", Mode: "binary", What: "demerge", Types: bin, Nmin: 1, Nmax: 1, Opts: []c06xopt{{Merges: []string{"k"}}}})
	bl = append(bl, c06xblock{Name: "bin/large", Mode: "binary", What: "uniq", Fixed: c06xlargeInputs(),
		Opts: c06xshapes([][]string{{"c"}, {"c", "d", "e"}}, [][]string{{"k"}, {"k", "j", "l"}}, []c06xopt{{InMemory: true}, {Files: 2}, {Chunks: 3, NA: "zz", NoSingleton: true, Files: 3}})})
	bl = append(bl, c06xblock{Name: "bin/large-roundtrip", Mode: "binary", What: "roundtrip", Fixed: c06xlargeInputs(),
		Opts: []c06xopt{{Merges: []string{"k"}, Cats: []string{"c", "d"}, Files: 3}, {Merges: []string{"k"}, InMemory: true}}})
	if thorough {
		bl = append(bl, c06xblock{Name: "bin/uniq", Mode: "binary", What: "uniq", Types: bin, Nmin: 3, Nmax: 3, Opts: binOpts[1:]})
		bl = append(bl, c06xblock{Name: "bin/roundtrip", Mode: "binary", What: "roundtrip", Types: bin, Nmin: 3, Nmax: 3,
			Opts: []c06xopt{{Merges: []string{"k"}, Cats: []string{"c"}}}})
	}
	return bl
}

// c06xenumerate visits the cli cases; positions continue the numbering of c06enumerate (k = work item).
func c06xenumerate(r *verifkit.Result, thorough bool, k0 int, only string, visit func(k, j int, blk string, c c06case) bool) (int, bool) {
	k := k0
	stop := false
	var desc []string
	blocks := c06xblocks(thorough)
	for _, b := range blocks {
		src := fmt.Sprintf("%d record types n=%d..%d orders=%v", len(b.Types), b.Nmin, b.Nmax, b.AllOrders)
		if b.Fixed != nil {
			src = fmt.Sprintf("%d fixed inputs of %d records", len(b.Fixed), len(b.Fixed[0]))
		}
		desc = append(desc, fmt.Sprintf("%s: %s %s, %s, %d option vectors", b.Name, b.Mode, b.What, src, len(b.Opts)))
	}
	r.Bound("cli_blocks", desc)
	r.Bound("cli_alphabets", "XM = 2 seq x (c,d,e) in {none,(x,p,s),(x,q,s),(y,p,-),(x,p,t)} x {plain; k=u j=1 l=true count 2; k=v j=1; merged_k{u:1,v:1} merged_j{1:2} l=\"true\" count 2}; "+
		"XT = 1 seq x c in {absent,\"1\",1,true,\"true\",\"NA\",\"zz\"} x {plain; k=u count 2; k=zz; merged_k{NA:1,zz:1} count 2}; "+
		"XB = {acgt,ACGT,acga} x c in {absent,x,1} x {plain; merged_k{u:1,v:1} count 2 (thorough: + k=u count 2)}; large = 3 inputs of 32 records over XM")
	for _, b := range blocks {
		if stop || !strings.HasPrefix(b.Name, only) {
			continue
		}
		item := func(recs []c06xrec, orders bool) {
			if stop {
				return
			}
			mine := r.Mine(k)
			kk := k
			k++
			if !mine {
				return
			}
			j := 0
			one := func(l []c06xrec) {
				for _, o := range b.Opts {
					if stop {
						return
					}
					xc := &c06xcase{Mode: b.Mode, What: b.What, Recs: append([]c06xrec{}, l...), Opt: o}
					if !visit(kk, j, b.Name, c06case{Kind: "cli", X: xc}) {
						stop = true
					}
					j++
				}
			}
			if !orders {
				one(recs)
				return
			}
			idx := make([]int, len(recs))
			for i := range idx {
				idx[i] = i
			}
			// recs comes from a non-decreasing type list: equal neighbours are the same type
			ms := make([]int, len(recs))
			for i := range recs {
				ms[i] = i
				if i > 0 && fmt.Sprint(recs[i]) == fmt.Sprint(recs[i-1]) {
					ms[i] = ms[i-1]
				}
			}
			c06orderings(ms, func(p []int) {
				l := make([]c06xrec, len(p))
				for i, t := range p {
					l[i] = recs[t]
				}
				one(l)
			})
		}
		if b.Fixed != nil {
			for _, f := range b.Fixed {
				item(f, false)
			}
			continue
		}
		for n := b.Nmin; n <= b.Nmax && !stop; n++ {
			c06multisets(len(b.Types), n, func(ms []int) {
				recs := make([]c06xrec, len(ms))
				for i, t := range ms {
					recs[i] = b.Types[t]
				}
				item(recs, b.AllOrders)
			})
		}
	}
	return k, stop
}
