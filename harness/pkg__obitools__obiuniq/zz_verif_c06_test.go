//go:build verif

package obiuniq

// C06 — dereplication conserves counts and merges exactly the identical records.
//
// Engine B (outer enumeration). Every multiset of records over a finite alphabet
//   2 sequences x category attribute c {absent, "x", "y"} x count {1 (no attribute), 2}
//   x merge attribute k {absent, scalar "u", already a merged_k map}
// x every distinct input ordering x batch size {1,2,all} x chunk count {1,2,3} x {memory, disk}
// x --no-singleton x workers {1,2} x annotation representation {Go values, values as produced by the
// JSON header parser} x requested options {-c c -m k, -m k, -c c, none} is pushed through the real
// obiuniq pipeline (CLIUnique -> obichunk.IUniqueSequence -> Distribute / ISequenceChunk[OnDisk] /
// ISequenceSubChunk / IMergeSequenceBatch) running natively on real goroutines, plus the round trip
// uniq -m k -> MakeDemergeWorker(k) -> uniq -m k. The blocks (alphabet, sizes, configurations) of each
// tier are listed by c06blocks and reported in bounds.blocks.
//
// Oracle: a Go map keyed by (sequence, category value or NA) accumulating count and per-value
// weights; the output is compared as a set keyed by that key (count, merged_k, no-singleton).
// Nothing else about the output records is constrained.
//
// Process structure: the test started by /verif/check is a supervisor; cases run in child processes
// of the same binary so that a panic inside a pipeline goroutine is a verdict (see "process
// structure" below). Scheduling is left to the Go runtime: repetitions are sampling, labelled so.
// Debug knobs (never set by /verif/check): C06_ONLY=<block name prefix>, C06_DRY=1, C06_BENCH=1.

import (
	"bytes"
	"encoding/json"
	"fmt"
	"io"
	"os"
	"os/exec"
	"path/filepath"
	"runtime"
	"runtime/debug"
	"sort"
	"strings"
	"sync"
	"testing"
	"time"

	"git.metabarcoding.org/obitools/obitools4/obitools4/pkg/obiformats"
	"git.metabarcoding.org/obitools/obitools4/obitools4/pkg/obiiter"
	"git.metabarcoding.org/obitools/obitools4/obitools4/pkg/obioptions"
	"git.metabarcoding.org/obitools/obitools4/obitools4/pkg/obiseq"
	"git.metabarcoding.org/obitools/obitools4/obitools4/pkg/obitools/obidemerge"
	"git.metabarcoding.org/obitools/obitools4/obitools4/pkg/obiutils"
	"git.metabarcoding.org/obitools/obitools4/obitools4/pkg/verifkit"
	log "github.com/sirupsen/logrus"
)

// crc32("acgt") = 0 mod 2, 2 mod 3; crc32("acga") = 1 mod 2, 2 mod 3:
// chunk count 2 separates the two sequences, chunk counts 1 and 3 put them in the same chunk.
var c06seqs = []string{"acgt", "acga"}
var c06cats = []string{"", "x", "y", c06na} // index 3: the literal NA value

const c06catKey = "c"
const c06mergeKey = "k"
const c06na = "NA"

type c06rec struct {
	S int `json:"s"` // index in c06seqs
	C int `json:"c"` // category attribute c: 0 absent, 1 "x", 2 "y", 3 the literal "NA"
	N int `json:"n"` // count: 1 (no count attribute) or 2
	M int `json:"m"` // merge attribute k: 0 absent, 1 scalar "u", 2 already merged (merged_k map), 3 scalar "NA"
}

type c06cfg struct {
	Batch       int  `json:"batch"` // input batch size and obioptions batch size
	Chunks      int  `json:"chunks"`
	Disk        bool `json:"disk"`
	NoSingleton bool `json:"nosingleton"`
	Workers     int  `json:"workers"`
	Parsed      bool `json:"parsed"` // annotations in the representation produced by the JSON header parser
	Cat         bool `json:"cat"`    // -c c
	Merge       bool `json:"merge"`  // -m k
}

type c06case struct {
	Kind string    `json:"kind"` // "uniq" | "roundtrip"
	Recs []c06rec  `json:"recs"`
	Cfg  c06cfg    `json:"cfg"`
	Reps int       `json:"reps"`
	Text bool      `json:"text,omitempty"` // round trip: records travel between the tools as text headers
	X    *c06xcase `json:"x,omitempty"`    // kind "cli": command-level case (zz_verif_c06x_test.go)
}

// weights an already merged record contributes (sum == its count)
func c06mergedMap(n int) map[string]int {
	if n == 1 {
		return map[string]int{"v": 1}
	}
	return map[string]int{"u": 1, "v": n - 1}
}

func c06build(i int, rc c06rec, parsed bool) *obiseq.BioSequence {
	s := obiseq.NewBioSequence(fmt.Sprintf("r%d", i), []byte(c06seqs[rc.S]), "")
	if !parsed {
		if rc.C > 0 {
			s.SetAttribute(c06catKey, c06cats[rc.C])
		}
		if rc.N != 1 {
			s.SetAttribute("count", rc.N)
		}
		switch rc.M {
		case 1:
			s.SetAttribute(c06mergeKey, "u")
		case 2:
			s.SetAttribute(obiseq.StatsOnSlotName(c06mergeKey), obiseq.StatsOnValues(c06mergedMap(rc.N)))
		case 3:
			s.SetAttribute(c06mergeKey, c06na)
		}
		return s
	}
	a := map[string]interface{}{}
	if rc.C > 0 {
		a[c06catKey] = c06cats[rc.C]
	}
	if rc.N != 1 {
		a["count"] = rc.N
	}
	switch rc.M {
	case 1:
		a[c06mergeKey] = "u"
	case 2:
		a[obiseq.StatsOnSlotName(c06mergeKey)] = c06mergedMap(rc.N)
	case 3:
		a[c06mergeKey] = c06na
	}
	if len(a) > 0 {
		b, err := json.Marshal(a)
		if err != nil {
			panic(err)
		}
		s.SetDefinition(string(b))
		obiformats.ParseFastSeqJsonHeader(s)
	}
	return s
}

// ---- reference model ----

type c06class struct {
	Seq     string
	Cat     string
	Count   int
	Stats   map[string]int
	Members int  // number of input records
	PreMrg  bool // a member already carried a merged_k map
	NAReal  bool // a member has the literal NA string as value of k
}

func c06key(seq, cat string) string { return seq + "|" + cat }

func c06model(recs []c06rec, cfg c06cfg) map[string]*c06class {
	m := map[string]*c06class{}
	for _, rc := range recs {
		cat := ""
		if cfg.Cat {
			cat = c06na
			if rc.C > 0 {
				cat = c06cats[rc.C]
			}
		}
		k := c06key(c06seqs[rc.S], cat)
		cl := m[k]
		if cl == nil {
			cl = &c06class{Seq: c06seqs[rc.S], Cat: cat, Stats: map[string]int{}}
			m[k] = cl
		}
		cl.Count += rc.N
		cl.Members++
		if cfg.Merge {
			switch rc.M {
			case 0, 3:
				cl.Stats[c06na] += rc.N
				cl.NAReal = cl.NAReal || rc.M == 3
			case 1:
				cl.Stats["u"] += rc.N
			case 2:
				for v, w := range c06mergedMap(rc.N) {
					cl.Stats[v] += w
				}
				cl.PreMrg = true
			}
		}
	}
	if cfg.NoSingleton {
		for k, cl := range m {
			if cl.Count == 1 {
				delete(m, k)
			}
		}
	}
	return m
}

// ---- observation of an output record ----

type c06obs struct {
	Seq   string
	Cat   string
	Count int
	Stats map[string]int
	K     string // scalar value of attribute k (round trip only)
	Err   string
}

func c06observe(s *obiseq.BioSequence, cfg c06cfg) c06obs {
	o := c06obs{Seq: s.String(), Count: s.Count()}
	if cfg.Cat {
		o.Cat = c06na
		if v, ok := s.GetAttribute(c06catKey); ok {
			o.Cat = fmt.Sprint(v)
		}
	}
	if v, ok := s.GetAttribute(c06mergeKey); ok {
		o.K = fmt.Sprint(v)
	} else {
		o.K = "<absent>"
	}
	if cfg.Merge {
		v, ok := s.GetAttribute(obiseq.StatsOnSlotName(c06mergeKey))
		if !ok {
			o.Err = "no merged_k attribute"
			return o
		}
		switch mv := v.(type) {
		case obiseq.StatsOnValues:
			o.Stats = map[string]int{}
			for a, b := range mv {
				o.Stats[a] = b
			}
		default:
			im, err := obiutils.InterfaceToIntMap(v)
			if err != nil {
				o.Err = fmt.Sprintf("merged_k is a %T", v)
				return o
			}
			o.Stats = map[string]int{}
			for a, b := range im {
				o.Stats[a] = b
			}
		}
	}
	return o
}

func c06statsString(m map[string]int) string {
	ks := make([]string, 0, len(m))
	for k := range m {
		ks = append(ks, k)
	}
	sort.Strings(ks)
	var b strings.Builder
	b.WriteByte('{')
	for i, k := range ks {
		if i > 0 {
			b.WriteByte(',')
		}
		fmt.Fprintf(&b, "%s:%d", k, m[k])
	}
	b.WriteByte('}')
	return b.String()
}

func c06canonObs(obs []c06obs, cfg c06cfg) string {
	l := make([]string, len(obs))
	for i, o := range obs {
		l[i] = fmt.Sprintf("%s|%s n=%d", o.Seq, o.Cat, o.Count)
		if cfg.Merge {
			l[i] += " " + c06statsString(o.Stats) + o.Err
		}
	}
	sort.Strings(l)
	return strings.Join(l, " ; ")
}

func c06canonModel(m map[string]*c06class, cfg c06cfg) string {
	l := make([]string, 0, len(m))
	for _, cl := range m {
		s := fmt.Sprintf("%s|%s n=%d", cl.Seq, cl.Cat, cl.Count)
		if cfg.Merge {
			s += " " + c06statsString(cl.Stats)
		}
		l = append(l, s)
	}
	sort.Strings(l)
	return strings.Join(l, " ; ")
}

// ---- running the real pipeline ----

type c06hook struct {
	mu   sync.Mutex
	msgs []string
}

func (h *c06hook) Levels() []log.Level { return []log.Level{log.PanicLevel, log.FatalLevel} }
func (h *c06hook) Fire(e *log.Entry) error {
	h.mu.Lock()
	h.msgs = append(h.msgs, e.Level.String()+": "+e.Message)
	h.mu.Unlock()
	return nil
}
func (h *c06hook) take() []string {
	h.mu.Lock()
	defer h.mu.Unlock()
	m := h.msgs
	h.msgs = nil
	return m
}

var c06fatal = &c06hook{}

type c06outcome struct {
	recs     obiseq.BioSequenceSlice
	panicked string
	hung     bool
	fatal    []string
}

var c06timeout = 120 * time.Second

func c06setGlobals(cfg c06cfg) {
	obioptions.SetBatchSize(cfg.Batch)
	obioptions.SetMaxCPU(cfg.Workers)
	obioptions.SetWorkerPerCore(1.0)
	obioptions.SetStrictReadWorker(cfg.Workers)
	obioptions.SetStrictWriteWorker(cfg.Workers)
	obioptions.SetReadQualities(false)
	if cfg.Merge {
		_StatsOn = []string{c06mergeKey}
	} else {
		_StatsOn = []string{}
	}
	if cfg.Cat {
		_Keys = []string{c06catKey}
	} else {
		_Keys = []string{}
	}
	_InMemory = !cfg.Disk
	_chunks = cfg.Chunks
	_NAValue = c06na
	_NoSingleton = cfg.NoSingleton
}

// c06guard runs f (which drives a pipeline and drains it) under a watchdog.
func c06guard(f func() obiseq.BioSequenceSlice) c06outcome {
	c06fatal.take()
	type res struct {
		recs obiseq.BioSequenceSlice
		p    string
	}
	ch := make(chan res, 1)
	go func() {
		defer func() {
			if x := recover(); x != nil {
				ch <- res{nil, fmt.Sprint(x)}
			}
		}()
		ch <- res{f(), ""}
	}()
	t := time.NewTimer(c06timeout)
	defer t.Stop()
	select {
	case x := <-ch:
		return c06outcome{recs: x.recs, panicked: x.p, fatal: c06fatal.take()}
	case <-t.C:
		return c06outcome{hung: true, fatal: c06fatal.take()}
	}
}

func c06drain(it obiiter.IBioSequence) obiseq.BioSequenceSlice {
	out := obiseq.BioSequenceSlice{}
	for it.Next() {
		out = append(out, it.Get().Slice()...)
	}
	return out
}

func c06runUniq(in obiseq.BioSequenceSlice, cfg c06cfg) c06outcome {
	c06setGlobals(cfg)
	return c06guard(func() obiseq.BioSequenceSlice {
		it := obiiter.IBatchOver("c06", in, cfg.Batch)
		return c06drain(CLIUnique(it))
	})
}

func c06runDemerge(in obiseq.BioSequenceSlice, cfg c06cfg) c06outcome {
	c06setGlobals(cfg)
	return c06guard(func() obiseq.BioSequenceSlice {
		it := obiiter.IBatchOver("c06", in, cfg.Batch)
		w := obidemerge.MakeDemergeWorker(c06mergeKey)
		return c06drain(it.MakeIWorker(w, false, obioptions.CLIParallelWorkers(), 0))
	})
}

// c06viaText re-creates every record from its id, sequence and JSON header text (what a pipe
// between two obitools commands carries).
func c06viaText(in obiseq.BioSequenceSlice) obiseq.BioSequenceSlice {
	out := make(obiseq.BioSequenceSlice, len(in))
	for i, s := range in {
		h := obiformats.FormatFastSeqJsonHeader(s)
		n := obiseq.NewBioSequence(s.Id(), []byte(s.String()), "")
		if h != "" {
			n.SetDefinition(strings.Clone(h))
			obiformats.ParseFastSeqJsonHeader(n)
		}
		out[i] = n
	}
	return out
}

// ---- checking ----

type c06ctx struct {
	r      *verifkit.Result
	broken int // hangs / fatals seen in this process: the process state is no longer trustworthy
}

func (x *c06ctx) mode(cfg c06cfg) string {
	if cfg.Disk {
		return "disk"
	}
	return "memory"
}

func c06caseString(c c06case) string {
	if c.X != nil {
		return c06xcaseString(*c.X)
	}
	var b strings.Builder
	for i, rc := range c.Recs {
		if i > 0 {
			b.WriteString(" ")
		}
		fmt.Fprintf(&b, "[%s c=%s count=%d k=%s]", c06seqs[rc.S], []string{"-", "x", "y", "NA"}[rc.C], rc.N,
			[]string{"-", "u", "merged" + c06statsString(c06mergedMap(rc.N)), "NA"}[rc.M])
	}
	cf := c.Cfg
	fmt.Fprintf(&b, " batch=%d chunks=%d disk=%v nosingleton=%v workers=%d parsed=%v -c=%v -m=%v",
		cf.Batch, cf.Chunks, cf.Disk, cf.NoSingleton, cf.Workers, cf.Parsed, cf.Cat, cf.Merge)
	return b.String()
}

// abnormal reports panics / fatals / hangs of one pipeline run; true when the run gave no usable output.
func (x *c06ctx) abnormal(site string, o c06outcome, c c06case) bool {
	switch {
	case o.hung && len(o.fatal) > 0:
		x.broken++
		x.r.Violate(site+"/fatal", fmt.Sprintf("%s: fatal error %q and the output never ends", c06caseString(c), o.fatal), c)
		return true
	case o.hung:
		x.broken++
		x.r.Violate(site+"/hang", fmt.Sprintf("%s: output iterator not finished after %v", c06caseString(c), c06timeout), c)
		return true
	case o.panicked != "":
		x.r.Violate(site+"/panic", fmt.Sprintf("%s: panic %s", c06caseString(c), o.panicked), c)
		return true
	case len(o.fatal) > 0:
		x.r.Violate(site+"/fatal", fmt.Sprintf("%s: fatal error %q", c06caseString(c), o.fatal), c)
		return true
	}
	return false
}

// compare one uniq output with the model; returns canonical output.
func (x *c06ctx) checkUniq(site string, out obiseq.BioSequenceSlice, c c06case, rep int) string {
	cfg := c.Cfg
	model := c06model(c.Recs, cfg)
	obs := make([]c06obs, len(out))
	seen := map[string]int{}
	total := 0
	for i, s := range out {
		obs[i] = c06observe(s, cfg)
		seen[c06key(obs[i].Seq, obs[i].Cat)]++
		total += obs[i].Count
	}
	canon := c06canonObs(obs, cfg)
	want := c06canonModel(model, cfg)
	if canon == want {
		return canon
	}
	desc := fmt.Sprintf("%s (repetition %d): got {%s} want {%s}", c06caseString(c), rep, canon, want)
	full := c06model(c.Recs, c06cfg{Cat: cfg.Cat, Merge: cfg.Merge})
	reported := false
	viol := func(class string) {
		reported = true
		x.r.Violate(site+"/"+class, desc, c)
	}
	for k, n := range seen {
		cl, ok := model[k]
		switch {
		case !ok && cfg.NoSingleton && full[k] != nil:
			viol("singleton-kept")
		case !ok:
			viol("unexpected-class")
		case n > 1:
			viol("class-split")
		default:
			_ = cl
		}
	}
	for k, cl := range model {
		if seen[k] == 0 {
			if cfg.NoSingleton && cl.Members == 1 {
				viol("class-lost:single-record-of-count>1-under-nosingleton")
			} else {
				viol("class-lost")
			}
		}
	}
	if reported {
		return canon // the set of classes is already wrong: the accounting of the others follows from that
	}
	for _, o := range obs {
		cl := model[c06key(o.Seq, o.Cat)]
		if o.Count != cl.Count {
			viol("count")
		}
		if cfg.Merge {
			// what the class is made of is part of the key: a defect of the conversion of already merged
			// records must not hide behind one of the plain accounting (and conversely)
			tag := ""
			if cl.PreMrg {
				tag = ":merged-input"
			} else if cl.NAReal {
				tag = ":literal-NA-value"
			}
			if o.Err != "" {
				viol("merged-map-missing" + tag)
			} else if c06statsString(o.Stats) != c06statsString(cl.Stats) {
				viol("merged-map" + tag)
			}
		}
	}
	if !reported {
		viol("other")
	}
	return canon
}

func (x *c06ctx) evalUniq(c c06case) {
	r := x.r
	reps := c.Reps
	if reps < 1 {
		reps = 1
	}
	site := "uniq/" + x.mode(c.Cfg)
	first := ""
	// vacuity counters: what the case demands according to the reference model (counted before the run, whatever the
	// pipeline answers)
	if len(c06model(c.Recs, c.Cfg)) < len(c.Recs) {
		r.Count("runs_with_a_merge", 1)
	}
	if c.Cfg.NoSingleton && len(c06model(c.Recs, c.Cfg)) < len(c06model(c.Recs, c06cfg{Cat: c.Cfg.Cat})) {
		r.Count("runs_dropping_a_singleton", 1)
	}
	for rep := 0; rep < reps; rep++ {
		in := make(obiseq.BioSequenceSlice, len(c.Recs))
		for i, rc := range c.Recs {
			in[i] = c06build(i, rc, c.Cfg.Parsed)
		}
		o := c06runUniq(in, c.Cfg)
		r.Eval(1)
		r.Trans(int64(len(c.Recs)))
		r.Count("runs_"+x.mode(c.Cfg), 1)
		if rep > 0 {
			r.Count("sampled_repetitions", 1)
		}
		if x.abnormal(site, o, c) {
			return
		}
		canon := x.checkUniq(site, o.recs, c, rep)
		if rep == 0 {
			first = canon
			r.State(fmt.Sprintf("cat=%v merge=%v ns=%v|%s", c.Cfg.Cat, c.Cfg.Merge, c.Cfg.NoSingleton, canon))
		} else if canon != first {
			r.Count("nondeterministic_configurations", 1)
		}
	}
}

func (x *c06ctx) evalRoundTrip(c c06case) {
	r := x.r
	cfg := c.Cfg
	site := "roundtrip/" + x.mode(cfg)
	in := make(obiseq.BioSequenceSlice, len(c.Recs))
	for i, rc := range c.Recs {
		in[i] = c06build(i, rc, cfg.Parsed)
	}
	for _, cl := range c06model(c.Recs, cfg) {
		if len(cl.Stats) > 1 { // demerge has a class to split (reference model; counted whatever the tools answer)
			r.Count("roundtrips_with_a_split", 1)
			break
		}
	}
	o1 := c06runUniq(in, cfg)
	r.Eval(1)
	if x.abnormal("uniq/"+x.mode(cfg), o1, c) {
		return
	}
	obs1 := make([]c06obs, len(o1.recs))
	for i, s := range o1.recs {
		obs1[i] = c06observe(s, cfg)
	}
	canon1 := c06canonObs(obs1, cfg)
	mid := o1.recs
	if c.Text {
		mid = c06viaText(mid)
	}
	// what demerge must produce from what uniq produced: one record per value with exactly that count
	var wantD []string
	for _, o := range obs1 {
		for v, w := range o.Stats {
			wantD = append(wantD, fmt.Sprintf("%s|%s k=%s n=%d", o.Seq, o.Cat, v, w))
		}
	}
	sort.Strings(wantD)
	o2 := c06runDemerge(mid, cfg)
	r.Eval(1)
	if x.abnormal("demerge", o2, c) {
		return
	}
	var gotD []string
	for _, s := range o2.recs {
		ob := c06observe(s, c06cfg{Cat: cfg.Cat})
		gotD = append(gotD, fmt.Sprintf("%s|%s k=%s n=%d", ob.Seq, ob.Cat, ob.K, ob.Count))
		if s.HasStatsOn(c06mergeKey) {
			gotD[len(gotD)-1] += " +merged_k"
		}
	}
	sort.Strings(gotD)
	if strings.Join(gotD, " ; ") != strings.Join(wantD, " ; ") {
		r.Violate("demerge/records", fmt.Sprintf("%s text=%v: uniq gave {%s}; demerge gave {%s} want {%s}", c06caseString(c), c.Text,
			canon1, strings.Join(gotD, " ; "), strings.Join(wantD, " ; ")), c)
	}
	mid2 := o2.recs
	if c.Text {
		mid2 = c06viaText(mid2)
	}
	o3 := c06runUniq(mid2, cfg)
	r.Eval(1)
	r.Trans(int64(len(c.Recs) + len(mid) + len(mid2)))
	if x.abnormal(site, o3, c) {
		return
	}
	obs3 := make([]c06obs, len(o3.recs))
	for i, s := range o3.recs {
		obs3[i] = c06observe(s, cfg)
	}
	canon3 := c06canonObs(obs3, cfg)
	r.State("rt|" + canon3)
	if canon3 != canon1 {
		r.Violate(site+"/differs", fmt.Sprintf("%s text=%v: uniq gave {%s}; uniq|demerge|uniq gave {%s}", c06caseString(c), c.Text, canon1, canon3), c)
	}
}

func (x *c06ctx) eval(c c06case) {
	if c.Kind == "cli" && c.X != nil {
		x.evalX(c)
	} else if c.Kind == "roundtrip" {
		x.evalRoundTrip(c)
	} else {
		x.evalUniq(c)
	}
}

// ---- enumeration ----

func c06recTypes() []c06rec {
	var t []c06rec
	for s := 0; s < len(c06seqs); s++ {
		for c := 0; c < 3; c++ {
			for n := 1; n <= 2; n++ {
				for m := 0; m < 3; m++ {
					t = append(t, c06rec{s, c, n, m})
				}
			}
		}
	}
	return t
}

// all multisets of exactly n types (as non-decreasing index lists)
func c06multisets(ntypes, n int, f func(idx []int)) {
	idx := make([]int, n)
	var rec func(k, from int)
	rec = func(k, from int) {
		if k == n {
			f(idx)
			return
		}
		for i := from; i < ntypes; i++ {
			idx[k] = i
			rec(k+1, i)
		}
	}
	rec(0, 0)
}

// all distinct orderings of a multiset given as a non-decreasing index list
func c06orderings(ms []int, f func(p []int)) {
	n := len(ms)
	p := make([]int, n)
	used := make([]bool, n)
	var rec func(k int)
	rec = func(k int) {
		if k == n {
			f(p)
			return
		}
		for i := 0; i < n; i++ {
			if used[i] || (i > 0 && ms[i] == ms[i-1] && !used[i-1]) {
				continue
			}
			used[i] = true
			p[k] = ms[i]
			rec(k + 1)
			used[i] = false
		}
	}
	rec(0)
}

func c06batches(n int) []int {
	all := n
	if all < 1 {
		all = 1
	}
	out := []int{1}
	if n >= 2 {
		out = append(out, 2)
	}
	if all > 2 {
		out = append(out, all)
	}
	return out
}

// record alphabets
func c06alphabet(name string) []c06rec {
	var t []c06rec
	if name == "ANA" { // one sequence; c {absent, literal "NA"}; (count,k) in {(1,absent),(2,scalar u),(2,merged),(1,scalar "NA")}
		for _, c := range []int{0, 3} {
			for _, nm := range [][2]int{{1, 0}, {2, 1}, {2, 2}, {1, 3}} {
				t = append(t, c06rec{0, c, nm[0], nm[1]})
			}
		}
		return t
	}
	for _, rc := range c06recTypes() {
		nm := [2]int{rc.N, rc.M}
		small := nm == [2]int{1, 0} || nm == [2]int{2, 1} || nm == [2]int{2, 2}
		switch name {
		case "A36":
		case "A24":
			if rc.C == 2 {
				continue
			}
		case "A12": // category {absent,x}; (count,k) in {(1,absent),(2,scalar),(2,merged map)}
			if rc.C == 2 || !small {
				continue
			}
		case "A8": // category {absent,x}; (count,k) in {(1,absent),(2,merged map)}
			if rc.C == 2 || !(nm == [2]int{1, 0} || nm == [2]int{2, 2}) {
				continue
			}
		case "A6": // no category attribute
			if rc.C != 0 || !small {
				continue
			}
		default:
			panic("alphabet " + name)
		}
		t = append(t, rc)
	}
	return t
}

type c06block struct {
	Name      string
	Alphabet  string
	Nmin      int
	Nmax      int
	AllOrders bool // every distinct ordering of each multiset (else only the sorted one)
	Kind      string
	Reps      int
	Cfgs      func(n int) []c06cfg
	Texts     []bool
}

type c06axes struct {
	batches func(n int) []int
	chunks  []int
	disk    bool
	ns      []bool
	workers []int
	parsed  []bool
	opts    [][2]bool // (Cat, Merge)
}

func (a c06axes) cfgs(n int) []c06cfg {
	var out []c06cfg
	for _, o := range a.opts {
		for _, b := range a.batches(n) {
			for _, ch := range a.chunks {
				for _, ns := range a.ns {
					for _, w := range a.workers {
						for _, p := range a.parsed {
							out = append(out, c06cfg{Batch: b, Chunks: ch, Disk: a.disk, NoSingleton: ns, Workers: w,
								Parsed: p, Cat: o[0], Merge: o[1]})
						}
					}
				}
			}
		}
	}
	return out
}

func c06batchEnds(n int) []int { // {1, all}
	if n <= 1 {
		return []int{1}
	}
	return []int{1, n}
}

func c06batchAll(n int) []int {
	if n <= 1 {
		return []int{1}
	}
	return []int{n}
}

func c06blocks(thorough bool) []c06block {
	both := []bool{false, true}
	ck := [][2]bool{{true, true}}
	other := [][2]bool{{false, true}, {true, false}, {false, false}}
	full := func(disk bool, parsed []bool) func(int) []c06cfg {
		return c06axes{c06batches, []int{1, 2, 3}, disk, both, []int{1, 2}, parsed, ck}.cfgs
	}
	var bl []c06block
	add := func(b c06block) {
		if b.Kind == "" {
			b.Kind = "uniq"
		}
		if b.Reps == 0 {
			b.Reps = 1
		}
		if b.Texts == nil {
			b.Texts = []bool{false}
		}
		bl = append(bl, b)
	}
	rtMem := c06axes{c06batchEnds, []int{1, 3}, false, []bool{false}, []int{1, 2}, []bool{false}, ck}.cfgs
	rtDisk := c06axes{c06batchAll, []int{1, 3}, true, []bool{false}, []int{1, 2}, []bool{true}, ck}.cfgs
	// within one input size the blocks run in this order: the cheap and diverse ones first, the big
	// memory cross products last (a run stopped by its deadline loses the tail of the largest size only)
	repeatCfgs := func(n int) []c06cfg {
		return []c06cfg{{Batch: 1, Chunks: 2, Workers: 2, Cat: true, Merge: true},
			{Batch: 1, Chunks: 2, Workers: 2, Cat: true, Merge: true, Disk: true, Parsed: true}}
	}
	if !thorough {
		add(c06block{Name: "disk/full", Alphabet: "A24", Nmax: 2, AllOrders: true, Cfgs: full(true, []bool{true})})
		add(c06block{Name: "disk/3", Alphabet: "A12", Nmin: 3, Nmax: 3,
			Cfgs: c06axes{c06batchEnds, []int{1, 2, 3}, true, []bool{false}, []int{1, 2}, []bool{true}, ck}.cfgs})
		add(c06block{Name: "disk/options", Alphabet: "A12", Nmax: 2, AllOrders: true,
			Cfgs: c06axes{c06batchAll, []int{1, 3}, true, both, []int{1, 2}, []bool{true}, other}.cfgs})
		add(c06block{Name: "repeat", Alphabet: "A12", Nmin: 1, Nmax: 2, AllOrders: true, Reps: 4, Cfgs: repeatCfgs})
		add(c06block{Name: "roundtrip/disk", Kind: "roundtrip", Alphabet: "A12", Nmax: 2, AllOrders: true, Cfgs: rtDisk, Texts: []bool{true}})
		add(c06block{Name: "roundtrip/mem", Kind: "roundtrip", Alphabet: "A36", Nmax: 2, AllOrders: true, Cfgs: rtMem, Texts: both})
		add(c06block{Name: "roundtrip/mem", Kind: "roundtrip", Alphabet: "A12", Nmin: 3, Nmax: 3, AllOrders: true, Cfgs: rtMem, Texts: both})
		add(c06block{Name: "mem/na-literal", Alphabet: "ANA", Nmax: 3, AllOrders: true, Cfgs: full(false, both)})
		add(c06block{Name: "mem/options", Alphabet: "A36", Nmax: 2, AllOrders: true,
			Cfgs: c06axes{c06batchEnds, []int{1, 2, 3}, false, both, []int{1, 2}, []bool{true}, other}.cfgs})
		add(c06block{Name: "mem/full", Alphabet: "A36", Nmax: 2, AllOrders: true, Cfgs: full(false, both)})
		add(c06block{Name: "mem/full", Alphabet: "A12", Nmin: 3, Nmax: 3, AllOrders: true, Cfgs: full(false, both)})
		add(c06block{Name: "mem/full-parsed", Alphabet: "A24", Nmin: 3, Nmax: 3, AllOrders: true, Cfgs: full(false, []bool{true})})
		add(c06block{Name: "mem/full-parsed", Alphabet: "A8", Nmin: 4, Nmax: 4, AllOrders: true, Cfgs: full(false, []bool{true})})
		return bl
	}
	add(c06block{Name: "disk/full", Alphabet: "A36", Nmax: 2, AllOrders: true, Cfgs: full(true, both)})
	add(c06block{Name: "disk/full", Alphabet: "A12", Nmin: 3, Nmax: 3, AllOrders: true, Cfgs: full(true, []bool{true})})
	add(c06block{Name: "disk/na-literal", Alphabet: "ANA", Nmax: 2, AllOrders: true, Cfgs: full(true, []bool{true})})
	add(c06block{Name: "disk/options", Alphabet: "A24", Nmax: 2, AllOrders: true,
		Cfgs: c06axes{c06batchEnds, []int{1, 2, 3}, true, both, []int{1, 2}, []bool{true}, other}.cfgs})
	add(c06block{Name: "repeat", Alphabet: "A12", Nmin: 1, Nmax: 3, AllOrders: true, Reps: 5, Cfgs: repeatCfgs})
	add(c06block{Name: "roundtrip/disk", Kind: "roundtrip", Alphabet: "A24", Nmax: 2, AllOrders: true, Cfgs: rtDisk, Texts: []bool{true}})
	add(c06block{Name: "roundtrip/disk", Kind: "roundtrip", Alphabet: "A12", Nmin: 3, Nmax: 3, Cfgs: rtDisk, Texts: []bool{true}})
	add(c06block{Name: "roundtrip/mem", Kind: "roundtrip", Alphabet: "A36", Nmax: 2, AllOrders: true, Cfgs: rtMem, Texts: both})
	add(c06block{Name: "roundtrip/mem", Kind: "roundtrip", Alphabet: "A24", Nmin: 3, Nmax: 3, AllOrders: true, Cfgs: rtMem, Texts: both})
	add(c06block{Name: "roundtrip/mem", Kind: "roundtrip", Alphabet: "A12", Nmin: 4, Nmax: 4, Cfgs: rtMem, Texts: both})
	add(c06block{Name: "mem/na-literal", Alphabet: "ANA", Nmax: 3, AllOrders: true, Cfgs: full(false, both)})
	add(c06block{Name: "mem/options", Alphabet: "A36", Nmax: 2, AllOrders: true,
		Cfgs: c06axes{c06batches, []int{1, 2, 3}, false, both, []int{1, 2}, both, other}.cfgs})
	add(c06block{Name: "mem/options", Alphabet: "A12", Nmin: 3, Nmax: 3, AllOrders: true,
		Cfgs: c06axes{c06batches, []int{1, 2, 3}, false, both, []int{1, 2}, both, other}.cfgs})
	add(c06block{Name: "mem/full", Alphabet: "A36", Nmax: 3, AllOrders: true, Cfgs: full(false, both)})
	add(c06block{Name: "mem/full", Alphabet: "A12", Nmin: 4, Nmax: 4, AllOrders: true, Cfgs: full(false, both)})
	add(c06block{Name: "mem/full", Alphabet: "A6", Nmin: 5, Nmax: 5, AllOrders: true, Cfgs: full(false, both)})
	return bl
}

// c06enumerate visits, in a fixed order, every case of the tier that belongs to this shard.
// A position is (multiset number k over all blocks, case number j within the multiset).
// visit returns false to stop.
func c06enumerate(r *verifkit.Result, thorough bool, visit func(k, j int, blk string, c c06case) bool) {
	k := 0
	stop := false
	var desc []string
	blocks := c06blocks(thorough)
	nmax := 0
	for _, blk := range blocks {
		desc = append(desc, fmt.Sprintf("%s: %s n=%d..%d orders=%v reps=%d configs(n=max)=%d text=%v", blk.Name, blk.Alphabet,
			blk.Nmin, blk.Nmax, blk.AllOrders, blk.Reps, len(blk.Cfgs(blk.Nmax)), blk.Texts))
		if blk.Nmax > nmax {
			nmax = blk.Nmax
		}
	}
	r.Bound("blocks", desc)
	r.Bound("sequences", c06seqs)
	r.Bound("alphabets", "A36 = 2 seq x c{absent,x,y} x count{1,2} x k{absent,scalar,merged map}; A24 = A36 without c=y; A12 = 2 seq x c{absent,x} x (count,k) in {(1,absent),(2,scalar),(2,merged)}; A8 = 2 seq x c{absent,x} x (count,k) in {(1,absent),(2,merged)}; A6 = A12 without c; ANA = 1 seq x c{absent,literal NA} x (count,k) in {(1,absent),(2,u),(2,merged),(1,literal NA)}")
	// small inputs of every block first: a run stopped by its deadline has covered every block up to some size
	only := os.Getenv("C06_ONLY") // debugging aid: restrict to the blocks whose name has this prefix
	if only != "" {
		r.Cap("C06_ONLY=" + only + " (debug filter)")
	}
	// the command-level cases (real option parser, real executables) come after the inputs of at most 2
	// records of every block and before the big cross products on 3 and more records
	xdone := false
	for n := 0; n <= nmax+1 && !stop; n++ {
		if (n == 3 || n == nmax+1) && !xdone {
			xdone = true
			k, stop = c06xenumerate(r, thorough, k, only, visit)
		}
		for _, blk := range blocks {
			if n < blk.Nmin || n > blk.Nmax || stop || !strings.HasPrefix(blk.Name, only) {
				continue
			}
			types := c06alphabet(blk.Alphabet)
			cfgs := blk.Cfgs(n)
			c06multisets(len(types), n, func(ms []int) {
				if stop {
					return
				}
				mine := r.Mine(k)
				kk := k
				k++
				if !mine {
					return
				}
				j := 0
				one := func(p []int) {
					if stop {
						return
					}
					recs := make([]c06rec, len(p))
					for i, ti := range p {
						recs[i] = types[ti]
					}
					for _, cfg := range cfgs {
						for _, txt := range blk.Texts {
							if !stop && !visit(kk, j, blk.Name, c06case{Kind: blk.Kind, Recs: recs, Cfg: cfg, Reps: blk.Reps, Text: txt}) {
								stop = true
							}
							j++
						}
					}
				}
				if blk.AllOrders {
					c06orderings(ms, one)
				} else {
					one(ms)
				}
			})
		}
	}
}

// ---- process structure -------------------------------------------------------------------------
// The pipelines run natively: a defect may kill the whole process (panic in a pipeline goroutine) or
// leave goroutines behind (hang). The test process started by /verif/check is therefore only a
// supervisor; the cases run in child processes (the same binary, C06_CHILD=1) that checkpoint their
// result and position. When a child dies, the case it was running is recorded as a violation
// (<site>/crash:<function>), and a new child resumes at the last checkpoint skipping that case.

type c06pos struct {
	K int `json:"k"`
	J int `json:"j"`
}

func (a c06pos) less(b c06pos) bool { return a.K < b.K || (a.K == b.K && a.J < b.J) }

type c06last struct {
	Pos  c06pos  `json:"pos"`
	Case c06case `json:"case"`
}

func c06init() {
	if os.Getenv("GOGC") == "" {
		debug.SetGCPercent(200)
	}
	debug.SetMemoryLimit(1 << 30) // soft limit: the readers allocate 1 MB buffers per chunk file
	log.SetOutput(io.Discard)
	log.AddHook(c06fatal)
	log.StandardLogger().ExitFunc = func(int) { runtime.Goexit() }
}

func c06child(t *testing.T) {
	c06init()
	r := verifkit.New("C06")
	x := &c06ctx{r: r}
	c06x.bin = os.Getenv("C06_BIN")
	c06x.tmp = os.Getenv("TMPDIR")
	final := os.Getenv("C06_RESULT")
	lastPath := os.Getenv("C06_LAST")
	var from c06pos
	json.Unmarshal([]byte(os.Getenv("C06_FROM")), &from)
	var skipL []c06pos
	json.Unmarshal([]byte(os.Getenv("C06_SKIP")), &skipL)
	skip := map[c06pos]bool{}
	for _, p := range skipL {
		skip[p] = true
	}
	lastF, err := os.OpenFile(lastPath, os.O_CREATE|os.O_WRONLY|os.O_TRUNC, 0o644)
	if err != nil {
		t.Fatal(err)
	}
	defer lastF.Close()
	checkpoint := func(next c06pos, done bool) {
		r.Bound("c06_next", next)
		r.Bound("c06_done", done)
		os.Setenv("VERIF_OUT", final+".tmp")
		r.Write()
		os.Rename(final+".tmp", final)
	}
	note := func(p c06pos, c c06case) {
		b, _ := json.Marshal(c06last{p, c})
		b = append(b, '\n')
		lastF.WriteAt(b, 0)
	}

	if rc := r.ReplayCase(); rc != nil {
		var c c06case
		if err := json.Unmarshal(rc, &c); err != nil {
			t.Fatal(err)
		}
		note(c06pos{}, c)
		// failures may depend on the scheduling: the case is repeated (sampled) until it fails
		t0 := time.Now()
		for i := 0; i < 500 && len(r.Violations) == 0 && time.Since(t0) < 90*time.Second; i++ {
			x.eval(c)
		}
		checkpoint(c06pos{}, true)
		return
	}

	lastCk := time.Now()
	ckEvery := 25 * time.Millisecond
	finished := true
	c06enumerate(r, verifkit.Thorough(), func(k, j int, blk string, c c06case) bool {
		p := c06pos{k, j}
		if p.less(from) {
			return true
		}
		if time.Since(lastCk) > ckEvery {
			if r.Expired() {
				checkpoint(p, true)
				finished = false
				return false
			}
			checkpoint(p, false)
			lastCk = time.Now()
		}
		if skip[p] {
			return true
		}
		if j == 0 {
			r.Count("multisets", 1)
			if len(c.Recs) >= 2 || (c.X != nil && len(c.X.Recs) >= 2 && len(c.X.Recs) <= 3) {
				r.Sample(c)
			}
		}
		r.Count("cases:"+blk, 1)
		if os.Getenv("C06_DRY") != "" { // debugging aid: count the cases without running them
			r.Cap("C06_DRY")
			return true
		}
		note(p, c)
		x.eval(c)
		if x.broken > 0 {
			// goroutines of the hung pipeline are still alive: continue in a fresh process
			checkpoint(c06pos{k, j + 1}, false)
			finished = false
			return false
		}
		return true
	})
	if finished {
		checkpoint(c06pos{1 << 30, 0}, true)
	}
}

func c06mergeResult(r *verifkit.Result, path string) (next c06pos, done bool, ok bool) {
	b, err := os.ReadFile(path)
	if err != nil {
		return
	}
	var c verifkit.Result
	if json.Unmarshal(b, &c) != nil {
		return
	}
	ok = true
	r.Eval(c.Evaluations)
	r.Trans(c.Transitions)
	for k, v := range c.Counters {
		r.Count(k, v)
	}
	for _, s := range c.Samples {
		r.Sample(s)
	}
	for k, n := range c.ViolCount {
		r.ViolCount[k] += n
	}
	for _, v := range c.Violations {
		stored := 0
		for _, w := range r.Violations {
			if w.Key == v.Key {
				stored++
			}
		}
		if stored < 3 {
			r.Violations = append(r.Violations, v)
		}
	}
	for k, v := range c.Bounds {
		switch k {
		case "c06_next":
			jb, _ := json.Marshal(v)
			json.Unmarshal(jb, &next)
		case "c06_done":
			done, _ = v.(bool)
		default:
			r.Bound(k, v)
		}
	}
	for _, w := range c.CapsHit {
		r.Cap(w)
	}
	for _, n := range c.Notes {
		r.Note("%s", n)
	}
	for _, h := range c.StateHashes {
		r.StateH(h)
	}
	r.StatesOver += c.StatesOver
	return
}

// c06crashSite extracts the function at the top of the panicking goroutine's stack.
func c06crashSite(stderr string) (site, excerpt string) {
	site = "unknown"
	i := strings.Index(stderr, "panic: ")
	if j := strings.Index(stderr, "fatal error: "); i < 0 || (j >= 0 && j < i) {
		i = j
	}
	if i < 0 {
		if len(stderr) > 600 {
			stderr = stderr[len(stderr)-600:]
		}
		return site, stderr
	}
	rest := stderr[i:]
	excerpt = rest
	if len(excerpt) > 700 {
		excerpt = excerpt[:700]
	}
	lines := strings.Split(rest, "\n")
	for li, l := range lines {
		if strings.HasPrefix(l, "goroutine ") && strings.Contains(l, "[running]") {
			for _, f := range lines[li+1:] {
				if strings.HasPrefix(f, "\t") || strings.HasPrefix(f, "panic(") || strings.HasPrefix(f, "runtime.") {
					continue
				}
				if p := strings.LastIndex(f, "/"); p >= 0 {
					f = f[p+1:]
				}
				if p := strings.Index(f, "("); p >= 0 && !strings.HasPrefix(f[p:], "(*") {
					f = f[:p]
				} else if p := strings.LastIndex(f, "("); p > 0 {
					f = f[:p]
				}
				return strings.TrimSpace(f), excerpt
			}
		}
	}
	return site, excerpt
}

func TestVerifC06(t *testing.T) {
	if os.Getenv("C06_CHILD") != "" {
		c06child(t)
		return
	}
	r := verifkit.New("C06")
	defer r.Write()

	// scratch (child results, temp files of the disk mode) below the work directory of this run
	base := os.Getenv("VERIF_WORKDIR")
	if base == "" {
		base = os.TempDir()
	}
	tmp, err := os.MkdirTemp(base, fmt.Sprintf("c06tmp-%d-", r.Shard))
	if err != nil {
		t.Fatal(err)
	}
	defer os.RemoveAll(tmp)
	resPath := filepath.Join(tmp, "child.json")
	lastPath := filepath.Join(tmp, "last.json")
	start := time.Now()
	deadline := 0.0
	fmt.Sscan(os.Getenv("VERIF_DEADLINE_S"), &deadline)

	replay := r.ReplayCase() != nil
	if !replay && os.Getenv("C06_ONLY") == "" && os.Getenv("C06_DRY") == "" {
		for _, c := range []string{"runs_memory", "runs_disk", "runs_with_a_merge", "runs_dropping_a_singleton", "roundtrips_with_a_split",
			"runs_cli_parser", "runs_cli_binary", "cli_runs_with_2+_merge_keys", "cli_runs_with_2+_categories", "cli_runs_with_na_value_option",
			"cli_runs_with_a_merge", "cli_roundtrips_with_a_split", "cli_demerge_with_a_split", "cli_demerge_without_any_map", "cli_binary_runs_on_several_files"} {
			r.RequireNonVacuous(c)
		}
	}
	// the executables of the tree under test (shared by the shards of a run)
	binDir := ""
	if os.Getenv("C06_DRY") == "" {
		if binDir, err = c06xbinaries(r, base); err != nil {
			t.Fatalf("C06 harness: %v", err)
		}
	}
	var from c06pos
	var skip []c06pos
	restarts := 0
	stuckAt := c06pos{-1, -1} // resume point of the last death between two cases
	for {
		os.Remove(resPath)
		os.Remove(lastPath)
		cmd := exec.Command(os.Args[0], "-test.run", "^TestVerifC06$", "-test.count=1", "-test.timeout", "0")
		fb, _ := json.Marshal(from)
		sb, _ := json.Marshal(skip)
		env := []string{}
		for _, e := range os.Environ() {
			if strings.HasPrefix(e, "VERIF_OUT=") || strings.HasPrefix(e, "VERIF_DEADLINE_S=") || strings.HasPrefix(e, "TMPDIR=") {
				continue
			}
			env = append(env, e)
		}
		env = append(env, "C06_CHILD=1", "C06_FROM="+string(fb), "C06_SKIP="+string(sb), "C06_RESULT="+resPath,
			"C06_LAST="+lastPath, "TMPDIR="+tmp, "VERIF_OUT="+resPath+".tmp", "C06_BIN="+binDir)
		hard := 3600.0 * 3
		if deadline > 0 {
			left := deadline - time.Since(start).Seconds()
			if left < 1 {
				left = 1
			}
			env = append(env, fmt.Sprintf("VERIF_DEADLINE_S=%f", left))
			hard = left + 180
		}
		cmd.Env = env
		var errb bytes.Buffer
		cmd.Stdout = io.Discard
		cmd.Stderr = &errb
		if err := cmd.Start(); err != nil {
			t.Fatal(err)
		}
		waitCh := make(chan error, 1)
		go func() { waitCh <- cmd.Wait() }()
		var werr error
		killed := false
		select {
		case werr = <-waitCh:
		case <-time.After(time.Duration(hard * float64(time.Second))):
			cmd.Process.Kill()
			werr = <-waitCh
			killed = true
		}
		next, done, ok := c06mergeResult(r, resPath)
		if ok {
			from = next
		}
		if werr == nil && ok && (done || replay) {
			break
		}
		if werr == nil && ok && !done {
			restarts++
			r.Count("child_restarts_after_hang", 1)
			if deadline > 0 && time.Since(start).Seconds() > deadline {
				// (a tree under test whose cases hang one after the other: every new child would get one more second,
				// run up to its next hang and spend the watchdog time there - for ever)
				r.Cap("internal deadline reached")
				break
			}
			continue
		}
		// the child died: which case was it running?
		restarts++
		r.Count("child_crashes", 1)
		var last c06last
		lb, _ := os.ReadFile(lastPath)
		if i := bytes.IndexByte(lb, '\n'); i >= 0 {
			lb = lb[:i]
		}
		hasCase := json.Unmarshal(lb, &last) == nil
		fn, excerpt := c06crashSite(errb.String())
		// the child had already checkpointed a position behind its last case: it died between two cases
		between := hasCase && ok && last.Pos.less(from)
		if between && !killed && fn != "unknown" && stuckAt == from {
			// twice at the same place between two cases (already reported once): no progress possible
			r.Cap("the child process dies repeatedly between two cases: the enumeration stops here")
			break
		}
		if !hasCase || (between && !killed && fn == "unknown") {
			// before its first case / between two cases without any Go crash report: not something a case of the
			// tree under test did
			t.Logf("child ended with %v (killed=%v) without an attributable case; stderr tail:\n%s", werr, killed, errb.String())
			t.Fatalf("C06 harness: child process failed outside a case")
		}
		mode := "memory"
		if last.Case.Cfg.Disk {
			mode = "disk"
		}
		site := "uniq/" + mode
		if last.Case.X != nil {
			site = last.Case.X.site()
		}
		r.Eval(1)
		switch {
		case killed:
			// neither finished nor checkpointed long after the deadline: the case it was running (or goroutines
			// that case left behind) keeps the process busy
			r.Violate(site+"/hang:process-killed", fmt.Sprintf("%s: the process running this case neither ended nor reached its next checkpoint %.0f s after the deadline and was killed", c06caseString(last.Case), 180.0), last.Case)
		case between:
			// a goroutine left behind by an earlier case (the last one is named) brought the process down later
			stuckAt = from
			r.Violate(site+"/crash-after-the-case:"+fn, fmt.Sprintf("%s: the process dies after the case had delivered its output: %s", c06caseString(last.Case), excerpt), last.Case)
		default:
			r.Violate(site+"/crash:"+fn, fmt.Sprintf("%s: the process dies: %s", c06caseString(last.Case), excerpt), last.Case)
		}
		if replay {
			break
		}
		if !between {
			skip = append(skip, last.Pos)
		}
		// keep only skip positions not before the resume point
		kept := skip[:0]
		for _, p := range skip {
			if !p.less(from) {
				kept = append(kept, p)
			}
		}
		skip = kept
		if deadline > 0 && time.Since(start).Seconds() > deadline {
			r.Cap("internal deadline reached")
			break
		}
	}
	r.Count("child_processes", int64(restarts+1))
}

// TestVerifC06Bench (only with C06_BENCH=1) prints the cost of one pipeline run per mode.
func TestVerifC06Bench(t *testing.T) {
	if os.Getenv("C06_BENCH") == "" {
		t.Skip()
	}
	c06init()
	tmp, _ := os.MkdirTemp(os.Getenv("VERIF_WORKDIR"), "c06bench-")
	os.Setenv("TMPDIR", tmp)
	defer os.RemoveAll(tmp)
	recs := []c06rec{{0, 1, 1, 1}, {0, 1, 2, 2}, {1, 0, 1, 0}}
	for _, disk := range []bool{false, true} {
		for _, w := range []int{1, 2} {
			n := 1000
			t0 := time.Now()
			bad := 0
			for i := 0; i < n; i++ {
				cfg := c06cfg{Batch: 2, Chunks: 2, Disk: disk, Workers: w, Cat: true, Merge: true}
				in := make(obiseq.BioSequenceSlice, len(recs))
				for i, rc := range recs {
					in[i] = c06build(i, rc, false)
				}
				o := c06runUniq(in, cfg)
				if len(o.recs) != 2 {
					bad++
				}
			}
			var ms runtime.MemStats
			runtime.ReadMemStats(&ms)
			fmt.Printf("disk=%v workers=%d: %v per run, %d/%d runs without 2 output records; goroutines=%d heap=%dMB sys=%dMB\n", disk, w,
				time.Since(t0)/time.Duration(n), bad, n, runtime.NumGoroutine(), ms.HeapAlloc>>20, ms.Sys>>20)
		}
	}
}
