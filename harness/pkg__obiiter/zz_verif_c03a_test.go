//go:build verif

package obiiter

// C03 (engine A) — every stream combinator delivers each record exactly once, in order when it is
// order preserving, numbers its batches 0..m-1 and terminates: for every batch partition, every
// arrival permutation, worker counts 1..3 and EVERY goroutine interleaving within the preemption
// bound. The combinators run unmodified except that their channel / sync / go operations were
// rewritten to call the controlled scheduler (vsched).

import (
	"encoding/json"
	"fmt"
	"io"
	"os"
	"runtime"
	"runtime/debug"
	"sort"
	"strings"
	"testing"

	"git.metabarcoding.org/obitools/obitools4/obitools4/pkg/obioptions"
	"git.metabarcoding.org/obitools/obitools4/obitools4/pkg/obiseq"
	"git.metabarcoding.org/obitools/obitools4/obitools4/pkg/verifkit"
	"git.metabarcoding.org/obitools/obitools4/obitools4/pkg/vsched"
	log "github.com/sirupsen/logrus"
)

type c03param struct {
	Scn       string   `json:"scn"`
	Parts     []int    `json:"parts"`            // sizes of batches 0..n-1 of the first stream
	Perm      []int    `json:"perm"`             // arrival order of the batch numbers
	Parts2    []int    `json:"parts2,omitempty"` // second stream (concat, pool, pairto)
	Perm2     []int    `json:"perm2,omitempty"`  // arrival order of the second stream (default: in order)
	Workers   int      `json:"workers,omitempty"`
	Size      int      `json:"size,omitempty"`
	Cfg       []int    `json:"cfg,omitempty"`     // fragments-len: minsize, length, overlap, length of the first record
	Choices   []int    `json:"choices,omitempty"` // schedule (replay)
	Policy    int      `json:"policy"`
	Bound     int      `json:"preemption_bound"`
	Conflicts []string `json:"conflicts,omitempty"` // racy-access sites that were scheduling points (replay)
}

type c03batch struct {
	Order int
	Ids   []string
	Extra []string
}

type c03obs struct {
	Out  [][]c03batch // one list per output stream, in delivery order
	Keys []int
	Note string
}

func c03ids(prefix string, from, n int) []string {
	ids := make([]string, n)
	for i := range ids {
		ids[i] = fmt.Sprintf("%s%d", prefix, from+i)
	}
	return ids
}

// c03source builds, inside the controlled execution, an iterator fed by one goroutine with the batches
// of `parts` pushed in the order `perm`.
func c03source(prefix string, parts, perm []int, seqlen int) IBioSequence {
	it := MakeIBioSequence()
	it.Add(1)
	vsched.Go(func() { it.WaitAndClose() })
	batches := make([]BioSequenceBatch, len(parts))
	k := 0
	for b, sz := range parts {
		sl := obiseq.MakeBioSequenceSlice()
		for i := 0; i < sz; i++ {
			s := obiseq.NewBioSequence(fmt.Sprintf("%s%d", prefix, k), []byte(strings.Repeat("acgt", seqlen)[:seqlen]), "")
			s.SetAttribute("k", k%2)
			sl = append(sl, s)
			k++
		}
		batches[b] = MakeBioSequenceBatch("src", b, sl)
	}
	vsched.Go(func() {
		for _, b := range perm {
			it.Push(batches[b])
		}
		it.Done()
	})
	return it
}

func c03drain(it IBioSequence) []c03batch {
	var out []c03batch
	for it.Next() {
		b := it.Get()
		cb := c03batch{Order: b.Order()}
		for _, s := range b.Slice() {
			cb.Ids = append(cb.Ids, s.Id())
			if s.IsPaired() {
				cb.Extra = append(cb.Extra, s.PairedWith().Id())
			}
		}
		out = append(out, cb)
	}
	return out
}

func c03total(parts []int) int {
	t := 0
	for _, p := range parts {
		t += p
	}
	return t
}

func c03perm2(p c03param) []int {
	if len(p.Perm2) == len(p.Parts2) && len(p.Perm2) > 0 {
		return p.Perm2
	}
	return c03identity(p.Parts2)
}

func c03identity(p []int) []int {
	q := make([]int, len(p))
	for i := range q {
		q[i] = i
	}
	return q
}

func c03even(s *obiseq.BioSequence) bool {
	var n int
	fmt.Sscanf(s.Id()[1:], "%d", &n)
	return n%2 == 0
}

func c03filterIds(ids []string, keepEven bool) []string {
	var out []string
	for _, id := range ids {
		var n int
		fmt.Sscanf(id[1:], "%d", &n)
		if (n%2 == 0) == keepEven {
			out = append(out, id)
		}
	}
	return out
}

// ---- scenario bodies: build the pipeline, drain it, return the observation

func c03body(p c03param) c03obs {
	n := c03total(p.Parts)
	_ = n
	switch p.Scn {
	case "sort":
		return c03obs{Out: [][]c03batch{c03drain(c03source("r", p.Parts, p.Perm, 4).SortBatches())}}
	case "worker-keep", "worker-drop", "worker-empty":
		w := func(sl obiseq.BioSequenceSlice) (obiseq.BioSequenceSlice, error) {
			switch p.Scn {
			case "worker-drop":
				out := sl[:0]
				for _, s := range sl {
					if c03even(s) {
						out = append(out, s)
					}
				}
				return out, nil
			case "worker-empty":
				if len(sl) > 0 && c03even(sl[0]) {
					return sl[:0], nil
				}
			}
			return sl, nil
		}
		return c03obs{Out: [][]c03batch{c03drain(c03source("r", p.Parts, p.Perm, 4).MakeISliceWorker(w, false, p.Workers))}}
	case "iworker":
		w := func(s *obiseq.BioSequence) (obiseq.BioSequenceSlice, error) {
			if c03even(s) {
				c := s.Copy()
				c.SetId(s.Id() + "b")
				return obiseq.BioSequenceSlice{s, c}, nil // duplicate by design (1 -> 2)
			}
			return obiseq.BioSequenceSlice{s}, nil
		}
		return c03obs{Out: [][]c03batch{c03drain(c03source("r", p.Parts, p.Perm, 4).MakeIWorker(w, false, p.Workers))}}
	case "condworker":
		w := func(s *obiseq.BioSequence) (obiseq.BioSequenceSlice, error) {
			s.SetId(s.Id() + "x")
			return obiseq.BioSequenceSlice{s}, nil
		}
		return c03obs{Out: [][]c03batch{c03drain(c03source("r", p.Parts, p.Perm, 4).MakeIConditionalWorker(c03even, w, false, p.Workers))}}
	case "rebatch":
		return c03obs{Out: [][]c03batch{c03drain(c03source("r", p.Parts, p.Perm, 4).Rebatch(p.Size))}}
	case "filterempty":
		return c03obs{Out: [][]c03batch{c03drain(c03source("r", p.Parts, p.Perm, 4).FilterEmpty())}}
	case "concat":
		a := c03source("r", p.Parts, p.Perm, 4)
		b := c03source("s", p.Parts2, c03perm2(p), 4)
		return c03obs{Out: [][]c03batch{c03drain(a.Concat(b))}}
	case "concat3":
		a := c03source("r", p.Parts, p.Perm, 4)
		b := c03source("s", p.Parts2, c03perm2(p), 4)
		c := c03source("t", []int{1}, []int{0}, 4)
		return c03obs{Out: [][]c03batch{c03drain(a.Concat(b, c))}}
	case "concat-sort":
		a := c03source("r", p.Parts, p.Perm, 4)
		b := c03source("s", p.Parts2, c03perm2(p), 4)
		return c03obs{Out: [][]c03batch{c03drain(a.Concat(b).SortBatches())}}
	case "pool":
		a := c03source("r", p.Parts, p.Perm, 4)
		b := c03source("s", p.Parts2, c03perm2(p), 4)
		return c03obs{Out: [][]c03batch{c03drain(a.Pool(b))}}
	case "divideon":
		tr, fa := c03source("r", p.Parts, p.Perm, 4).DivideOn(c03even, p.Size)
		var fout []c03batch
		done := vsched.Make[*vsched.Chan[int]]()
		vsched.Go(func() { fout = c03drain(fa); done.Send(1) })
		tout := c03drain(tr)
		done.Recv()
		return c03obs{Out: [][]c03batch{tout, fout}}
	case "filteron":
		return c03obs{Out: [][]c03batch{c03drain(c03source("r", p.Parts, p.Perm, 4).FilterOn(c03even, p.Size, p.Workers))}}
	case "filterand":
		return c03obs{Out: [][]c03batch{c03drain(c03source("r", p.Parts, p.Perm, 4).FilterAnd(c03even, p.Size, p.Workers))}}
	case "distribute":
		cl := obiseq.AnnotationClassifier("k", "NA")
		d := c03source("r", p.Parts, p.Perm, 4).Distribute(cl, p.Size)
		outs := map[int]*[]c03batch{}
		var keys []int
		done := vsched.Make[*vsched.Chan[int]]()
		nkeys := 0
		for {
			key, ok := d.News().Recv2()
			if !ok {
				break
			}
			it, err := d.Outputs(key)
			if err != nil {
				return c03obs{Note: "Outputs(" + fmt.Sprint(key) + "): " + err.Error()}
			}
			res := new([]c03batch)
			outs[key] = res
			keys = append(keys, key)
			nkeys++
			vsched.Go(func() { *res = c03drain(it); done.Send(1) })
		}
		for i := 0; i < nkeys; i++ {
			done.Recv()
		}
		o := c03obs{Keys: keys}
		for _, k := range keys {
			o.Out = append(o.Out, *outs[k])
		}
		return o
	case "pairto":
		a := c03source("r", p.Parts, p.Perm, 4)
		b := c03source("s", p.Parts2, c03perm2(p), 4)
		return c03obs{Out: [][]c03batch{c03drain(a.PairTo(b))}}
	case "pairedwith":
		a := c03source("r", p.Parts, p.Perm, 4)
		b := c03source("s", p.Parts2, c03perm2(p), 4)
		return c03obs{Out: [][]c03batch{c03drain(a.PairTo(b).PairedWith())}}
	case "fragments":
		return c03obs{Out: [][]c03batch{c03drain(IFragments(6, 4, 1, p.Size, p.Workers)(c03source("r", p.Parts, p.Perm, 9)))}}
	case "completefile":
		return c03obs{Out: [][]c03batch{c03drain(c03source("r", p.Parts, p.Perm, 4).CompleteFileIterator())}}
	case "batchover":
		sl := obiseq.MakeBioSequenceSlice()
		for i := 0; i < c03total(p.Parts); i++ {
			sl = append(sl, obiseq.NewBioSequence(fmt.Sprintf("r%d", i), []byte("acgt"), ""))
		}
		return c03obs{Out: [][]c03batch{c03drain(IBatchOver("src", sl, p.Size))}}
	case "merge":
		out := c03source("r", p.Parts, p.Perm, 4).IMergeSequenceBatch("NA", obiseq.StatsOnDescriptions{}, p.Size)
		var res []c03batch
		for out.Next() {
			b := out.Get()
			cb := c03batch{Order: b.Order()}
			for _, s := range b.Slice() {
				cb.Ids = append(cb.Ids, fmt.Sprintf("count=%d", s.Count()))
			}
			res = append(res, cb)
		}
		return c03obs{Out: [][]c03batch{res}}
	case "copytee":
		first, second := c03source("r", p.Parts, p.Perm, 4).CopyTee()
		var sout []c03batch
		done := vsched.Make[*vsched.Chan[int]]()
		vsched.Go(func() { sout = c03drain(second); done.Send(1) })
		fout := c03drain(first)
		done.Recv()
		return c03obs{Out: [][]c03batch{fout, sout}}
	case "pushback":
		// the idiom of the universal writer: look at the first batch, push it back, hand the iterator on
		it := c03source("r", p.Parts, p.Perm, 4)
		note := ""
		if it.Next() {
			b := it.Get()
			note = fmt.Sprint("peeked ", b.Order())
			it.PushBack()
		}
		o := c03obs{Out: [][]c03batch{c03drain(it)}}
		_ = note
		return o
	case "split2":
		// the idiom of every worker pool: clones of one iterator consumed by several goroutines
		it := c03source("r", p.Parts, p.Perm, 4)
		outs := make([][]c03batch, p.Workers)
		done := vsched.Make[*vsched.Chan[int]]()
		for i := 1; i < p.Workers; i++ {
			i := i
			cl := it.Split()
			vsched.Go(func() { outs[i] = c03drain(cl); done.Send(1) })
		}
		outs[0] = c03drain(it)
		for i := 1; i < p.Workers; i++ {
			done.Recv()
		}
		fin := ""
		if !it.Finished() {
			fin = "Finished() is false after every clone saw the end of the stream"
		}
		return c03obs{Out: outs, Note: fin}
	case "limitmemory":
		return c03obs{Out: [][]c03batch{c03drain(c03source("r", p.Parts, p.Perm, 4).LimitMemory(2.0))}}
	case "load":
		_, sl := c03source("r", p.Parts, p.Perm, 4).Load()
		cb := c03batch{Order: 0}
		for _, s := range sl {
			cb.Ids = append(cb.Ids, s.Id())
		}
		return c03obs{Out: [][]c03batch{{cb}}}
	case "count":
		v, rd, nuc := c03source("r", p.Parts, p.Perm, 4).Count(false)
		return c03obs{Out: [][]c03batch{{}}, Keys: []int{v, rd, nuc}}
	case "pipe":
		// Pipe / Pipeline / WorkerPipe / SliceWorkerPipe: the functional composition used by the commands
		w1 := func(s *obiseq.BioSequence) (obiseq.BioSequenceSlice, error) { return obiseq.BioSequenceSlice{s}, nil }
		w2 := func(sl obiseq.BioSequenceSlice) (obiseq.BioSequenceSlice, error) { return sl, nil }
		it := c03source("r", p.Parts, p.Perm, 4).Pipe(WorkerPipe(w1, false, p.Workers), SliceWorkerPipe(w2, false, p.Workers))
		return c03obs{Out: [][]c03batch{c03drain(it)}}
	case "pipeline":
		// the composition used by the record-wise commands: workers -> slice workers -> filter -> rebatch
		w1 := func(s *obiseq.BioSequence) (obiseq.BioSequenceSlice, error) {
			s.SetAttribute("seen", true)
			return obiseq.BioSequenceSlice{s}, nil
		}
		w2 := func(sl obiseq.BioSequenceSlice) (obiseq.BioSequenceSlice, error) { return sl, nil }
		it := c03source("r", p.Parts, p.Perm, 4).MakeIWorker(w1, false, p.Workers).MakeISliceWorker(w2, false, 2).FilterOn(c03even, p.Size, 1)
		return c03obs{Out: [][]c03batch{c03drain(it)}}
	case "paired-chain", "paired-divide":
		// paired reads through the combinators a command puts between CLIReadBioSequences(--paired-with)
		// and CLIWriteBioSequences: the writer asks IsPaired() to decide whether the mates are written
		a := c03source("r", p.Parts, p.Perm, 4)
		b := c03source("s", p.Parts2, c03perm2(p), 4)
		note := ""
		flag := func(stage string, it IBioSequence) IBioSequence {
			if !it.IsPaired() && note == "" {
				note = "IsPaired() is false after " + stage
			}
			return it
		}
		w := func(s *obiseq.BioSequence) (obiseq.BioSequenceSlice, error) {
			s.SetAttribute("seen", true)
			return obiseq.BioSequenceSlice{s}, nil
		}
		it := flag("PairTo", a.PairTo(b))
		it = flag("MakeIWorker", it.MakeIWorker(w, false, p.Workers))
		if p.Scn == "paired-chain" {
			it = flag("FilterOn", it.FilterOn(c03even, p.Size, 1))
			return c03obs{Out: [][]c03batch{c03drain(it)}, Note: note}
		}
		tr, fa := it.DivideOn(c03even, p.Size)
		flag("DivideOn (selected)", tr)
		flag("DivideOn (discarded)", fa)
		var fout []c03batch
		done := vsched.Make[*vsched.Chan[int]]()
		vsched.Go(func() { fout = c03drain(fa); done.Send(1) })
		tout := c03drain(tr)
		done.Recv()
		return c03obs{Out: [][]c03batch{tout, fout}, Note: note}
	case "paired-flags":
		// IsPaired() of the result of every combinator a command may put behind a paired reader (the flag is
		// what makes CLIWriteBioSequences write the mates): one small paired stream through each of them
		mk := func() IBioSequence {
			a := c03source("r", p.Parts, p.Perm, 4)
			a.MarkAsPaired()
			return a
		}
		idw := func(s *obiseq.BioSequence) (obiseq.BioSequenceSlice, error) { return obiseq.BioSequenceSlice{s}, nil }
		idsw := func(sl obiseq.BioSequenceSlice) (obiseq.BioSequenceSlice, error) { return sl, nil }
		yes := func(s *obiseq.BioSequence) bool { return true }
		stages := []struct {
			name string
			f    func(IBioSequence) IBioSequence
		}{
			{"SortBatches", func(i IBioSequence) IBioSequence { return i.SortBatches() }},
			{"Rebatch", func(i IBioSequence) IBioSequence { return i.Rebatch(1) }},
			{"FilterEmpty", func(i IBioSequence) IBioSequence { return i.FilterEmpty() }},
			{"MakeIWorker", func(i IBioSequence) IBioSequence { return i.MakeIWorker(idw, false, 2) }},
			{"MakeISliceWorker", func(i IBioSequence) IBioSequence { return i.MakeISliceWorker(idsw, false, 2) }},
			{"MakeIConditionalWorker", func(i IBioSequence) IBioSequence { return i.MakeIConditionalWorker(yes, idw, false, 2) }},
			{"FilterOn", func(i IBioSequence) IBioSequence { return i.FilterOn(yes, 2, 2) }},
			{"FilterAnd", func(i IBioSequence) IBioSequence { return i.FilterAnd(yes, 2, 2) }},
			{"Split", func(i IBioSequence) IBioSequence { return i.Split() }},
			{"CompleteFileIterator", func(i IBioSequence) IBioSequence { return i.CompleteFileIterator() }},
			{"Concat", func(i IBioSequence) IBioSequence { return i.Concat(mk()) }},
			{"Pool", func(i IBioSequence) IBioSequence { return i.Pool(mk()) }},
			{"Pipe(WorkerPipe)", func(i IBioSequence) IBioSequence { return i.Pipe(WorkerPipe(idw, false, 1)) }},
			{"Speed", func(i IBioSequence) IBioSequence { return i.Speed("verif") }},
		}
		note := ""
		total := 0
		// Size 0 / 1: first / second half of the list (two jobs of moderate size instead of one big one)
		half := len(stages) / 2
		if p.Size == 0 {
			stages = stages[:half]
		} else {
			stages = stages[half:]
		}
		for _, st := range stages {
			out := st.f(mk())
			if !out.IsPaired() && note == "" {
				note = "IsPaired() is false after " + st.name + " of a paired stream"
			}
			for _, b := range c03drain(out) {
				total += len(b.Ids)
			}
		}
		if p.Size == 1 {
			tr, fa := mk().DivideOn(c03even, 2)
			if !(tr.IsPaired() && fa.IsPaired()) && note == "" {
				note = "IsPaired() is false after DivideOn of a paired stream"
			}
			dd := vsched.Make[*vsched.Chan[int]]()
			vsched.Go(func() { c03drain(fa); dd.Send(1) })
			c03drain(tr)
			dd.Recv()
			first, second := mk().CopyTee()
			if !(first.IsPaired() && second.IsPaired()) && note == "" {
				note = "IsPaired() is false after CopyTee of a paired stream"
			}
			done := vsched.Make[*vsched.Chan[int]]()
			vsched.Go(func() { c03drain(second); done.Send(1) })
			c03drain(first)
			done.Recv()
		}
		return c03obs{Out: [][]c03batch{{}}, Keys: []int{total, len(stages)}, Note: note}
	case "worker-fatal", "worker-skip":
		// a worker that fails on record r1: breakOnError stops the command (log.Fatal, every schedule),
		// otherwise the record is left out and every other record is delivered
		w := func(s *obiseq.BioSequence) (obiseq.BioSequenceSlice, error) {
			if s.Id() == "r1" {
				return nil, fmt.Errorf("cannot process %s", s.Id())
			}
			return obiseq.BioSequenceSlice{s}, nil
		}
		return c03obs{Out: [][]c03batch{c03drain(c03source("r", p.Parts, p.Perm, 4).MakeIWorker(w, p.Scn == "worker-fatal", p.Workers))}}
	case "fragments-len":
		// fragment sizes around the minsize / length / overlap boundaries: records of Cfg[3] and Cfg[3]+1 bases
		it := MakeIBioSequence()
		it.Add(1)
		vsched.Go(func() { it.WaitAndClose() })
		var batches []BioSequenceBatch
		k := 0
		for b, sz := range p.Parts {
			sl := obiseq.MakeBioSequenceSlice()
			for i := 0; i < sz; i++ {
				sl = append(sl, obiseq.NewBioSequence(fmt.Sprintf("r%d", k), []byte(c03fragBases[k:k+p.Cfg[3]+k]), ""))
				k++
			}
			batches = append(batches, MakeBioSequenceBatch("src", b, sl))
		}
		vsched.Go(func() {
			for _, b := range p.Perm {
				it.Push(batches[b])
			}
			it.Done()
		})
		out := IFragments(p.Cfg[0], p.Cfg[1], p.Cfg[2], p.Size, p.Workers)(it)
		var res []c03batch
		for out.Next() {
			b := out.Get()
			cb := c03batch{Order: b.Order()}
			for _, s := range b.Slice() {
				cb.Ids = append(cb.Ids, s.Id())
				cb.Extra = append(cb.Extra, s.String())
			}
			res = append(res, cb)
		}
		return c03obs{Out: [][]c03batch{res}}
	}
	panic("unknown scenario " + p.Scn)
}

// a de Bruijn word: no 3 bases occur twice, a fragment cut at a wrong place has a wrong text
const c03fragBases = "aaacaagaataccacgactagcaggagtatcatgattcccgcctcggcgtctgcttgggtgttt"

// ---- reference model + oracle

func c03flatten(bs []c03batch) []string {
	s := append([]c03batch{}, bs...)
	sort.SliceStable(s, func(i, j int) bool { return s[i].Order < s[j].Order })
	var out []string
	for _, b := range s {
		out = append(out, b.Ids...)
	}
	return out
}

func c03numbering(bs []c03batch) string {
	seen := map[int]int{}
	for _, b := range bs {
		seen[b.Order]++
	}
	for i := 0; i < len(bs); i++ {
		if seen[i] != 1 {
			var l []int
			for _, b := range bs {
				l = append(l, b.Order)
			}
			return fmt.Sprintf("batch numbers %v are not exactly 0..%d", l, len(bs)-1)
		}
	}
	return ""
}

func c03sortedDelivery(bs []c03batch) bool {
	for i, b := range bs {
		if b.Order != i {
			return false
		}
	}
	return true
}

func c03eq(a, b []string) bool {
	if len(a) != len(b) {
		return false
	}
	for i := range a {
		if a[i] != b[i] {
			return false
		}
	}
	return true
}

func c03multisetEq(a, b []string) bool {
	x := append([]string{}, a...)
	y := append([]string{}, b...)
	sort.Strings(x)
	sort.Strings(y)
	return c03eq(x, y)
}

// c03classify compares got with want: "", "lost", "duplicated", "reordered", "wrong".
func c03classify(got, want []string, ordered bool) string {
	if ordered && c03eq(got, want) {
		return ""
	}
	if c03multisetEq(got, want) {
		if ordered {
			return "reordered"
		}
		return ""
	}
	cnt := map[string]int{}
	for _, w := range want {
		cnt[w]++
	}
	for _, g := range got {
		cnt[g]--
	}
	lost, dup := false, false
	for _, v := range cnt {
		if v > 0 {
			lost = true
		}
		if v < 0 {
			dup = true
		}
	}
	switch {
	case lost && !dup:
		return "lost"
	case dup && !lost:
		return "duplicated"
	}
	return "wrong"
}

// c03oracle returns (class, description) of a violation, or "".
func c03oracle(p c03param, o c03obs) (string, string) {
	if o.Note != "" {
		if rest, ok := strings.CutPrefix(o.Note, "IsPaired() is false after "); ok {
			// the key names the combinator that lost the flag
			return "paired-flag-lost:" + strings.Fields(rest)[0], o.Note
		}
		return "error", o.Note
	}
	n := c03total(p.Parts)
	all := c03ids("r", 0, n)
	all2 := c03ids("s", 0, c03total(p.Parts2))
	one := func(want []string, ordered bool, numbered bool, sortedDelivery bool) (string, string) {
		got := c03flatten(o.Out[0])
		if c := c03classify(got, want, ordered); c != "" {
			return c, fmt.Sprintf("delivered %v, expected %v", got, want)
		}
		if numbered {
			if m := c03numbering(o.Out[0]); m != "" {
				return "numbering", m
			}
		}
		if sortedDelivery && !c03sortedDelivery(o.Out[0]) {
			return "unsorted", fmt.Sprintf("batches delivered out of order: %v", o.Out[0])
		}
		return "", ""
	}
	switch p.Scn {
	case "sort":
		return one(all, true, true, true)
	case "worker-keep", "condworker-none":
		return one(all, true, true, false)
	case "worker-drop":
		return one(c03filterIds(all, true), true, true, false)
	case "worker-empty":
		// batches whose first record is even are emptied
		var want []string
		k := 0
		for _, sz := range p.Parts {
			if !(sz > 0 && k%2 == 0) {
				want = append(want, c03ids("r", k, sz)...)
			}
			k += sz
		}
		return one(want, true, true, false)
	case "iworker":
		var want []string
		for i := 0; i < n; i++ {
			want = append(want, fmt.Sprintf("r%d", i))
			if i%2 == 0 {
				want = append(want, fmt.Sprintf("r%db", i))
			}
		}
		return one(want, true, true, false)
	case "condworker":
		// records satisfying the predicate are processed; the fate of the others (kept unchanged or
		// dropped) is not fixed by the documentation: either is accepted, consistently
		var want, want2 []string
		for i := 0; i < n; i++ {
			if i%2 == 0 {
				want = append(want, fmt.Sprintf("r%dx", i))
				want2 = append(want2, fmt.Sprintf("r%dx", i))
			} else {
				want = append(want, fmt.Sprintf("r%d", i))
			}
		}
		if c, _ := one(want2, true, true, false); c == "" {
			return "", ""
		}
		return one(want, true, true, false)
	case "rebatch", "batchover":
		return one(all, true, true, true)
	case "filterempty":
		if c, d := one(all, true, true, true); c != "" {
			return c, d
		}
		for _, b := range o.Out[0] {
			if len(b.Ids) == 0 {
				return "wrong", "FilterEmpty delivered an empty batch"
			}
		}
		return "", ""
	case "concat":
		return one(append(append([]string{}, all...), all2...), true, true, false)
	case "concat3":
		return one(append(append(append([]string{}, all...), all2...), "t0"), true, true, false)
	case "concat-sort":
		return one(append(append([]string{}, all...), all2...), true, true, true)
	case "pool":
		// not order preserving between streams: multiset + numbering
		return one(append(append([]string{}, all...), all2...), false, true, false)
	case "divideon":
		if len(o.Out) != 2 {
			return "wrong", "missing output"
		}
		for i, want := range [][]string{c03filterIds(all, true), c03filterIds(all, false)} {
			got := c03flatten(o.Out[i])
			if c := c03classify(got, want, true); c != "" {
				return c, fmt.Sprintf("output %d delivered %v, expected %v", i, got, want)
			}
			if m := c03numbering(o.Out[i]); m != "" {
				return "numbering", fmt.Sprintf("output %d: %s", i, m)
			}
		}
		return "", ""
	case "filteron", "filterand", "pipeline":
		return one(c03filterIds(all, true), true, true, true)
	case "distribute":
		var union []string
		for i, key := range o.Keys {
			got := c03flatten(o.Out[i])
			union = append(union, got...)
			if m := c03numbering(o.Out[i]); m != "" {
				return "numbering", fmt.Sprintf("output of key %d: %s", key, m)
			}
			// one output holds the records of exactly one class, in input order
			cls := -1
			last := -1
			for _, id := range got {
				var v int
				fmt.Sscanf(id[1:], "%d", &v)
				if cls >= 0 && v%2 != cls {
					return "wrong", fmt.Sprintf("output of key %d mixes classes: %v", key, got)
				}
				cls = v % 2
				if v <= last {
					return "reordered", fmt.Sprintf("output of key %d: %v", key, got)
				}
				last = v
			}
		}
		if c := c03classify(union, all, false); c != "" {
			return c, fmt.Sprintf("union of the outputs %v, expected %v", union, all)
		}
		return "", ""
	case "pairto", "pairedwith":
		wantIds, wantMates := all, all2
		if p.Scn == "pairedwith" {
			wantIds, wantMates = all2, all
		}
		if c, d := one(wantIds, true, true, false); c != "" {
			return c, d
		}
		s := append([]c03batch{}, o.Out[0]...)
		sort.SliceStable(s, func(i, j int) bool { return s[i].Order < s[j].Order })
		var mates []string
		for _, b := range s {
			mates = append(mates, b.Extra...)
		}
		if !c03eq(mates, wantMates) {
			return "mates", fmt.Sprintf("mates %v, expected %v", mates, wantMates)
		}
		return "", ""
	case "fragments":
		// every source record is represented, in order, by itself (length <= minsize) or by its fragments
		got := c03flatten(o.Out[0])
		var src []string
		for _, id := range got {
			base := id
			if i := strings.Index(id, "_sub"); i >= 0 {
				base = id[:i]
			}
			if len(src) == 0 || src[len(src)-1] != base {
				src = append(src, base)
			}
		}
		if c := c03classify(src, all, true); c != "" {
			return c, fmt.Sprintf("source records represented %v (fragments %v), expected %v", src, got, all)
		}
		if m := c03numbering(o.Out[0]); m != "" {
			return "numbering", m
		}
		return "", ""
	case "paired-chain", "paired-divide":
		// every delivered record still carries ITS mate (s<k> for r<k>)
		mates := func(bs []c03batch) string {
			for _, b := range bs {
				if len(b.Extra) != len(b.Ids) {
					return fmt.Sprintf("batch %d: records %v carry the mates %v", b.Order, b.Ids, b.Extra)
				}
				for i, id := range b.Ids {
					if b.Extra[i] != "s"+id[1:] {
						return fmt.Sprintf("batch %d: record %s carries the mate %s", b.Order, id, b.Extra[i])
					}
				}
			}
			return ""
		}
		if p.Scn == "paired-chain" {
			if c, d := one(c03filterIds(all, true), true, true, true); c != "" {
				return c, d
			}
			if m := mates(o.Out[0]); m != "" {
				return "mates", m
			}
			return "", ""
		}
		if len(o.Out) != 2 {
			return "wrong", "missing output"
		}
		for i, want := range [][]string{c03filterIds(all, true), c03filterIds(all, false)} {
			got := c03flatten(o.Out[i])
			if c := c03classify(got, want, true); c != "" {
				return c, fmt.Sprintf("output %d delivered %v, expected %v", i, got, want)
			}
			if m := c03numbering(o.Out[i]); m != "" {
				return "numbering", fmt.Sprintf("output %d: %s", i, m)
			}
			if m := mates(o.Out[i]); m != "" {
				return "mates", fmt.Sprintf("output %d: %s", i, m)
			}
		}
		return "", ""
	case "paired-flags":
		// Concat and Pool (second half) deliver two streams
		if want := (o.Keys[1] + 2*p.Size) * n; o.Keys[0] != want {
			return "lost", fmt.Sprintf("%d records delivered by the %d combinators, expected %d", o.Keys[0], o.Keys[1], want)
		}
		return "", ""
	case "worker-skip", "worker-fatal":
		// worker-fatal reaches the oracle only when the stream holds no r1 (see the outcome check)
		var want []string
		for _, id := range all {
			if id != "r1" {
				want = append(want, id)
			}
		}
		return one(want, true, true, false)
	case "fragments-len":
		minsize, length, overlap := p.Cfg[0], p.Cfg[1], p.Cfg[2]
		_ = length
		if m := c03numbering(o.Out[0]); m != "" {
			return "numbering", m
		}
		s := append([]c03batch{}, o.Out[0]...)
		sort.SliceStable(s, func(i, j int) bool { return s[i].Order < s[j].Order })
		var ids, seqs []string
		for _, b := range s {
			ids = append(ids, b.Ids...)
			seqs = append(seqs, b.Extra...)
		}
		pos := 0
		for k := 0; k < n; k++ {
			src := c03fragBases[k : k+p.Cfg[3]+k]
			name := fmt.Sprintf("r%d", k)
			L := len(src)
			what := fmt.Sprintf("record %s of %d bases (minsize %d, length %d, overlap %d), delivered %v", name, L, minsize, length, overlap, ids)
			if pos < len(ids) && ids[pos] == name {
				// delivered whole (the case of the records not longer than minsize; also accepted for a longer one)
				if seqs[pos] != src {
					return "wrong:whole-record-text", what
				}
				pos++
				continue
			}
			if L <= minsize && !(pos < len(ids) && strings.HasPrefix(ids[pos], name+"_sub[")) {
				return "lost:short-record", what
			}
			end := 0 // bases [0,end) are covered so far
			prevFrom := -1
			nf := 0
			for pos < len(ids) && strings.HasPrefix(ids[pos], name+"_sub[") {
				var from, to int
				if c, _ := fmt.Sscanf(ids[pos][len(name):], "_sub[%d..%d]", &from, &to); c != 2 {
					return "wrong:fragment-name", what
				}
				from--
				if from < 0 || to > L || from >= to {
					return "wrong:fragment-bounds", what
				}
				if seqs[pos] != src[from:to] {
					return "wrong:fragment-text", fmt.Sprintf("%s: fragment %s holds %q, the record has %q there", what, ids[pos], seqs[pos], src[from:to])
				}
				if from <= prevFrom {
					return "reordered:fragments", what
				}
				if nf == 0 && from != 0 {
					return "lost:bases-before-first-fragment", what
				}
				if nf > 0 && from > end {
					return "lost:gap-between-fragments", what
				}
				if nf > 0 && end-from < overlap {
					return "lost:overlap-shorter-than-asked", what
				}
				prevFrom = from
				if to > end {
					end = to
				}
				nf++
				pos++
			}
			if nf == 0 {
				return "lost:long-record", what
			}
			if end != L {
				return "lost:bases-after-last-fragment", what
			}
		}
		if pos != len(ids) {
			return "duplicated", fmt.Sprintf("unexpected records %v in %v", ids[pos:], ids)
		}
		return "", ""
	case "copytee":
		if len(o.Out) != 2 {
			return "wrong", "missing output"
		}
		for i := range o.Out {
			got := c03flatten(o.Out[i])
			if c := c03classify(got, all, true); c != "" {
				return c, fmt.Sprintf("output %d delivered %v, expected %v", i, got, all)
			}
			if m := c03numbering(o.Out[i]); m != "" {
				return "numbering", fmt.Sprintf("output %d: %s", i, m)
			}
		}
		return "", ""
	case "pushback", "limitmemory", "pipe":
		return one(all, true, true, false)
	case "split2":
		var union []c03batch
		for _, l := range o.Out {
			union = append(union, l...)
		}
		got := c03flatten(union)
		if c := c03classify(got, all, true); c != "" {
			return c, fmt.Sprintf("the clones received together %v, expected %v", got, all)
		}
		if m := c03numbering(union); m != "" {
			return "numbering", m
		}
		return "", ""
	case "load":
		sortedArrival := true
		for i, v := range p.Perm {
			if v != i {
				sortedArrival = false
			}
		}
		got := c03flatten(o.Out[0])
		if c := c03classify(got, all, sortedArrival); c != "" {
			return c, fmt.Sprintf("loaded %v, expected %v", got, all)
		}
		return "", ""
	case "count":
		if len(o.Keys) != 3 || o.Keys[0] != n || o.Keys[1] != n || o.Keys[2] != 4*n {
			return "lost", fmt.Sprintf("Count() = %v, expected (%d,%d,%d)", o.Keys, n, n, 4*n)
		}
		return "", ""
	case "completefile":
		sortedArrival := true
		for i, v := range p.Perm {
			if v != i {
				sortedArrival = false
			}
		}
		return one(all, sortedArrival, true, false)
	case "merge":
		// one merged record per non-empty input batch, total count conserved
		total := 0
		for _, b := range o.Out[0] {
			for _, id := range b.Ids {
				var c int
				fmt.Sscanf(id, "count=%d", &c)
				total += c
			}
		}
		if total != n {
			return "lost", fmt.Sprintf("total count %d after merging, expected %d", total, n)
		}
		if m := c03numbering(o.Out[0]); m != "" {
			return "numbering", m
		}
		return "", ""
	}
	return "harness", "no oracle for " + p.Scn
}

// ---- enumeration

type c03scn struct {
	name     string
	second   bool  // needs Parts2
	workers  []int // worker counts to try
	sizes    []int
	nonEmpty bool // only non-empty batches (combinator precondition)
	noPerm   bool
	quickN   int // quick tier: at most that many batches (0: the common bound, -1: not in the quick tier); the thorough tier has them all
	maxN     int // both tiers: at most that many batches (0: the common bound)
	moreK    int // quick tier: that many more records than the common bound (two-output combinators need 3 records
	// for one side to hold a full batch while the other ends on a partial one)
}

func c03scenarios(thorough bool) []c03scn {
	w12 := []int{1, 2}
	w := []int{1, 2}
	if thorough {
		w = []int{1, 2, 3}
	}
	return []c03scn{
		{name: "sort"},
		{name: "worker-keep", workers: w},
		{name: "worker-drop", workers: w12},
		{name: "worker-empty", workers: w12},
		{name: "iworker", workers: w12},
		{name: "condworker", workers: w12},
		{name: "rebatch", sizes: []int{1, 2}},
		{name: "filterempty"},
		{name: "concat", second: true},
		{name: "concat3", second: true},
		{name: "concat-sort", second: true},
		{name: "pool", second: true},
		{name: "divideon", sizes: []int{1, 2}, moreK: 1},
		{name: "filteron", sizes: []int{2}, workers: w12},
		{name: "filterand", sizes: []int{2}, workers: w12, quickN: 2}, // same goroutine structure as filteron, used by no command
		{name: "distribute", sizes: []int{1, 2}, moreK: 1},
		{name: "pairto", second: true},
		// PairedWith is one goroutine behind PairTo (whose own scenario has all partitions): 3-batch streams in the thorough tier only
		{name: "pairedwith", second: true, quickN: 2},
		// mates ride on the records: what a combinator can break is the IsPaired() flag (paired-flags, quick) and the
		// rank alignment inside PairTo (pairto); the paired compositions of obigrep / obimultiplex are thorough only
		{name: "paired-chain", second: true, sizes: []int{2}, workers: []int{2}, quickN: -1, maxN: 2},
		{name: "paired-divide", second: true, sizes: []int{1}, workers: []int{2}, quickN: -1, maxN: 2},
		{name: "worker-fatal", workers: w12},
		{name: "worker-skip", workers: w12},
		{name: "fragments", sizes: []int{2}, workers: w12},
		{name: "completefile"},
		{name: "batchover", sizes: []int{1, 2}, noPerm: true},
		{name: "merge", sizes: []int{1, 2}, nonEmpty: true},
		{name: "pipeline", sizes: []int{2}, workers: w12},
		{name: "copytee"},
		{name: "pushback"},
		{name: "split2", workers: []int{2, 3}},
		{name: "limitmemory"},
		{name: "load"},
		{name: "count"},
		{name: "pipe", workers: w12},
	}
}

func c03params(thorough bool) []c03param {
	var out []c03param
	maxK, maxN := 2, 3
	if thorough {
		maxK, maxN = 4, 3
	}
	for _, sc := range c03scenarios(thorough) {
		ws := sc.workers
		if ws == nil {
			ws = []int{0}
		}
		szs := sc.sizes
		if szs == nil {
			szs = []int{0}
		}
		scMaxK := maxK
		if !thorough {
			scMaxK += sc.moreK
		}
		for k := 0; k <= scMaxK; k++ {
			n0 := 1
			if k == 0 && !sc.noPerm {
				n0 = 0 // a stream without any batch
			}
			for n := n0; n <= maxN; n++ {
				if (!thorough && sc.quickN != 0 && n > sc.quickN) || (sc.maxN > 0 && n > sc.maxN) {
					continue
				}
				min := 0
				if sc.nonEmpty {
					min = 1
				}
				verifkit.Compositions(k, n, min, func(parts []int) {
					pp := append([]int{}, parts...)
					perms := [][]int{}
					if sc.noPerm {
						perms = append(perms, c03identity(pp))
					} else {
						verifkit.Permutations(n, func(p []int) { perms = append(perms, append([]int{}, p...)) })
					}
					for _, perm := range perms {
						for _, w := range ws {
							for _, sz := range szs {
								p := c03param{Scn: sc.name, Parts: pp, Perm: perm, Workers: w, Size: sz}
								if sc.second {
									if sc.name == "pairto" || sc.name == "pairedwith" || sc.name == "paired-chain" || sc.name == "paired-divide" {
										// mates: same number of records, its own partition
										p.Parts2 = []int{k}
										if k >= 2 {
											p2 := p
											p2.Parts2 = []int{1, k - 1}
											out = append(out, p2)
											if thorough {
												// the file of the mates delivers its batches out of order too
												p2.Perm2 = []int{1, 0}
												out = append(out, p2)
											}
										}
									} else {
										for _, p2 := range [][]int{{}, {0}, {1}, {1, 1}} {
											q := p
											q.Parts2 = p2
											out = append(out, q)
											if thorough && len(p2) == 2 {
												// every arrival order of the second stream as well
												q.Perm2 = []int{1, 0}
												out = append(out, q)
											}
										}
										continue
									}
								}
								out = append(out, p)
							}
						}
					}
				})
			}
		}
	}
	// paired-flags: one small stream through every combinator
	for half := 0; half <= 1; half++ {
		out = append(out, c03param{Scn: "paired-flags", Parts: []int{1, 1}, Perm: []int{1, 0}, Size: half})
		if thorough {
			out = append(out, c03param{Scn: "paired-flags", Parts: []int{2}, Perm: []int{0}, Size: half}, c03param{Scn: "paired-flags", Parts: []int{}, Perm: []int{}, Size: half})
		}
	}
	// fragments-len: record lengths L and L+1 around the minsize / length / overlap boundaries (the cut is
	// made inside one worker call: one or two batches are enough for the schedule dimension)
	maxL := 12
	if thorough {
		maxL = 17
	}
	for ci, cfg := range [][]int{{6, 4, 1}, {3, 5, 2}, {5, 3, 0}, {6, 4, 2}} {
		if !thorough && ci == 3 {
			continue
		}
		for L := 1; L <= maxL; L++ {
			for _, parts := range [][]int{{2}, {1, 1}} {
				if !thorough && len(parts) == 2 && L != 7 {
					continue
				}
				perm := c03identity(parts)
				if len(parts) == 2 {
					perm = []int{1, 0}
				}
				out = append(out, c03param{Scn: "fragments-len", Parts: parts, Perm: perm, Workers: 2, Size: 2, Cfg: []int{cfg[0], cfg[1], cfg[2], L}})
			}
		}
	}
	return out
}

// The explorer identifies memory locations (and, through the happens-before hashes, channels and locks)
// by address: if the collector frees an object in the middle of an execution and the address is given to
// another object, the same schedule no longer gives the same trace ("replay diverged", sporadic, seen with
// the scenarios that start many goroutines). The collector is therefore switched off and run between
// executions.
var c03execs int

func c03reset() {
	obioptions.SetBatchSize(2)
	c03execs++
	if c03execs%256 == 0 {
		runtime.GC()
	}
}

// c03Explore = vsched.Explore, except that a failure of the engine's self check "the same schedule run twice gives the same
// trace and the same verdict" (a panic of the engine; it never fails on the pinned tree) is returned instead of ending
// the shard: a tree whose behaviour depends on what earlier executions left behind (package-level state: a counter, a
// cache, a sync.Once) is reported as a violation (control-run/not-deterministic) and the job is given up.
func c03Explore(cfg vsched.Config, body func(x *vsched.Exec)) (st *vsched.Stats, diverged string) {
	defer func() {
		if e := recover(); e != nil {
			if s, ok := e.(string); ok && strings.HasPrefix(s, "vsched: replay of a") {
				st, diverged = &vsched.Stats{Outcomes: map[string]int64{}, TraceHashes: map[uint64]struct{}{}}, s
				return
			}
			panic(e)
		}
	}()
	return vsched.Explore(cfg, body), ""
}

func c03run(r *verifkit.Result, p c03param, bound int, mode string, maxExec int64) {
	cfg := vsched.Config{Name: p.Scn, Preemptions: bound, DelayBounding: mode == "delay", Horizon: 4000, MaxExec: maxExec, NShards: 1,
		Expired: r.Expired, Reset: c03reset, Full: mode == "full", Policy: p.Policy}
	cfg.Check = func(x *vsched.Exec) string {
		if p.Scn == "worker-fatal" && c03total(p.Parts) >= 2 {
			// record r1 is in the stream: the command must stop (log.Fatal), whatever the schedule
			if strings.HasPrefix(x.Outcome(), "exit") {
				return ""
			}
			if x.Outcome() == "" {
				o, _ := x.Obs.(c03obs)
				return fmt.Sprintf("error-swallowed|the worker failed on r1 with breakOnError set, the stream ended normally and delivered %v", c03flatten(o.Out[0]))
			}
		}
		switch x.Outcome() {
		case "deadlock":
			return "deadlock|" + x.Detail()
		case "panic":
			return "panic|" + x.Detail()
		case "":
		default:
			return x.Outcome() + "|" + x.Detail()
		}
		o, _ := x.Obs.(c03obs)
		c, d := c03oracle(p, o)
		if c == "" {
			return ""
		}
		return c + "|" + d
	}
	st, div := c03Explore(cfg, func(x *vsched.Exec) { x.Obs = c03body(p) })
	if div != "" {
		q := p
		q.Bound = bound
		r.Violate("obiiter/"+p.Scn+"/control-run/not-deterministic", fmt.Sprintf("%s parts=%v arrival=%v parts2=%v workers=%d size=%d cfg=%v mode=%s: %s", p.Scn, p.Parts, p.Perm, fmt.Sprint(p.Parts2, p.Perm2), p.Workers, p.Size, p.Cfg, mode, div), q)
		r.Cap(fmt.Sprintf("exploration of scenario %s given up: the same schedule does not give the same execution twice", p.Scn))
		return
	}
	r.Eval(st.Executions)
	r.Trace(st.Executions)
	r.Trans(st.Points)
	r.Replayed(st.ReplaysChecked)
	r.Count("leaked_threads", st.LeakedThreads)
	r.Count("hb_states_"+mode, st.States)
	r.Count("executions_"+mode, st.Executions)
	r.Count("schedules_executed", st.Executions)
	r.Count("scenario_params", 1)
	for h := range st.TraceHashes {
		r.StateH(h)
	}
	if st.Capped {
		r.Cap(fmt.Sprintf("execution cap (%d) or horizon reached in scenario %s", maxExec, p.Scn))
	}
	if os.Getenv("VERIF_C03_STATS") != "" {
		fmt.Printf("STATS %s parts=%v perm=%v parts2=%v w=%d size=%d: exec=%d states=%d pruned=%d points=%d maxpoints=%d threads=%d rounds=%d capped=%v nconf=%d outcomes=%v\n",
			p.Scn+fmt.Sprint(p.Cfg), p.Parts, p.Perm, p.Parts2, p.Workers, p.Size, st.Executions, st.States, st.Pruned, st.Points, st.MaxPoints, st.MaxThreads, st.Rounds, st.Capped, len(st.ConflictSites), st.Outcomes)
	}
	for o, n := range st.Outcomes {
		r.Count("outcome_"+o, n)
	}
	for _, v := range st.Violations {
		parts := strings.SplitN(v.Desc, "|", 2)
		class := parts[0]
		sub := ""
		if (p.Scn == "concat" || p.Scn == "concat3" || p.Scn == "concat-sort") && c03total(p.Parts) == 0 {
			sub = ":first-stream-empty"
		}
		q := p
		q.Choices = v.Choices
		q.Conflicts = v.Conflicts
		q.Bound = bound
		r.Violate("obiiter/"+p.Scn+"/"+class+sub, fmt.Sprintf("%s parts=%v arrival=%v parts2=%v workers=%d size=%d cfg=%v: %s [schedule=%v]",
			p.Scn, p.Parts, p.Perm, fmt.Sprint(p.Parts2, p.Perm2), p.Workers, p.Size, p.Cfg, parts[1], v.Choices), q)
	}
}

func TestVerifC03A(t *testing.T) {
	log.SetOutput(io.Discard)
	log.StandardLogger().ExitFunc = vsched.Exit
	r := verifkit.New("C03")
	defer r.Write()
	defer debug.SetGCPercent(debug.SetGCPercent(-1))

	if rc := r.ReplayCase(); rc != nil {
		var p c03param
		if err := json.Unmarshal(rc, &p); err != nil {
			t.Fatal(err)
		}
		x := vsched.RunOncePolicy(p.Policy, p.Choices, 4000, vsched.ConflictSet(p.Conflicts), c03reset, func(x *vsched.Exec) { x.Obs = c03body(p) })
		y := vsched.RunOncePolicy(p.Policy, p.Choices, 4000, vsched.ConflictSet(p.Conflicts), c03reset, func(x *vsched.Exec) { x.Obs = c03body(p) })
		if x.TraceHash() != y.TraceHash() {
			t.Fatal("replay is not deterministic")
		}
		r.Eval(1)
		msg := x.Outcome()
		if msg == "" {
			o, _ := x.Obs.(c03obs)
			c, d := c03oracle(p, o)
			msg = c
			if c != "" {
				msg = c + ": " + d
			}
		} else {
			msg += ": " + x.Detail()
		}
		if msg != "" {
			r.Violate("obiiter/"+p.Scn+"/replay", msg, p)
		}
		fmt.Println("replay outcome:", msg)
		return
	}

	// jobs: (parameter, exploration mode, bound).
	//  full   : ALL interleavings up to Mazurkiewicz-trace equivalence (sleep sets + happens-before
	//           state caching), unbounded — affordable for streams of <= 1 (thorough: 2) batches
	//  delay  : delay bounding (default scheduler continues the running thread, lowest-id enabled
	//           thread when it blocks; every other choice costs one deviation) for every parameter
	//  preempt: CHESS preemption bounding (switches at blocking points are free)
	type job struct {
		p       c03param
		mode    string
		bound   int
		maxExec int64
	}
	params := c03params(verifkit.Thorough())
	nb := func(p c03param) int { return len(p.Parts) + len(p.Parts2) }
	var jobs []job
	light := map[string]bool{"sort": true, "worker-keep": true, "worker-drop": true, "worker-empty": true, "iworker": true,
		"condworker": true, "completefile": true, "batchover": true, "merge": true,
		"copytee": true, "pushback": true, "split2": true, "limitmemory": true, "load": true, "count": true,
		"worker-fatal": true, "worker-skip": true}
	// what the quick tier runs (on ITS parameter set; the thorough tier runs the same on the larger set first)
	for _, p := range params {
		if light[p.Scn] && len(p.Parts) <= 1 && len(p.Parts2) <= 1 && p.Workers <= 2 {
			jobs = append(jobs, job{p, "full", -1, 60000})
		}
	}
	// the two default-scheduler policies as two passes: alternating them would give all jobs of one policy
	// to the shards of one parity (the second policy is the more expensive one)
	for pol := 0; pol <= 1; pol++ {
		for _, p := range params {
			q := p
			q.Policy = pol
			jobs = append(jobs, job{q, "delay", 1, 20000})
		}
	}
	if !verifkit.Thorough() {
		r.Bound("exploration", "full (unbounded, sleep sets + HB cache) for streams of <= 1 batch; delay bound 1 for every scenario parameter")
	} else {
		// the deeper explorations: delay bound 2 for every parameter, full for <= 2 batches, preemption bound 0
		// for <= 2 batches. They cost far more than the deadline allows for the large streams (a full job of
		// a 2-batch stream with 3 workers alone reaches its cap of 400000 executions), so they are ordered by
		// the size of the streams, the scenarios in turn: the deadline cuts the largest streams of every
		// scenario instead of all streams of the scenarios that come late in the list.
		var deep []job
		for _, p := range params {
			deep = append(deep, job{p, "delay", 2, 100000})
			q := p
			q.Policy = 1
			deep = append(deep, job{q, "delay", 2, 100000})
			if len(p.Parts) <= 2 && nb(p) <= 3 && !(light[p.Scn] && len(p.Parts) <= 1 && len(p.Parts2) <= 1 && p.Workers <= 2) {
				deep = append(deep, job{p, "full", -1, 400000})
			}
			if len(p.Parts) <= 2 {
				deep = append(deep, job{p, "preempt", 0, 100000})
			}
		}
		weight := func(j job) int {
			w := 100*nb(j.p) + 10*j.p.Workers + c03total(j.p.Parts)
			if j.mode == "full" {
				w += 50 // after the bounded explorations of the same stream size
			}
			return w
		}
		sort.SliceStable(deep, func(a, b int) bool { return weight(deep[a]) < weight(deep[b]) })
		jobs = append(jobs, deep...)
		r.Bound("exploration", "first the quick-tier exploration of every parameter (delay bound 1; full for <= 1 batch), then by increasing stream size: delay bound 2, preemption bound 0 and full (<= 2 batches) until the deadline")
	}
	if b := os.Getenv("VERIF_C03_BOUND"); b != "" {
		var bound int
		fmt.Sscanf(b, "%d", &bound)
		jobs = jobs[:0]
		var capN int64 = 4000
		if c := os.Getenv("VERIF_C03_CAP"); c != "" {
			fmt.Sscanf(c, "%d", &capN)
		}
		mode := "delay"
		if os.Getenv("VERIF_C03_MODE") == "preempt" {
			mode = "preempt"
		}
		if bound < 0 {
			mode = "full"
		}
		for _, p := range params {
			if f := os.Getenv("VERIF_C03_ONLY"); f != "" && !(strings.Contains(f, p.Scn) && len(p.Parts) <= 1) {
				continue
			}
			jobs = append(jobs, job{p, mode, bound, capN})
		}
	}
	if f := os.Getenv("VERIF_C03_SCN"); f != "" {
		// development aid: the regular jobs of some scenarios only
		var sel []job
		for _, j := range jobs {
			for _, name := range strings.Split(f, ",") {
				if name == j.p.Scn {
					sel = append(sel, j)
				}
			}
		}
		jobs = sel
	}
	r.Bound("scenario_parameters", len(params))
	r.Bound("jobs", len(jobs))
	for k, j := range jobs {
		if !r.Mine(k) {
			continue
		}
		if r.Expired() {
			break
		}
		if k < 3 {
			r.Sample(j.p)
		}
		c03run(r, j.p, j.bound, j.mode, j.maxExec)
		r.Count("jobs_"+j.mode, 1)
	}
	r.RequireNonVacuous("schedules_executed") // what the harness did; how the executions ended is the tree's answer
}
