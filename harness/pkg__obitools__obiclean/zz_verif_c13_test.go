//go:build verif

package obiclean

// C13 (engine B, part E2 of the design) — the obiclean graph is exact with ONE worker.
//
// Every data set of a bounded family (all subsets of <= 4 sequences of the complete one-edit
// neighbourhood of a 6-mer, chains centre -> variant -> variant-of-variant, duplicated records,
// two-sample data sets) x every abundance vector over {1,2,3} (ties included) x distance {1,2} x
// ratio {1, 0.5} is pushed through the REAL obiclean code twice:
//
//   - step by step (buildSamples, BuildSeqGraph, FilterGraphOnRatio, Mutation, ObicleanStatus,
//     Status/Weight, annotateOBIClean), keeping the per-sample graphs so that edges and SonCount are visible;
//   - end to end through CLIOBIClean (option globals set as the command line would), looking only at
//     the annotations that `obiclean` writes.
//
// Oracle (reference model written here, sharing nothing with the implementation):
//   distance 1 / ratio 1 (the defaults): son -> father iff count(father) > count(son) and the
//   Levenshtein distance (plain quadratic DP) is exactly 1; status i/h/s from out-/in-degree; the
//   reported mutation, applied to the father, gives the son; head flag and status counters follow.
//   other settings: the statement only demands determinism, so only (a) the two executions agree,
//   (b) the output is coherent with itself (SonCount = in-degree, status derived from the remaining
//   edges, head flag/counters derived from the statuses) and (c) a distance-1 edge is still a genuine
//   one-edit pair towards a strictly more abundant sequence (filters only remove edges).
//
// Supplementary, SAMPLED (not exhaustive, says nothing when silent): native runs with 2, 3 and 8 workers
// repeated a few times and compared with the 1-worker graph, on every small data set family member with
// one abundance vector and on a 577-sequence two-level tree built to make workers collide on
// father.SonCount++. The exhaustive treatment of interleavings is the engine-A part (TestVerifC13A).
//
// c13BuildGraph is self-contained and reusable from other test files of this package.

import (
	"encoding/json"
	"fmt"
	"io"
	"os"
	"runtime"
	"sort"
	"strconv"
	"strings"
	"testing"
	"time"

	"git.metabarcoding.org/obitools/obitools4/obitools4/pkg/obialign"
	"git.metabarcoding.org/obitools/obitools4/obitools4/pkg/obiiter"
	"git.metabarcoding.org/obitools/obitools4/obitools4/pkg/obioptions"
	"git.metabarcoding.org/obitools/obitools4/obitools4/pkg/obiseq"
	"git.metabarcoding.org/obitools/obitools4/obitools4/pkg/verifkit"
	log "github.com/sirupsen/logrus"
)

// ---------------------------------------------------------------------------------------------
// canonical graph description
// ---------------------------------------------------------------------------------------------

// c13Edge is one link son -> father of a per-sample graph.
type c13Edge struct {
	Father   int    `json:"father"` // record index (position in the seqs argument) of the father
	Dist     int    `json:"dist"`
	From     string `json:"from"` // Edge.From (father's symbol, '-' for a gap)
	To       string `json:"to"`   // Edge.To (son's symbol)
	Pos      int    `json:"pos"`  // Edge.Pos, 0-based
	Mutation string `json:"mutation"`
	// Mutation is obiclean_mutation[father id] as found on the son's record ("" when absent)
}

// c13Node is one sequence within one sample.
type c13Node struct {
	Sample   string    `json:"sample"`
	Rec      int       `json:"rec"` // record index
	Count    int       `json:"count"`
	Weight   int       `json:"weight"`
	SonCount int       `json:"soncount"`
	Status   string    `json:"status"` // ObicleanStatus of the node
	Edges    []c13Edge `json:"edges"`  // sorted by father record index
}

// c13Rec is what obiclean wrote on one sequence record.
type c13Rec struct {
	Id             string            `json:"id"`
	Head           string            `json:"head"` // "true" / "false" / "absent" / "?<value>"
	HeadCount      int               `json:"headcount"`
	InternalCount  int               `json:"internalcount"`
	SingletonCount int               `json:"singletoncount"`
	SampleCount    int               `json:"samplecount"`
	Status         map[string]string `json:"status"`
	Weight         map[string]int    `json:"weight"`
	Mutation       map[string]string `json:"mutation"`
}

// c13Graph: nodes sorted by (sample name, record index); records in input order.
type c13Graph struct {
	Nodes []c13Node `json:"nodes"`
	Recs  []c13Rec  `json:"recs"`
}

func c13SortedKeys[V any](m map[string]V) []string {
	ks := make([]string, 0, len(m))
	for k := range m {
		ks = append(ks, k)
	}
	sort.Strings(ks)
	return ks
}

func c13RecString(r c13Rec) string {
	var sb strings.Builder
	fmt.Fprintf(&sb, "%s head=%s h=%d i=%d s=%d n=%d status{", r.Id, r.Head, r.HeadCount, r.InternalCount, r.SingletonCount, r.SampleCount)
	for _, k := range c13SortedKeys(r.Status) {
		fmt.Fprintf(&sb, "%s:%s ", k, r.Status[k])
	}
	sb.WriteString("} weight{")
	for _, k := range c13SortedKeys(r.Weight) {
		fmt.Fprintf(&sb, "%s:%d ", k, r.Weight[k])
	}
	sb.WriteString("} mutation{")
	for _, k := range c13SortedKeys(r.Mutation) {
		fmt.Fprintf(&sb, "%s:%s ", k, r.Mutation[k])
	}
	sb.WriteString("}")
	return sb.String()
}

func c13RecsString(recs []c13Rec) string {
	var sb strings.Builder
	for _, r := range recs {
		sb.WriteString(c13RecString(r))
		sb.WriteString("\n")
	}
	return sb.String()
}

// String is the canonical, ordering-deterministic text of a graph (equal strings <=> equal graphs).
func (g c13Graph) String() string {
	var sb strings.Builder
	for _, n := range g.Nodes {
		fmt.Fprintf(&sb, "%s/s%d count=%d weight=%d sons=%d status=%s edges=[", n.Sample, n.Rec, n.Count, n.Weight, n.SonCount, n.Status)
		for _, e := range n.Edges {
			fmt.Fprintf(&sb, "->s%d d%d %s%s@%d %q;", e.Father, e.Dist, e.From, e.To, e.Pos, e.Mutation)
		}
		sb.WriteString("]\n")
	}
	sb.WriteString(c13RecsString(g.Recs))
	return sb.String()
}

// ---------------------------------------------------------------------------------------------
// running the real code
// ---------------------------------------------------------------------------------------------

// c13UseBuildSeqGraph: true -> the graph is built by the real BuildSeqGraph (which draws progress bars
// on os.Stderr); false (default) -> by its three constituent calls sortSamples / buildSamplePairs /
// extendSimilarityGraph in the same order, without progress bars.
var c13UseBuildSeqGraph = false

// c13HeadViaIterator: true (default) -> obiclean_head* annotations are written by the real
// annotateOBIClean (obiiter goroutines); false -> by c13AnnotateHeads, a transcription of its closure
// (for use under a controlled scheduler that must not see foreign goroutines).
var c13HeadViaIterator = true

func c13MakeDB(seqs []string, counts [][]int, samples []string) obiseq.BioSequenceSlice {
	db := make(obiseq.BioSequenceSlice, len(seqs))
	for i, s := range seqs {
		bs := obiseq.NewBioSequence(fmt.Sprintf("s%d", i), []byte(s), "")
		m := make(map[string]int)
		total := 0
		for k, name := range samples {
			if counts[i][k] > 0 {
				m[name] = counts[i][k]
				total += counts[i][k]
			}
		}
		bs.SetAttribute("merged_sample", m)
		bs.SetCount(total)
		db[i] = bs
	}
	return db
}

func c13StrMap(s *obiseq.BioSequence, key string) map[string]string {
	out := map[string]string{}
	v, ok := s.Annotations()[key]
	if !ok {
		return out
	}
	switch m := v.(type) {
	case map[string]string:
		for k, x := range m {
			out[k] = x
		}
	case map[string]interface{}:
		for k, x := range m {
			out[k] = fmt.Sprint(x)
		}
	default:
		out["?"] = fmt.Sprint(v)
	}
	return out
}

func c13IntMap(s *obiseq.BioSequence, key string) map[string]int {
	out := map[string]int{}
	v, ok := s.Annotations()[key]
	if !ok {
		return out
	}
	switch m := v.(type) {
	case map[string]int:
		for k, x := range m {
			out[k] = x
		}
	case obiseq.StatsOnValues:
		for k, x := range m {
			out[k] = x
		}
	case map[string]interface{}: // a map read from a JSON title line and left as it was
		for k, x := range m {
			switch n := x.(type) {
			case int:
				out[k] = n
			case float64:
				out[k] = int(n)
			default:
				out[k+"?"+fmt.Sprint(x)] = -1
			}
		}
	default:
		out["?"+fmt.Sprint(v)] = -1
	}
	return out
}

func c13Int(s *obiseq.BioSequence, key string) int {
	v, ok := s.Annotations()[key]
	if !ok {
		return -1
	}
	if i, ok := v.(int); ok {
		return i
	}
	return -2
}

func c13ReadRec(s *obiseq.BioSequence) c13Rec {
	r := c13Rec{Id: s.Id(), Head: "absent"}
	if v, ok := s.Annotations()["obiclean_head"]; ok {
		if b, isb := v.(bool); isb {
			r.Head = fmt.Sprint(b)
		} else {
			r.Head = "?" + fmt.Sprint(v)
		}
	}
	r.HeadCount = c13Int(s, "obiclean_headcount")
	r.InternalCount = c13Int(s, "obiclean_internalcount")
	r.SingletonCount = c13Int(s, "obiclean_singletoncount")
	r.SampleCount = c13Int(s, "obiclean_samplecount")
	r.Status = c13StrMap(s, "obiclean_status")
	r.Weight = c13IntMap(s, "obiclean_weight")
	r.Mutation = c13StrMap(s, "obiclean_mutation")
	return r
}

// c13AnnotateHeads transcribes the closure of annotateOBIClean (only used when c13HeadViaIterator is false).
func c13AnnotateHeads(db obiseq.BioSequenceSlice) {
	for _, s := range db {
		head, internal, singleton := 0, 0, 0
		for _, v := range Status(s) {
			switch v {
			case "i":
				internal++
			case "h":
				head++
			case "s":
				singleton++
			}
		}
		a := s.Annotations()
		a["obiclean_head"] = (head + singleton) > 0
		a["obiclean_singletoncount"] = singleton
		a["obiclean_internalcount"] = internal
		a["obiclean_headcount"] = head
		a["obiclean_samplecount"] = head + internal + singleton
	}
}

// c13BuildGraph runs the obiclean pipeline of CLIOBIClean step by step on the data set
//
//	record i = sequence seqs[i] (id "s<i>"), observed counts[i][k] times in sample samples[k] (0 = absent)
//
// with the given distance (-d), ratio (-r) and number of workers, and returns the canonical description
// of the resulting per-sample graphs and of the annotations written on the records. Same sequence of
// calls as CLIOBIClean: buildSamples, BuildSeqGraph (sortSamples; buildSamplePairs per sample;
// extendSimilarityGraph per sample when distance > 1), FilterGraphOnRatio when ratio < 1, Mutation,
// ObicleanStatus + Status/Weight per node, annotateOBIClean.
func c13BuildGraph(seqs []string, counts [][]int, samples []string, distance int, ratio float64, workers int) c13Graph {
	db := c13MakeDB(seqs, counts, samples)
	recOf := make(map[*obiseq.BioSequence]int, len(db))
	for i, s := range db {
		recOf[s] = i
	}

	smp := buildSamples(db, "sample", "NA")
	names := c13SortedKeys(smp)

	if c13UseBuildSeqGraph {
		BuildSeqGraph(smp, distance, workers)
	} else {
		sortSamples(smp)
		for _, name := range names {
			buildSamplePairs(smp[name], workers)
		}
		if distance > 1 {
			for _, name := range names {
				extendSimilarityGraph(smp[name], distance, workers)
			}
		}
	}
	if ratio < 1.0 {
		for _, name := range names {
			FilterGraphOnRatio(smp[name], ratio)
		}
	}
	Mutation(smp)
	for _, name := range names {
		for _, pcr := range *smp[name] {
			Status(pcr.Sequence)[name] = ObicleanStatus(pcr)
			Weight(pcr.Sequence)[name] = pcr.Weight
		}
	}
	if c13HeadViaIterator {
		it := annotateOBIClean("c13", db, smp, "sample", "NA")
		for it.Next() {
			it.Get()
		}
	} else {
		c13AnnotateHeads(db)
	}

	var g c13Graph
	for _, name := range names {
		nodes := *smp[name]
		first := len(g.Nodes)
		for _, pcr := range nodes {
			n := c13Node{Sample: name, Rec: recOf[pcr.Sequence], Count: pcr.Count, Weight: pcr.Weight,
				SonCount: pcr.SonCount, Status: ObicleanStatus(pcr)}
			mut := c13StrMap(pcr.Sequence, "obiclean_mutation")
			for _, e := range pcr.Edges {
				f := nodes[e.Father].Sequence
				n.Edges = append(n.Edges, c13Edge{Father: recOf[f], Dist: e.Dist, From: string(e.From), To: string(e.To),
					Pos: e.Pos, Mutation: mut[f.Id()]})
			}
			sort.SliceStable(n.Edges, func(a, b int) bool { return n.Edges[a].Father < n.Edges[b].Father })
			g.Nodes = append(g.Nodes, n)
		}
		part := g.Nodes[first:]
		sort.SliceStable(part, func(a, b int) bool { return part[a].Rec < part[b].Rec })
	}
	for _, s := range db {
		g.Recs = append(g.Recs, c13ReadRec(s))
	}
	return g
}

// c13Exit: what the logrus ExitFunc of the harness throws (log.Fatal* inside the implementation).
type c13Exit struct{}

// c13Crash: an execution of the implementation made by the harness goroutine ended in a panic or a
// log.Fatal; thrown by the runners of the command-level part and caught per data set.
type c13Crash struct{ what string }

// c13GoID: number of the calling goroutine (first line of its stack: "goroutine 17 [running]:").
func c13GoID() string {
	b := make([]byte, 64)
	f := strings.Fields(string(b[:runtime.Stack(b, false)]))
	if len(f) > 1 {
		return f[1]
	}
	return "?"
}

// c13InstallExit makes a log.Fatal* of the implementation an outcome. In the goroutine of the harness it is thrown
// as c13Exit, which the guards around the implementation calls (c13Try) report. In a goroutine the implementation
// started (workers of BuildSeqGraph, of the iterators) no guard of the harness can catch it and os.Exit would end
// the shard without a verdict: the violation is recorded, the shard writes what it has found and ends there.
// (the same for a log.Panic*, which panics in the goroutine that calls it: a logrus hook sees it first)
func c13InstallExit(r *verifkit.Result) {
	n := c13Net{r, c13GoID()}
	log.AddHook(n)
	log.StandardLogger().ExitFunc = func(code int) {
		n.end("log.Fatal", fmt.Sprintf("exit(%d)", code))
		panic(c13Exit{})
	}
}

type c13Net struct {
	r       *verifkit.Result
	harness string
}

func (n c13Net) Levels() []log.Level { return []log.Level{log.PanicLevel} }

func (n c13Net) Fire(e *log.Entry) error {
	n.end("log.Panic", e.Message)
	return nil
}

func (n c13Net) end(what, msg string) {
	if c13GoID() == n.harness {
		return
	}
	stack := make([]byte, 3000)
	stack = stack[:runtime.Stack(stack, false)]
	n.r.Violate("obiclean/"+what+"-in-a-goroutine-of-the-implementation", fmt.Sprintf("%s %q in a goroutine started by the implementation; the shard stops here\n%s", what, msg, stack), nil)
	n.r.Cap("a log.Fatal / log.Panic in a goroutine of the implementation ended a shard: its remaining cases were not run")
	n.r.Write()
	os.Exit(0)
}

// c13Try runs f (calls of the implementation made by this goroutine): a panic or a log.Fatal inside it
// becomes a description instead of the end of the shard.
func c13Try(f func()) (crash string) {
	defer func() {
		if x := recover(); x != nil {
			switch e := x.(type) {
			case c13Exit:
				crash = "log.Fatal (exit)"
			case c13Crash:
				crash = e.what
			case *log.Entry:
				crash = "log.Panic: " + e.Message
			default:
				crash = fmt.Sprintf("panic: %v", x)
			}
		}
	}()
	f()
	return ""
}

// c13BuildGraph1 is the single-sample convenience form: record i = seqs[i] with abundance counts[i] in sample "A".
func c13BuildGraph1(seqs []string, counts []int, distance int, ratio float64, workers int) c13Graph {
	cc := make([][]int, len(counts))
	for i, c := range counts {
		cc[i] = []int{c}
	}
	return c13BuildGraph(seqs, cc, []string{"A"}, distance, ratio, workers)
}

// c13RunCLI runs the real CLIOBIClean end to end (options set through the package globals and obioptions,
// as the command line does) and returns what was written on the records, in input order.
func c13RunCLI(seqs []string, counts [][]int, samples []string, distance int, ratio float64, workers int) []c13Rec {
	oldD, oldR, oldS, oldH := _distStepMax, _ratioMax, _sampleAttribute, _onlyHead
	oldCPU, oldWPC := obioptions.CLIMaxCPU(), obioptions.WorkerPerCore()
	defer func() {
		_distStepMax, _ratioMax, _sampleAttribute, _onlyHead = oldD, oldR, oldS, oldH
		obioptions.SetMaxCPU(oldCPU)
		obioptions.SetWorkerPerCore(oldWPC)
	}()
	_distStepMax, _ratioMax, _sampleAttribute, _onlyHead = distance, ratio, "sample", false
	obioptions.SetMaxCPU(workers)
	obioptions.SetWorkerPerCore(1.0)

	db := c13MakeDB(seqs, counts, samples)
	out := CLIOBIClean(obiiter.IBatchOver("c13", db, 1000))
	got := map[string]*obiseq.BioSequence{}
	for out.Next() {
		for _, s := range out.Get().Slice() {
			got[s.Id()] = s
		}
	}
	recs := make([]c13Rec, len(db))
	for i := range db {
		id := fmt.Sprintf("s%d", i)
		if s, ok := got[id]; ok {
			recs[i] = c13ReadRec(s)
		} else {
			recs[i] = c13Rec{Id: id, Head: "record-missing-from-output"}
		}
	}
	return recs
}

// ---------------------------------------------------------------------------------------------
// reference model
// ---------------------------------------------------------------------------------------------

func c13Lev(a, b string) int {
	prev := make([]int, len(b)+1)
	cur := make([]int, len(b)+1)
	for j := range prev {
		prev[j] = j
	}
	for i := 1; i <= len(a); i++ {
		cur[0] = i
		for j := 1; j <= len(b); j++ {
			c := prev[j-1]
			if a[i-1] != b[j-1] {
				c++
			}
			if prev[j]+1 < c {
				c = prev[j] + 1
			}
			if cur[j-1]+1 < c {
				c = cur[j-1] + 1
			}
			cur[j] = c
		}
		prev, cur = cur, prev
	}
	return prev[len(b)]
}

// c13EditClass: kind of the single edit turning father into son.
func c13EditClass(father, son string) string {
	switch {
	case len(son) == len(father):
		return "substitution"
	case len(son) > len(father):
		return "insertion"
	}
	return "deletion"
}

// c13MutationOK: does "(x)->(y)@p" (father symbol -> son symbol at 1-based position) describe an edit
// that turns father into son ? Any correct position is accepted (indels in homopolymers are ambiguous).
func c13MutationOK(father, son, mut string) string {
	var f, t rune
	var pos int
	if n, err := fmt.Sscanf(mut, "(%c)->(%c)@%d", &f, &t, &pos); err != nil || n != 3 {
		return "unparsable"
	}
	if want := fmt.Sprintf("(%c)->(%c)@%d", f, t, pos); want != mut {
		return "unparsable"
	}
	p := pos - 1
	switch {
	case f != '-' && t != '-':
		if len(father) != len(son) || p < 0 || p >= len(father) {
			return "wrong-edit"
		}
		if f == t || father[p] != byte(f) || son[p] != byte(t) || father[:p]+string(t)+father[p+1:] != son {
			return "wrong-edit"
		}
	case f == '-' && t != '-':
		if len(son) != len(father)+1 || p < 0 || p >= len(son) {
			return "wrong-edit"
		}
		if son[p] != byte(t) || son[:p]+son[p+1:] != father {
			return "wrong-edit"
		}
	case f != '-' && t == '-':
		if len(father) != len(son)+1 || p < 0 || p >= len(father) {
			return "wrong-edit"
		}
		if father[p] != byte(f) || father[:p]+father[p+1:] != son {
			return "wrong-edit"
		}
	default:
		return "gap-to-gap"
	}
	return ""
}

type c13Case struct {
	Family  string   `json:"family"`
	Seqs    []string `json:"seqs"`
	Samples []string `json:"samples"`
	Counts  [][]int  `json:"counts"` // Counts[i][k]: abundance of record i in sample k
	Dist    int      `json:"distance"`
	Ratio   float64  `json:"ratio"`
	Workers int      `json:"workers,omitempty"` // > 1: sampled native comparison with that many workers
	Reps    int      `json:"reps,omitempty"`
}

type c13Finding struct{ key, desc string }

func c13StatusOf(out, in int) string {
	if out > 0 {
		return "i"
	}
	if in > 0 {
		return "h"
	}
	return "s"
}

// c13RefStatus: reference statuses at the default settings, ref[k][i] ("" when record i is not in sample k),
// and the reference father sets fathers[k][i].
func c13Reference(c c13Case) (status [][]string, fathers [][][]int) {
	n := len(c.Seqs)
	status = make([][]string, len(c.Samples))
	fathers = make([][][]int, len(c.Samples))
	for k := range c.Samples {
		status[k] = make([]string, n)
		fathers[k] = make([][]int, n)
		in := make([]int, n)
		for i := 0; i < n; i++ {
			if c.Counts[i][k] <= 0 {
				continue
			}
			for j := 0; j < n; j++ {
				if j != i && c.Counts[j][k] > c.Counts[i][k] && c13Lev(c.Seqs[i], c.Seqs[j]) == 1 {
					fathers[k][i] = append(fathers[k][i], j)
					in[j]++
				}
			}
		}
		for i := 0; i < n; i++ {
			if c.Counts[i][k] > 0 {
				status[k][i] = c13StatusOf(len(fathers[k][i]), in[i])
			}
		}
	}
	return
}

func c13Default(c c13Case) bool { return c.Dist == 1 && c.Ratio == 1.0 }

// c13CheckGraph applies the oracle to the step-by-step graph (edges, SonCount, node status).
func c13CheckGraph(c c13Case, g c13Graph) (out []c13Finding) {
	add := func(key, format string, a ...any) {
		out = append(out, c13Finding{key, fmt.Sprintf(format, a...)})
	}
	sampleIdx := map[string]int{}
	for k, s := range c.Samples {
		sampleIdx[s] = k
	}
	refStatus, refFathers := c13Reference(c)

	type nk struct {
		k, rec int
	}
	indeg := map[nk]int{}
	present := map[nk]bool{}
	for _, n := range g.Nodes {
		k := sampleIdx[n.Sample]
		present[nk{k, n.Rec}] = true
		for _, e := range n.Edges {
			indeg[nk{k, e.Father}]++
		}
	}
	// membership of the per-sample graphs
	for k := range c.Samples {
		for i := range c.Seqs {
			if (c.Counts[i][k] > 0) != present[nk{k, i}] {
				add("obiclean/samples/membership", "record s%d count %d in sample %s: in graph=%v", i, c.Counts[i][k], c.Samples[k], present[nk{k, i}])
			}
		}
	}
	for _, n := range g.Nodes {
		k := sampleIdx[n.Sample]
		if n.Count != c.Counts[n.Rec][k] {
			add("obiclean/samples/count", "node %s/s%d has Count %d, input says %d", n.Sample, n.Rec, n.Count, c.Counts[n.Rec][k])
		}
		// coherence, every setting
		if n.SonCount != indeg[nk{k, n.Rec}] {
			add("obiclean/consistency/SonCount-vs-in-degree", "node %s/s%d: SonCount=%d but %d edges point to it", n.Sample, n.Rec, n.SonCount, indeg[nk{k, n.Rec}])
		}
		if want := c13StatusOf(len(n.Edges), indeg[nk{k, n.Rec}]); n.Status != want {
			add("obiclean/consistency/status-vs-edges", "node %s/s%d: status %q with %d fathers and %d sons (expected %q)", n.Sample, n.Rec, n.Status, len(n.Edges), indeg[nk{k, n.Rec}], want)
		}
		seen := map[int]bool{}
		for _, e := range n.Edges {
			if seen[e.Father] {
				add("obiclean/consistency/duplicate-edge", "node %s/s%d has two edges to s%d", n.Sample, n.Rec, e.Father)
			}
			seen[e.Father] = true
			if c.Dist >= 2 {
				// soundness at distance >= 2 (every edge, whatever its label): a link never joins two sequences
				// farther apart (unit-cost edit distance: substitutions + indels) than the distance option,
				// and the distance recorded on the edge does not exceed the option. No completeness demanded.
				if d := c13Lev(c.Seqs[n.Rec], c.Seqs[e.Father]); d > c.Dist {
					add("obiclean/d>1/spurious-link:edit-distance>distance-option", "sample %s, distance option %d: edge %s -> %s (labelled Dist=%d) joins sequences at edit distance %d",
						n.Sample, c.Dist, c.Seqs[n.Rec], c.Seqs[e.Father], e.Dist, d)
				} else if e.Dist > c.Dist {
					add("obiclean/d>1/edge-dist-field>distance-option", "sample %s, distance option %d: edge %s -> %s carries Dist=%d (edit distance %d)",
						n.Sample, c.Dist, c.Seqs[n.Rec], c.Seqs[e.Father], e.Dist, d)
				}
			}
			if e.Dist != 1 {
				continue
			}
			// a distance-1 edge is a genuine one-edit pair towards a strictly more abundant sequence (all settings)
			son, father := c.Seqs[n.Rec], c.Seqs[e.Father]
			d := c13Lev(son, father)
			switch {
			case c.Counts[e.Father][k] <= c.Counts[n.Rec][k]:
				add("obiclean/d1/spurious-link:father-not-strictly-more-abundant", "sample %s: %s(count %d) -> %s(count %d)", n.Sample, son, c.Counts[n.Rec][k], father, c.Counts[e.Father][k])
			case d == 0:
				add("obiclean/d1/spurious-link:identical-sequences", "sample %s: %s -> %s", n.Sample, son, father)
			case d > 1:
				add("obiclean/d1/spurious-link:edit-distance>1", "sample %s: %s -> %s (edit distance %d)", n.Sample, son, father, d)
			default:
				if why := c13MutationOK(father, son, e.Mutation); why != "" {
					add("obiclean/d1/mutation:"+c13EditClass(father, son)+"/"+why, "sample %s: link %s -> father %s reported as %q", n.Sample, son, father, e.Mutation)
				}
			}
		}
		if !c13Default(c) {
			continue
		}
		// exactness at the default settings
		for _, f := range refFathers[k][n.Rec] {
			if !seen[f] {
				add("obiclean/d1/missing-link:"+c13EditClass(c.Seqs[f], c.Seqs[n.Rec]), "sample %s: %s(count %d) differs by one %s from %s(count %d) but is not linked to it",
					n.Sample, c.Seqs[n.Rec], c.Counts[n.Rec][k], c13EditClass(c.Seqs[f], c.Seqs[n.Rec]), c.Seqs[f], c.Counts[f][k])
			}
		}
		for _, e := range n.Edges {
			if e.Dist != 1 {
				add("obiclean/d1/spurious-link:dist-field", "sample %s: edge s%d -> s%d with Dist=%d at distance setting 1", n.Sample, n.Rec, e.Father, e.Dist)
			}
		}
		if n.Status != refStatus[k][n.Rec] {
			add("obiclean/d1/status:"+n.Status+"-instead-of-"+refStatus[k][n.Rec], "sample %s: %s(count %d) classified %q, reference %q",
				n.Sample, c.Seqs[n.Rec], n.Count, n.Status, refStatus[k][n.Rec])
		}
	}
	return out
}

// c13CheckRecs applies the oracle to the annotations written on the records (the tool's output).
func c13CheckRecs(c c13Case, recs []c13Rec, via string) (out []c13Finding) {
	add := func(key, format string, a ...any) {
		out = append(out, c13Finding{key, via + ": " + fmt.Sprintf(format, a...)})
	}
	if len(recs) != len(c.Seqs) {
		add("obiclean/output/record-count", "%d records in, %d out", len(c.Seqs), len(recs))
		return
	}
	refStatus, refFathers := c13Reference(c)
	for i, r := range recs {
		if r.Id != fmt.Sprintf("s%d", i) || r.Head == "record-missing-from-output" {
			add("obiclean/output/record-missing", "record s%d absent from the output", i)
			continue
		}
		// coherence, every setting: counters and head flag follow the statuses that were written
		h, in, s := 0, 0, 0
		for _, v := range r.Status {
			switch v {
			case "h":
				h++
			case "i":
				in++
			case "s":
				s++
			default:
				add("obiclean/output/status-value", "record s%d has status %q", i, v)
			}
		}
		nsamples := 0
		for k := range c.Samples {
			if c.Counts[i][k] > 0 {
				nsamples++
				if _, ok := r.Status[c.Samples[k]]; !ok {
					add("obiclean/output/status-missing", "record s%d (%s) has no obiclean_status for sample %s", i, c.Seqs[i], c.Samples[k])
				}
				if _, ok := r.Weight[c.Samples[k]]; !ok {
					add("obiclean/output/weight-missing", "record s%d (%s) has no obiclean_weight for sample %s", i, c.Seqs[i], c.Samples[k])
				}
			}
		}
		if len(r.Status) != nsamples || len(r.Weight) != nsamples {
			add("obiclean/output/status-for-foreign-sample", "record s%d occurs in %d samples but has %d statuses and %d weights", i, nsamples, len(r.Status), len(r.Weight))
		}
		if r.HeadCount != h || r.InternalCount != in || r.SingletonCount != s || r.SampleCount != h+in+s {
			add("obiclean/consistency/status-counters", "record s%d statuses %v but headcount=%d internalcount=%d singletoncount=%d samplecount=%d",
				i, r.Status, r.HeadCount, r.InternalCount, r.SingletonCount, r.SampleCount)
		}
		if want := fmt.Sprint(h+s > 0); r.Head != want {
			add("obiclean/consistency/head-flag", "record s%d statuses %v but obiclean_head=%s", i, r.Status, r.Head)
		}
		if (in > 0) != (len(r.Mutation) > 0) {
			add("obiclean/consistency/mutation-vs-status", "record s%d statuses %v but obiclean_mutation=%v", i, r.Status, r.Mutation)
		}
		if c.Dist >= 2 {
			// soundness at distance >= 2, as the output shows it: the keys of obiclean_mutation are the fathers
			for _, id := range c13SortedKeys(r.Mutation) {
				f, err := strconv.Atoi(strings.TrimPrefix(id, "s"))
				if err != nil || !strings.HasPrefix(id, "s") || f < 0 || f >= len(c.Seqs) {
					add("obiclean/d>1/spurious-link:mutation-entry-towards-unknown-record", "record s%d (%s) reports a mutation towards %q", i, c.Seqs[i], id)
					continue
				}
				if d := c13Lev(c.Seqs[i], c.Seqs[f]); d > c.Dist {
					add("obiclean/d>1/spurious-link:edit-distance>distance-option", "distance option %d: record s%d (%s) is linked (obiclean_mutation[%s]=%q) to %s, at edit distance %d",
						c.Dist, i, c.Seqs[i], id, r.Mutation[id], c.Seqs[f], d)
				}
			}
		}
		if !c13Default(c) {
			continue
		}
		// exactness at the default settings
		wantMut := map[string]int{}
		for k := range c.Samples {
			if c.Counts[i][k] <= 0 {
				continue
			}
			if got := r.Status[c.Samples[k]]; got != refStatus[k][i] {
				add("obiclean/d1/status:"+got+"-instead-of-"+refStatus[k][i], "sample %s: %s(count %d) obiclean_status %q, reference %q (reference fathers %v)",
					c.Samples[k], c.Seqs[i], c.Counts[i][k], got, refStatus[k][i], refFathers[k][i])
			}
			for _, f := range refFathers[k][i] {
				wantMut[fmt.Sprintf("s%d", f)] = f
			}
		}
		for id, f := range wantMut {
			m, ok := r.Mutation[id]
			if !ok {
				add("obiclean/d1/missing-link:"+c13EditClass(c.Seqs[f], c.Seqs[i]), "%s differs by one %s from the more abundant %s but obiclean_mutation has no entry for it (%v)",
					c.Seqs[i], c13EditClass(c.Seqs[f], c.Seqs[i]), c.Seqs[f], r.Mutation)
				continue
			}
			if why := c13MutationOK(c.Seqs[f], c.Seqs[i], m); why != "" {
				add("obiclean/d1/mutation:"+c13EditClass(c.Seqs[f], c.Seqs[i])+"/"+why, "link %s -> father %s reported as %q", c.Seqs[i], c.Seqs[f], m)
			}
		}
		for id, m := range r.Mutation {
			if _, ok := wantMut[id]; !ok {
				add("obiclean/d1/spurious-link:mutation-entry", "record s%d (%s) reports mutation %q towards %s, which is no father of it in any sample", i, c.Seqs[i], m, id)
			}
		}
		wantHead := false
		for k := range c.Samples {
			if c.Counts[i][k] > 0 && refStatus[k][i] != "i" {
				wantHead = true
			}
		}
		if r.Head != fmt.Sprint(wantHead) {
			add("obiclean/d1/head-flag", "record s%d (%s): obiclean_head=%s, reference %v", i, c.Seqs[i], r.Head, wantHead)
		}
	}
	return out
}

// ---------------------------------------------------------------------------------------------
// enumeration
// ---------------------------------------------------------------------------------------------

// c13Edits1: all distinct strings at exactly one edit (substitution / deletion / insertion at every
// position, letters taken from `letters`) of s, in a fixed order.
func c13Edits1(s string, letters string) []string {
	seen := map[string]bool{s: true}
	var out []string
	push := func(x string) {
		if !seen[x] {
			seen[x] = true
			out = append(out, x)
		}
	}
	for p := 0; p < len(s); p++ {
		for i := 0; i < len(letters); i++ {
			push(s[:p] + letters[i:i+1] + s[p+1:])
		}
	}
	for p := 0; p < len(s); p++ {
		push(s[:p] + s[p+1:])
	}
	for p := 0; p <= len(s); p++ {
		for i := 0; i < len(letters); i++ {
			push(s[:p] + letters[i:i+1] + s[p:])
		}
	}
	return out
}

// c13EditsR: reduced edit set (every position; substitution by the cyclically next letter, every
// deletion, insertion of the cyclically next letter of the left neighbour).
func c13EditsR(s string) []string {
	next := map[byte]byte{'a': 'c', 'c': 'g', 'g': 't', 't': 'a'}
	seen := map[string]bool{s: true}
	var out []string
	push := func(x string) {
		if !seen[x] {
			seen[x] = true
			out = append(out, x)
		}
	}
	for p := 0; p < len(s); p++ {
		push(s[:p] + string(next[s[p]]) + s[p+1:])
	}
	for p := 0; p < len(s); p++ {
		push(s[:p] + s[p+1:])
	}
	for p := 0; p <= len(s); p++ {
		l := byte('t')
		if p > 0 {
			l = s[p-1]
		}
		push(s[:p] + string(next[l]) + s[p:])
	}
	return out
}

func c13Subsets(n, k int, f func(idx []int)) {
	idx := make([]int, k)
	var rec func(pos, from int)
	rec = func(pos, from int) {
		if pos == k {
			f(idx)
			return
		}
		for i := from; i < n; i++ {
			idx[pos] = i
			rec(pos+1, i+1)
		}
	}
	rec(0, 0)
}

// c13CountVectors: every vector of length n over vals.
func c13CountVectors(n int, vals []int, f func(v []int)) {
	v := make([]int, n)
	var rec func(p int)
	rec = func(p int) {
		if p == n {
			f(v)
			return
		}
		for _, x := range vals {
			v[p] = x
			rec(p + 1)
		}
	}
	rec(0)
}

const c13Centre = "acgtta" // all four letters, one homopolymer run (ambiguous indel positions)

type c13Set struct {
	family  string
	seqs    []string
	samples int // 1 or 2
}

// c13Sets enumerates the data sets (sequence lists) of every family, in a fixed order.
func c13Sets(thorough bool, f func(s c13Set)) {
	n1 := c13Edits1(c13Centre, "acgt")
	p1 := append([]string{c13Centre}, n1...)
	inP1 := map[string]bool{}
	for _, s := range p1 {
		inP1[s] = true
	}
	pick := func(pool []string, idx []int) []string {
		out := make([]string, len(idx))
		for i, j := range idx {
			out[i] = pool[j]
		}
		return out
	}
	// F1: every subset of 1..3 sequences of {centre} + complete one-edit neighbourhood
	for k := 1; k <= 3; k++ {
		c13Subsets(len(p1), k, func(idx []int) { f(c13Set{fmt.Sprintf("subsets%d", k), pick(p1, idx), 1}) })
	}
	// F3: chains centre - v - w with w in the complete one-edit neighbourhood of v but outside that of the
	// centre (pairs at edit distance 2 and 3 appear), alone and with a 4th sequence
	small := c13SmallPool()
	for _, v := range n1 {
		for _, w := range c13Edits1(v, "acgt") {
			if inP1[w] {
				continue
			}
			f(c13Set{"chain3", []string{c13Centre, v, w}, 1})
		}
	}
	// F4: duplicated records (identical sequences in one sample are at distance 0: never linked)
	for i, a := range small {
		f(c13Set{"duplicate2", []string{a, a}, 1})
		for j, b := range small {
			if i == j {
				continue
			}
			f(c13Set{"duplicate3", []string{a, a, b}, 1})
			f(c13Set{"duplicate3", []string{a, b, a}, 1})
			f(c13Set{"duplicate3", []string{b, a, a}, 1})
		}
	}
	// F5: two samples; every record has an abundance 0..2 in each (not absent from both)
	for k := 1; k <= 3; k++ {
		c13Subsets(len(small), k, func(idx []int) { f(c13Set{fmt.Sprintf("two-samples%d", k), pick(small, idx), 2}) })
	}
	// chains of 4 (see F3)
	vs := c13EditsR(c13Centre)
	if thorough {
		vs = n1
	}
	for _, v := range vs {
		ws := c13EditsR(v)
		if thorough {
			ws = c13Edits1(v, "acgt")
		}
		for _, w := range ws {
			if inP1[w] {
				continue
			}
			// 4th: a further step along the chain (reduced edit set), or a member of the small pool
			// (quick) / of the complete neighbourhood of the centre (thorough)
			xs := c13EditsR(w)
			if thorough {
				xs = append(xs, n1...)
			} else {
				xs = append(xs, small...)
			}
			seen := map[string]bool{c13Centre: true, v: true, w: true}
			for _, x := range xs {
				if seen[x] {
					continue
				}
				seen[x] = true
				f(c13Set{"chain4", []string{c13Centre, v, w, x}, 1})
			}
		}
	}
	// F2: subsets of 4: containing the centre (quick), all (thorough)
	if thorough {
		c13Subsets(len(p1), 4, func(idx []int) { f(c13Set{"subsets4", pick(p1, idx), 1}) })
	} else {
		c13Subsets(len(n1), 3, func(idx []int) {
			f(c13Set{"subsets4-with-centre", append([]string{c13Centre}, pick(n1, idx)...), 1})
		})
	}
}

// c13SmallPool: centre + one representative of every kind of edit + two 2-edit variants.
func c13SmallPool() []string {
	c := c13Centre // acgtta
	return []string{c,
		"ccgtta",  // substitution, first position
		"acgttg",  // substitution, last position
		"cgtta",   // deletion, first position
		"acgta",   // deletion inside the homopolymer
		"tacgtta", // insertion in front
		"acgttac", // insertion at the end
		"acgttta", // insertion extending the homopolymer
		"ccgttg",  // two substitutions (one edit from two members)
		"cgttg",   // deletion + substitution
	}
}

// c13FarPool: the centre and nine sequences 2 to 5 edits away from it (2 to 6 from one another): data sets in
// which the second pass of BuildSeqGraph (distance option >= 2) meets pairs on both sides of its bound.
func c13FarPool() []string {
	return []string{c13Centre, // acgtta
		"cagtta",   // 2 substitutions (adjacent letters exchanged)
		"acgaat",   // 3 substitutions, at the end
		"tgcata",   // 4 substitutions
		"tgcaat",   // 5 edits; 2 from the previous one
		"cataac",   // 4 edits, every position differs
		"gagttca",  // one letter longer, 3 edits
		"cgtca",    // one letter shorter, 2 edits
		"acggttta", // two letters longer, 2 edits
		"acta",     // two letters shorter, 2 edits
	}
}

// c13BeyondBound: is the pair farther apart than `step`, and does the bounded LCS kernel that the second pass
// of BuildSeqGraph calls nevertheless answer with a pair of values (it may: beyond its bound it answers
// either "not found" or values that are themselves beyond the bound) ? Those are the pairs that only the
// caller's own comparison with the distance option keeps out of the graph. Vacuity counter only.
func c13BeyondBound(a, b string, step int) (beyond, answered bool) {
	if c13Lev(a, b) <= step {
		return false, false
	}
	lcs := -1
	c13Try(func() {
		lcs, _ = obialign.FastLCSScore(obiseq.NewBioSequence("a", []byte(a), ""), obiseq.NewBioSequence("b", []byte(b), ""), step, nil)
	})
	return true, lcs >= 0
}

// ---------------------------------------------------------------------------------------------
// the check
// ---------------------------------------------------------------------------------------------

func c13CaseString(c c13Case) string {
	return fmt.Sprintf("[%s] seqs=%v samples=%v counts=%v distance=%d ratio=%v", c.Family, c.Seqs, c.Samples, c.Counts, c.Dist, c.Ratio)
}

// c13BigTree: root (first rootLen bases of a fixed 60-mer, 100000 reads), one substituted variant per position
// (1000 reads each), and for every such variant one further substituted variant per other position (leaves).
// Every leaf has exactly one father, every middle node rootLen-1 sons and the root as father. Leaves of one
// father are adjacent rows. With distinct leaf abundances (1, 2, 3, ...) every leaf row also runs the
// one-difference kernel against all the later leaves (never a link), which makes rows long enough for the
// workers to really overlap.
func c13BigTree(rootLen int, distinct bool) (seqs []string, counts []int) {
	root := "acgtgcatcagtcgatgcattgcaggatccatgcaatcgtagcttagcatgcatcgatgga"[:rootLen]
	rot := func(b byte, k int) byte { return "acgt"[(strings.IndexByte("acgt", b)+k)%4] }
	sub := func(s string, p, k int) string { return s[:p] + string(rot(s[p], k)) + s[p+1:] }
	for p := 0; p < len(root); p++ {
		m := sub(root, p, 1)
		for q := 0; q < len(root); q++ {
			if q != p {
				seqs = append(seqs, sub(m, q, 2))
				if distinct {
					counts = append(counts, len(seqs))
				} else {
					counts = append(counts, 1)
				}
			}
		}
	}
	for p := 0; p < len(root); p++ {
		seqs = append(seqs, sub(root, p, 1))
		counts = append(counts, 10000)
	}
	seqs = append(seqs, root)
	counts = append(counts, 1000000)
	return
}

// c13BigFamily: "bigtree:<rootLen>:<d|t>" (d = distinct leaf abundances, t = all leaves tied at 1)
func c13BigFamily(name string) (seqs []string, counts [][]int, ok bool) {
	var n int
	var mode string
	if _, err := fmt.Sscanf(name, "bigtree:%d:%s", &n, &mode); err != nil || n < 2 || n > 60 {
		return nil, nil, false
	}
	ss, cs := c13BigTree(n, mode == "d")
	cc := make([][]int, len(cs))
	for i, x := range cs {
		cc[i] = []int{x}
	}
	return ss, cc, true
}

func TestVerifC13(t *testing.T) {
	log.SetOutput(io.Discard)
	log.SetLevel(log.PanicLevel)
	// the progress bars of BuildSeqGraph / CLIOBIClean write to os.Stderr: send them to /dev/null
	if devnull, err := os.OpenFile(os.DevNull, os.O_WRONLY, 0); err == nil {
		old := os.Stderr
		os.Stderr = devnull
		defer func() { os.Stderr = old; devnull.Close() }()
	}

	r := verifkit.New("C13")
	defer r.Write()
	c13InstallExit(r)
	start := time.Now()

	report := func(c c13Case, fs []c13Finding, dump string) {
		seen := map[string]bool{}
		for _, f := range fs {
			if seen[f.key] {
				continue
			}
			seen[f.key] = true
			r.Violate(f.key, c13CaseString(c)+": "+f.desc+"\n"+dump, c)
		}
	}

	// one evaluation of the exhaustive part: 1 worker; step by step, and (withCLI) end to end
	evalExact := func(c c13Case, withCLI bool) {
		// vacuity counters: facts about the data set submitted (reference links and statuses, pairs within
		// reach of a distance option > 1), not about the graph the implementation builds
		if c13Default(c) {
			refStatus, refFathers := c13Reference(c)
			nlinks := 0
			for k := range refStatus {
				for i, st := range refStatus[k] {
					if st != "" {
						r.Count("default_setting_reference_status_"+st, 1)
					}
					nlinks += len(refFathers[k][i])
				}
			}
			if nlinks > 0 {
				r.Count("default_setting_cases_with_reference_links", 1)
			}
		}
		if c.Dist >= 2 {
			r.Count("cases_submitted(distance-option>1)", 1)
			for k := range c.Samples {
				for i := range c.Seqs {
					for j := i + 1; j < len(c.Seqs); j++ {
						if c.Counts[i][k] > 0 && c.Counts[j][k] > 0 && c.Counts[i][k] != c.Counts[j][k] {
							if d := c13Lev(c.Seqs[i], c.Seqs[j]); d >= 2 && d <= c.Dist {
								r.Count("pairs_submitted_at_distance_2..option_with_unequal_abundances", 1)
							}
						}
					}
				}
			}
		}
		var g c13Graph
		if crash := c13Try(func() { g = c13BuildGraph(c.Seqs, c.Counts, c.Samples, c.Dist, c.Ratio, 1) }); crash != "" {
			r.Eval(1)
			r.Violate("obiclean/step-by-step/crash", c13CaseString(c)+": the step-by-step execution (buildSamples, BuildSeqGraph, FilterGraphOnRatio, Mutation, annotateOBIClean) ends in "+crash, c)
			return
		}
		r.Eval(1)
		npairs := 0
		for k := range c.Samples {
			m := 0
			for i := range c.Seqs {
				if c.Counts[i][k] > 0 {
					m++
				}
			}
			npairs += m * (m - 1) / 2
		}
		r.Trans(int64(npairs))
		var fs []c13Finding
		fs = append(fs, c13CheckGraph(c, g)...)
		fs = append(fs, c13CheckRecs(c, g.Recs, "step-by-step")...)
		if withCLI {
			var cli []c13Rec
			crash := c13Try(func() { cli = c13RunCLI(c.Seqs, c.Counts, c.Samples, c.Dist, c.Ratio, 1) })
			r.Eval(1)
			r.Trans(int64(npairs))
			r.Count("end_to_end_CLIOBIClean_runs", 1)
			if crash != "" {
				fs = append(fs, c13Finding{"obiclean/CLIOBIClean/crash", "CLIOBIClean (1 worker) ends in " + crash})
			} else {
				fs = append(fs, c13CheckRecs(c, cli, "CLIOBIClean")...)
				if a, b := c13RecsString(g.Recs), c13RecsString(cli); a != b {
					fs = append(fs, c13Finding{"obiclean/one-worker/two-executions-differ",
						"annotations of the step-by-step execution and of CLIOBIClean differ (both 1 worker)\nCLIOBIClean:\n" + b})
				}
			}
		}
		// what made the case interesting
		nedges, nd2, d2tie := 0, 0, 0
		for _, n := range g.Nodes {
			for _, e := range n.Edges {
				nedges++
				if e.Dist > 1 {
					nd2++
					for _, m := range g.Nodes {
						if m.Sample == n.Sample && m.Rec == e.Father && m.Count == n.Count {
							d2tie++
						}
					}
				}
			}
			r.Count("status_"+n.Status, 1)
		}
		if nedges > 0 {
			r.Count("cases_with_edges", 1)
		}
		r.Count("edges", int64(nedges))
		r.Count("edges_dist2", int64(nd2))
		if c.Dist >= 2 {
			r.Count("soundness_edges_judged(distance-option>1)", int64(nedges))
		}
		r.Count("info_dist2_edges_to_equally_abundant_father", int64(d2tie))
		if c13Default(c) {
			r.Count("default_setting_cases", 1)
			if nedges > 0 {
				r.Count("default_setting_cases_with_edges", 1)
			}
		}
		if len(fs) > 0 {
			// a wrong link makes statuses and head flags wrong too: keep the root cause only
			linkLevel := false
			for _, f := range fs {
				if strings.HasPrefix(f.key, "obiclean/d1/spurious-link") || strings.HasPrefix(f.key, "obiclean/d1/missing-link") {
					linkLevel = true
				}
			}
			if linkLevel {
				kept := fs[:0]
				for _, f := range fs {
					if !strings.HasPrefix(f.key, "obiclean/d1/status:") && !strings.HasPrefix(f.key, "obiclean/d1/head-flag") {
						kept = append(kept, f)
					}
				}
				fs = kept
			}
			report(c, fs, g.String())
		}
	}

	// sampled part: native runs with several workers against the 1-worker graph
	evalNative := func(c c13Case) {
		cc := c
		if len(cc.Seqs) > 12 {
			cc.Seqs, cc.Counts = nil, nil // regenerated from the family name on replay
		}
		ref := ""
		if crash := c13Try(func() { ref = c13BuildGraph(c.Seqs, c.Counts, c.Samples, c.Dist, c.Ratio, 1).String() }); crash != "" {
			// the control run (1 worker) fails: a verdict on the tree; the comparisons that need it are skipped
			r.Violate("obiclean/control-run/one-worker-graph/crash",
				fmt.Sprintf("[%s] %d sequences distance=%d ratio=%v: the 1-worker step-by-step execution ends in %s", c.Family, len(c.Seqs), c.Dist, c.Ratio, crash), cc)
			return
		}
		reps := c.Reps
		if reps < 1 {
			reps = 1
		}
		for rep := 0; rep < reps; rep++ {
			got := ""
			crash := c13Try(func() { got = c13BuildGraph(c.Seqs, c.Counts, c.Samples, c.Dist, c.Ratio, c.Workers).String() })
			r.Count("sampled_native_runs", 1)
			if crash != "" {
				r.Violate("obiclean/native-run/crash",
					fmt.Sprintf("[%s] %d sequences distance=%d ratio=%v: native run %d with %d workers ends in %s", c.Family, len(c.Seqs), c.Dist, c.Ratio, rep, c.Workers, crash), cc)
				return
			}
			if got != ref {
				r.Count("sampled_native_runs_differing", 1)
				d := c13FirstDiff(ref, got)
				r.Violate("obiclean/graph-depends-on-schedule/native-run",
					fmt.Sprintf("[%s] %d sequences distance=%d ratio=%v: native run %d with %d workers differs from the 1-worker graph (SAMPLED observation): %s",
						c.Family, len(c.Seqs), c.Dist, c.Ratio, rep, c.Workers, d), cc)
				return
			}
		}
	}

	bigCase := func(family string, d int, ratio float64, w, reps int) c13Case {
		seqs, cc, ok := c13BigFamily(family)
		if !ok {
			t.Fatalf("unknown family %q", family)
		}
		return c13Case{Family: family, Seqs: seqs, Samples: []string{"A"}, Counts: cc, Dist: d, Ratio: ratio, Workers: w, Reps: reps}
	}

	if rc := r.ReplayCase(); rc != nil {
		var c c13Case
		if err := json.Unmarshal(rc, &c); err != nil {
			t.Fatal(err)
		}
		if strings.HasPrefix(c.Family, "bigtree:") && len(c.Seqs) == 0 {
			c = bigCase(c.Family, c.Dist, c.Ratio, c.Workers, c.Reps)
		}
		if c.Workers > 1 {
			if c.Reps < 50 {
				c.Reps = 50
			}
			evalNative(c)
		} else {
			c13UseBuildSeqGraph = true
			evalExact(c, true)
			c13UseBuildSeqGraph = false
			evalExact(c, false)
		}
		return
	}

	thorough := verifkit.Thorough()
	type setting struct {
		d     int
		ratio float64
	}
	settings := []setting{{1, 1.0}, {1, 0.5}, {2, 1.0}, {2, 0.5}}
	r.Bound("centre", c13Centre)
	r.Bound("abundances", "single sample: every vector over {1,2,3}; two samples: every record (a,b) in {0,1,2}^2 \\ (0,0)")
	r.Bound("settings", "distance {1,2} x ratio {1,0.5}")
	r.Bound("one_edit_neighbourhood_size", len(c13Edits1(c13Centre, "acgt")))
	r.Bound("end_to_end", "CLIOBIClean on every case of the sets of <= 2 records; for sets of 3 and 4 records on every data set at the default setting and on every 9th abundance vector at one of the other settings (rotating)")
	r.Bound("sampled_native_workers", "2,3,8")

	countsOf := func(s c13Set, v []int) [][]int {
		counts := make([][]int, len(v))
		for i, x := range v {
			if s.samples == 1 {
				counts[i] = []int{x}
			} else {
				counts[i] = []int{x / 3, x % 3} // code 1..8 of (a,b) in {0,1,2}^2 minus (0,0)
			}
		}
		return counts
	}
	samplesOf := func(s c13Set) ([]string, []int) {
		if s.samples == 2 {
			return []string{"A", "B"}, []int{1, 2, 3, 4, 5, 6, 7, 8}
		}
		return []string{"A"}, []int{1, 2, 3}
	}

	// ---- sampled, supplementary part 1 (first, cheap, fixed cost): native multi-worker runs on the big
	// two-level trees, every setting x 2, 3, 8 workers x reps repetitions ----
	if runtime.GOMAXPROCS(0) < 8 {
		runtime.GOMAXPROCS(8)
	}
	reps := 5
	if thorough {
		reps = 20
	}
	kbig := 0
	for _, fam := range []string{"bigtree:24:d", "bigtree:24:t"} {
		for _, st := range settings {
			for _, w := range []int{2, 3, 8} {
				kbig++
				if r.Mine(kbig) {
					evalNative(bigCase(fam, st.d, st.ratio, w, reps))
				}
			}
		}
	}

	// ---- exhaustive part: one worker, one OS thread's worth of parallelism (cheap goroutine hand-offs) ----
	oldProcs := runtime.GOMAXPROCS(1)

	// ---- soundness at distance options 2 and 3 (first: fixed, small cost): the graph is built by the real
	// BuildSeqGraph, whose second pass submits every son without one-difference father to a bounded kernel
	// and has to keep out the pairs beyond the option. Oracle: c13CheckGraph / c13CheckRecs (no link between
	// sequences farther apart than the option, no edge label above it, coherence); no completeness. ----
	farEval := func(family string, seqs []string, counts []int, d int, ratio float64, withCLI bool) {
		cc := make([][]int, len(counts))
		for i, x := range counts {
			cc[i] = []int{x}
		}
		c := c13Case{Family: family, Seqs: seqs, Samples: []string{"A"}, Counts: cc, Dist: d, Ratio: ratio}
		c13UseBuildSeqGraph = true
		evalExact(c, withCLI)
		c13UseBuildSeqGraph = false
		r.Count("far_cases", 1)
	}
	farBeyond := func(seqs []string, d int) {
		for i := range seqs {
			for j := i + 1; j < len(seqs); j++ {
				if beyond, answered := c13BeyondBound(seqs[i], seqs[j], d); beyond {
					r.Count("far_pairs_beyond_the_distance_option", 1)
					if answered {
						r.Count("far_pairs_beyond_the_option_answered_by_the_kernel", 1)
					}
				} else {
					r.Count("far_pairs_within_the_distance_option", 1)
				}
			}
		}
	}
	// (i) the centre with EVERY sequence over {a,c,g,t} of length minL..maxL: son/father both ways, ties in
	// both record orders
	minL, maxL := 3, 7
	if thorough {
		minL, maxL = 1, 8
	}
	r.Bound("far_pairs", fmt.Sprintf("centre x every sequence over acgt of length %d..%d x abundances (2,1),(1,2),(1,1) both record orders x distance option {2,3}, ratio 1; real BuildSeqGraph, CLIOBIClean on the (2,1) case", minL, maxL))
	kf := 0
	verifkit.Strings("acgt", minL, maxL, func(u string) {
		kf++
		if u == c13Centre || !r.Mine(kf) || r.Expired() {
			return
		}
		r.State("far-pair|" + u)
		r.Count("sets_far-pair", 1)
		for _, d := range []int{2, 3} {
			farBeyond([]string{c13Centre, u}, d)
			farEval("far-pair", []string{c13Centre, u}, []int{2, 1}, d, 1.0, true)
			farEval("far-pair", []string{c13Centre, u}, []int{1, 2}, d, 1.0, false)
			farEval("far-pair", []string{c13Centre, u}, []int{1, 1}, d, 1.0, false)
			farEval("far-pair", []string{u, c13Centre}, []int{1, 1}, d, 1.0, false)
		}
	})
	// (ii) every subset of 2..3 sequences of the far pool x every abundance vector x distance {2,3} x ratio {1,0.6}
	far := c13FarPool()
	r.Bound("far_pool", far)
	for size := 2; size <= 3; size++ {
		c13Subsets(len(far), size, func(idx []int) {
			kf++
			if !r.Mine(kf) || r.Expired() {
				return
			}
			seqs := make([]string, size)
			for j, i := range idx {
				seqs[j] = far[i]
			}
			r.State("far-subset|" + strings.Join(seqs, ","))
			r.Count("sets_far-subset", 1)
			for _, d := range []int{2, 3} {
				farBeyond(seqs, d)
			}
			c13CountVectors(size, []int{1, 2, 3}, func(v []int) {
				for _, d := range []int{2, 3} {
					farEval("far-subset", seqs, append([]int{}, v...), d, 1.0, true)
					farEval("far-subset", seqs, append([]int{}, v...), d, 0.6, false) // 0.6^2 > 1/3: some links pass the filter
				}
			})
		})
	}

	k := 0
	nsets := 0
	farOnly := os.Getenv("VERIF_C13_SECTIONS") == "far" // development only: stop after the soundness section
	c13Sets(thorough, func(s c13Set) {
		k++
		nsets++
		if !r.Mine(k) || r.Expired() || farOnly {
			return
		}
		r.Count("sets_"+s.family, 1)
		r.State(s.family + "|" + strings.Join(s.seqs, ","))
		samples, vals := samplesOf(s)
		nv := 0
		c13CountVectors(len(s.seqs), vals, func(v []int) {
			counts := countsOf(s, v)
			for si, st := range settings {
				c := c13Case{Family: s.family, Seqs: s.seqs, Samples: samples, Counts: counts, Dist: st.d, Ratio: st.ratio}
				withCLI := len(s.seqs) <= 2 || si == 0 || (nv%9 == 0 && si == 1+(nv/9)%3)
				// the graph of the step-by-step execution is built by the real BuildSeqGraph whenever the
				// end-to-end run is made too, by its constituent calls otherwise (progress bars are costly)
				c13UseBuildSeqGraph = withCLI
				evalExact(c, withCLI)
				c13UseBuildSeqGraph = false
			}
			nv++
			r.Count("datasets", 1)
		})
	})
	r.Bound("sequence_sets", nsets)
	runtime.GOMAXPROCS(oldProcs)
	if runtime.GOMAXPROCS(0) < 8 {
		runtime.GOMAXPROCS(8)
	}

	// ---- sampled, supplementary part 2: native multi-worker runs on the small sets. Never counted as exhaustive; it has its
	// own time limit (8 s quick, 120 s thorough, never beyond 85% of the deadline) and stops silently; the command-level
	// part (TestVerifC13CLI) adds sampled runs of the real binary with 1..4 CPUs on thousands of data sets ----
	phaseB := time.Now()
	limitB := 8 * time.Second
	if thorough {
		limitB = 120 * time.Second
	}
	budget := time.Duration(0)
	if d, err := strconv.ParseFloat(os.Getenv("VERIF_DEADLINE_S"), 64); err == nil && d > 0 {
		budget = time.Duration(0.85 * d * float64(time.Second))
	}
	outOfTime := func() bool {
		return (budget > 0 && time.Since(start) > budget) || time.Since(phaseB) > limitB
	}
	truncated := false
	kb := 0
	c13Sets(thorough, func(s c13Set) {
		kb++
		if !r.Mine(kb) || truncated || farOnly {
			return
		}
		if outOfTime() {
			truncated = true
			return
		}
		samples, vals := samplesOf(s)
		c13CountVectors(len(s.seqs), vals, func(v []int) {
			// abundance vectors in which the first record is strictly the most abundant (stars when the
			// first record is the centre), with the setting that runs both worker pools and the filter
			if v[0] != vals[len(vals)-1] {
				return
			}
			for _, x := range v[1:] {
				if x >= v[0] {
					return
				}
			}
			for _, w := range []int{2, 3, 8} {
				evalNative(c13Case{Family: s.family, Seqs: s.seqs, Samples: samples, Counts: countsOf(s, v), Dist: 2, Ratio: 0.5, Workers: w, Reps: 1})
			}
		})
	})
	if truncated {
		r.Note("sampled native multi-worker part stopped early (time budget); the exhaustive 1-worker part is not affected")
	}

	// guards on what the harness submits (reference model, edit distances of the data sets); what the
	// implementation answers (edges, edges_dist2, status_*, ..._answered_by_the_kernel) stays as counters
	r.RequireNonVacuous("default_setting_cases_with_reference_links")
	r.RequireNonVacuous("pairs_submitted_at_distance_2..option_with_unequal_abundances")
	r.RequireNonVacuous("cases_submitted(distance-option>1)")
	r.RequireNonVacuous("far_pairs_beyond_the_distance_option")
	r.RequireNonVacuous("far_pairs_within_the_distance_option")
	r.RequireNonVacuous("default_setting_reference_status_h")
	r.RequireNonVacuous("default_setting_reference_status_i")
	r.RequireNonVacuous("default_setting_reference_status_s")
	r.RequireNonVacuous("end_to_end_CLIOBIClean_runs")
	if r.Shard != 0 {
		return
	}
	r.Sample(c13Case{Family: "chain3", Seqs: []string{"acgtta", "ccgtta", "ccgtt"}, Samples: []string{"A"}, Counts: [][]int{{3}, {2}, {1}}, Dist: 1, Ratio: 1})
	c13Try(func() {
		r.Sample(map[string]any{"graph_of_previous_sample": strings.Split(c13BuildGraph1([]string{"acgtta", "ccgtta", "ccgtt"}, []int{3, 2, 1}, 1, 1, 1).String(), "\n")})
	})
}

func c13FirstDiff(a, b string) string {
	la, lb := strings.Split(a, "\n"), strings.Split(b, "\n")
	n := 0
	first := ""
	for i := 0; i < len(la) && i < len(lb); i++ {
		if la[i] != lb[i] {
			if n == 0 {
				first = fmt.Sprintf("1 worker: %q / several workers: %q", la[i], lb[i])
			}
			n++
		}
	}
	return fmt.Sprintf("%d differing lines, first: %s", n, first)
}
