//go:build verif

package obiclean

// C13 (engine A) — the per-sample obiclean graph (edges, son counts, weights, statuses) is identical
// whatever the number of workers and the goroutine interleaving. buildSamplePairs /
// extendSimilarityGraph run unmodified except that their channel / sync / go operations AND the
// unsynchronised read-modify-write statements on shared fields (father.SonCount++) were rewritten
// by the instrumenter: the load and the store of `x++` are separate steps with a scheduling point
// between them once the location was seen to be touched by two threads.

import (
	"encoding/json"
	"fmt"
	"io"
	"sort"
	"strings"
	"testing"

	"git.metabarcoding.org/obitools/obitools4/obitools4/pkg/obiseq"
	"git.metabarcoding.org/obitools/obitools4/obitools4/pkg/verifkit"
	"git.metabarcoding.org/obitools/obitools4/obitools4/pkg/vsched"
	log "github.com/sirupsen/logrus"
)

type c13aParam struct {
	Name    string   `json:"name"`
	Seqs    []string `json:"seqs"`
	Counts  []int    `json:"counts"`
	Workers int      `json:"workers"`
	Dist    int      `json:"distance"`
	Ratio   float64  `json:"ratio"`
	Choices []int    `json:"choices,omitempty"`
}

func c13aBuild(p c13aParam) []*seqPCR {
	// sorted by increasing count as BuildSeqGraph does (stable)
	idx := make([]int, len(p.Seqs))
	for i := range idx {
		idx[i] = i
	}
	sort.SliceStable(idx, func(a, b int) bool { return p.Counts[idx[a]] < p.Counts[idx[b]] })
	seqs := make([]*seqPCR, 0, len(idx))
	for _, i := range idx {
		s := obiseq.NewBioSequence(fmt.Sprintf("s%d", i), []byte(p.Seqs[i]), "")
		seqs = append(seqs, &seqPCR{Count: p.Counts[i], Sequence: s})
	}
	return seqs
}

func c13aRun(p c13aParam) string {
	seqs := c13aBuild(p)
	buildSamplePairs(&seqs, p.Workers)
	if p.Dist > 1 {
		extendSimilarityGraph(&seqs, p.Dist, p.Workers)
	}
	FilterGraphOnRatio(&seqs, p.Ratio)
	var sb strings.Builder
	for i, s := range seqs {
		edges := append([]Edge{}, s.Edges...)
		sort.Slice(edges, func(a, b int) bool { return edges[a].Father < edges[b].Father })
		fmt.Fprintf(&sb, "%d:%s count=%d weight=%d sons=%d status=%s edges=[", i, s.Sequence.Id(), s.Count, s.Weight, s.SonCount, ObicleanStatus(s))
		for _, e := range edges {
			fmt.Fprintf(&sb, "->%d d%d %c%c@%d;", e.Father, e.Dist, e.From, e.To, e.Pos)
		}
		sb.WriteString("]\n")
	}
	return sb.String()
}

// c13aRef: the 1-worker control run, made outside the scheduler by the harness goroutine; a panic or a
// log.Fatal of the implementation comes back as a description.
func c13aRef(q c13aParam) (ref, crash string) {
	defer func() {
		if x := recover(); x != nil {
			if e, ok := x.(*log.Entry); ok {
				crash = "log.Panic: " + e.Message
			} else {
				crash = fmt.Sprintf("panic / fatal: %v", x)
			}
		}
	}()
	return c13aRun(q), ""
}

func c13aParams(thorough bool) []c13aParam {
	base := "acgtac"
	var out []c13aParam
	add := func(name string, seqs []string, counts []int) {
		ws := []int{2}
		if thorough {
			ws = []int{2, 3}
		}
		for _, w := range ws {
			for _, d := range []int{1, 2} {
				for _, r := range []float64{1, 0.5} {
					out = append(out, c13aParam{Name: name, Seqs: seqs, Counts: counts, Workers: w, Dist: d, Ratio: r})
				}
			}
		}
	}
	// star: two sons of one father (forces father.SonCount++ from two lines)
	add("star2", []string{base, "aagtac", "acgtaa"}, []int{10, 2, 1})
	add("star2-tie", []string{base, "aagtac", "acgtaa"}, []int{10, 2, 2})
	// chain: a -> b -> c
	add("chain3", []string{base, "aagtac", "aagtaa"}, []int{10, 5, 1})
	// two fathers, shared son
	add("two-fathers", []string{base, "aagtac", "acgtaa", "aagtaa"}, []int{10, 9, 3, 1})
	// indel variants
	add("indel-star", []string{base, "acgta", "acgtacc"}, []int{8, 2, 1})
	// sequences without any one-difference father: their lines are compared by extendSimilarityGraph
	// (distance >= 2), each worker with its own alignment scratch buffer
	add("two-edit-pair", []string{base, "aagtaa", "acgtgg"}, []int{9, 2, 1})
	// the same without any abundance difference: every line goes through extendSimilarityGraph and every
	// two-edit pair is linked from the earlier to the later record (ties are linked at distance > 1)
	add("two-edit-ties", []string{base, "aagtaa", "acgtgg"}, []int{2, 2, 2})
	add("two-edit-12mers", []string{"acgtacgtacgt", "aagtacgtaagt", "acgacgtacgtt", "acgtacggtacgtt"}, []int{9, 3, 2, 1})
	if thorough {
		add("two-edit-three", []string{base, "aagtaa", "acgtgg", "ccgtcc"}, []int{9, 3, 2, 1})
		add("star3", []string{base, "aagtac", "acgtaa", "acgtcc", "ccgtac"}, []int{10, 2, 1, 1, 3})
	}
	return out
}

func TestVerifC13A(t *testing.T) {
	log.SetOutput(io.Discard)
	log.StandardLogger().ExitFunc = vsched.Exit
	r := verifkit.New("C13")
	defer r.Write()

	if rc := r.ReplayCase(); rc != nil {
		var p c13aParam
		if err := json.Unmarshal(rc, &p); err != nil {
			t.Fatal(err)
		}
		q := p
		q.Workers = 1
		ref, crash := c13aRef(q)
		if crash != "" {
			r.Violate("obiclean/control-run/one-worker-graph/crash", fmt.Sprintf("%s seqs=%v counts=%v distance=%d ratio=%v: the 1-worker run ends in %s", p.Name, p.Seqs, p.Counts, p.Dist, p.Ratio, crash), p)
			return
		}
		// the conflict sites must be known for the schedule to be replayable: discover them first
		cfg := vsched.Config{Name: p.Name, Full: true, MaxExec: 400000}
		found := ""
		cfg.Check = func(x *vsched.Exec) string {
			if s, _ := x.Obs.(string); x.Outcome() != "" || s != ref {
				found = fmt.Sprintf("outcome=%q\n%v", x.Outcome(), x.Obs)
				return "differs"
			}
			return ""
		}
		st := vsched.Explore(cfg, func(x *vsched.Exec) { x.Obs = c13aRun(p) })
		r.Eval(st.Executions)
		if found != "" {
			r.Violate("obiclean/graph-depends-on-schedule/replay", found+"\nreference (1 worker):\n"+ref, p)
		}
		fmt.Println("replay: violations found:", len(st.Violations))
		return
	}

	params := c13aParams(verifkit.Thorough())
	r.Bound("datasets_x_configurations", len(params))
	r.Bound("exploration", "full: all interleavings up to trace equivalence (sleep sets + happens-before state caching), L2 conflict sites to fixpoint")
	for k, p := range params {
		if !r.Mine(k) {
			continue
		}
		if r.Expired() {
			break
		}
		q := p
		q.Workers = 1
		ref, crash := c13aRef(q) // one worker, outside the scheduler: the reference graph
		r.Count("configurations_submitted", 1)
		if crash != "" {
			// the control run fails: a verdict on the tree; the exploration that compares with it is skipped
			r.Violate("obiclean/control-run/one-worker-graph/crash", fmt.Sprintf("%s seqs=%v counts=%v distance=%d ratio=%v: the 1-worker run ends in %s", p.Name, p.Seqs, p.Counts, p.Dist, p.Ratio, crash), p)
			continue
		}
		if k < 2 {
			r.Sample(map[string]any{"param": p, "reference_graph": ref})
		}
		bound := 1
		if verifkit.Thorough() || strings.HasPrefix(p.Name, "two-edit") {
			// two workers are inside the alignment kernel at the same time only after two deviations
			// (the feeder hands out the next line, the other worker takes it)
			bound = 2
		}
		type c13aMode struct {
			name string
			cfg  vsched.Config
		}
		modes := []c13aMode{
			{"delay-policy0", vsched.Config{Name: p.Name, DelayBounding: true, Preemptions: bound, Policy: 0, Horizon: 20000, MaxExec: 60000, Expired: r.Expired}},
			{"delay-policy1", vsched.Config{Name: p.Name, DelayBounding: true, Preemptions: bound, Policy: 1, Horizon: 20000, MaxExec: 60000, Expired: r.Expired}},
			{"full", vsched.Config{Name: p.Name, Full: true, Horizon: 20000, MaxExec: 150000, Expired: r.Expired}},
		}
		if strings.HasPrefix(p.Name, "two-edit") && !verifkit.Thorough() {
			modes = modes[:2] // the kernel's ~200 racy-looking cell accesses make the unbounded search too large for the quick tier
		}
		for _, md := range modes {
			cfg := md.cfg
			cfg.Check = func(x *vsched.Exec) string {
				switch x.Outcome() {
				case "":
				default:
					return x.Outcome() + "|" + x.Detail()
				}
				got, _ := x.Obs.(string)
				if got != ref {
					return "differs|with " + fmt.Sprint(p.Workers) + " workers:\n" + got + "with 1 worker:\n" + ref
				}
				return ""
			}
			st := vsched.Explore(cfg, func(x *vsched.Exec) { x.Obs = c13aRun(p) })
			r.Eval(st.Executions)
			r.Trace(st.Executions)
			r.Trans(st.Points)
			r.Replayed(st.ReplaysChecked)
			r.Count("hb_states", st.States)
			r.Count("executions_"+md.name, st.Executions)
			r.Count("conflict_sites", int64(len(st.ConflictSites)))
			for o, n := range st.Outcomes {
				r.Count("outcome_"+o, n)
			}
			for h := range st.TraceHashes {
				r.StateH(h)
			}
			if st.Capped {
				r.Cap("execution cap or deadline reached for " + p.Name + " in mode " + md.name)
			}
			for _, s := range st.ConflictSites {
				r.Note("conflict site (unsynchronised shared access made a scheduling point): %s", s)
			}
			seen := map[string]bool{}
			for _, v := range st.Violations {
				parts := strings.SplitN(v.Desc, "|", 2)
				class := parts[0]
				key := "obiclean/graph/" + class
				if class == "differs" {
					key = "obiclean/graph-depends-on-schedule"
				}
				if seen[key] {
					continue
				}
				seen[key] = true
				qq := p
				qq.Choices = v.Choices
				r.Violate(key, fmt.Sprintf("%s seqs=%v counts=%v workers=%d distance=%d ratio=%v mode=%s schedule=%v: %s", p.Name, p.Seqs, p.Counts, p.Workers, p.Dist, p.Ratio, md.name, v.Choices, parts[1]), qq)
			}
		}
	}
	// guards on what the harness does; whether executions complete and whether the code under test has
	// unsynchronised shared accesses (outcome_completed, conflict_sites) are answers of the tree: counters only
	r.RequireNonVacuous("configurations_submitted")
	r.RequireNonVacuous("executions_delay-policy0")
}
