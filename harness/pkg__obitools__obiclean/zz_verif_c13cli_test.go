//go:build verif

package obiclean

// C13 (command level) — what the `obiclean` COMMAND does around the graph kernel that parts 0 (engine B) and
// 1 (engine A) judge: the real option parser, records as the file readers deliver them, batches as they
// arrive, several samples in one run, re-cleaning, the real binary.
//
// Section A (in process, exhaustive, deterministic; GOMAXPROCS 1): every data set of 1..3 sequences of the
// 10-sequence pool of part 0 x every abundance vector over {1,2,3} (one sample) resp. every record code
// (a,b) in {0,1,2}^2 \ (0,0) (two samples) is pushed through the real option parser
// (obioptions.GenerateOptionParser(OptionSet)) and CLIOBIClean with
//
//	(A1) ARRIVAL HISTORIES: every record in a batch of its own, the batches pushed into the input iterator
//	     in EVERY order (n! arrival orders; batch numbers stay those of the file). Behind the parallel
//	     parsers of the real readers the arrival order is a scheduling decision, so the statement's "from run
//	     to run" demands the same annotations for every order, at each of 7 (distance, ratio) settings;
//	(A2) RE-CLEANING HISTORIES: the output of a first run at another setting, written by the real JSON
//	     header writer and read back by the real header parser, cleaned again at the default setting: exact;
//	(A3) input forms and options: records built by the real header parser from JSON title lines
//	     (merged_sample becomes a generic map of float64), records that carry `sample` + `count` instead of
//	     merged_sample, `-s pcr` with a decoy merged_sample, `-H` (kept set = records flagged head, same
//	     annotations), long and short option names.
//
// Section B (the real binary, built from the tree under test): ONE run cleans thousands of data sets at
// once — sample k of the input file IS data set k (every subset of 1..3 sequences of the pool x every
// abundance vector: 3675 samples over 10 records, or one record per (sample, sequence): 10 k records) — so
// every (distance, ratio) setting x --force-one-cpu / --max-cpu 2,3,4 is affordable: exact at the default
// setting, identical for every worker count at every setting (REAL goroutines: a SAMPLE of the schedules,
// silent = nothing learnt about interleavings; those are part 1), coherent everywhere; -H, -s, --save-ratio
// (its rows are the links, sample by sample), --save-graph, --min-eval-rate, re-cleaning of an output
// file, a 577-sequence tree, records without any annotation; thorough tier: a 3 MiB input that the reader
// cuts into several chunks (parsed in parallel), repeated runs.
//
// Oracle: as in part 0 (c13CheckRecs: exactness at distance 1 / ratio 1, coherence elsewhere) + equality of
// the annotations between the executions named above. Nothing is demanded from weights and distance-2
// links except that they do not change from run to run.

import (
	"bufio"
	"bytes"
	"encoding/json"
	"fmt"
	"io"
	"os"
	"os/exec"
	"path/filepath"
	"runtime"
	"sort"
	"strconv"
	"strings"
	"testing"
	"time"

	"git.metabarcoding.org/obitools/obitools4/obitools4/pkg/obiformats"
	"git.metabarcoding.org/obitools/obitools4/obitools4/pkg/obiiter"
	"git.metabarcoding.org/obitools/obitools4/obitools4/pkg/obioptions"
	"git.metabarcoding.org/obitools/obitools4/obitools4/pkg/obiseq"
	"git.metabarcoding.org/obitools/obitools4/obitools4/pkg/verifkit"
	log "github.com/sirupsen/logrus"
)

// ---------------------------------------------------------------------------------------------
// the command path in process
// ---------------------------------------------------------------------------------------------

// option variables as the package initialises them (captured before any parse)
var c13cDefaults = struct {
	dist          int
	sample        string
	ratio         float64
	minEval       int
	cluster, head bool
	graph, table  string
}{_distStepMax, _sampleAttribute, _ratioMax, _minEvalRate, _clusterMode, _onlyHead, _saveGraph, _saveRatio}

// c13cParse: what main() does with os.Args. The option variables are package globals whose current value is
// the default of the next parser, hence the reset.
func c13cParse(args []string) {
	_distStepMax, _sampleAttribute, _ratioMax, _minEvalRate = c13cDefaults.dist, c13cDefaults.sample, c13cDefaults.ratio, c13cDefaults.minEval
	_clusterMode, _onlyHead, _saveGraph, _saveRatio = c13cDefaults.cluster, c13cDefaults.head, c13cDefaults.graph, c13cDefaults.table
	obioptions.SetWorkerPerCore(1.0)
	parser := obioptions.GenerateOptionParser(OptionSet)
	parser(append([]string{"obiclean"}, args...))
	log.SetLevel(log.PanicLevel)
	runtime.GOMAXPROCS(1)
}

type c13cSetting struct {
	D    int      `json:"d"`
	R    float64  `json:"r"`
	Args []string `json:"args"`
}

// the four settings of part 0 (long and short option names, `=` form) + extreme but legal values
func c13cSettings() []c13cSetting {
	return []c13cSetting{
		{1, 1, nil},
		{1, 0.5, []string{"-r", "0.5"}},
		{2, 1, []string{"--distance", "2"}},
		{2, 0.5, []string{"-d", "2", "--ratio=0.5"}},
		{3, 0.1, []string{"--distance=3", "-r", "0.1"}},
		{1, 0, []string{"-d", "1", "--ratio", "0"}},
		{1, 1.5, []string{"-r", "1.5"}},
	}
}

func c13cSettingString(s c13cSetting) string {
	return fmt.Sprintf("distance=%d ratio=%v (options %v)", s.D, s.R, s.Args)
}

// c13cHeader: JSON title line of record i of data set c in the given input form ("" = no title line)
//
//	json  {"count":n,"merged_sample":{...}}        what obiuniq -m sample writes
//	attr  {"count":n,"sample":"A"}                 not dereplicated per sample: the record lives in ONE sample
//	pcr   {"count":n,"merged_pcr":{...},"merged_sample":{decoy}}   for -s pcr
//	none  nothing                                  sample "NA", one read
func c13cHeader(c c13Case, i int, form string) string {
	mapOf := func(rec int, prefix string) (string, int) {
		var parts []string
		total := 0
		for k, name := range c.Samples {
			if c.Counts[rec][k] > 0 {
				parts = append(parts, fmt.Sprintf("%q:%d", prefix+name, c.Counts[rec][k]))
				total += c.Counts[rec][k]
			}
		}
		return "{" + strings.Join(parts, ",") + "}", total
	}
	switch form {
	case "json":
		m, total := mapOf(i, "")
		return fmt.Sprintf(`{"count":%d,"merged_sample":%s}`, total, m)
	case "pcr":
		m, total := mapOf(i, "")
		decoy, _ := mapOf(len(c.Seqs)-1-i, "decoy")
		if len(c.Seqs) == 1 {
			decoy = `{"Z":7}`
		}
		return fmt.Sprintf(`{"count":%d,"merged_pcr":%s,"merged_sample":%s}`, total, m, decoy)
	case "attr":
		for k, name := range c.Samples {
			if c.Counts[i][k] > 0 {
				return fmt.Sprintf(`{"count":%d,"sample":%q}`, c.Counts[i][k], name)
			}
		}
	}
	return ""
}

// c13cOneSamplePerRecord: can the data set be written in the attr form ?
func c13cOneSamplePerRecord(c c13Case) bool {
	for i := range c.Seqs {
		n := 0
		for k := range c.Samples {
			if c.Counts[i][k] > 0 {
				n++
			}
		}
		if n != 1 {
			return false
		}
	}
	return true
}

func c13cMakeDB(c c13Case, form string) obiseq.BioSequenceSlice {
	if form == "typed" {
		return c13MakeDB(c.Seqs, c.Counts, c.Samples)
	}
	db := make(obiseq.BioSequenceSlice, len(c.Seqs))
	for i, s := range c.Seqs {
		bs := obiseq.NewBioSequence(fmt.Sprintf("s%d", i), []byte(s), c13cHeader(c, i, form))
		obiformats.ParseGuessedFastSeqHeader(bs) // what the FASTA / FASTQ readers apply to every record
		db[i] = bs
	}
	return db
}

// c13cThroughFile: the records as a file written by the real JSON title line writer and read back by the
// real title line parser present them
func c13cThroughFile(db obiseq.BioSequenceSlice) obiseq.BioSequenceSlice {
	out := make(obiseq.BioSequenceSlice, len(db))
	for i, s := range db {
		hdr := strings.Clone(obiformats.FormatFastSeqJsonHeader(s))
		bs := obiseq.NewBioSequence(s.Id(), append([]byte{}, s.Sequence()...), hdr)
		obiformats.ParseGuessedFastSeqHeader(bs)
		out[i] = bs
	}
	return out
}

// c13cRun: one execution of the command path: parse args, feed CLIOBIClean with the records of db, record
// arrival[j] travelling alone in batch number arrival[j], batches pushed in that order. Returns the
// annotations record by record (db order) and the ids of the records that came out, in output order.
//
// The option parser and CLIOBIClean run in this goroutine: a panic or a log.Fatal inside them is thrown again as
// c13Crash, which the evaluation of the data set (c13cEvalA / c13cEvalFar) turns into a violation; the rest of
// that data set, which depends on the failed execution, is skipped.
func c13cRun(db obiseq.BioSequenceSlice, args []string, arrival []int) (recs []c13Rec, outIds []string) {
	if crash := c13Try(func() { recs, outIds = c13cRun1(db, args, arrival) }); crash != "" {
		panic(c13Crash{fmt.Sprintf("obiclean --force-one-cpu %s, batches in order %v: %s", strings.Join(args, " "), arrival, crash)})
	}
	return
}

// c13cCaught: deferred by the evaluation of one data set of section A / A-far.
func c13cCaught(r *verifkit.Result, c c13Case, section string) {
	if x := recover(); x != nil {
		key, what := "CLIOBIClean/crash", ""
		switch e := x.(type) {
		case c13Crash:
			what = e.what
		case c13Exit:
			// (the title line parser / writer of the tree under test, called while the records were prepared)
			key, what = key+":while-the-records-are-prepared", "log.Fatal (exit)"
		default:
			key, what = key+":while-the-records-are-prepared", fmt.Sprintf("panic: %v", x)
		}
		r.Violate(key, fmt.Sprintf("seqs=%v samples=%v counts=%v: %s", c.Seqs, c.Samples, c.Counts, what), c13cReplay{Section: section, Case: c})
	}
}

func c13cRun1(db obiseq.BioSequenceSlice, args []string, arrival []int) (recs []c13Rec, outIds []string) {
	c13cParse(append([]string{"--force-one-cpu"}, args...))
	it := obiiter.MakeIBioSequence()
	it.Add(1)
	go func() { it.WaitAndClose() }()
	go func() {
		for _, k := range arrival {
			it.Push(obiiter.MakeBioSequenceBatch("c13", k, obiseq.BioSequenceSlice{db[k]}))
		}
		it.Done()
	}()
	res := CLIOBIClean(it)
	got := map[string]*obiseq.BioSequence{}
	for res.Next() {
		for _, s := range res.Get().Slice() {
			got[s.Id()] = s
			outIds = append(outIds, s.Id())
		}
	}
	recs = make([]c13Rec, len(db))
	for i, s := range db {
		if o, ok := got[s.Id()]; ok {
			recs[i] = c13ReadRec(o)
		} else {
			recs[i] = c13Rec{Id: s.Id(), Head: "record-missing-from-output"}
		}
	}
	return
}

func c13cIdentity(n int) []int {
	p := make([]int, n)
	for i := range p {
		p[i] = i
	}
	return p
}

// c13cDiffField: first annotation (status, mutation, weight, head flag / counters) in which two executions differ
func c13cDiffField(a, b []c13Rec) string {
	if len(a) != len(b) {
		return "record-count"
	}
	eqS := func(x, y map[string]string) bool {
		if len(x) != len(y) {
			return false
		}
		for k, v := range x {
			if w, ok := y[k]; !ok || w != v {
				return false
			}
		}
		return true
	}
	for _, f := range []string{"status", "mutation", "weight", "head"} {
		for i := range a {
			switch f {
			case "status":
				if !eqS(a[i].Status, b[i].Status) || a[i].Id != b[i].Id {
					return f
				}
			case "mutation":
				if !eqS(a[i].Mutation, b[i].Mutation) {
					return f
				}
			case "weight":
				if len(a[i].Weight) != len(b[i].Weight) {
					return f
				}
				for k, v := range a[i].Weight {
					if w, ok := b[i].Weight[k]; !ok || w != v {
						return f
					}
				}
			case "head":
				if a[i].Head != b[i].Head || a[i].HeadCount != b[i].HeadCount || a[i].InternalCount != b[i].InternalCount ||
					a[i].SingletonCount != b[i].SingletonCount || a[i].SampleCount != b[i].SampleCount {
					return f
				}
			}
		}
	}
	return ""
}

func c13cHasTies(c c13Case) bool {
	for k := range c.Samples {
		seen := map[int]bool{}
		for i := range c.Seqs {
			if x := c.Counts[i][k]; x > 0 {
				if seen[x] {
					return true
				}
				seen[x] = true
			}
		}
	}
	return false
}

func c13cDistClass(d int) string {
	if d <= 1 {
		return "distance=1"
	}
	return "distance>1"
}

// c13cRekey files the findings of the part-0 oracle under the entry point / input class that produced them
func c13cRekey(fs []c13Finding, where string) []c13Finding {
	out := make([]c13Finding, len(fs))
	for i, f := range fs {
		out[i] = c13Finding{where + strings.TrimPrefix(f.key, "obiclean"), f.desc}
	}
	return out
}

// c13cRootCause: a wrong link makes statuses and head flags wrong too: keep the link-level findings only
func c13cRootCause(fs []c13Finding) []c13Finding {
	link := false
	for _, f := range fs {
		if strings.Contains(f.key, "/d1/spurious-link") || strings.Contains(f.key, "/d1/missing-link") {
			link = true
		}
	}
	// without a status for the sample (wrong sample attribute) nothing else can be right
	for _, f := range fs {
		if strings.Contains(f.key, "/output/status-missing") {
			kept := fs[:0]
			for _, g := range fs {
				if !strings.Contains(g.key, "/d1/") && !strings.Contains(g.key, "/output/weight-missing") && !strings.Contains(g.key, "/output/status-for-foreign-sample") {
					kept = append(kept, g)
				}
			}
			return kept
		}
	}
	if !link {
		return fs
	}
	kept := fs[:0]
	for _, f := range fs {
		if !strings.Contains(f.key, "/d1/status:") && !strings.Contains(f.key, "/d1/head-flag") {
			kept = append(kept, f)
		}
	}
	return kept
}

type c13cReplay struct {
	Section string  `json:"section"` // "A" or "B"
	Case    c13Case `json:"case,omitempty"`
	Item    string  `json:"item,omitempty"`
}

// c13cEvalA: everything section A does with one data set (sequences x samples x abundances)
func c13cEvalA(r *verifkit.Result, c c13Case, settings []c13cSetting, thorough bool) {
	defer c13cCaught(r, c, "A")
	n := len(c.Seqs)
	var fs []c13Finding
	add := func(key, format string, a ...any) {
		fs = append(fs, c13Finding{key, fmt.Sprintf(format, a...)})
	}
	run := func(form string, args []string, arrival []int) ([]c13Rec, []string) {
		r.Eval(1)
		r.Count("A_command_path_executions", 1)
		return c13cRun(c13cMakeDB(c, form), args, arrival)
	}
	withSetting := func(st c13cSetting) c13Case {
		cc := c
		cc.Dist, cc.Ratio = st.D, st.R
		return cc
	}
	ties := "no-ties"
	if c13cHasTies(c) {
		ties = "tied-abundances"
	}
	refs := make([][]c13Rec, len(settings))
	for si, st := range settings {
		cc := withSetting(st)
		// records as the readers deliver them, batches in file order
		ref, _ := run("json", st.Args, c13cIdentity(n))
		refs[si] = ref
		fs = append(fs, c13cRekey(c13CheckRecs(cc, ref, "records parsed from JSON title lines, "+c13cSettingString(st)), "CLIOBIClean[json-title-lines]")...)
		// (A1) every other arrival order of the batches
		if n > 1 {
			verifkit.Permutations(n, func(p []int) {
				ident := true
				for i, x := range p {
					if x != i {
						ident = false
					}
				}
				if ident {
					return
				}
				got, _ := run("json", st.Args, p)
				r.Count("A1_arrival_orders", 1)
				if f := c13cDiffField(ref, got); f != "" {
					r.Count("A1_arrival_orders_differing", 1)
					add("CLIOBIClean/batch-arrival-order/"+f+"-differs:"+c13cDistClass(st.D)+":"+ties,
						"%s: batches (one record each, numbered in file order) arriving in order %v instead of file order change the annotations\nfile order:\n%sorder %v:\n%s",
						c13cSettingString(st), p, c13RecsString(ref), p, c13RecsString(got))
				}
			})
		}
		if si >= 4 && !thorough {
			continue
		}
		// (A3) -H / --head: the records kept are those flagged head, their annotations are unchanged
		hopt := "-H"
		if si%2 == 1 {
			hopt = "--head"
		}
		hrecs, hids := run("json", append([]string{hopt}, st.Args...), c13cIdentity(n))
		r.Count("A3_head_runs", 1)
		kept := map[string]bool{}
		for _, id := range hids {
			if kept[id] {
				add("CLIOBIClean/--head/record-duplicated", "%s %s: record %s written twice", c13cSettingString(st), hopt, id)
			}
			kept[id] = true
		}
		for i, rec := range ref {
			switch {
			case rec.Head == "true" && !kept[rec.Id]:
				add("CLIOBIClean/--head/head-record-dropped", "%s %s: record %s is head (%s) but was not written", c13cSettingString(st), hopt, rec.Id, c13RecString(rec))
			case rec.Head == "false" && kept[rec.Id]:
				add("CLIOBIClean/--head/internal-record-kept", "%s %s: record %s is internal everywhere (%s) but was written", c13cSettingString(st), hopt, rec.Id, c13RecString(rec))
			case rec.Head == "true" && c13RecString(rec) != c13RecString(hrecs[i]):
				add("CLIOBIClean/--head/annotations-differ", "%s: record %s without %s: %s / with: %s", c13cSettingString(st), rec.Id, hopt, c13RecString(rec), c13RecString(hrecs[i]))
			}
			if rec.Head == "false" {
				r.Count("A3_head_records_removed", 1)
			}
		}
		// (A3) -s pcr: the abundances are those of merged_pcr, not of the decoy merged_sample
		sopt := []string{"-s", "pcr"}
		if si%2 == 1 {
			sopt = []string{"--sample", "pcr"}
		}
		srecs, _ := run("pcr", append(sopt, st.Args...), c13cIdentity(n))
		r.Count("A3_sample_attribute_runs", 1)
		fs = append(fs, c13cRekey(c13CheckRecs(cc, srecs, "-s pcr (merged_sample is a decoy), "+c13cSettingString(st)), "CLIOBIClean[-s]")...)
		// (A3) sample + count attributes instead of merged_sample
		if c13cOneSamplePerRecord(c) {
			arecs, _ := run("attr", st.Args, c13cIdentity(n))
			r.Count("A3_sample_count_attribute_runs", 1)
			fs = append(fs, c13cRekey(c13CheckRecs(cc, arecs, "records with sample and count attributes, "+c13cSettingString(st)), "CLIOBIClean[sample+count]")...)
		}
	}
	// (A2) re-cleaning: first run at another setting, through the title line writer and parser, then the default setting
	def := withSetting(settings[0])
	for si := 1; si <= 3 && si < len(settings); si++ {
		st := settings[si]
		db := c13cMakeDB(c, "json")
		first, _ := c13cRun(db, st.Args, c13cIdentity(n))
		r.Eval(1)
		again, _ := c13cRun(c13cThroughFile(db), settings[0].Args, c13cIdentity(n))
		r.Eval(1)
		r.Count("A2_reclean_histories", 1)
		if c13cDiffField(first, refs[0]) != "" {
			r.Count("A2_reclean_first_run_differs_from_default", 1)
		}
		if f := c13cDiffField(refs[0], again); f != "" {
			add("CLIOBIClean/re-clean/"+f+"-differs-from-fresh-run", "output of a run at %s read back and cleaned at the default setting:\n%sfresh run at the default setting:\n%sfirst run:\n%s",
				c13cSettingString(st), c13RecsString(again), c13RecsString(refs[0]), c13RecsString(first))
		} else {
			fs = append(fs, c13cRekey(c13CheckRecs(def, again, "re-clean after "+c13cSettingString(st)), "CLIOBIClean[re-clean]")...)
		}
	}
	r.Count("A_datasets", 1)
	if len(fs) == 0 {
		return
	}
	fs = c13cRootCause(fs)
	seen := map[string]bool{}
	for _, f := range fs {
		if seen[f.key] {
			continue
		}
		seen[f.key] = true
		r.Violate(f.key, fmt.Sprintf("seqs=%v samples=%v counts=%v: %s", c.Seqs, c.Samples, c.Counts, f.desc), c13cReplay{Section: "A", Case: c})
	}
}

// the distance options above the default, through the real option parser (section A-far, section B far-grid)
func c13cFarSettings() []c13cSetting {
	return []c13cSetting{
		{2, 1, []string{"-d", "2"}},
		{2, 0.6, []string{"--distance=2", "-r", "0.6"}}, // 0.6^2 > 1/3: links from abundance 1 to 3 pass the filter
		{3, 1, []string{"--distance", "3"}},
		{3, 0.7, []string{"-d", "3", "--ratio", "0.7"}}, // 0.7^3 > 1/3
	}
}

// c13cEvalFar: one data set of the far pool (sequences 2..6 edits apart) through the command path at every
// distance option >= 2: records parsed from JSON title lines in file order, in every other arrival order,
// and with sample + count attributes. Oracle: c13CheckRecs (soundness of the links at distance >= 2: no
// obiclean_mutation entry towards a sequence farther away than the option; coherence) + arrival order.
func c13cEvalFar(r *verifkit.Result, c c13Case, settings []c13cSetting) {
	defer c13cCaught(r, c, "F")
	n := len(c.Seqs)
	var fs []c13Finding
	ties := "no-ties"
	if c13cHasTies(c) {
		ties = "tied-abundances"
	}
	run := func(form string, args []string, arrival []int) []c13Rec {
		r.Eval(1)
		r.Count("A_command_path_executions", 1)
		r.Count("Afar_command_path_executions", 1)
		recs, _ := c13cRun(c13cMakeDB(c, form), args, arrival)
		return recs
	}
	for _, st := range settings {
		cc := c
		cc.Dist, cc.Ratio = st.D, st.R
		for i := range c.Seqs {
			for j := i + 1; j < n; j++ {
				if beyond, answered := c13BeyondBound(c.Seqs[i], c.Seqs[j], st.D); beyond {
					r.Count("Afar_pairs_beyond_the_distance_option", 1)
					if answered {
						r.Count("Afar_pairs_beyond_the_option_answered_by_the_kernel", 1)
					}
				}
			}
		}
		ref := run("json", st.Args, c13cIdentity(n))
		for _, rec := range ref {
			r.Count("Afar_links_judged", int64(len(rec.Mutation)))
		}
		fs = append(fs, c13cRekey(c13CheckRecs(cc, ref, "records parsed from JSON title lines, "+c13cSettingString(st)), "CLIOBIClean[json-title-lines]")...)
		verifkit.Permutations(n, func(p []int) {
			ident := true
			for i, x := range p {
				if x != i {
					ident = false
				}
			}
			if ident {
				return
			}
			got := run("json", st.Args, p)
			r.Count("A1_arrival_orders", 1)
			if f := c13cDiffField(ref, got); f != "" {
				r.Count("A1_arrival_orders_differing", 1)
				fs = append(fs, c13Finding{"CLIOBIClean/batch-arrival-order/" + f + "-differs:" + c13cDistClass(st.D) + ":" + ties,
					fmt.Sprintf("%s: batches (one record each, numbered in file order) arriving in order %v instead of file order change the annotations\nfile order:\n%sorder %v:\n%s",
						c13cSettingString(st), p, c13RecsString(ref), p, c13RecsString(got))})
			}
		})
		arecs := run("attr", st.Args, c13cIdentity(n))
		fs = append(fs, c13cRekey(c13CheckRecs(cc, arecs, "records with sample and count attributes, "+c13cSettingString(st)), "CLIOBIClean[sample+count]")...)
	}
	r.Count("Afar_datasets", 1)
	seen := map[string]bool{}
	for _, f := range fs {
		if seen[f.key] {
			continue
		}
		seen[f.key] = true
		r.Violate(f.key, fmt.Sprintf("seqs=%v samples=%v counts=%v: %s", c.Seqs, c.Samples, c.Counts, f.desc), c13cReplay{Section: "F", Case: c})
	}
}

// ---------------------------------------------------------------------------------------------
// the real binary
// ---------------------------------------------------------------------------------------------

func c13cRoot() string {
	d, err := os.Getwd()
	if err != nil {
		panic(err)
	}
	for {
		if _, err := os.Stat(filepath.Join(d, "go.mod")); err == nil {
			return d
		}
		p := filepath.Dir(d)
		if p == d {
			panic("c13: module root not found")
		}
		d = p
	}
}

// c13cBinary: the obiclean executable of the tree under test, built once per check run (the first shard to
// take the lock builds, the others wait for the result)
func c13cBinary(t *testing.T, work string) string {
	bin := filepath.Join(work, "obiclean.bin")
	lock := filepath.Join(work, "obiclean.lock")
	build := func(target string) {
		cmd := exec.Command("go", "build", "-o", target, "./cmd/obitools/obiclean")
		cmd.Dir = c13cRoot()
		if b, err := cmd.CombinedOutput(); err != nil {
			if _, serr := os.Stat(target); serr != nil {
				t.Fatalf("c13: cannot build obiclean from %s: %v\n%s", cmd.Dir, err, b)
			}
		}
	}
	if f, err := os.OpenFile(lock, os.O_CREATE|os.O_EXCL|os.O_WRONLY, 0o644); err == nil {
		f.Close()
		tmp := bin + ".tmp"
		build(tmp)
		if err := os.Rename(tmp, bin); err != nil {
			t.Fatal(err)
		}
		return bin
	}
	for i := 0; i < 6000; i++ { // up to 10 minutes (the packages were compiled for the harness just before: this is a link)
		if _, err := os.Stat(bin); err == nil {
			return bin
		}
		time.Sleep(100 * time.Millisecond)
	}
	shard, _ := verifkit.Shard()
	own := filepath.Join(work, fmt.Sprintf("obiclean.%d.bin", shard))
	build(own)
	return own
}

type c13cOut struct {
	Id  string
	Seq string
	Rec c13Rec
	Ann map[string]any
}

func c13cAnyStrMap(v any) map[string]string {
	out := map[string]string{}
	if m, ok := v.(map[string]any); ok {
		for k, x := range m {
			out[k] = fmt.Sprint(x)
		}
	} else if v != nil {
		out["?"] = fmt.Sprint(v)
	}
	return out
}

func c13cAnyInt(v any) int {
	f, ok := v.(float64)
	if !ok {
		if v == nil {
			return -1
		}
		return -2
	}
	return int(f)
}

// c13cParseFasta: the harness's own reader of the FASTA + JSON title lines that obiclean writes
func c13cParseFasta(data []byte) ([]c13cOut, error) {
	var out []c13cOut
	sc := bufio.NewScanner(bytes.NewReader(data))
	sc.Buffer(make([]byte, 1<<20), 1<<28)
	for sc.Scan() {
		line := sc.Text()
		if strings.HasPrefix(line, ">") {
			o := c13cOut{Ann: map[string]any{}}
			rest := line[1:]
			if p := strings.IndexAny(rest, " \t"); p >= 0 {
				o.Id = rest[:p]
				js := strings.TrimSpace(rest[p+1:])
				if strings.HasPrefix(js, "{") {
					dec := json.NewDecoder(strings.NewReader(js))
					if err := dec.Decode(&o.Ann); err != nil {
						return nil, fmt.Errorf("title line of %s: %v", o.Id, err)
					}
				}
			} else {
				o.Id = rest
			}
			rec := c13Rec{Id: o.Id, Head: "absent"}
			if v, ok := o.Ann["obiclean_head"]; ok {
				if b, isb := v.(bool); isb {
					rec.Head = fmt.Sprint(b)
				} else {
					rec.Head = "?" + fmt.Sprint(v)
				}
			}
			rec.HeadCount = c13cAnyInt(o.Ann["obiclean_headcount"])
			rec.InternalCount = c13cAnyInt(o.Ann["obiclean_internalcount"])
			rec.SingletonCount = c13cAnyInt(o.Ann["obiclean_singletoncount"])
			rec.SampleCount = c13cAnyInt(o.Ann["obiclean_samplecount"])
			rec.Status = c13cAnyStrMap(o.Ann["obiclean_status"])
			rec.Mutation = c13cAnyStrMap(o.Ann["obiclean_mutation"])
			rec.Weight = map[string]int{}
			if m, ok := o.Ann["obiclean_weight"].(map[string]any); ok {
				for k, x := range m {
					rec.Weight[k] = c13cAnyInt(x)
				}
			}
			o.Rec = rec
			out = append(out, o)
		} else if len(out) > 0 {
			out[len(out)-1].Seq += strings.TrimSpace(line)
		}
	}
	return out, sc.Err()
}

type c13cBin struct {
	t    *testing.T
	r    *verifkit.Result
	bin  string
	work string
	nrun int
}

// run: obiclean <args> in -o out; returns the records written, by id, and their order
func (x *c13cBin) run(in string, args []string) (map[string]c13cOut, []string, error) {
	x.nrun++
	out := filepath.Join(x.work, fmt.Sprintf("out%d.fasta", x.nrun))
	defer os.Remove(out)
	full := append([]string{"--no-progressbar", "-o", out}, args...)
	full = append(full, in)
	cmd := exec.Command(x.bin, full...)
	var errb bytes.Buffer
	cmd.Stderr = &errb
	cmd.Stdout = io.Discard
	if err := cmd.Start(); err != nil {
		return nil, nil, err
	}
	done := make(chan error, 1)
	go func() { done <- cmd.Wait() }()
	var err error
	select {
	case err = <-done:
	case <-time.After(5 * time.Minute):
		cmd.Process.Kill()
		err = fmt.Errorf("still running after 5 minutes")
	}
	x.r.Eval(1)
	x.r.Count("B_binary_runs", 1)
	tail := errb.String()
	if len(tail) > 500 {
		tail = tail[len(tail)-500:]
	}
	if err != nil {
		return nil, nil, fmt.Errorf("%v; stderr: %s", err, tail)
	}
	data, rerr := os.ReadFile(out)
	if rerr != nil {
		return nil, nil, fmt.Errorf("no output file: %v; stderr: %s", rerr, tail)
	}
	recs, perr := c13cParseFasta(data)
	if perr != nil {
		return nil, nil, fmt.Errorf("output is not FASTA with JSON title lines: %v", perr)
	}
	byId := make(map[string]c13cOut, len(recs))
	order := make([]string, 0, len(recs))
	for _, o := range recs {
		if _, dup := byId[o.Id]; dup {
			return nil, nil, fmt.Errorf("record %s written twice", o.Id)
		}
		byId[o.Id] = o
		order = append(order, o.Id)
	}
	return byId, order, nil
}

// c13cPacked: ONE data set whose samples are the data sets of the family: sample k = (subset of 1..maxk pool
// sequences, abundance vector over {1,2,3})
func c13cPacked(pool []string, maxk int) c13Case {
	c := c13Case{Family: "packed", Seqs: pool, Dist: 1, Ratio: 1}
	c.Counts = make([][]int, len(pool))
	for k := 1; k <= maxk; k++ {
		c13Subsets(len(pool), k, func(idx []int) {
			c13CountVectors(k, []int{1, 2, 3}, func(v []int) {
				c.Samples = append(c.Samples, fmt.Sprintf("k%d", len(c.Samples)))
				for i := range pool {
					c.Counts[i] = append(c.Counts[i], 0)
				}
				for j, i := range idx {
					c.Counts[i][len(c.Samples)-1] = v[j]
				}
			})
		})
	}
	return c
}

func c13cWriteMerged(path string, c c13Case, form string) error {
	var sb strings.Builder
	for i, s := range c.Seqs {
		h := c13cHeader(c, i, form)
		if h != "" {
			h = " " + h
		}
		fmt.Fprintf(&sb, ">s%d%s\n%s\n", i, h, s)
	}
	return os.WriteFile(path, []byte(sb.String()), 0o644)
}

// c13cWritePerSample: one record per (sample, sequence), id "<sample>.s<i>", sample and count attributes
func c13cWritePerSample(path string, c c13Case) (int, error) {
	var sb strings.Builder
	n := 0
	for k, name := range c.Samples {
		for i, s := range c.Seqs {
			if c.Counts[i][k] > 0 {
				fmt.Fprintf(&sb, ">%s.s%d {\"count\":%d,\"sample\":%q}\n%s\n", name, i, c.Counts[i][k], name, s)
				n++
			}
		}
	}
	return n, os.WriteFile(path, []byte(sb.String()), 0o644)
}

// c13cMergedRecs: records of a merged-form run in the order of c.Seqs
func c13cMergedRecs(c c13Case, byId map[string]c13cOut) []c13Rec {
	recs := make([]c13Rec, len(c.Seqs))
	for i := range c.Seqs {
		id := fmt.Sprintf("s%d", i)
		if o, ok := byId[id]; ok {
			recs[i] = o.Rec
		} else {
			recs[i] = c13Rec{Id: id, Head: "record-missing-from-output"}
		}
	}
	return recs
}

// c13cFoldPerSample: the records "<sample>.s<i>" of a per-sample-form run folded into one c13Rec per
// sequence (statuses, weights and father ids of the records of sequence i put together), so that the
// oracle of part 0 applies; the per-record head flag and counters are checked here.
func c13cFoldPerSample(c c13Case, byId map[string]c13cOut, add func(key, format string, a ...any)) []c13Rec {
	recs := make([]c13Rec, len(c.Seqs))
	for i := range c.Seqs {
		rec := c13Rec{Id: fmt.Sprintf("s%d", i), Status: map[string]string{}, Weight: map[string]int{}, Mutation: map[string]string{}}
		h, in, s := 0, 0, 0
		for k, name := range c.Samples {
			if c.Counts[i][k] <= 0 {
				continue
			}
			o, ok := byId[fmt.Sprintf("%s.s%d", name, i)]
			if !ok {
				add("obiclean(bin)/output/record-missing", "record %s.s%d absent from the output", name, i)
				continue
			}
			if len(o.Rec.Status) != 1 || len(o.Rec.Weight) != 1 {
				add("obiclean(bin)/output/status-for-foreign-sample", "record %s lives in sample %s only: %s", o.Id, name, c13RecString(o.Rec))
			}
			st, ok := o.Rec.Status[name]
			if !ok {
				add("obiclean(bin)/output/status-missing", "record %s has no status for its sample: %s", o.Id, c13RecString(o.Rec))
				continue
			}
			rec.Status[name] = st
			if w, ok := o.Rec.Weight[name]; ok {
				rec.Weight[name] = w
			}
			wantHead, wh, wi, ws := st != "i", 0, 0, 0
			switch st {
			case "h":
				wh, h = 1, h+1
			case "i":
				wi, in = 1, in+1
			case "s":
				ws, s = 1, s+1
			}
			if o.Rec.Head != fmt.Sprint(wantHead) || o.Rec.HeadCount != wh || o.Rec.InternalCount != wi || o.Rec.SingletonCount != ws || o.Rec.SampleCount != 1 {
				add("obiclean(bin)/consistency/status-counters", "record %s: %s", o.Id, c13RecString(o.Rec))
			}
			if (st == "i") != (len(o.Rec.Mutation) > 0) {
				add("obiclean(bin)/consistency/mutation-vs-status", "record %s: %s", o.Id, c13RecString(o.Rec))
			}
			for fid, m := range o.Rec.Mutation {
				if !strings.HasPrefix(fid, name+".s") {
					add("obiclean(bin)/d1/spurious-link:father-of-another-sample", "record %s reports a mutation towards %s", o.Id, fid)
					continue
				}
				rec.Mutation[strings.TrimPrefix(fid, name+".")] = m
			}
		}
		rec.HeadCount, rec.InternalCount, rec.SingletonCount, rec.SampleCount = h, in, s, h+in+s
		rec.Head = fmt.Sprint(h+s > 0)
		recs[i] = rec
	}
	return recs
}

// c13cCanon: canonical text of a run (records sorted by id)
func c13cCanon(byId map[string]c13cOut) string {
	ids := make([]string, 0, len(byId))
	for id := range byId {
		ids = append(ids, id)
	}
	sort.Strings(ids)
	var sb strings.Builder
	for _, id := range ids {
		sb.WriteString(c13RecString(byId[id].Rec))
		sb.WriteString("\n")
	}
	return sb.String()
}

func c13cFirstDiffLine(a, b string) string {
	la, lb := strings.Split(a, "\n"), strings.Split(b, "\n")
	for i := 0; i < len(la) && i < len(lb); i++ {
		if la[i] != lb[i] {
			x, y := la[i], lb[i]
			if len(x) > 300 {
				x = x[:300] + "..."
			}
			if len(y) > 300 {
				y = y[:300] + "..."
			}
			return fmt.Sprintf("%q / %q", x, y)
		}
	}
	return fmt.Sprintf("%d / %d records", len(la)-1, len(lb)-1)
}

func c13cClip(s string, n int) string {
	if len(s) > n {
		return s[:n] + "..."
	}
	return s
}

var c13cWorkerOpts = [][]string{{"--force-one-cpu"}, {"--max-cpu", "2"}, {"--max-cpu", "3"}, {"--max-cpu=4"}}

type c13cItem struct {
	name string
	run  func(report func(key, format string, a ...any))
}

// c13cItems: the work items of section B
func c13cItems(x *c13cBin, thorough bool) []c13cItem {
	var items []c13cItem
	pool := c13SmallPool()
	packed := c13cPacked(pool, 3)
	packed4 := packed
	if thorough {
		packed4 = c13cPacked(pool, 4) // + every subset of 4 x {1,2,3}^4: 20685 samples
	}
	settings := c13cSettings()
	settings = append(settings, c13cSetting{1, 1, []string{"-d", "1", "-r", "1"}}, c13cSetting{1, 1, []string{"--distance", "0"}})
	fileOf := map[string]string{}
	file := func(name string, write func(path string) error) string {
		if p, ok := fileOf[name]; ok {
			return p
		}
		p := filepath.Join(x.work, name)
		if err := write(p); err != nil {
			x.t.Fatal(err)
		}
		fileOf[name] = p
		return p
	}
	merged := func() string {
		return file("packed-merged.fasta", func(p string) error { return c13cWriteMerged(p, packed, "json") })
	}
	perSample := func() string {
		return file("packed-per-sample.fasta", func(p string) error { _, err := c13cWritePerSample(p, packed); return err })
	}
	withSetting := func(c c13Case, st c13cSetting) c13Case {
		c.Dist, c.Ratio = st.D, st.R
		return c
	}
	filter := func(fs []c13Finding, report func(key, format string, a ...any)) {
		seen := map[string]bool{}
		for _, f := range c13cRootCause(fs) {
			if !seen[f.key] {
				seen[f.key] = true
				report(f.key, "%s", c13cClip(f.desc, 1500))
			}
		}
	}
	// judge one run of a file form; returns the canonical text
	judge := func(form string, c c13Case, byId map[string]c13cOut, via string, report func(key, format string, a ...any)) {
		var fs []c13Finding
		var recs []c13Rec
		if form == "merged" {
			recs = c13cMergedRecs(c, byId)
			if len(byId) != len(c.Seqs) {
				fs = append(fs, c13Finding{"obiclean(bin)/output/record-count", fmt.Sprintf("%s: %d records in, %d out", via, len(c.Seqs), len(byId))})
			}
		} else {
			recs = c13cFoldPerSample(c, byId, func(key, format string, a ...any) {
				fs = append(fs, c13Finding{key, via + ": " + fmt.Sprintf(format, a...)})
			})
		}
		fs = append(fs, c13cRekey(c13CheckRecs(c, recs, via), "obiclean(bin)")...)
		filter(fs, report)
		x.r.Count("B_samples_judged", int64(len(c.Samples)))
	}

	// B1: every setting x every worker count, on both packed files
	for _, form := range []string{"merged", "per-sample"} {
		for si, st := range settings {
			form, st := form, st
			items = append(items, c13cItem{fmt.Sprintf("grid/%s/%d", form, si), func(report func(key, format string, a ...any)) {
				in := merged()
				c := withSetting(packed, st)
				if form == "per-sample" {
					in = perSample()
				} else if thorough {
					c = withSetting(packed4, st)
					in = file("packed4-merged.fasta", func(p string) error { return c13cWriteMerged(p, packed4, "json") })
				}
				ref := ""
				for wi, w := range c13cWorkerOpts {
					args := append(append([]string{}, w...), st.Args...)
					byId, _, err := x.run(in, args)
					if err != nil {
						report("obiclean(bin)/run-failed:"+c13cDistClass(st.D), "obiclean %v on the packed %s file: %v", args, form, err)
						return
					}
					canon := c13cCanon(byId)
					if wi == 0 {
						ref = canon
						judge(form, c, byId, fmt.Sprintf("obiclean %v, packed %s file (%d samples)", args, form, len(c.Samples)), report)
						continue
					}
					x.r.Count("B_worker_count_comparisons", 1)
					if canon != ref {
						report("obiclean(bin)/annotations-differ-between-runs(worker-counts-1..4):"+c13cDistClass(st.D)+":tied-abundances",
							"obiclean %v on the packed %s file differs from the --force-one-cpu run (SAMPLED observation of real goroutines): %s", args, form, c13cFirstDiffLine(ref, canon))
					}
				}
			}})
		}
	}
	// B1f: the far pool (sequences 2..6 edits apart) packed the same way, at the distance options 2 and 3:
	// no link between sequences farther apart than the option (c13CheckRecs), coherent, same for 1 and 4 CPUs
	farPacked := c13cPacked(c13FarPool(), 3)
	farPacked.Family = "packed-far"
	for _, form := range []string{"merged", "per-sample"} {
		for si, st := range c13cFarSettings() {
			if form == "merged" && si%2 == 1 && !thorough {
				continue // quick: per-sample file at the four settings, merged file at -d 2 and -d 3 (ratio 1)
			}
			form, si, st := form, si, st
			items = append(items, c13cItem{fmt.Sprintf("far-grid/%s/%d", form, si), func(report func(key, format string, a ...any)) {
				x.r.Count("B_far_grid_items", 1)
				c := withSetting(farPacked, st)
				in := ""
				if form == "merged" {
					in = file("far-merged.fasta", func(p string) error { return c13cWriteMerged(p, farPacked, "json") })
				} else {
					in = file("far-per-sample.fasta", func(p string) error { _, err := c13cWritePerSample(p, farPacked); return err })
				}
				ref := ""
				for wi, w := range [][]string{{"--force-one-cpu"}, {"--max-cpu", "4"}} {
					args := append(append([]string{}, w...), st.Args...)
					byId, _, err := x.run(in, args)
					if err != nil {
						report("obiclean(bin)/run-failed:"+c13cDistClass(st.D), "obiclean %v on the packed far-pool %s file: %v", args, form, err)
						return
					}
					canon := c13cCanon(byId)
					if wi == 0 {
						ref = canon
						nlinks := 0
						for _, o := range byId {
							nlinks += len(o.Rec.Mutation)
						}
						x.r.Count("B_far_links_judged", int64(nlinks))
						judge(form, c, byId, fmt.Sprintf("obiclean %v, packed far-pool %s file (%d samples)", args, form, len(c.Samples)), report)
						continue
					}
					x.r.Count("B_worker_count_comparisons", 1)
					if canon != ref {
						report("obiclean(bin)/annotations-differ-between-runs(worker-counts-1..4):"+c13cDistClass(st.D)+":tied-abundances",
							"obiclean %v on the packed far-pool %s file differs from the --force-one-cpu run (SAMPLED observation of real goroutines): %s", args, form, c13cFirstDiffLine(ref, canon))
					}
				}
			}})
		}
	}
	// B2: re-cleaning an output file
	for _, form := range []string{"merged", "per-sample"} {
		form := form
		items = append(items, c13cItem{"re-clean/" + form, func(report func(key, format string, a ...any)) {
			in := merged()
			if form == "per-sample" {
				in = perSample()
			}
			first := filepath.Join(x.work, "first-"+form+".fasta")
			cmd := exec.Command(x.bin, "--no-progressbar", "--max-cpu", "2", "-d", "2", "-r", "0.5", "-o", first, in)
			cmd.Stdout, cmd.Stderr = io.Discard, io.Discard
			x.r.Eval(1)
			if err := cmd.Run(); err != nil {
				report("obiclean(bin)/run-failed:distance>1", "first run of the re-clean item: %v", err)
				return
			}
			defer os.Remove(first)
			byId, _, err := x.run(first, []string{"--max-cpu", "2"})
			if err != nil {
				report("obiclean(bin)/re-clean/run-failed", "obiclean on its own output: %v", err)
				return
			}
			fresh, _, err := x.run(in, []string{"--max-cpu", "2"})
			if err != nil {
				report("obiclean(bin)/run-failed:distance=1", "%v", err)
				return
			}
			x.r.Count("B_reclean_runs", 1)
			if a, b := c13cCanon(fresh), c13cCanon(byId); a != b {
				report("obiclean(bin)/re-clean/differs-from-fresh-run", "packed %s file cleaned with -d 2 -r 0.5, the output cleaned again at the default setting: differs from a fresh run at the default setting: %s",
					form, c13cFirstDiffLine(a, b))
				return
			}
			judge(form, packed, byId, "re-clean of the output of -d 2 -r 0.5", report)
		}})
	}
	// B3: -H on the per-sample file (kept set = records flagged head in the run without -H)
	for si, st := range []c13cSetting{settings[0], settings[3], settings[1]} {
		st, si := st, si
		items = append(items, c13cItem{fmt.Sprintf("head/%d", si), func(report func(key, format string, a ...any)) {
			in := perSample()
			all, _, err := x.run(in, append([]string{"--max-cpu", "3"}, st.Args...))
			if err != nil {
				report("obiclean(bin)/run-failed:"+c13cDistClass(st.D), "%v", err)
				return
			}
			hopt := []string{"-H", "--head"}[si%2]
			kept, _, err := x.run(in, append([]string{"--max-cpu", "3", hopt}, st.Args...))
			if err != nil {
				report("obiclean(bin)/--head/run-failed", "%v", err)
				return
			}
			removed := 0
			for id, o := range all {
				k, ok := kept[id]
				switch {
				case o.Rec.Head == "true" && !ok:
					report("obiclean(bin)/--head/head-record-dropped", "%s %s: %s not written", c13cSettingString(st), hopt, c13RecString(o.Rec))
				case o.Rec.Head == "false" && ok:
					report("obiclean(bin)/--head/internal-record-kept", "%s %s: %s written", c13cSettingString(st), hopt, c13RecString(o.Rec))
				case ok && c13RecString(o.Rec) != c13RecString(k.Rec):
					report("obiclean(bin)/--head/annotations-differ", "%s: %s / with %s: %s", c13cSettingString(st), c13RecString(o.Rec), hopt, c13RecString(k.Rec))
				}
				if o.Rec.Head == "false" {
					removed++
				}
			}
			for id := range kept {
				if _, ok := all[id]; !ok {
					report("obiclean(bin)/--head/unknown-record", "record %s", id)
				}
			}
			x.r.Count("B_head_records_removed", int64(removed))
		}})
	}
	// B4: --save-ratio / --save-graph / --min-eval-rate: side files describe the links, annotations unchanged
	for si, st := range []c13cSetting{settings[0], settings[3]} {
		st, si := st, si
		items = append(items, c13cItem{fmt.Sprintf("side-files/%d", si), func(report func(key, format string, a ...any)) {
			in := merged()
			plain, _, err := x.run(in, append([]string{"--max-cpu", "2"}, st.Args...))
			if err != nil {
				report("obiclean(bin)/run-failed:"+c13cDistClass(st.D), "%v", err)
				return
			}
			table := filepath.Join(x.work, fmt.Sprintf("ratio%d.csv", si))
			gdir := filepath.Join(x.work, fmt.Sprintf("graphs%d", si))
			os.RemoveAll(gdir)
			defer os.RemoveAll(gdir)
			defer os.Remove(table)
			opts := append([]string{"--max-cpu", "2", "--save-ratio", table, "--save-graph", gdir, "--min-eval-rate", "2"}, st.Args...)
			with, _, err := x.run(in, opts)
			if err != nil {
				report("obiclean(bin)/side-files/run-failed", "obiclean %v: %v", opts, err)
				return
			}
			if a, b := c13cCanon(plain), c13cCanon(with); a != b {
				report("obiclean(bin)/side-files/annotations-differ", "obiclean %v changes the annotations: %s", opts, c13cFirstDiffLine(a, b))
			}
			if st.D != 1 || st.R != 1 {
				return
			}
			// the rows of the ratio table are the links, sample by sample (father id, father count, son count):
			// a father is at least twice as heavy as the threshold given (its own count is >= 2)
			_, refFathers := c13Reference(packed)
			want := map[string]int{}
			nlinks := make([]int, len(packed.Samples))
			for k, name := range packed.Samples {
				for i := range packed.Seqs {
					for _, f := range refFathers[k][i] {
						want[fmt.Sprintf("%s,s%d,%d,%d", name, f, packed.Counts[f][k], packed.Counts[i][k])]++
						nlinks[k]++
					}
				}
			}
			data, err := os.ReadFile(table)
			if err != nil {
				report("obiclean(bin)/save-ratio/no-file", "%v", err)
				return
			}
			got := map[string]int{}
			lines := strings.Split(strings.TrimSpace(string(data)), "\n")
			for _, line := range lines[1:] {
				f := strings.Split(line, ",")
				if len(f) != 15 {
					report("obiclean(bin)/save-ratio/malformed-row", "%q", line)
					continue
				}
				got[strings.Join([]string{f[0], f[1], f[7], f[8]}, ",")]++
				// the row's mutation turns the father into a sequence of the sample with the son's count
				k, _ := strconv.Atoi(strings.TrimPrefix(f[0], "k"))
				fi, _ := strconv.Atoi(strings.TrimPrefix(f[1], "s"))
				pos, _ := strconv.Atoi(f[9])
				sc, _ := strconv.Atoi(f[8])
				okRow := false
				if k >= 0 && k < len(packed.Samples) && fi >= 0 && fi < len(packed.Seqs) {
					for i := range packed.Seqs {
						if packed.Counts[i][k] == sc && c13MutationOK(packed.Seqs[fi], packed.Seqs[i], fmt.Sprintf("(%s)->(%s)@%d", f[3], f[4], pos+1)) == "" {
							okRow = true
						}
					}
				}
				if !okRow {
					report("obiclean(bin)/save-ratio/row-describes-no-link", "%q", line)
				}
			}
			x.r.Count("B_ratio_table_rows", int64(len(lines)-1))
			for key, n := range want {
				if got[key] != n {
					report("obiclean(bin)/save-ratio/link-missing", "link (sample,father,father count,son count) %s: %d rows, reference %d", key, got[key], n)
					break
				}
			}
			for key, n := range got {
				if want[key] != n {
					report("obiclean(bin)/save-ratio/spurious-link", "link (sample,father,father count,son count) %s: %d rows, reference %d", key, n, want[key])
					break
				}
			}
			// one graph file per sample, as many edges as links
			for k, name := range packed.Samples {
				g, err := os.ReadFile(filepath.Join(gdir, name+".gml"))
				if err != nil {
					report("obiclean(bin)/save-graph/file-missing", "sample %s: %v", name, err)
					break
				}
				if n := strings.Count(string(g), "edge ["); n != nlinks[k] {
					report("obiclean(bin)/save-graph/edge-count", "sample %s: %d edges in the graph file, %d links in the reference", name, n, nlinks[k])
					break
				}
			}
			x.r.Count("B_graph_files_read", int64(len(packed.Samples)))
		}})
	}
	// B5: -s pcr with a decoy merged_sample
	items = append(items, c13cItem{"sample-attribute", func(report func(key, format string, a ...any)) {
		in := file("packed-pcr.fasta", func(p string) error { return c13cWriteMerged(p, packed, "pcr") })
		for si, opt := range [][]string{{"-s", "pcr"}, {"--sample", "pcr"}, {"--sample=pcr", "-d", "2", "-r", "0.5"}} {
			byId, _, err := x.run(in, append([]string{"--max-cpu", "2"}, opt...))
			if err != nil {
				report("obiclean(bin)/-s/run-failed", "%v", err)
				return
			}
			c := packed
			if si == 2 {
				c = withSetting(packed, settings[3])
			}
			var fs []c13Finding
			fs = append(fs, c13cRekey(c13CheckRecs(c, c13cMergedRecs(c, byId), fmt.Sprintf("obiclean %v (merged_sample is a decoy)", opt)), "obiclean(bin)[-s]")...)
			filter(fs, report)
		}
	}})
	// B6: records without any annotation: one sample "NA", one read each
	items = append(items, c13cItem{"no-annotation", func(report func(key, format string, a ...any)) {
		c := c13Case{Family: "no-annotation", Seqs: pool, Samples: []string{"NA"}, Dist: 1, Ratio: 1}
		for range pool {
			c.Counts = append(c.Counts, []int{1})
		}
		in := file("bare.fasta", func(p string) error { return c13cWriteMerged(p, c, "none") })
		for _, st := range []c13cSetting{settings[0], settings[3]} {
			byId, _, err := x.run(in, append([]string{"--max-cpu", "2"}, st.Args...))
			if err != nil {
				report("obiclean(bin)/run-failed:"+c13cDistClass(st.D), "%v", err)
				return
			}
			var fs []c13Finding
			fs = append(fs, c13cRekey(c13CheckRecs(withSetting(c, st), c13cMergedRecs(c, byId), "records without annotation, "+c13cSettingString(st)), "obiclean(bin)[no-annotation]")...)
			filter(fs, report)
		}
	}})
	// B7: the 577-sequence two-level trees of part 0 through the binary, every worker count
	for ti, fam := range []string{"bigtree:24:d", "bigtree:24:t"} {
		for si, st := range []c13cSetting{settings[0], settings[3]} {
			fam, st := fam, st
			items = append(items, c13cItem{fmt.Sprintf("tree/%d/%d", ti, si), func(report func(key, format string, a ...any)) {
				seqs, counts, _ := c13BigFamily(fam)
				c := c13Case{Family: fam, Seqs: seqs, Samples: []string{"A"}, Counts: counts, Dist: st.D, Ratio: st.R}
				in := file(fmt.Sprintf("tree%d.fasta", ti), func(p string) error { return c13cWriteMerged(p, c, "json") })
				ref := ""
				for wi, w := range c13cWorkerOpts {
					args := append(append([]string{}, w...), st.Args...)
					byId, _, err := x.run(in, args)
					if err != nil {
						report("obiclean(bin)/run-failed:"+c13cDistClass(st.D), "obiclean %v on %s: %v", args, fam, err)
						return
					}
					canon := c13cCanon(byId)
					if wi == 0 {
						ref = canon
						var fs []c13Finding
						fs = append(fs, c13cRekey(c13CheckRecs(c, c13cMergedRecs(c, byId), fmt.Sprintf("obiclean %v on %s", args, fam)), "obiclean(bin)")...)
						filter(fs, report)
						continue
					}
					x.r.Count("B_worker_count_comparisons", 1)
					if canon != ref {
						report("obiclean(bin)/annotations-differ-between-runs(worker-counts-1..4):"+c13cDistClass(st.D)+":"+map[bool]string{true: "tied-abundances", false: "no-ties"}[c13cHasTies(c)],
							"obiclean %v on %s differs from the --force-one-cpu run (SAMPLED observation of real goroutines): %s", args, fam, c13cFirstDiffLine(ref, canon))
					}
				}
			}})
		}
	}
	// B8 (thorough): an input cut into several chunks by the reader (parsed in parallel): repeated runs agree
	if thorough {
		for si, st := range []c13cSetting{settings[0], settings[2], settings[3]} {
			st, si := st, si
			items = append(items, c13cItem{fmt.Sprintf("multi-chunk/%d", si), func(report func(key, format string, a ...any)) {
				c := c13cTwoEditPairs(800)
				in := file("multi-chunk.fasta", func(p string) error {
					pad := strings.Repeat("x", 2000)
					var sb strings.Builder
					for i, s := range c.Seqs {
						fmt.Fprintf(&sb, ">s%d {\"count\":1,\"merged_sample\":{\"A\":1},\"pad\":%q}\n%s\n", i, pad, s)
					}
					return os.WriteFile(p, []byte(sb.String()), 0o644)
				})
				ref := ""
				for rep := 0; rep < 6; rep++ {
					args := append([]string{"--max-cpu", "4"}, st.Args...)
					byId, _, err := x.run(in, args)
					if err != nil {
						report("obiclean(bin)/run-failed:"+c13cDistClass(st.D), "obiclean %v on the multi-chunk file: %v", args, err)
						return
					}
					canon := c13cCanon(byId)
					if rep == 0 {
						ref = canon
						if st.D == 1 {
							var fs []c13Finding
							fs = append(fs, c13cRekey(c13CheckRecs(withSetting(c, st), c13cMergedRecs(c, byId), "multi-chunk file"), "obiclean(bin)")...)
							filter(fs, report)
						}
						continue
					}
					x.r.Count("B_repeated_runs_compared", 1)
					if canon != ref {
						report("obiclean(bin)/annotations-change-from-run-to-run:multi-chunk-input:"+c13cDistClass(st.D)+":tied-abundances",
							"obiclean %v on a 3 MiB input of 1600 records (SAMPLED observation of real goroutines): run %d differs from run 0: %s", args, rep, c13cFirstDiffLine(ref, canon))
						return
					}
				}
			}})
		}
	}
	return items
}

// c13cTwoEditPairs: n unrelated 24-mers followed by a two-substitution variant of each, all seen once in sample A
func c13cTwoEditPairs(n int) c13Case {
	c := c13Case{Family: "two-edit-pairs", Samples: []string{"A"}, Dist: 1, Ratio: 1}
	state := uint64(0x9E3779B97F4A7C15)
	next := func() uint64 { // fixed linear congruential sequence: the data set is a constant
		state = state*6364136223846793005 + 1442695040888963407
		return state >> 33
	}
	seen := map[string]bool{}
	for len(c.Seqs) < n {
		b := make([]byte, 24)
		for i := range b {
			b[i] = "acgt"[next()%4]
		}
		if !seen[string(b)] {
			seen[string(b)] = true
			c.Seqs = append(c.Seqs, string(b))
		}
	}
	rot := func(x byte) byte { return "acgt"[(strings.IndexByte("acgt", x)+1)%4] }
	for i := 0; i < n; i++ {
		b := []byte(c.Seqs[i])
		b[5], b[15] = rot(b[5]), rot(b[15])
		c.Seqs = append(c.Seqs, string(b))
	}
	for range c.Seqs {
		c.Counts = append(c.Counts, []int{1})
	}
	return c
}

// ---------------------------------------------------------------------------------------------
// the check
// ---------------------------------------------------------------------------------------------

func TestVerifC13CLI(t *testing.T) {
	log.SetOutput(io.Discard)
	log.SetLevel(log.PanicLevel)
	if devnull, err := os.OpenFile(os.DevNull, os.O_WRONLY, 0); err == nil {
		old := os.Stderr
		os.Stderr = devnull
		defer func() { os.Stderr = old; devnull.Close() }()
	}
	r := verifkit.New("C13")
	defer r.Write()
	c13InstallExit(r)
	thorough := verifkit.Thorough()
	settings := c13cSettings()

	work := os.Getenv("VERIF_WORKDIR")
	if work == "" {
		var err error
		if work, err = os.MkdirTemp("", "c13cli"); err != nil {
			t.Fatal(err)
		}
	}
	shard, _ := verifkit.Shard()
	newBin := func() *c13cBin {
		x := &c13cBin{t: t, r: r, bin: c13cBinary(t, work), work: filepath.Join(work, fmt.Sprintf("cli%d", shard))}
		os.RemoveAll(x.work)
		if err := os.MkdirAll(x.work, 0o755); err != nil {
			t.Fatal(err)
		}
		return x
	}
	runItem := func(it c13cItem) {
		seen := map[string]bool{}
		it.run(func(key, format string, a ...any) {
			if seen[key] {
				return
			}
			seen[key] = true
			r.Violate(key, "["+it.name+"] "+fmt.Sprintf(format, a...), c13cReplay{Section: "B", Item: it.name})
		})
		r.Count("B_items", 1)
	}

	if rc := r.ReplayCase(); rc != nil {
		var rp c13cReplay
		if err := json.Unmarshal(rc, &rp); err != nil {
			t.Fatal(err)
		}
		if rp.Section == "A" {
			c13cEvalA(r, rp.Case, settings, true)
			return
		}
		if rp.Section == "F" {
			c13cEvalFar(r, rp.Case, c13cFarSettings())
			return
		}
		x := newBin()
		for _, it := range c13cItems(x, true) {
			if it.name == rp.Item {
				runItem(it)
			}
		}
		return
	}

	r.Bound("A_pool", c13SmallPool())
	r.Bound("A_datasets", "every subset of 1..3 (thorough: 1..4) pool sequences x every abundance vector over {1,2,3} (one sample); subsets of 1..2 (thorough: 1..3) x every record code (a,b) in {0,1,2}^2 minus (0,0) (two samples)")
	r.Bound("A_settings", fmt.Sprint(settings))
	r.Bound("A_arrival_orders", "all n! orders of n one-record batches")
	r.Bound("B_worker_options", fmt.Sprint(c13cWorkerOpts))

	// ---- section B first (fixed cost; the binary is built while the other shards start section A) ----
	var x *c13cBin
	items := c13cItems(&c13cBin{}, thorough)
	for k := range items {
		// items are spread from the last shard downwards: shard 0 also writes the samples
		if !r.Mine(len(items) - 1 - k + 3) {
			continue
		}
		if x == nil {
			x = newBin()
			items = c13cItems(x, thorough)
		}
		if r.Expired() {
			break
		}
		runItem(items[k])
	}
	if x != nil {
		os.RemoveAll(x.work)
	}

	// ---- section A ----
	oldProcs := runtime.GOMAXPROCS(1)
	defer runtime.GOMAXPROCS(oldProcs)
	// ---- section A-far (first: small fixed cost): far-pool data sets at the distance options 2 and 3 ----
	far := c13FarPool()
	r.Bound("Afar_datasets", "every pair of far-pool sequences and every triple of its first 6 (thorough: every triple) x every abundance vector over {1,2,3} x "+fmt.Sprint(c13cFarSettings())+" x all arrival orders + sample/count attribute form")
	kfar := 0
	for size := 2; size <= 3; size++ {
		nfar := len(far)
		if size == 3 && !thorough {
			nfar = 6
		}
		c13Subsets(nfar, size, func(idx []int) {
			kfar++
			if !r.Mine(kfar) || r.Expired() {
				return
			}
			seqs := make([]string, size)
			for j, i := range idx {
				seqs[j] = far[i]
			}
			r.State("Afar|" + strings.Join(seqs, ","))
			c13CountVectors(size, []int{1, 2, 3}, func(v []int) {
				counts := make([][]int, size)
				for i, xv := range v {
					counts[i] = []int{xv}
				}
				c13cEvalFar(r, c13Case{Family: fmt.Sprintf("cli-far-%d", size), Seqs: seqs, Samples: []string{"A"}, Counts: counts, Dist: 2, Ratio: 1}, c13cFarSettings())
			})
		})
	}

	pool := c13SmallPool()
	k := 0
	for nsmp := 1; nsmp <= 2; nsmp++ {
		maxk := 3
		if nsmp == 2 && !thorough {
			maxk = 2
		}
		if nsmp == 1 && thorough {
			maxk = 4 // 24 arrival orders
		}
		samples, vals := []string{"A"}, []int{1, 2, 3}
		if nsmp == 2 {
			samples, vals = []string{"A", "B"}, []int{1, 2, 3, 4, 5, 6, 7, 8}
		}
		for size := 1; size <= maxk; size++ {
			c13Subsets(len(pool), size, func(idx []int) {
				k++
				if !r.Mine(k) || r.Expired() {
					return
				}
				seqs := make([]string, size)
				for j, i := range idx {
					seqs[j] = pool[i]
				}
				r.State(fmt.Sprintf("A|%d|%s", nsmp, strings.Join(seqs, ",")))
				c13CountVectors(size, vals, func(v []int) {
					counts := make([][]int, size)
					for i, xv := range v {
						if nsmp == 1 {
							counts[i] = []int{xv}
						} else {
							counts[i] = []int{xv / 3, xv % 3}
						}
					}
					c13cEvalA(r, c13Case{Family: fmt.Sprintf("cli-%dsample-%d", nsmp, size), Seqs: seqs, Samples: samples, Counts: counts, Dist: 1, Ratio: 1}, settings, thorough)
				})
			})
		}
	}
	// guards on what the harness does (executions made, data sets submitted); what the implementation answers
	// (A2_reclean_first_run_differs_from_default, A3_head_records_removed, Afar_links_judged, B_far_links_judged,
	// ..._answered_by_the_kernel, B_worker_count_comparisons) stays as counters
	r.RequireNonVacuous("A1_arrival_orders")
	r.RequireNonVacuous("A2_reclean_histories")
	r.RequireNonVacuous("A3_head_runs")
	r.RequireNonVacuous("Afar_command_path_executions")
	r.RequireNonVacuous("Afar_pairs_beyond_the_distance_option")
	r.RequireNonVacuous("B_far_grid_items")
	r.RequireNonVacuous("B_binary_runs")
	if r.Shard == 0 {
		r.Sample(c13cReplay{Section: "A", Case: c13Case{Family: "cli-1sample-2", Seqs: []string{"acgtta", "ccgttg"}, Samples: []string{"A"}, Counts: [][]int{{1}, {1}}, Dist: 2, Ratio: 1}})
	}
}
