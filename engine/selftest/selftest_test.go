//go:build verif

package selftest

// Engine self-test: on small programs with known behaviour sets, the explorer with happens-before
// state caching must find exactly the outcomes found by the plain stateless DFS, and known bugs
// (lost update, deadlock by lock order, send on closed channel) must be found.

import (
	"fmt"
	"sort"
	"strings"
	"testing"

	"git.metabarcoding.org/obitools/obitools4/obitools4/pkg/vsched"
	sync "git.metabarcoding.org/obitools/obitools4/obitools4/pkg/vsched/vsync"
)

type prog struct {
	name string
	body func(x *vsched.Exec)
}

func outcomes(t *testing.T, p prog, bound int, cache bool) (map[string]int64, *vsched.Stats) {
	return outcomesMode(t, p, bound, cache, false)
}

func outcomesMode(t *testing.T, p prog, bound int, cache bool, full bool) (map[string]int64, *vsched.Stats) {
	res := map[string]int64{}
	cfg := vsched.Config{Name: p.name, Preemptions: bound, NoStateCache: !cache, MaxExec: 2000000, Full: full,
		Check: func(x *vsched.Exec) string {
			o := x.Outcome()
			if o == "" {
				o = fmt.Sprint(x.Obs)
			}
			res[o]++
			return ""
		}}
	st := vsched.Explore(cfg, p.body)
	if st.Capped {
		t.Fatalf("%s: capped", p.name)
	}
	return res, st
}

func keys(m map[string]int64) string {
	var k []string
	for s := range m {
		k = append(k, s)
	}
	sort.Strings(k)
	return strings.Join(k, " ; ")
}

func TestEngine(t *testing.T) {
	progs := []prog{
		{"lost-update", func(x *vsched.Exec) {
			n := 0
			var wg sync.WaitGroup
			wg.Add(2)
			for i := 0; i < 2; i++ {
				vsched.Go(func() {
					vsched.Access("n", vsched.Addr(&n), false)
					v := n + 1
					vsched.Access("n", vsched.Addr(&n), true)
					n = v
					wg.Done()
				})
			}
			wg.Wait()
			x.Obs = n
		}},
		{"mutex-counter", func(x *vsched.Exec) {
			n := 0
			var mu sync.Mutex
			var wg sync.WaitGroup
			wg.Add(3)
			for i := 0; i < 3; i++ {
				vsched.Go(func() {
					mu.Lock()
					n++
					mu.Unlock()
					wg.Done()
				})
			}
			wg.Wait()
			x.Obs = n
		}},
		{"lock-order-deadlock", func(x *vsched.Exec) {
			var a, b sync.Mutex
			var wg sync.WaitGroup
			wg.Add(2)
			vsched.Go(func() { a.Lock(); b.Lock(); b.Unlock(); a.Unlock(); wg.Done() })
			vsched.Go(func() { b.Lock(); a.Lock(); a.Unlock(); b.Unlock(); wg.Done() })
			wg.Wait()
			x.Obs = "ok"
		}},
		{"producer-consumer-order", func(x *vsched.Exec) {
			c := vsched.Make[*vsched.Chan[int]]()
			var wg sync.WaitGroup
			wg.Add(2)
			vsched.Go(func() { c.Send(1); wg.Done() })
			vsched.Go(func() { c.Send(2); wg.Done() })
			vsched.Go(func() { wg.Wait(); c.Close() })
			var got []int
			for v := range c.Seq() {
				got = append(got, v)
			}
			x.Obs = got
		}},
		{"close-before-send", func(x *vsched.Exec) {
			c := vsched.Make[*vsched.Chan[int]]()
			var wg sync.WaitGroup
			wg.Add(1)
			vsched.Go(func() { wg.Add(1); c.Send(1); wg.Done() }) // Add inside the goroutine: races with the closer
			vsched.Go(func() { wg.Done(); wg.Wait(); c.Close() })
			var got []int
			for v := range c.Seq() {
				got = append(got, v)
			}
			x.Obs = got
		}},
		{"three-stage-pipeline", func(x *vsched.Exec) {
			a := vsched.Make[*vsched.Chan[int]]()
			b := vsched.Make[*vsched.Chan[int]]()
			vsched.Go(func() {
				for i := 0; i < 3; i++ {
					a.Send(i)
				}
				a.Close()
			})
			var wg sync.WaitGroup
			wg.Add(2)
			for w := 0; w < 2; w++ {
				vsched.Go(func() {
					for v := range a.Seq() {
						b.Send(v * 10)
					}
					wg.Done()
				})
			}
			vsched.Go(func() { wg.Wait(); b.Close() })
			var got []int
			for v := range b.Seq() {
				got = append(got, v)
			}
			x.Obs = got
		}},
	}
	for _, p := range progs {
		cached, st1 := outcomes(t, p, 100, true)
		full, st0 := cached, st1
		if p.name != "three-stage-pipeline" { // plain unbounded DFS of that one needs > 2M executions
			full, st0 = outcomes(t, p, 100, false)
		}
		if keys(full) != keys(cached) {
			t.Errorf("%s: unbounded outcome sets differ\n  plain : %s\n  cached: %s", p.name, keys(full), keys(cached))
		}
		for b := 0; b <= 2; b++ {
			if p.name == "three-stage-pipeline" && b > 0 {
				continue
			}
			pb, _ := outcomes(t, p, b, false)
			cb, stc := outcomes(t, p, b, true)
			if keys(pb) != keys(cb) {
				t.Errorf("%s: bound %d outcome sets differ\n  plain : %s\n  cached: %s", p.name, b, keys(pb), keys(cb))
			}
			fmt.Printf("%-26s bound=%d outcomes=%d exec(plain/cached)=%d/%d\n", p.name, b, len(cb), sum(pb), stc.Executions)
		}
		fs, stf := outcomesMode(t, p, 0, false, true)
		fc, stfc := outcomesMode(t, p, 0, true, true)
		if keys(fs) != keys(full) || keys(fc) != keys(full) {
			t.Errorf("%s: sleep-set exploration outcome sets differ\n  plain      : %s\n  sleep      : %s\n  sleep+cache: %s", p.name, keys(full), keys(fs), keys(fc))
		}
		fmt.Printf("%-26s full mode: exec sleep=%d (blocked %d) sleep+cache=%d (blocked %d, states %d)\n", p.name, stf.Executions, stf.Outcomes["sleepblocked"], stfc.Executions, stfc.Outcomes["sleepblocked"], stfc.States)
		fmt.Printf("%-26s unbounded: outcomes=%d exec plain=%d cached=%d states=%d pruned=%d : %s\n", p.name, len(full), st0.Executions, st1.Executions, st1.States, st1.Pruned, keys(full))
	}
	// known bugs must be found
	lu, _ := outcomes(t, progs[0], 1, true)
	if _, ok := lu["1"]; !ok {
		t.Errorf("lost update not found with 1 preemption: %v", lu)
	}
	dl, _ := outcomes(t, progs[2], 1, true)
	if _, ok := dl["deadlock"]; !ok {
		t.Errorf("lock-order deadlock not found with 1 preemption: %v", dl)
	}
	cs, _ := outcomes(t, progs[4], 2, true)
	if _, ok := cs["panic"]; !ok {
		t.Errorf("send on closed channel not found: %v", cs)
	}
}

func sum(m map[string]int64) int64 {
	var s int64
	for _, v := range m {
		s += v
	}
	return s
}
