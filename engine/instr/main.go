// instr rewrites the synchronisation constructs of obitools4 packages so that they run under
// /verif/engine/vsched. It type-checks the CURRENT tree (go/packages), rewrites copies of the files
// into an output directory and prints a go-build overlay {"Replace":{...}} on stdout.
//
//	instr -repo /repo -out DIR [-l2 func1,func2] ./pkg/...
package main

import (
	"bytes"
	"encoding/json"
	"flag"
	"fmt"
	"go/ast"
	"go/printer"
	"go/token"
	"go/types"
	"os"
	"path/filepath"
	"strconv"
	"strings"

	"golang.org/x/tools/go/ast/astutil"
	"golang.org/x/tools/go/packages"
)

const mod = "git.metabarcoding.org/obitools/obitools4/obitools4"

var shimImports = map[string]string{
	"sync":                         mod + "/pkg/vsched/vsync",
	"sync/atomic":                  mod + "/pkg/vsched/vatomic",
	"github.com/tevino/abool/v2":   mod + "/pkg/vsched/vabool",
}

func main() {
	repo := flag.String("repo", "/repo", "repository root")
	out := flag.String("out", "", "output directory for rewritten files")
	l2 := flag.Bool("l2", true, "instrument unsynchronised shared-memory accesses (read-modify-write splitting, access hooks)")
	readPkgs := flag.String("readpkgs", "pkg/obiiter/,pkg/obiformats/,pkg/obichunk/,pkg/obitools/", "comma separated path fragments: read hooks are inserted only in files whose path contains one of them (stream and command layers; the compute kernels keep write / read-modify-write hooks only)")
	flag.Parse()
	pats := flag.Args()
	if len(pats) == 0 {
		pats = []string{"./pkg/..."}
	}
	cfg := &packages.Config{
		Mode: packages.NeedName | packages.NeedFiles | packages.NeedCompiledGoFiles | packages.NeedSyntax |
			packages.NeedTypes | packages.NeedTypesInfo | packages.NeedImports | packages.NeedDeps,
		Dir:   *repo,
		Tests: false,
		Env:   append(os.Environ(), "GOFLAGS=-mod=mod", "GOPROXY=off", "GOSUMDB=off", "GOTOOLCHAIN=local", "GOWORK=off"),
	}
	pkgs, err := packages.Load(cfg, pats...)
	if err != nil {
		fmt.Fprintln(os.Stderr, "BROKEN-HARNESS: load:", err)
		os.Exit(2)
	}
	repl := map[string]string{}
	nfiles := 0
	for _, p := range pkgs {
		if len(p.Errors) > 0 {
			// packages that do not type-check in the pinned tree (cmd/test) are skipped
			fmt.Fprintf(os.Stderr, "skip %s: %v\n", p.PkgPath, p.Errors[0])
			continue
		}
		for i, f := range p.Syntax {
			fn := p.CompiledGoFiles[i]
			if !strings.HasPrefix(fn, *repo+"/") || !strings.HasSuffix(fn, ".go") {
				continue // cgo generated
			}
			isCgo := false
			for _, im := range f.Imports {
				if im.Path.Value == `"C"` {
					isCgo = true
				}
			}
			if isCgo {
				continue
			}
			r := &rewriter{fset: p.Fset, info: p.TypesInfo, file: f, pkg: p.Types, l2: *l2,
				relname: strings.TrimPrefix(fn, *repo+"/")}
			for _, frag := range strings.Split(*readPkgs, ",") {
				if frag != "" && strings.Contains(r.relname, frag) {
					r.readHooks = true
				}
			}
			if !r.rewrite() {
				continue
			}
			var buf bytes.Buffer
			buf.WriteString("//go:build verif\n\n")
			f.Comments = nil
			stripDocs(f)
			if err := printer.Fprint(&buf, token.NewFileSet(), f); err != nil {
				fmt.Fprintln(os.Stderr, "BROKEN-HARNESS: print:", fn, err)
				os.Exit(2)
			}
			rel := strings.TrimPrefix(fn, *repo+"/")
			dst := filepath.Join(*out, "instr", rel)
			os.MkdirAll(filepath.Dir(dst), 0o755)
			// the overlay replaces the original path; the build tag line is harmless there
			if err := os.WriteFile(dst, buf.Bytes(), 0o644); err != nil {
				fmt.Fprintln(os.Stderr, err)
				os.Exit(2)
			}
			repl[fn] = dst
			nfiles++
		}
	}
	json.NewEncoder(os.Stdout).Encode(map[string]any{"Replace": repl})
	fmt.Fprintf(os.Stderr, "instr: %d files rewritten\n", nfiles)
}

func stripDocs(f *ast.File) {
	f.Doc = nil
	ast.Inspect(f, func(n ast.Node) bool {
		switch d := n.(type) {
		case *ast.GenDecl:
			d.Doc = nil
		case *ast.FuncDecl:
			d.Doc = nil
		case *ast.TypeSpec:
			d.Doc, d.Comment = nil, nil
		case *ast.ValueSpec:
			d.Doc, d.Comment = nil, nil
		case *ast.Field:
			d.Doc, d.Comment = nil, nil
		case *ast.ImportSpec:
			d.Doc, d.Comment = nil, nil
		}
		return true
	})
}

type rewriter struct {
	fset    *token.FileSet
	info    *types.Info
	file    *ast.File
	pkg     *types.Package
	l2      bool
	readHooks bool
	relname string
	changed bool
	needVs  bool

	makeCall   map[*ast.CallExpr]bool
	chanBuilt  map[*ast.CallExpr]string // len/cap/close on a channel
	rangeChan  map[*ast.RangeStmt]bool
	rangeMap   map[*ast.RangeStmt]bool
	recv2      map[*ast.UnaryExpr]bool
	aliasSpec  map[*ast.TypeSpec]bool
	goConst    map[*ast.GoStmt][]bool
	goFunKeep  map[*ast.GoStmt]bool
	reads      map[ast.Stmt][]ast.Expr
	rmw        map[ast.Stmt]bool
	accessPre  map[ast.Stmt][]accessHook
	tmp        int
}

type accessHook struct {
	expr  ast.Expr
	write bool
}

func isChan(t types.Type) bool {
	if t == nil {
		return false
	}
	_, ok := t.Underlying().(*types.Chan)
	return ok
}

func unparen(e ast.Expr) ast.Expr {
	for {
		p, ok := e.(*ast.ParenExpr)
		if !ok {
			return e
		}
		e = p.X
	}
}

func (r *rewriter) isBuiltin(id *ast.Ident, name string) bool {
	if id.Name != name {
		return false
	}
	_, ok := r.info.Uses[id].(*types.Builtin)
	return ok
}

func (r *rewriter) rewrite() bool {
	r.makeCall = map[*ast.CallExpr]bool{}
	r.chanBuilt = map[*ast.CallExpr]string{}
	r.rangeChan = map[*ast.RangeStmt]bool{}
	r.rangeMap = map[*ast.RangeStmt]bool{}
	r.recv2 = map[*ast.UnaryExpr]bool{}
	r.aliasSpec = map[*ast.TypeSpec]bool{}
	r.goConst = map[*ast.GoStmt][]bool{}
	r.goFunKeep = map[*ast.GoStmt]bool{}
	r.rmw = map[ast.Stmt]bool{}
	r.reads = map[ast.Stmt][]ast.Expr{}
	r.accessPre = map[ast.Stmt][]accessHook{}

	// imports
	for _, im := range r.file.Imports {
		p, _ := strconv.Unquote(im.Path.Value)
		if np, ok := shimImports[p]; ok {
			im.Path.Value = strconv.Quote(np)
			im.EndPos = 0
			r.changed = true
		}
	}

	pre := func(c *astutil.Cursor) bool {
		switch n := c.Node().(type) {
		case *ast.CallExpr:
			if id, ok := n.Fun.(*ast.Ident); ok && len(n.Args) >= 1 {
				if r.isBuiltin(id, "make") && isChan(r.info.TypeOf(n.Args[0])) {
					r.makeCall[n] = true
				}
				for _, b := range []string{"len", "cap", "close"} {
					if r.isBuiltin(id, b) && isChan(r.info.TypeOf(n.Args[0])) {
						r.chanBuilt[n] = b
					}
				}
			}
		case *ast.RangeStmt:
			if isChan(r.info.TypeOf(n.X)) {
				r.rangeChan[n] = true
			} else if t := r.info.TypeOf(n.X); t != nil {
				if m, ok := t.Underlying().(*types.Map); ok {
					if b, ok := m.Key().Underlying().(*types.Basic); ok && b.Info()&types.IsOrdered != 0 {
						_, keyIdent := n.Key.(*ast.Ident)
						_, valIdent := n.Value.(*ast.Ident)
						if (n.Key == nil || keyIdent) && (n.Value == nil || valIdent) && r.pure(n.X) {
							r.rangeMap[n] = true
						}
					}
				}
			}
		case *ast.AssignStmt:
			if len(n.Lhs) == 2 && len(n.Rhs) == 1 {
				if u, ok := unparen(n.Rhs[0]).(*ast.UnaryExpr); ok && u.Op == token.ARROW {
					r.recv2[u] = true
				}
			}
			if r.l2 {
				r.planL2Assign(n)
				r.planReads(n, n.Rhs...)
			}
		case *ast.ExprStmt:
			if r.l2 {
				r.planReads(n, n.X)
			}
		case *ast.ReturnStmt:
			if r.l2 {
				r.planReads(n, n.Results...)
			}
		case *ast.IfStmt:
			if r.l2 && n.Init == nil {
				r.planReads(n, n.Cond)
			}
		case *ast.SwitchStmt:
			if r.l2 && n.Init == nil && n.Tag != nil {
				r.planReads(n, n.Tag)
			}
		case *ast.SendStmt:
			if r.l2 {
				r.planReads(n, n.Value)
			}
		case *ast.IncDecStmt:
			if r.l2 {
				r.planL2IncDec(n)
			}
		case *ast.ValueSpec:
			if len(n.Names) == 2 && len(n.Values) == 1 {
				if u, ok := unparen(n.Values[0]).(*ast.UnaryExpr); ok && u.Op == token.ARROW {
					r.recv2[u] = true
				}
			}
		case *ast.TypeSpec:
			if _, ok := n.Type.(*ast.ChanType); ok {
				r.aliasSpec[n] = true
			}
		case *ast.GoStmt:
			consts := make([]bool, len(n.Call.Args))
			for i, a := range n.Call.Args {
				tv := r.info.Types[a]
				if tv.Value != nil || tv.IsNil() {
					consts[i] = true
				}
				if _, ok := a.(*ast.FuncLit); ok {
					consts[i] = true
				}
			}
			r.goConst[n] = consts
			switch fn := n.Call.Fun.(type) {
			case *ast.FuncLit, *ast.Ident:
				r.goFunKeep[n] = true
			case *ast.SelectorExpr:
				if id, ok := fn.X.(*ast.Ident); ok {
					if _, isPkg := r.info.Uses[id].(*types.PkgName); isPkg {
						r.goFunKeep[n] = true
					}
				}
			default:
				r.goFunKeep[n] = true
			}
		}
		return true
	}

	post := func(c *astutil.Cursor) bool {
		switch n := c.Node().(type) {
		case *ast.ChanType:
			r.mark()
			c.Replace(&ast.StarExpr{X: &ast.IndexExpr{X: r.vs("Chan"), Index: n.Value}})
		case *ast.TypeSpec:
			if r.aliasSpec[n] && n.Assign == token.NoPos {
				n.Assign = n.Name.End()
			}
		case *ast.SendStmt:
			r.mark()
			var st ast.Stmt = &ast.ExprStmt{X: &ast.CallExpr{Fun: &ast.SelectorExpr{X: paren(n.Chan), Sel: ast.NewIdent("Send")}, Args: []ast.Expr{n.Value}}}
			if reads := r.reads[n]; len(reads) > 0 && c.Index() >= 0 {
				st = r.withReadHooks(n, st, reads)
			}
			c.Replace(st)
		case *ast.ExprStmt, *ast.ReturnStmt, *ast.IfStmt, *ast.SwitchStmt:
			if reads := r.reads[n.(ast.Stmt)]; len(reads) > 0 && c.Index() >= 0 {
				if _, isLabeled := c.Parent().(*ast.LabeledStmt); !isLabeled {
					c.Replace(r.withReadHooks(n, n.(ast.Stmt), reads))
				}
			}
		case *ast.UnaryExpr:
			if n.Op == token.ARROW {
				r.mark()
				m := "Recv"
				if r.recv2[n] {
					m = "Recv2"
				}
				c.Replace(&ast.CallExpr{Fun: &ast.SelectorExpr{X: paren(n.X), Sel: ast.NewIdent(m)}})
			}
		case *ast.CallExpr:
			if r.makeCall[n] {
				r.mark()
				c.Replace(&ast.CallExpr{Fun: &ast.IndexExpr{X: r.vs("Make"), Index: n.Args[0]}, Args: n.Args[1:]})
			} else if b, ok := r.chanBuilt[n]; ok {
				r.mark()
				m := map[string]string{"len": "Len", "cap": "Cap", "close": "Close"}[b]
				c.Replace(&ast.CallExpr{Fun: &ast.SelectorExpr{X: paren(n.Args[0]), Sel: ast.NewIdent(m)}})
			}
		case *ast.RangeStmt:
			if r.rangeChan[n] {
				r.mark()
				n.X = &ast.CallExpr{Fun: &ast.SelectorExpr{X: paren(n.X), Sel: ast.NewIdent("Seq")}}
			} else if r.rangeMap[n] {
				r.mark()
				r.rewriteRangeMap(n)
			}
		case *ast.GoStmt:
			r.mark()
			c.Replace(r.rewriteGo(n))
		case *ast.IncDecStmt:
			if r.rmw[n] && c.Index() >= 0 {
				c.Replace(r.splitIncDec(n))
			}
		case *ast.AssignStmt:
			if c.Index() < 0 {
				break
			}
			if r.rmw[n] {
				c.Replace(r.splitAssign(n))
			} else if hooks := r.accessPre[n]; len(hooks) > 0 {
				var st ast.Stmt = r.withHooks(n, hooks)
				if reads := r.reads[n]; len(reads) > 0 {
					st = r.withReadHooks(n, st, reads)
				}
				c.Replace(st)
			} else if reads := r.reads[n]; len(reads) > 0 && n.Tok != token.DEFINE {
				c.Replace(r.withReadHooks(n, n, reads))
			} else if len(reads) > 0 {
				// x := expr declares: hooks go before, in the enclosing list (a block would hide the declaration)
				c.InsertBefore(r.readHookStmt(n, reads))
			}
		}
		return true
	}
	astutil.Apply(r.file, pre, post)
	if r.needVs {
		astutil.AddNamedImport(r.fset, r.file, "vsched", mod+"/pkg/vsched")
	}
	return r.changed
}

func (r *rewriter) mark() { r.changed = true; r.needVs = true }

func (r *rewriter) vs(name string) ast.Expr {
	r.needVs = true
	return &ast.SelectorExpr{X: ast.NewIdent("vsched"), Sel: ast.NewIdent(name)}
}

func paren(e ast.Expr) ast.Expr {
	switch e.(type) {
	case *ast.Ident, *ast.SelectorExpr, *ast.CallExpr, *ast.IndexExpr, *ast.ParenExpr:
		return e
	}
	return &ast.ParenExpr{X: e}
}

func (r *rewriter) newTmp() *ast.Ident {
	r.tmp++
	return ast.NewIdent(fmt.Sprintf("vs__%d", r.tmp))
}

// rewriteRangeMap makes the iteration order of `for k, v := range m` (ordered key type) a decision of
// the explorer instead of the runtime's random order:
//
//	for _, k := range vsched.MapKeys(m) { v, ok := m[k]; if !ok { continue }; body }
func (r *rewriter) rewriteRangeMap(n *ast.RangeStmt) {
	m := n.X
	var key *ast.Ident
	define := n.Tok == token.DEFINE
	if id, ok := n.Key.(*ast.Ident); ok && id.Name != "_" {
		key = id
	} else {
		key = r.newTmp()
		define = define || n.Key == nil || n.Tok == token.ILLEGAL
	}
	var pre []ast.Stmt
	if id, ok := n.Value.(*ast.Ident); ok && id.Name != "_" {
		okv := r.newTmp()
		tok := token.DEFINE
		var lhs []ast.Expr = []ast.Expr{id, okv}
		if n.Tok == token.ASSIGN {
			// v already declared: declare only the ok flag
			pre = append(pre, &ast.DeclStmt{Decl: &ast.GenDecl{Tok: token.VAR, Specs: []ast.Spec{&ast.ValueSpec{Names: []*ast.Ident{okv}, Type: ast.NewIdent("bool")}}}})
			tok = token.ASSIGN
		}
		pre = append(pre, &ast.AssignStmt{Lhs: lhs, Tok: tok, Rhs: []ast.Expr{&ast.IndexExpr{X: m, Index: key}}})
		pre = append(pre, &ast.IfStmt{Cond: &ast.UnaryExpr{Op: token.NOT, X: okv}, Body: &ast.BlockStmt{List: []ast.Stmt{&ast.BranchStmt{Tok: token.CONTINUE}}}})
	}
	keyIsTmp := strings.HasPrefix(key.Name, "vs__")
	n.Key = ast.NewIdent("_")
	n.Value = key
	if keyIsTmp || define {
		n.Tok = token.DEFINE
	} else {
		n.Tok = token.ASSIGN
	}
	n.X = &ast.CallExpr{Fun: r.vs("MapKeys"), Args: []ast.Expr{m}}
	n.Body.List = append(pre, n.Body.List...)
}

func (r *rewriter) rewriteGo(g *ast.GoStmt) ast.Stmt {
	var stmts []ast.Stmt
	call := g.Call
	consts := r.goConst[g]
	if !r.goFunKeep[g] {
		t := r.newTmp()
		stmts = append(stmts, &ast.AssignStmt{Lhs: []ast.Expr{t}, Tok: token.DEFINE, Rhs: []ast.Expr{call.Fun}})
		call.Fun = t
	}
	for i, a := range call.Args {
		if i < len(consts) && consts[i] {
			continue
		}
		t := r.newTmp()
		stmts = append(stmts, &ast.AssignStmt{Lhs: []ast.Expr{t}, Tok: token.DEFINE, Rhs: []ast.Expr{a}})
		call.Args[i] = t
	}
	var body ast.Expr
	if fl, ok := call.Fun.(*ast.FuncLit); ok && len(call.Args) == 0 && fl.Type.Results == nil {
		body = fl
	} else {
		body = &ast.FuncLit{Type: &ast.FuncType{Params: &ast.FieldList{}}, Body: &ast.BlockStmt{List: []ast.Stmt{&ast.ExprStmt{X: call}}}}
	}
	stmts = append(stmts, &ast.ExprStmt{X: &ast.CallExpr{Fun: r.vs("Go"), Args: []ast.Expr{body}}})
	if len(stmts) == 1 {
		return stmts[0]
	}
	return &ast.BlockStmt{List: stmts}
}

// ---------------------------------------------------------------------------------------------
// L2: unsynchronised shared memory
//
// A location is "non-local" when it is a package-level variable, a variable captured by a function
// literal from an enclosing function, a field selected through a pointer, or an element of a slice /
// map. Read-modify-write statements on such a location (x++, x op= e) are split into load / hook /
// store, which is the atomicity Go does not give them; plain assignments to such a location get an
// access hook before them. The hooks are scheduling points only for sites found conflicting at run
// time (see vsched.Access).

func (r *rewriter) nonLocal(e ast.Expr) bool {
	switch x := unparen(e).(type) {
	case *ast.Ident:
		obj, ok := r.info.Uses[x].(*types.Var)
		if !ok {
			return false
		}
		if obj.IsField() {
			return false
		}
		if obj.Parent() == r.pkg.Scope() {
			return true
		}
		return r.captured(x, obj)
	case *ast.SelectorExpr:
		sel, ok := r.info.Selections[x]
		if !ok {
			// package-qualified variable
			if obj, ok := r.info.Uses[x.Sel].(*types.Var); ok && obj.Parent() != nil && obj.Parent() == obj.Pkg().Scope() {
				return true
			}
			return false
		}
		if sel.Kind() != types.FieldVal {
			return false
		}
		if sel.Indirect() {
			return true
		}
		if _, ok := r.info.TypeOf(x.X).Underlying().(*types.Pointer); ok {
			return true
		}
		return r.nonLocal(x.X)
	case *ast.IndexExpr:
		t := r.info.TypeOf(x.X)
		if t == nil {
			return false
		}
		switch t.Underlying().(type) {
		case *types.Slice, *types.Map, *types.Pointer:
			return true
		case *types.Array:
			return r.nonLocal(x.X)
		}
	case *ast.StarExpr:
		return true
	}
	return false
}

// captured reports whether the use of obj at id sits inside a function literal that does not
// declare obj (i.e. the variable is shared between the literal and its enclosing function).
func (r *rewriter) captured(id *ast.Ident, obj *types.Var) bool {
	path, _ := astutil.PathEnclosingInterval(r.file, id.Pos(), id.End())
	for _, n := range path {
		if fl, ok := n.(*ast.FuncLit); ok {
			if !(fl.Pos() <= obj.Pos() && obj.Pos() < fl.End()) {
				return true
			}
		}
	}
	return false
}

func (r *rewriter) addressable(e ast.Expr) bool {
	// map elements are not addressable
	if ix, ok := unparen(e).(*ast.IndexExpr); ok {
		if t := r.info.TypeOf(ix.X); t != nil {
			if _, isMap := t.Underlying().(*types.Map); isMap {
				return false
			}
		}
	}
	return true
}

// planReads records the non-local locations a statement reads (fields through a pointer, package
// variables, captured variables): they get a read hook before the statement, so that a read racing with
// another thread's write becomes a scheduling point too. Function literals are not entered.
func (r *rewriter) planReads(st ast.Stmt, exprs ...ast.Expr) {
	if !r.readHooks {
		return
	}
	seen := map[string]bool{}
	var list []ast.Expr
	var walk func(n ast.Node) bool
	walk = func(n ast.Node) bool {
		switch e := n.(type) {
		case *ast.FuncLit:
			return false
		case *ast.CallExpr:
			// the callee expression is not a read of a location (method values, function names)
			if sel, ok := e.Fun.(*ast.SelectorExpr); ok {
				ast.Inspect(sel.X, walk)
			}
			for _, a := range e.Args {
				ast.Inspect(a, walk)
			}
			return false
		case *ast.UnaryExpr:
			if e.Op == token.AND {
				return false // taking an address is not a read
			}
		case *ast.SelectorExpr, *ast.Ident:
			ex := e.(ast.Expr)
			if tv, ok := r.info.Types[ex]; ok && tv.IsValue() && tv.Addressable() && r.readWorthy(ex) && r.pure(ex) {
				var b bytes.Buffer
				printer.Fprint(&b, r.fset, ex)
				if !seen[b.String()] && len(list) < 6 {
					seen[b.String()] = true
					list = append(list, ex)
				}
				return false
			}
		}
		return true
	}
	for _, e := range exprs {
		if e != nil {
			ast.Inspect(e, walk)
		}
	}
	if len(list) > 0 {
		r.reads[st] = list
	}
}

// readWorthy: package-level variables, variables captured by a function literal, fields selected
// through a pointer. Values of function, channel and shim types are not tracked.
func (r *rewriter) readWorthy(e ast.Expr) bool {
	t := r.info.TypeOf(e)
	if t == nil {
		return false
	}
	switch u := t.Underlying().(type) {
	case *types.Signature, *types.Chan:
		return false
	case *types.Struct:
		_ = u
		if strings.Contains(t.String(), "sync.") {
			return false
		}
	}
	if strings.Contains(t.String(), "sync.") || strings.Contains(t.String(), "abool.") {
		return false
	}
	switch x := e.(type) {
	case *ast.Ident:
		return r.nonLocal(x)
	case *ast.SelectorExpr:
		sel, ok := r.info.Selections[x]
		if !ok {
			return r.nonLocal(x)
		}
		if sel.Kind() != types.FieldVal {
			return false
		}
		return r.nonLocal(x)
	}
	return false
}

func (r *rewriter) readHookStmt(n ast.Node, reads []ast.Expr) ast.Stmt {
	var l []ast.Stmt
	for _, e := range reads {
		r.mark()
		fn := &ast.FuncLit{Type: &ast.FuncType{Params: &ast.FieldList{}, Results: &ast.FieldList{List: []*ast.Field{{Type: ast.NewIdent("uintptr")}}}},
			Body: &ast.BlockStmt{List: []ast.Stmt{&ast.ReturnStmt{Results: []ast.Expr{&ast.CallExpr{Fun: r.vs("Addr"), Args: []ast.Expr{&ast.UnaryExpr{Op: token.AND, X: e}}}}}}}}
		l = append(l, &ast.ExprStmt{X: &ast.CallExpr{Fun: r.vs("SafeRead"), Args: []ast.Expr{r.site(n), fn}}})
	}
	if len(l) == 1 {
		return l[0]
	}
	return &ast.BlockStmt{List: l}
}

func (r *rewriter) withReadHooks(n ast.Node, st ast.Stmt, reads []ast.Expr) ast.Stmt {
	return &ast.BlockStmt{List: []ast.Stmt{r.readHookStmt(n, reads), st}}
}

func (r *rewriter) planL2IncDec(n *ast.IncDecStmt) {
	if r.nonLocal(n.X) && r.pure(n.X) {
		r.rmw[n] = true
	}
}

func (r *rewriter) planL2Assign(n *ast.AssignStmt) {
	if len(n.Lhs) != 1 || len(n.Rhs) != 1 {
		return
	}
	if !r.nonLocal(n.Lhs[0]) || !r.pure(n.Lhs[0]) {
		return
	}
	switch n.Tok {
	case token.ADD_ASSIGN, token.SUB_ASSIGN, token.MUL_ASSIGN, token.QUO_ASSIGN, token.REM_ASSIGN,
		token.AND_ASSIGN, token.OR_ASSIGN, token.XOR_ASSIGN, token.SHL_ASSIGN, token.SHR_ASSIGN, token.AND_NOT_ASSIGN:
		r.rmw[n] = true
	case token.ASSIGN:
		r.accessPre[n] = []accessHook{{n.Lhs[0], true}}
	}
}

// pure: the lvalue expression can be evaluated twice without side effects (identifiers, selectors,
// index expressions with identifier / literal indices).
func (r *rewriter) pure(e ast.Expr) bool {
	switch x := unparen(e).(type) {
	case *ast.Ident:
		return true
	case *ast.BasicLit:
		return true
	case *ast.SelectorExpr:
		return r.pure(x.X)
	case *ast.IndexExpr:
		return r.pure(x.X) && r.pure(x.Index)
	case *ast.StarExpr:
		return r.pure(x.X)
	}
	return false
}

func (r *rewriter) site(n ast.Node) ast.Expr {
	p := r.fset.Position(n.Pos())
	return &ast.BasicLit{Kind: token.STRING, Value: strconv.Quote(fmt.Sprintf("%s:%d", r.relname, p.Line))}
}

func (r *rewriter) hookCall(n ast.Node, lv ast.Expr, write bool) ast.Stmt {
	w := "false"
	if write {
		w = "true"
	}
	var addr ast.Expr
	if r.addressable(lv) {
		addr = &ast.CallExpr{Fun: r.vs("Addr"), Args: []ast.Expr{&ast.UnaryExpr{Op: token.AND, X: lv}}}
	} else {
		ix := unparen(lv).(*ast.IndexExpr)
		addr = &ast.CallExpr{Fun: r.vs("MapAddr"), Args: []ast.Expr{ix.X}}
	}
	r.mark()
	return &ast.ExprStmt{X: &ast.CallExpr{Fun: r.vs("Access"), Args: []ast.Expr{r.site(n), addr, ast.NewIdent(w)}}}
}

func (r *rewriter) splitIncDec(n *ast.IncDecStmt) ast.Stmt {
	op := token.ADD
	if n.Tok == token.DEC {
		op = token.SUB
	}
	t := r.newTmp()
	return &ast.BlockStmt{List: []ast.Stmt{
		r.hookCall(n, n.X, false),
		&ast.AssignStmt{Lhs: []ast.Expr{t}, Tok: token.DEFINE, Rhs: []ast.Expr{&ast.BinaryExpr{X: n.X, Op: op, Y: &ast.BasicLit{Kind: token.INT, Value: "1"}}}},
		r.hookCall(n, n.X, true),
		&ast.AssignStmt{Lhs: []ast.Expr{n.X}, Tok: token.ASSIGN, Rhs: []ast.Expr{t}},
	}}
}

var opOf = map[token.Token]token.Token{
	token.ADD_ASSIGN: token.ADD, token.SUB_ASSIGN: token.SUB, token.MUL_ASSIGN: token.MUL, token.QUO_ASSIGN: token.QUO,
	token.REM_ASSIGN: token.REM, token.AND_ASSIGN: token.AND, token.OR_ASSIGN: token.OR, token.XOR_ASSIGN: token.XOR,
	token.SHL_ASSIGN: token.SHL, token.SHR_ASSIGN: token.SHR, token.AND_NOT_ASSIGN: token.AND_NOT,
}

func (r *rewriter) splitAssign(n *ast.AssignStmt) ast.Stmt {
	t := r.newTmp()
	return &ast.BlockStmt{List: []ast.Stmt{
		r.hookCall(n, n.Lhs[0], false),
		&ast.AssignStmt{Lhs: []ast.Expr{t}, Tok: token.DEFINE, Rhs: []ast.Expr{&ast.BinaryExpr{X: n.Lhs[0], Op: opOf[n.Tok], Y: &ast.ParenExpr{X: n.Rhs[0]}}}},
		r.hookCall(n, n.Lhs[0], true),
		&ast.AssignStmt{Lhs: []ast.Expr{n.Lhs[0]}, Tok: token.ASSIGN, Rhs: []ast.Expr{t}},
	}}
}

func (r *rewriter) withHooks(n *ast.AssignStmt, hooks []accessHook) ast.Stmt {
	var l []ast.Stmt
	for _, h := range hooks {
		l = append(l, r.hookCall(n, h.expr, h.write))
	}
	l = append(l, n)
	return &ast.BlockStmt{List: l}
}
