//go:build verif

// Package abool (vabool): github.com/tevino/abool/v2 as used by obitools4.
package abool

import (
	realatomic "sync/atomic"

	"git.metabarcoding.org/obitools/obitools4/obitools4/pkg/vsched"
)

const kABool = 45

type AtomicBool struct {
	v   int32
	id  int
	rel uint64
}

func (ab *AtomicBool) obj() int {
	if ab.id == 0 {
		ab.id = vsched.NewObjID()
	}
	return ab.id
}

const (
	opRead = 1 + iota
	opWrite
)

func readOp()  { vsched.SetOp(opRead, func(o int) bool { return o == opRead }) }
func writeOp() { vsched.SetOp(opWrite, nil) }

func New() *AtomicBool { return new(AtomicBool) }

func NewBool(ok bool) *AtomicBool {
	ab := New()
	if ok {
		ab.v = 1
	}
	return ab
}

func (ab *AtomicBool) Set() {
	if !vsched.Active() {
		realatomic.StoreInt32(&ab.v, 1)
		return
	}
	writeOp()
	vsched.Yield("abool.Set", kABool, ab.obj())
	vsched.HAcq(ab.rel)
	ab.rel = vsched.HRel()
	ab.v = 1
}

func (ab *AtomicBool) UnSet() {
	if !vsched.Active() {
		realatomic.StoreInt32(&ab.v, 0)
		return
	}
	writeOp()
	vsched.Yield("abool.UnSet", kABool, ab.obj())
	vsched.HAcq(ab.rel)
	ab.rel = vsched.HRel()
	ab.v = 0
}

func (ab *AtomicBool) IsSet() bool {
	if !vsched.Active() {
		return realatomic.LoadInt32(&ab.v) == 1
	}
	readOp()
	vsched.Yield("abool.IsSet", kABool, ab.obj())
	vsched.HAcq(ab.rel)
	return ab.v == 1
}

func (ab *AtomicBool) IsNotSet() bool { return !ab.IsSet() }

func (ab *AtomicBool) SetTo(yes bool) {
	if yes {
		ab.Set()
	} else {
		ab.UnSet()
	}
}
