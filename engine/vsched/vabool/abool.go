//go:build verif

// Package abool (vabool): github.com/tevino/abool/v2 as used by obitools4.
package abool

import (
	realatomic "sync/atomic"

	"git.metabarcoding.org/obitools/obitools4/obitools4/pkg/vsched"
)

const kABool = 45

type AtomicBool struct {
	v int32
}

func New() *AtomicBool { return new(AtomicBool) }

func NewBool(ok bool) *AtomicBool {
	ab := New()
	if ok {
		ab.v = 1
	}
	return ab
}

func (ab *AtomicBool) Set() {
	if !vsched.Active() {
		realatomic.StoreInt32(&ab.v, 1)
		return
	}
	vsched.Yield("abool.Set", kABool, 0)
	vsched.HAcq(*vsched.RelSlot(1))
	*vsched.RelSlot(1) = vsched.HRel()
	ab.v = 1
}

func (ab *AtomicBool) UnSet() {
	if !vsched.Active() {
		realatomic.StoreInt32(&ab.v, 0)
		return
	}
	vsched.Yield("abool.UnSet", kABool, 0)
	vsched.HAcq(*vsched.RelSlot(1))
	*vsched.RelSlot(1) = vsched.HRel()
	ab.v = 0
}

func (ab *AtomicBool) IsSet() bool {
	if !vsched.Active() {
		return realatomic.LoadInt32(&ab.v) == 1
	}
	vsched.Yield("abool.IsSet", kABool, 0)
	vsched.HAcq(*vsched.RelSlot(1))
	*vsched.RelSlot(1) = vsched.HRel()
	return ab.v == 1
}

func (ab *AtomicBool) IsNotSet() bool { return !ab.IsSet() }

func (ab *AtomicBool) SetTo(yes bool) {
	if yes {
		ab.Set()
	} else {
		ab.UnSet()
	}
}
