//go:build verif

// Package sync (vsync) has the API of the standard sync package as far as obitools4 uses it.
// While a controlled execution is active every operation is a scheduling point of vsched and acts on
// model state; otherwise it delegates to the real primitive (native twin).
package sync

import (
	realsync "sync"

	"git.metabarcoding.org/obitools/obitools4/obitools4/pkg/vsched"
)

type Locker = realsync.Locker
type Map = realsync.Map
type Cond = realsync.Cond

const (
	kLock = 20 + iota
	kUnlock
	kRLock
	kRUnlock
	kWgAdd
	kWgWait
	kOnce
	kPoolGet
	kPoolPut
)

const (
	opWgAdd = 1 + iota
	opWgDone
	opRLock
	opRUnlock
)

type ident struct{ id int }

func (i *ident) get() int {
	if i.id == 0 {
		i.id = vsched.NewObjID()
	}
	return i.id
}

// ---- Mutex

type Mutex struct {
	real   realsync.Mutex
	rel    uint64
	locked bool
	gen    uint64
	ident
}

func (m *Mutex) fresh() {
	if g := vsched.Generation(); m.gen != g {
		m.gen = g
		m.locked = false
		m.rel = 0
		m.id = 0
	}
}

func (m *Mutex) Lock() {
	if !vsched.Active() {
		m.real.Lock()
		return
	}
	m.fresh()
	vsched.Block("Mutex.Lock", kLock, m.get(), func() bool { return !m.locked })
	m.locked = true
	vsched.HAcq(m.rel)
}

func (m *Mutex) TryLock() bool {
	if !vsched.Active() {
		return m.real.TryLock()
	}
	m.fresh()
	vsched.Yield("Mutex.TryLock", kLock, m.get())
	vsched.HAcq(m.rel)
	if m.locked {
		return false
	}
	m.locked = true
	return true
}

func (m *Mutex) Unlock() {
	if !vsched.Active() {
		m.real.Unlock()
		return
	}
	m.fresh()
	vsched.Yield("Mutex.Unlock", kUnlock, m.get())
	if !m.locked {
		panic("sync: unlock of unlocked mutex")
	}
	m.locked = false
	m.rel = vsched.HRel()
}

// ---- RWMutex

type RWMutex struct {
	real    realsync.RWMutex
	rel     uint64 // published by the last writer unlock
	rrel    uint64 // accumulated (commutatively) by reader unlocks
	writer  bool
	readers int
	gen     uint64
	ident
}

func (m *RWMutex) fresh() {
	if g := vsched.Generation(); m.gen != g {
		m.gen = g
		m.writer = false
		m.readers = 0
		m.rel, m.rrel = 0, 0
		m.id = 0
	}
}

func (m *RWMutex) Lock() {
	if !vsched.Active() {
		m.real.Lock()
		return
	}
	m.fresh()
	vsched.Block("RWMutex.Lock", kLock, m.get(), func() bool { return !m.writer && m.readers == 0 })
	m.writer = true
	vsched.HAcq(m.rel + m.rrel)
}

func (m *RWMutex) Unlock() {
	if !vsched.Active() {
		m.real.Unlock()
		return
	}
	m.fresh()
	vsched.Yield("RWMutex.Unlock", kUnlock, m.get())
	if !m.writer {
		panic("sync: Unlock of unlocked RWMutex")
	}
	m.writer = false
	m.rel = vsched.HRel()
	m.rrel = 0
}

func (m *RWMutex) RLock() {
	if !vsched.Active() {
		m.real.RLock()
		return
	}
	m.fresh()
	vsched.SetOp(opRLock, func(o int) bool { return o == opRLock || o == opRUnlock })
	vsched.Block("RWMutex.RLock", kRLock, m.get(), func() bool { return !m.writer })
	m.readers++
	vsched.HAcq(m.rel)
}

func (m *RWMutex) RUnlock() {
	if !vsched.Active() {
		m.real.RUnlock()
		return
	}
	m.fresh()
	vsched.SetOp(opRUnlock, func(o int) bool { return o == opRLock || o == opRUnlock })
	vsched.Yield("RWMutex.RUnlock", kRUnlock, m.get())
	if m.readers <= 0 {
		panic("sync: RUnlock of unlocked RWMutex")
	}
	m.readers--
	m.rrel += vsched.HRel()
}

func (m *RWMutex) RLocker() Locker { return (*rlocker)(m) }

type rlocker RWMutex

func (r *rlocker) Lock()   { (*RWMutex)(r).RLock() }
func (r *rlocker) Unlock() { (*RWMutex)(r).RUnlock() }

// ---- WaitGroup

type WaitGroup struct {
	real    realsync.WaitGroup
	rel     uint64 // commutative accumulation of the hashes published by Add/Done
	relGen  int    // number of times the counter reached zero with waiters present
	n       int
	waiters int
	gen     uint64
	ident
}

func (w *WaitGroup) fresh() {
	if g := vsched.Generation(); w.gen != g {
		w.gen = g
		w.n = 0
		w.waiters = 0
		w.relGen = 0
		w.rel = 0
		w.id = 0
	}
}

func (w *WaitGroup) Add(delta int) {
	if !vsched.Active() {
		w.real.Add(delta)
		return
	}
	w.fresh()
	// dependence refinement: positive Adds commute, Dones commute; Add(+) and Done commute when the
	// counter cannot reach zero or go negative in either order (or nobody waits and it stays >= 0)
	mixed := func() bool { return w.n >= 2 || (w.n >= 1 && w.waiters == 0) }
	if delta > 0 {
		vsched.SetOp(opWgAdd, func(o int) bool { return o == opWgAdd || (o == opWgDone && mixed()) })
	} else {
		vsched.SetOp(opWgDone, func(o int) bool { return o == opWgDone || (o == opWgAdd && mixed()) })
	}
	vsched.Yield("WaitGroup.Add", kWgAdd, w.get())
	if w.waiters > 0 && delta > 0 && w.n == 0 {
		panic("sync: WaitGroup misuse: Add called concurrently with Wait")
	}
	w.n += delta
	w.rel += vsched.HRel() * uint64(2*delta+1001)
	if w.n < 0 {
		panic("sync: negative WaitGroup counter")
	}
	if w.n == 0 && w.waiters > 0 {
		// as in the real WaitGroup the goroutine that brings the counter to zero releases every
		// current waiter irrevocably (a later Add does not hold them back)
		w.relGen++
		w.waiters = 0
	}
}

func (w *WaitGroup) Done() { w.Add(-1) }

func (w *WaitGroup) Wait() {
	if !vsched.Active() {
		w.real.Wait()
		return
	}
	w.fresh()
	if w.n > 0 {
		w.waiters++
	}
	my := w.relGen
	vsched.Block("WaitGroup.Wait", kWgWait, w.get(), func() bool { return w.n == 0 || w.relGen > my })
	vsched.HAcq(w.rel)
}

// ---- Once

type Once struct {
	real realsync.Once
	rel  uint64
	done bool
	busy bool
	gen  uint64
	ident
}

func (o *Once) Do(f func()) {
	if !vsched.Active() {
		o.real.Do(f)
		return
	}
	if g := vsched.Generation(); o.gen != g {
		o.gen = g
		o.done, o.busy, o.id, o.rel = false, false, 0, 0
	}
	vsched.Block("Once.Do", kOnce, o.get(), func() bool { return !o.busy })
	if o.done {
		vsched.HAcq(o.rel)
		return
	}
	o.busy = true
	defer func() { o.done = true; o.busy = false; o.rel = vsched.HRel() }()
	f()
}

// ---- Pool

// Pool: under a controlled execution the answer of Get is a data choice of the explorer when
// vsched.PoolChoices is on (any previously Put item, or a fresh one), and Put optionally poisons the
// item through vsched.PoolPoison. Default (choice 0) = the most recently Put item (what the real pool's
// per-P private slot does), or New() when empty.
type Pool struct {
	New   func() any
	rel   uint64
	real  realsync.Pool
	items []any
	gen   uint64
	ident
}

func (p *Pool) Get() any {
	if !vsched.Active() {
		if p.real.New == nil && p.New != nil {
			p.real.New = p.New
		}
		return p.real.Get()
	}
	if g := vsched.Generation(); p.gen != g {
		p.gen = g
		p.items = nil
		p.rel = 0
		p.id = 0
	}
	if vsched.PoolPoints {
		vsched.Yield("Pool.Get", kPoolGet, p.get())
	}
	vsched.HAcq(p.rel)
	p.rel = vsched.HRel()
	n := len(p.items)
	if n == 0 {
		if p.New == nil {
			return nil
		}
		return p.New()
	}
	c := 0
	if vsched.PoolChoices {
		// choice 0: most recent item; 1..n-1: older items; n: a fresh one
		c = vsched.Choose(n + 1)
	}
	if c == n {
		if p.New == nil {
			return nil
		}
		return p.New()
	}
	i := n - 1 - c
	it := p.items[i]
	p.items = append(p.items[:i], p.items[i+1:]...)
	return it
}

func (p *Pool) Put(x any) {
	if !vsched.Active() {
		p.real.Put(x)
		return
	}
	if g := vsched.Generation(); p.gen != g {
		p.gen = g
		p.items = nil
		p.rel = 0
		p.id = 0
	}
	if vsched.PoolPoints {
		vsched.Yield("Pool.Put", kPoolPut, p.get())
	}
	vsched.HAcq(p.rel)
	p.rel = vsched.HRel()
	if vsched.PoolPoison != nil {
		vsched.PoolPoison(x)
	}
	if len(p.items) < 8 {
		p.items = append(p.items, x)
	}
}
