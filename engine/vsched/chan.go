//go:build verif

package vsched

import "iter"

// Chan[T] replaces `chan T` in instrumented code. A channel made while an execution is active is a
// model channel whose operations are scheduling points; a channel made outside any execution wraps
// a native channel (the instrumented code then runs natively, e.g. for setup or the -race pass).
type Chan[T any] struct {
	id     int
	native chan T

	capacity int
	buf      []T
	closed   bool

	// unbuffered rendezvous: the sender deposits, then waits until the value was taken
	slotFull bool
	slot     T
	sendSeq  int
	takenSeq int

	// happens-before hashes published by the last send / receive / close
	slotH  uint64
	bufH   []uint64
	takenH uint64
	closeH uint64
}

// Make is the rewritten `make(chan T, n)` / `make(NamedChanType, n)`.
func Make[P interface{ *Chan[T] }, T any](n ...int) P {
	c := 0
	if len(n) > 0 {
		c = n[0]
	}
	if active == nil {
		return P(&Chan[T]{native: make(chan T, c), capacity: c})
	}
	return P(&Chan[T]{id: NewObjID(), capacity: c})
}

func (c *Chan[T]) model() bool {
	if c.native != nil {
		if active != nil && !active.aborting {
			panic("vsched: a native channel (made outside the controlled execution) is used inside it")
		}
		return false
	}
	return true
}

const (
	kSend = 10 + iota
	kSendWait
	kRecv
	kClose
	kLen
)

func (c *Chan[T]) Send(v T) {
	if c == nil {
		Block("send on nil channel", kSend, 0, func() bool { return false })
		return
	}
	if !c.model() {
		c.native <- v
		return
	}
	if c.capacity > 0 {
		Block("chan send", kSend, c.id, func() bool { return c.closed || len(c.buf) < c.capacity })
		if c.closed {
			panic("send on closed channel")
		}
		c.buf = append(c.buf, v)
		c.bufH = append(c.bufH, HRel())
		return
	}
	Block("chan send", kSend, c.id, func() bool { return c.closed || !c.slotFull })
	if c.closed {
		panic("send on closed channel")
	}
	c.slot = v
	c.slotFull = true
	c.slotH = HRel()
	c.sendSeq++
	my := c.sendSeq
	Block("chan send (waiting for receiver)", kSendWait, c.id, func() bool { return c.takenSeq >= my || c.closed })
	if c.takenSeq < my {
		// closed while the send was pending
		panic("send on closed channel")
	}
	HAcq(c.takenH)
}

func (c *Chan[T]) Recv2() (T, bool) {
	var zero T
	if c == nil {
		Block("receive on nil channel", kRecv, 0, func() bool { return false })
		return zero, false
	}
	if !c.model() {
		v, ok := <-c.native
		return v, ok
	}
	if c.capacity > 0 {
		Block("chan receive", kRecv, c.id, func() bool { return c.closed || len(c.buf) > 0 })
		if len(c.buf) > 0 {
			v := c.buf[0]
			c.buf = c.buf[1:]
			HAcq(c.bufH[0])
			c.bufH = c.bufH[1:]
			return v, true
		}
		HAcq(c.closeH)
		return zero, false
	}
	Block("chan receive", kRecv, c.id, func() bool { return c.closed || c.slotFull })
	if c.slotFull {
		v := c.slot
		c.slot = zero
		c.slotFull = false
		c.takenSeq = c.sendSeq
		HAcq(c.slotH)
		c.takenH = HRel()
		return v, true
	}
	HAcq(c.closeH)
	return zero, false
}

func (c *Chan[T]) Recv() T {
	v, _ := c.Recv2()
	return v
}

func (c *Chan[T]) Close() {
	if c == nil {
		panic("close of nil channel")
	}
	if !c.model() {
		close(c.native)
		return
	}
	Yield("chan close", kClose, c.id)
	if c.closed {
		panic("close of closed channel")
	}
	c.closed = true
	c.closeH = HRel()
	if c.slotFull {
		// a sender is blocked in its rendezvous: it will panic, its value is never delivered
		var zero T
		c.slot = zero
		c.slotFull = false
	}
}

func (c *Chan[T]) Len() int {
	if c == nil {
		return 0
	}
	if !c.model() {
		return len(c.native)
	}
	Yield("chan len", kLen, c.id)
	HAcq(uint64(len(c.buf)))
	return len(c.buf)
}

func (c *Chan[T]) Cap() int {
	if c == nil {
		return 0
	}
	return c.capacity
}

// Seq is the rewritten `for v := range c`.
func (c *Chan[T]) Seq() iter.Seq[T] {
	return func(yield func(T) bool) {
		for {
			v, ok := c.Recv2()
			if !ok {
				return
			}
			if !yield(v) {
				return
			}
		}
	}
}
