//go:build verif

// Package atomic (vatomic): sync/atomic as used by obitools4; each operation is a scheduling point.
package atomic

import (
	realatomic "sync/atomic"
	"unsafe"

	"git.metabarcoding.org/obitools/obitools4/obitools4/pkg/vsched"
)

const kAtomic = 40

func AddInt32(addr *int32, delta int32) int32 {
	if !vsched.Active() {
		return realatomic.AddInt32(addr, delta)
	}
	vsched.SetDep(uint64(uintptr(unsafe.Pointer(addr)))*2)
	vsched.Yield("atomic.AddInt32", kAtomic, 0)
	vsched.HAcq(*vsched.RelSlot(0))
	*vsched.RelSlot(0) = vsched.HRel()
	*addr += delta
	return *addr
}

func AddInt64(addr *int64, delta int64) int64 {
	if !vsched.Active() {
		return realatomic.AddInt64(addr, delta)
	}
	vsched.SetDep(uint64(uintptr(unsafe.Pointer(addr)))*2)
	vsched.Yield("atomic.AddInt64", kAtomic, 0)
	vsched.HAcq(*vsched.RelSlot(0))
	*vsched.RelSlot(0) = vsched.HRel()
	*addr += delta
	return *addr
}

func LoadInt32(addr *int32) int32 {
	if !vsched.Active() {
		return realatomic.LoadInt32(addr)
	}
	vsched.SetDep(uint64(uintptr(unsafe.Pointer(addr)))*2)
	vsched.Yield("atomic.LoadInt32", kAtomic, 0)
	vsched.HAcq(*vsched.RelSlot(0))
	*vsched.RelSlot(0) = vsched.HRel()
	return *addr
}

func StoreInt32(addr *int32, v int32) {
	if !vsched.Active() {
		realatomic.StoreInt32(addr, v)
		return
	}
	vsched.SetDep(uint64(uintptr(unsafe.Pointer(addr)))*2)
	vsched.Yield("atomic.StoreInt32", kAtomic, 0)
	vsched.HAcq(*vsched.RelSlot(0))
	*vsched.RelSlot(0) = vsched.HRel()
	*addr = v
}

func LoadInt64(addr *int64) int64 {
	if !vsched.Active() {
		return realatomic.LoadInt64(addr)
	}
	vsched.SetDep(uint64(uintptr(unsafe.Pointer(addr)))*2)
	vsched.Yield("atomic.LoadInt64", kAtomic, 0)
	vsched.HAcq(*vsched.RelSlot(0))
	*vsched.RelSlot(0) = vsched.HRel()
	return *addr
}

func StoreInt64(addr *int64, v int64) {
	if !vsched.Active() {
		realatomic.StoreInt64(addr, v)
		return
	}
	vsched.SetDep(uint64(uintptr(unsafe.Pointer(addr)))*2)
	vsched.Yield("atomic.StoreInt64", kAtomic, 0)
	vsched.HAcq(*vsched.RelSlot(0))
	*vsched.RelSlot(0) = vsched.HRel()
	*addr = v
}

func CompareAndSwapInt32(addr *int32, old, new int32) bool {
	if !vsched.Active() {
		return realatomic.CompareAndSwapInt32(addr, old, new)
	}
	vsched.SetDep(uint64(uintptr(unsafe.Pointer(addr)))*2)
	vsched.Yield("atomic.CompareAndSwapInt32", kAtomic, 0)
	vsched.HAcq(*vsched.RelSlot(0))
	*vsched.RelSlot(0) = vsched.HRel()
	if *addr == old {
		*addr = new
		return true
	}
	return false
}

type Int32 = realatomic.Int32
type Int64 = realatomic.Int64
type Bool = realatomic.Bool
type Value = realatomic.Value
