//go:build verif

// Package vsched is a controlled cooperative scheduler plus a stateless depth-first explorer
// (iterative preemption bounding, CHESS style) for Go code whose synchronisation operations were
// rewritten by /verif/engine/instr to call into this package. Exactly one managed thread runs at a
// time; every synchronisation operation is a scheduling point; the explorer enumerates every
// schedule whose number of preemptions (and of non-default data choices) stays within the bounds.
package vsched

import (
	"cmp"
	"fmt"
	"slices"
	"hash/fnv"
	"reflect"
	"runtime/debug"
	"unsafe"
	"strings"
	"sync"
)

// ---------------------------------------------------------------------------------------------
// threads and the baton

type thread struct {
	id      int
	wake    chan struct{}
	enabled func() bool // nil: runnable
	done    bool
	what    string // description of the pending operation (for deadlock reports)
	h       uint64 // happens-before hash of everything this thread did and observed
}

func mix(a, b uint64) uint64 {
	a ^= b + 0x9e3779b97f4a7c15 + (a << 6) + (a >> 2)
	a *= 0xff51afd7ed558ccd
	a ^= a >> 33
	return a
}

// HRel returns the hash a releasing operation publishes (and advances the thread's own hash).
func HRel() uint64 {
	x := active
	if x == nil || x.cur == nil {
		return 0
	}
	h := x.cur.h
	x.cur.h = mix(h, 0x5eed)
	return h
}

// HAcq folds the hash published by the matching release into the running thread's hash.
func HAcq(h uint64) {
	x := active
	if x == nil || x.cur == nil {
		return
	}
	x.cur.h = mix(x.cur.h, h)
}

type abortSentinel struct{}
type exitSentinel struct{ code int }

// Point kinds recorded in the trace.
type point struct {
	nEnabled       int
	chosen         int
	runningEnabled bool
	isData         bool
	key            uint64 // happens-before hash of the global state at this decision
}

// stateKey: commutative combination of the live threads' happens-before hashes (thread ids are not
// part of it), plus the identity of the running thread (it decides which switches are preemptions).
func (x *Exec) stateKey(extra uint64) uint64 {
	var s uint64
	for _, t := range x.threads {
		if !t.done {
			s += mix(t.h, 0x1234)
		}
	}
	if x.cur != nil && !x.cur.done {
		s = mix(s, x.cur.h)
	}
	return mix(s, extra)
}

// Exec is one execution under the scheduler.
type Exec struct {
	threads []*thread
	cur     *thread
	prefix  []int
	points  []point
	choices []int
	trace   uint64 // rolling hash of (thread, op, object)
	nobj    int

	aborting   bool
	outcome    string // "", "deadlock", "panic: ...", "exit(n)", "horizon"
	detail     string
	mainDone   bool
	finished   chan struct{}
	horizon    int
	blockedEnd []string

	// L2: shared-memory access tracking
	accessOwner map[uintptr]accessInfo
	addrRel     map[uintptr]uint64
	conflicts   map[string]bool // site -> conflicting (input: from previous executions; output: newly found)
	newConf     map[string]bool

	DataDeviations int
	Preemptions    int

	Log []string // optional user log of the execution (harness observations)
	Obs any      // observation stored by the harness body, read by Config.Check

	wg   sync.WaitGroup
	rels [4]uint64
}

type accessInfo struct {
	thread int
	write  bool
	site   string
}

var (
	active *Exec // the running execution (nil: code runs natively, single threaded)
	big    sync.Mutex
)

// Active reports whether a controlled execution is in progress. A thread of an execution that is
// being torn down is unwound right here (every shim operation starts with this call).
func Active() bool {
	x := active
	if x == nil {
		return false
	}
	if x.aborting {
		panic(abortSentinel{})
	}
	return true
}

func (x *Exec) hash(a, b, c int) {
	h := x.trace
	for _, v := range [3]int{a, b, c} {
		h ^= uint64(v) + 0x9e3779b97f4a7c15 + (h << 6) + (h >> 2)
	}
	x.trace = h
}

// NewObjID gives objects created during an execution a deterministic identity.
func NewObjID() int {
	x := active
	if x == nil || x.cur == nil {
		return 0
	}
	x.nobj++
	id := mix(x.cur.h, 0xc0ffee)
	x.cur.h = mix(x.cur.h, 0xbeef)
	return int(id >> 1)
}

// enabledList returns the enabled threads in canonical order: the running thread first if it is
// still enabled, then ascending ids.
func (x *Exec) enabledList() ([]*thread, bool) {
	var l []*thread
	runningEnabled := false
	if x.cur != nil && !x.cur.done && (x.cur.enabled == nil || x.cur.enabled()) {
		l = append(l, x.cur)
		runningEnabled = true
	}
	for _, t := range x.threads {
		if t == x.cur || t.done {
			continue
		}
		if t.enabled == nil || t.enabled() {
			l = append(l, t)
		}
	}
	return l, runningEnabled
}

func (x *Exec) nextChoice(n int) int {
	i := len(x.choices)
	c := 0
	if i < len(x.prefix) {
		c = x.prefix[i]
		if c >= n {
			panic(fmt.Sprintf("vsched: replay divergence at point %d: choice %d of %d", i, c, n))
		}
	}
	x.choices = append(x.choices, c)
	return c
}

// schedule is called by the running thread at a scheduling point (its pending op is already set).
// It picks the next thread and transfers the baton. Returns when this thread is chosen again.
func (x *Exec) schedule(candidate bool) {
	if x.aborting {
		panic(abortSentinel{})
	}
	me := x.cur
	l, runningEnabled := x.enabledList()
	if len(l) == 0 {
		x.finishOrDeadlock()
		// not reached for a live thread: finishOrDeadlock aborts
		panic(abortSentinel{})
	}
	var next *thread
	if len(l) == 1 || (!candidate && runningEnabled) {
		next = l[0]
	} else {
		if len(x.points) >= x.horizon {
			x.outcome = "horizon"
			x.abortAll()
			panic(abortSentinel{})
		}
		c := x.nextChoice(len(l))
		x.points = append(x.points, point{nEnabled: len(l), chosen: c, runningEnabled: runningEnabled, key: x.stateKey(1)})
		if c != 0 && runningEnabled {
			x.Preemptions++
		}
		next = l[c]
	}
	if next == me {
		me.enabled = nil
		return
	}
	x.cur = next
	next.wake <- struct{}{}
	if me.done {
		return
	}
	<-me.wake
	if x.aborting {
		panic(abortSentinel{})
	}
	me.enabled = nil
}

// finishOrDeadlock is called when no thread is enabled.
func (x *Exec) finishOrDeadlock() {
	var blocked []string
	for _, t := range x.threads {
		if !t.done {
			blocked = append(blocked, fmt.Sprintf("T%d:%s", t.id, t.what))
		}
	}
	x.blockedEnd = blocked
	if !x.mainDone {
		x.outcome = "deadlock"
		x.detail = strings.Join(blocked, " | ")
	}
	x.abortAll()
}

func (x *Exec) abortAll() {
	if x.aborting {
		return
	}
	x.aborting = true
	me := x.cur
	for _, t := range x.threads {
		if !t.done && t != me {
			// parked threads wake up, see aborting and unwind through their wrapper
			select {
			case t.wake <- struct{}{}:
			default:
				go func(t *thread) { t.wake <- struct{}{} }(t)
			}
		}
	}
	close(x.finished)
}

// block parks the running thread until cond holds (cond is evaluated by whoever schedules).
func Block(what string, kind, obj int, cond func() bool) {
	x := active
	if x == nil {
		if !cond() {
			panic("vsched: operation would block outside a controlled execution: " + what)
		}
		return
	}
	if x.aborting {
		panic(abortSentinel{})
	}
	x.hash(x.cur.id, kind, obj)
	x.cur.enabled = cond
	x.cur.what = what
	// the pending operation is part of the thread's state (mixed in before the decision)
	x.cur.h = mix(x.cur.h, uint64(kind)<<40^uint64(obj))
	x.schedule(true)
}

// Yield is a scheduling point at a non-blocking operation.
func Yield(what string, kind, obj int) {
	x := active
	if x == nil {
		return
	}
	if x.aborting {
		panic(abortSentinel{})
	}
	x.hash(x.cur.id, kind, obj)
	x.cur.enabled = nil
	x.cur.what = what
	x.cur.h = mix(x.cur.h, uint64(kind)<<40^uint64(obj))
	x.schedule(true)
}

// Choose is a data choice with n alternatives (0 = default answer); each non-default answer costs
// one deviation.
func Choose(n int) int {
	x := active
	if x == nil || n <= 1 {
		return 0
	}
	if x.aborting {
		panic(abortSentinel{})
	}
	c := x.nextChoice(n)
	x.points = append(x.points, point{nEnabled: n, chosen: c, isData: true, key: x.stateKey(2)})
	x.cur.h = mix(x.cur.h, uint64(c)+77)
	if c != 0 {
		x.DataDeviations++
	}
	x.hash(x.cur.id, 99, c)
	return c
}

// Go starts a managed thread.
func Go(f func()) {
	x := active
	if x == nil {
		// outside controlled executions the instrumented code still works (natively concurrent code is
		// not supported there: run synchronously would change semantics, so start a real goroutine).
		go f()
		return
	}
	if x.aborting {
		panic(abortSentinel{})
	}
	t := &thread{id: len(x.threads), wake: make(chan struct{})}
	t.h = mix(x.cur.h, 0x60)
	x.cur.h = mix(x.cur.h, 0x61)
	x.threads = append(x.threads, t)
	x.hash(x.cur.id, 1, t.id)
	x.wg.Add(1)
	go x.runThread(t, f)
	// spawning is itself a scheduling point (the child may run first)
	x.cur.enabled = nil
	x.cur.what = "go"
	x.schedule(true)
}

func (x *Exec) runThread(t *thread, f func()) {
	<-t.wake
	defer x.threadExit(t)
	if x.aborting {
		return
	}
	f()
}

func (x *Exec) threadExit(t *thread) {
	r := recover()
	t.done = true
	defer x.wg.Done()
	switch v := r.(type) {
	case nil:
	case abortSentinel:
		return
	case exitSentinel:
		if !x.aborting {
			x.outcome = fmt.Sprintf("exit(%d)", v.code)
			x.abortAll()
		}
		return
	default:
		if !x.aborting {
			x.outcome = "panic"
			x.detail = fmt.Sprintf("T%d: %v\n%s", t.id, r, trimStack(debug.Stack()))
			x.abortAll()
		}
		return
	}
	if x.aborting {
		return
	}
	if t.id == 0 {
		x.mainDone = true
	}
	// hand the baton to somebody else
	defer func() {
		if r := recover(); r != nil {
			if _, ok := r.(abortSentinel); !ok {
				panic(r)
			}
		}
	}()
	x.schedule(true)
}

func trimStack(b []byte) string {
	s := string(b)
	lines := strings.Split(s, "\n")
	var out []string
	for _, l := range lines {
		if strings.Contains(l, "/vsched/") || strings.Contains(l, "runtime/") {
			continue
		}
		out = append(out, l)
		if len(out) > 24 {
			break
		}
	}
	return strings.Join(out, "\n")
}

// Exit is installed as logrus ExitFunc by harnesses: a fatal error ends the execution with outcome
// exit(code).
func Exit(code int) {
	if active == nil {
		panic(exitSentinel{code})
	}
	panic(exitSentinel{code})
}

// ---------------------------------------------------------------------------------------------
// L2: shared memory accesses

// Access records an access of the running thread to the location addr at source site. It becomes a
// scheduling point only when the site is in the conflict set (found racy in an earlier execution).
func Access(site string, addr uintptr, write bool) {
	x := active
	if x == nil || x.aborting {
		return
	}
	me := x.cur.id
	if prev, ok := x.accessOwner[addr]; ok {
		if prev.thread != me && (prev.write || write) {
			if !x.conflicts[site] {
				x.newConf[site] = true
			}
			if !x.conflicts[prev.site] {
				x.newConf[prev.site] = true
			}
		}
		if write || prev.thread != me {
			x.accessOwner[addr] = accessInfo{me, write || (prev.write && prev.thread == me), site}
		}
	} else {
		x.accessOwner[addr] = accessInfo{me, write, site}
	}
	if x.conflicts[site] {
		x.hash(me, 50, 0)
		x.cur.enabled = nil
		x.cur.what = "access " + site
		x.cur.h = mix(x.cur.h, HashString(site))
		x.schedule(true)
		// a racy access is ordered with the other accesses of the same location
		x.cur.h = mix(x.cur.h, x.addrRel[addr])
		x.addrRel[addr] = mix(x.cur.h, 7)
	}
}

// ---------------------------------------------------------------------------------------------
// explorer

type Config struct {
	Name        string
	Preemptions int // bound on preemptive context switches
	Deviations  int // bound on non-default data choices
	Horizon     int // max decision points per execution (0: 20000)
	MaxExec     int64
	Shard       int
	NShards     int
	Expired     func() bool
	Reset       func() // called before every execution (package-level state)
	NoStateCache bool  // disable happens-before state caching (pure stateless DFS)
	// DelayBounding: every non-default thread choice costs one unit of Preemptions (delay bounding:
	// the default scheduler continues the running thread, or the lowest-id enabled thread when it
	// blocks). Off: only switches away from a still-enabled thread cost (preemption bounding).
	DelayBounding bool
	// Check is called after every execution with the outcome; it returns a violation description or "".
	Check func(x *Exec) string
}

type Violation struct {
	Desc    string
	Choices []int
	Outcome string
}

type Stats struct {
	Executions     int64
	Points         int64
	MaxPoints      int
	Outcomes       map[string]int64
	TraceHashes    map[uint64]struct{}
	Violations     []Violation
	Capped         bool
	ConflictSites  []string
	ReplaysChecked int64
	LeakedThreads  int64
	MaxThreads     int
	Rounds         int
	States         int64 // distinct happens-before states met at decision points
	Pruned         int64 // executions whose continuation was cut because the state was already explored
}

// RunOnce executes body under the scheduler following prefix then default choices.
func RunOnce(prefix []int, horizon int, conflicts map[string]bool, reset func(), body func(x *Exec)) *Exec {
	big.Lock()
	defer big.Unlock()
	if reset != nil {
		reset()
	}
	if horizon == 0 {
		horizon = 20000
	}
	x := &Exec{prefix: prefix, finished: make(chan struct{}), horizon: horizon,
		accessOwner: map[uintptr]accessInfo{}, addrRel: map[uintptr]uint64{}, conflicts: conflicts, newConf: map[string]bool{}}
	if x.conflicts == nil {
		x.conflicts = map[string]bool{}
	}
	t := &thread{id: 0, wake: make(chan struct{})}
	x.threads = []*thread{t}
	x.cur = t
	generation++
	active = x
	x.wg.Add(1)
	go x.runThread(t, func() { body(x) })
	t.wake <- struct{}{}
	<-x.finished
	// every thread of the execution unwinds (abort sentinel) before the next execution may start
	x.wg.Wait()
	active = nil
	return x
}

func (x *Exec) Outcome() string   { return x.outcome }
func (x *Exec) Detail() string    { return x.detail }
func (x *Exec) Choices() []int    { return append([]int{}, x.choices...) }
func (x *Exec) TraceHash() uint64 { return x.trace }
func (x *Exec) Blocked() []string { return x.blockedEnd }
func (x *Exec) NumPoints() int    { return len(x.points) }
func (x *Exec) Logf(format string, a ...any) {
	x.Log = append(x.Log, fmt.Sprintf(format, a...))
}

// Explore enumerates all schedules of body within the bounds (stateless DFS). The conflict set of
// the L2 accesses is iterated to a fixpoint: whenever an execution discovers new racy sites the
// exploration is restarted with them as additional scheduling points.
func Explore(cfg Config, body func(x *Exec)) *Stats {
	st := &Stats{Outcomes: map[string]int64{}, TraceHashes: map[uint64]struct{}{}}
	if cfg.NShards <= 0 {
		cfg.NShards = 1
	}
	conflicts := map[string]bool{}
	for round := 0; ; round++ {
		st.Rounds = round + 1
		newc := exploreRound(cfg, body, st, conflicts)
		if len(newc) == 0 || st.Capped {
			break
		}
		for s := range newc {
			conflicts[s] = true
		}
		if round > 6 {
			st.Capped = true
			break
		}
	}
	for s := range conflicts {
		st.ConflictSites = append(st.ConflictSites, s)
	}
	return st
}

func exploreRound(cfg Config, body func(x *Exec), st *Stats, conflicts map[string]bool) map[string]bool {
	newc := map[string]bool{}
	branch := 0
	type budget struct{ p, d int }
	visited := map[uint64]budget{}
	defer func() { st.States += int64(len(visited)) }()
	var rec func(prefix []int, depth int)
	rec = func(prefix []int, depth int) {
		if st.Capped {
			return
		}
		if (cfg.MaxExec > 0 && st.Executions >= cfg.MaxExec) || (cfg.Expired != nil && cfg.Expired()) {
			st.Capped = true
			return
		}
		x := RunOnce(prefix, cfg.Horizon, conflicts, cfg.Reset, body)
		for s := range x.newConf {
			newc[s] = true
		}
		countIt := depth > 0 || cfg.Shard == 0
		if countIt {
			st.Executions++
			st.Points += int64(len(x.points))
			if len(x.points) > st.MaxPoints {
				st.MaxPoints = len(x.points)
			}
			if len(x.threads) > st.MaxThreads {
				st.MaxThreads = len(x.threads)
			}
			st.LeakedThreads += int64(len(x.blockedEnd))
			o := x.outcome
			if o == "" {
				o = "completed"
			}
			st.Outcomes[o]++
			if len(st.TraceHashes) < 200000 {
				st.TraceHashes[x.trace] = struct{}{}
			}
			if x.outcome == "horizon" {
				st.Capped = true
			}
			if cfg.Check != nil && x.outcome != "horizon" {
				if msg := cfg.Check(x); msg != "" {
					// replay determinism: the same choice list must give the same trace and verdict
					y := RunOnce(x.choices, cfg.Horizon, conflicts, cfg.Reset, body)
					st.ReplaysChecked++
					msg2 := cfg.Check(y)
					if y.trace != x.trace || (msg2 == "") != (msg == "") {
						panic(fmt.Sprintf("vsched: replay of a violating schedule diverged (engine error)\nfirst: %s\nsecond: %s", msg, msg2))
					}
					if len(st.Violations) < 50 {
						st.Violations = append(st.Violations, Violation{Desc: msg, Choices: x.Choices(), Outcome: o})
					}
				} else if st.Executions%257 == 0 {
					y := RunOnce(x.choices, cfg.Horizon, conflicts, cfg.Reset, body)
					st.ReplaysChecked++
					if y.trace != x.trace {
						panic("vsched: replay of a passing schedule diverged (engine error: uncontrolled nondeterminism)")
					}
				}
			}
		}
		// alternatives
		pre, dev := 0, 0
		for i := 0; i < len(x.points); i++ {
			p := x.points[i]
			if i >= len(prefix) {
				if !cfg.NoStateCache {
					left := budget{cfg.Preemptions - pre, cfg.Deviations - dev}
					if v, ok := visited[p.key]; ok && v.p >= left.p && v.d >= left.d {
						// this happens-before state was (or is being) explored with at least this budget:
						// every future from here is covered there
						st.Pruned++
						break
					} else if !ok || (left.p >= v.p && left.d >= v.d) {
						visited[p.key] = left
					}
				}
				for alt := 1; alt < p.nEnabled; alt++ {
					np, nd := pre, dev
					if p.isData {
						nd++
					} else if p.runningEnabled || cfg.DelayBounding {
						np++
					}
					if np > cfg.Preemptions || nd > cfg.Deviations {
						continue
					}
					if depth == 0 {
						mine := branch%cfg.NShards == cfg.Shard
						branch++
						if !mine {
							continue
						}
					}
					nprefix := append(append([]int{}, x.choices[:i]...), alt)
					rec(nprefix, depth+1)
				}
			}
			if p.chosen != 0 {
				if p.isData {
					dev++
				} else if p.runningEnabled || cfg.DelayBounding {
					pre++
				}
			}
		}
	}
	rec(nil, 0)
	return newc
}

func HashString(s string) uint64 {
	h := fnv.New64a()
	h.Write([]byte(s))
	return h.Sum64()
}

// ---------------------------------------------------------------------------------------------
// helpers for the shims

var generation uint64

// Generation identifies the current execution: shim objects that outlive an execution (package level
// variables) reset their model state when they see a new generation.
func Generation() uint64 { return generation }

// Aborting reports that the current execution is being torn down: shim operations become no-ops.
func Aborting() bool { return active != nil && active.aborting }

// PoolChoices makes every sync.Pool Get answer a data choice of the explorer.
var PoolChoices bool

// PoolPoints makes sync.Pool Get/Put scheduling points (off: they are atomic steps of the caller).
var PoolPoints bool

// PoolPoison, when set, is applied to every item Put into a pool during a controlled execution.
var PoolPoison func(x any)

// Addr / MapAddr give Access a stable identity for the accessed location.
func Addr[T any](p *T) uintptr { return uintptr(unsafe.Pointer(p)) }

func MapAddr(m any) uintptr {
	v := reflect.ValueOf(m)
	if v.Kind() == reflect.Map && !v.IsNil() {
		return v.Pointer()
	}
	return 0
}

// MapKeys is the rewritten `range m` over a map with an ordered key type: the keys in sorted order,
// or (MapOrderChoices on, at most 3 keys, inside an execution) in an order chosen by the explorer.
func MapKeys[M ~map[K]V, K cmp.Ordered, V any](m M) []K {
	keys := make([]K, 0, len(m))
	for k := range m {
		keys = append(keys, k)
	}
	slices.Sort(keys)
	if MapOrderChoices && active != nil && !active.aborting && len(keys) >= 2 && len(keys) <= 3 {
		nperm := 2
		if len(keys) == 3 {
			nperm = 6
		}
		c := Choose(nperm)
		perms3 := [6][3]int{{0, 1, 2}, {0, 2, 1}, {1, 0, 2}, {1, 2, 0}, {2, 0, 1}, {2, 1, 0}}
		out := make([]K, len(keys))
		if len(keys) == 2 {
			if c == 1 {
				out[0], out[1] = keys[1], keys[0]
			} else {
				copy(out, keys)
			}
		} else {
			for i, j := range perms3[c] {
				out[i] = keys[j]
			}
		}
		return out
	}
	return keys
}

// MapOrderChoices makes the iteration order of small maps a data choice of the explorer.
var MapOrderChoices bool

// RelSlot gives the shim packages a per-execution happens-before cell (atomics, abool).
func RelSlot(i int) *uint64 {
	x := active
	if x == nil {
		return &dummyRel
	}
	return &x.rels[i]
}

var dummyRel uint64

func (x *Exec) DebugPoints() string {
	s := ""
	for i, p := range x.points {
		s += fmt.Sprintf("\n%d: n=%d chosen=%d runEn=%v data=%v key=%x", i, p.nEnabled, p.chosen, p.runningEnabled, p.isData, p.key)
	}
	return s
}
