//go:build verif

// Package vsched is a controlled cooperative scheduler plus a stateless depth-first explorer
// (iterative preemption bounding, CHESS style) for Go code whose synchronisation operations were
// rewritten by /verif/engine/instr to call into this package. Exactly one managed thread runs at a
// time; every synchronisation operation is a scheduling point; the explorer enumerates every
// schedule whose number of preemptions (and of non-default data choices) stays within the bounds.
package vsched

import (
	"cmp"
	"fmt"
	"hash/fnv"
	"reflect"
	"runtime"
	"runtime/debug"
	"runtime/metrics"
	"slices"
	"strings"
	"sync"
	"unsafe"
)

// ---------------------------------------------------------------------------------------------
// threads and the baton

type thread struct {
	id      int
	wake    chan struct{}
	enabled func() bool // nil: runnable
	done    bool
	what    string                 // description of the pending operation (for deadlock reports)
	h       uint64                 // happens-before hash of everything this thread did and observed
	pdep    uint64                 // object the pending operation acts on (0: independent of everything)
	pop     int                    // operation code within the object (0: unspecified)
	pindep  func(otherOp int) bool // same-object operations this one commutes with, in the current state
}

func mix(a, b uint64) uint64 {
	a ^= b + 0x9e3779b97f4a7c15 + (a << 6) + (a >> 2)
	a *= 0xff51afd7ed558ccd
	a ^= a >> 33
	return a
}

// HRel returns the hash a releasing operation publishes (and advances the thread's own hash).
func HRel() uint64 {
	x := active
	if x == nil || x.cur == nil {
		return 0
	}
	h := x.cur.h
	x.cur.h = mix(h, 0x5eed)
	return h
}

// HAcq folds the hash published by the matching release into the running thread's hash.
func HAcq(h uint64) {
	x := active
	if x == nil || x.cur == nil {
		return
	}
	x.cur.h = mix(x.cur.h, h)
}

type abortSentinel struct{}
type exitSentinel struct{ code int }

// Point kinds recorded in the trace.
type point struct {
	nEnabled       int
	chosen         int
	runningEnabled bool
	isData         bool
	key            uint64   // happens-before hash of the global state at this decision
	ids            []int    // enabled thread ids, canonical order (sleep mode)
	deps           []uint64 // dependence object of each enabled thread's pending operation
	sleep          []int    // ids of the enabled threads that were asleep at this point
	sleepH         []uint64 // happens-before hashes of all sleeping threads (sorted)
	depm           [][]bool // depm[a][b]: pending operations of enabled threads a and b are dependent
}

// stateKey: commutative combination of the live threads' happens-before hashes (thread ids are not
// part of it), plus the identity of the running thread (it decides which switches are preemptions).
func (x *Exec) stateKey(extra uint64) uint64 {
	var s uint64
	for _, t := range x.threads {
		if !t.done {
			s += mix(t.h, 0x1234)
		}
	}
	if x.cur != nil && !x.cur.done {
		s = mix(s, x.cur.h)
	}
	return mix(s, extra)
}

// Exec is one execution under the scheduler.
type Exec struct {
	threads  []*thread
	cur      *thread
	prefix   []int
	points   []point
	choices  []int
	trace    uint64 // rolling hash of (thread, op, object)
	nobj     int
	traceObj map[int]int // object identity -> rank of first use in this execution (trace hash only)

	aborting   bool
	outcome    string // "", "deadlock", "panic: ...", "exit(n)", "horizon"
	detail     string
	mainDone   bool
	finished   chan struct{}
	horizon    int
	blockedEnd []string

	// L2: shared-memory access tracking
	accessOwner map[uintptr]accessInfo
	addrRel     map[uintptr]uint64
	conflicts   map[string]bool // site -> conflicting (input: from previous executions; output: newly found)
	newConf     map[string]bool

	DataDeviations int
	Preemptions    int

	Log []string // optional user log of the execution (harness observations)
	Obs any      // observation stored by the harness body, read by Config.Check

	wg   sync.WaitGroup
	rels [4]uint64

	policy    int
	delayMode bool
	onPoint   func(x *Exec, key uint64) bool // online state-cache check at every new decision point

	sleepMode bool
	sleep     map[int]bool // ids of sleeping threads
	initSleep []int        // sleep set to install after the last forced choice
}

type accessInfo struct {
	thread int
	write  bool
	site   string
}

var (
	active *Exec // the running execution (nil: code runs natively, single threaded)
	big    sync.Mutex
)

// Active reports whether a controlled execution is in progress. A thread of an execution that is
// being torn down is unwound right here (every shim operation starts with this call).
func Active() bool {
	x := active
	if x == nil {
		return false
	}
	if x.aborting {
		panic(abortSentinel{})
	}
	return true
}

func (x *Exec) hash(a, b, c int) {
	// Object identities are derived from the creating thread's happens-before hash, which folds in
	// per-address release cells keyed by RAW addresses: when the runtime reuses an address inside one
	// execution (a stack segment handed to another goroutine, memory swept by the collector) a stale cell
	// changes that hash from run to run. The state cache only loses some pruning to this, but the trace
	// hash is what replay determinism is judged on: objects enter it by the order of their first use in
	// this execution (a function of the schedule alone), not by their identity.
	if b != 99 && b != 50 && b != 1 && c != 0 {
		ci, ok := x.traceObj[c]
		if !ok {
			if x.traceObj == nil {
				x.traceObj = map[int]int{}
			}
			ci = len(x.traceObj) + 1
			x.traceObj[c] = ci
		}
		c = ci
	}
	h := x.trace
	for _, v := range [3]int{a, b, c} {
		h ^= uint64(v) + 0x9e3779b97f4a7c15 + (h << 6) + (h >> 2)
	}
	x.trace = h
}

// NewObjID gives objects created during an execution a deterministic identity.
func NewObjID() int {
	x := active
	if x == nil || x.cur == nil {
		return 0
	}
	x.nobj++
	id := mix(x.cur.h, 0xc0ffee)
	x.cur.h = mix(x.cur.h, 0xbeef)
	return int(id >> 1)
}

// enabledList returns the enabled threads in canonical order: the running thread first if it is
// still enabled, then ascending ids.
func (x *Exec) enabledList() ([]*thread, bool) {
	var l []*thread
	runningEnabled := false
	if x.cur != nil && !x.cur.done && (x.cur.enabled == nil || x.cur.enabled()) {
		l = append(l, x.cur)
		runningEnabled = true
	}
	n := len(x.threads)
	for k := 0; k < n; k++ {
		t := x.threads[k]
		if x.policy == 1 {
			t = x.threads[n-1-k] // default scheduler prefers the most recently created thread
		}
		if t == x.cur || t.done {
			continue
		}
		if t.enabled == nil || t.enabled() {
			l = append(l, t)
		}
	}
	return l, runningEnabled
}

func (x *Exec) nextChoice(n int) int {
	i := len(x.choices)
	c := 0
	if i < len(x.prefix) {
		c = x.prefix[i]
		if c >= n {
			panic(fmt.Sprintf("vsched: replay divergence at point %d: choice %d of %d", i, c, n))
		}
	}
	x.choices = append(x.choices, c)
	return c
}

// schedule is called by the running thread at a scheduling point (its pending op is already set).
// It picks the next thread and transfers the baton. Returns when this thread is chosen again.
func (x *Exec) schedule(candidate bool) {
	if x.aborting {
		panic(abortSentinel{})
	}
	me := x.cur
	l, runningEnabled := x.enabledList()
	if len(l) == 0 {
		x.finishOrDeadlock()
		// not reached for a live thread: finishOrDeadlock aborts
		panic(abortSentinel{})
	}
	var next *thread
	forced := len(x.choices) < len(x.prefix)
	if x.sleepMode && !forced {
		// sleep sets: a sleeping thread is not scheduled until an operation dependent with its pending one ran
		awake := -1
		for i, t := range l {
			if !x.sleep[t.id] {
				awake = i
				break
			}
		}
		if awake < 0 {
			x.outcome = "sleepblocked"
			x.abortAll()
			panic(abortSentinel{})
		}
		if len(l) == 1 {
			next = l[0]
		} else {
			if len(x.points) >= x.horizon {
				x.outcome = "horizon"
				x.abortAll()
				panic(abortSentinel{})
			}
			x.choices = append(x.choices, awake)
			pt := point{nEnabled: len(l), chosen: awake, runningEnabled: runningEnabled, key: x.stateKey(1)}
			for _, t := range l {
				pt.ids = append(pt.ids, t.id)
				pt.deps = append(pt.deps, t.pdep)
				if x.sleep[t.id] {
					pt.sleep = append(pt.sleep, t.id)
				}
			}
			for id := range x.sleep {
				pt.sleepH = append(pt.sleepH, x.threads[id].h)
			}
			slices.Sort(pt.sleepH)
			pt.depm = make([][]bool, len(l))
			for a := range l {
				pt.depm[a] = make([]bool, len(l))
				for b := range l {
					pt.depm[a][b] = a != b && dependent(l[a], l[b])
				}
			}
			x.points = append(x.points, pt)
			next = l[awake]
		}
		x.wakeDependents(next)
	} else if len(l) == 1 || (!candidate && runningEnabled) {
		next = l[0]
	} else {
		if len(x.points) >= x.horizon {
			x.outcome = "horizon"
			x.abortAll()
			panic(abortSentinel{})
		}
		key := x.stateKey(1)
		if x.onPoint != nil && len(x.choices) >= len(x.prefix) && !x.onPoint(x, key) {
			x.outcome = "pruned"
			x.abortAll()
			panic(abortSentinel{})
		}
		c := x.nextChoice(len(l))
		pt := point{nEnabled: len(l), chosen: c, runningEnabled: runningEnabled, key: key}
		if x.sleepMode {
			for _, t := range l {
				pt.ids = append(pt.ids, t.id)
				pt.deps = append(pt.deps, t.pdep)
			}
		}
		x.points = append(x.points, pt)
		if c != 0 && (runningEnabled || x.delayMode) {
			x.Preemptions++
		}
		next = l[c]
		if x.sleepMode && len(x.choices) == len(x.prefix) {
			// last forced choice: install the sleep set computed by the explorer
			x.sleep = map[int]bool{}
			for _, id := range x.initSleep {
				x.sleep[id] = true
			}
		}
	}
	if next == me {
		me.enabled = nil
		return
	}
	x.cur = next
	next.wake <- struct{}{}
	if me.done {
		return
	}
	<-me.wake
	if x.aborting {
		panic(abortSentinel{})
	}
	me.enabled = nil
}

var nextOp int
var nextIndep func(otherOp int) bool

// SetOp refines the dependence relation for the next Block/Yield of the running thread: op is the
// operation code, indep tells (evaluated in the state where both operations are pending) whether an
// operation `otherOp` on the same object commutes with it. The relation must be symmetric.
func SetOp(op int, indep func(otherOp int) bool) {
	nextOp, nextIndep = op, indep
}

// SetDep overrides the dependence object of the next Block/Yield (not part of the trace hash).
var nextDep uint64

func SetDep(d uint64) { nextDep = d }

func (x *Exec) takeOp() {
	x.cur.pop, x.cur.pindep = nextOp, nextIndep
	nextOp, nextIndep = 0, nil
	if nextDep != 0 {
		x.cur.pdep = nextDep
		nextDep = 0
	}
}

func dependent(a, b *thread) bool {
	if a.pdep == 0 || b.pdep == 0 || a.pdep != b.pdep {
		return false
	}
	if a.pindep != nil && b.pop != 0 && a.pindep(b.pop) {
		return false
	}
	return true
}

// wakeDependents removes from the sleep set every thread whose pending operation is dependent with
// the operation `next` is about to execute (same object).
func (x *Exec) wakeDependents(next *thread) {
	if len(x.sleep) == 0 {
		return
	}
	delete(x.sleep, next.id)
	if next.pdep == 0 {
		return
	}
	for id := range x.sleep {
		if dependent(next, x.threads[id]) {
			delete(x.sleep, id)
		}
	}
}

// finishOrDeadlock is called when no thread is enabled.
func (x *Exec) finishOrDeadlock() {
	var blocked []string
	for _, t := range x.threads {
		if !t.done {
			blocked = append(blocked, fmt.Sprintf("T%d:%s", t.id, t.what))
		}
	}
	x.blockedEnd = blocked
	if !x.mainDone {
		x.outcome = "deadlock"
		x.detail = strings.Join(blocked, " | ")
	}
	x.abortAll()
}

func (x *Exec) abortAll() {
	if x.aborting {
		return
	}
	x.aborting = true
	me := x.cur
	for _, t := range x.threads {
		if !t.done && t != me {
			// parked threads wake up, see aborting and unwind through their wrapper
			select {
			case t.wake <- struct{}{}:
			default:
				go func(t *thread) { t.wake <- struct{}{} }(t)
			}
		}
	}
	close(x.finished)
}

// block parks the running thread until cond holds (cond is evaluated by whoever schedules).
func Block(what string, kind, obj int, cond func() bool) {
	x := active
	if x == nil {
		if !cond() {
			panic("vsched: operation would block outside a controlled execution: " + what)
		}
		return
	}
	if x.aborting {
		panic(abortSentinel{})
	}
	x.hash(x.cur.id, kind, obj)
	x.cur.enabled = cond
	x.cur.what = what
	x.cur.pdep = uint64(obj)*2 + 1
	x.takeOp()
	// the pending operation is part of the thread's state (mixed in before the decision)
	x.cur.h = mix(x.cur.h, uint64(kind)<<40^uint64(obj))
	x.schedule(true)
}

// Yield is a scheduling point at a non-blocking operation.
func Yield(what string, kind, obj int) {
	x := active
	if x == nil {
		return
	}
	if x.aborting {
		panic(abortSentinel{})
	}
	x.hash(x.cur.id, kind, obj)
	x.cur.enabled = nil
	x.cur.what = what
	x.cur.pdep = uint64(obj)*2 + 1
	x.takeOp()
	x.cur.h = mix(x.cur.h, uint64(kind)<<40^uint64(obj))
	x.schedule(true)
}

// Choose is a data choice with n alternatives (0 = default answer); each non-default answer costs
// one deviation.
func Choose(n int) int {
	x := active
	if x == nil || n <= 1 {
		return 0
	}
	if x.aborting {
		panic(abortSentinel{})
	}
	key := x.stateKey(2)
	if x.onPoint != nil && len(x.choices) >= len(x.prefix) && !x.onPoint(x, key) {
		x.outcome = "pruned"
		x.abortAll()
		panic(abortSentinel{})
	}
	c := x.nextChoice(n)
	pt := point{nEnabled: n, chosen: c, isData: true, key: key}
	if x.sleepMode {
		if len(x.choices) == len(x.prefix) && len(x.prefix) > 0 {
			x.sleep = map[int]bool{}
			for _, id := range x.initSleep {
				x.sleep[id] = true
			}
		}
		for id := range x.sleep {
			pt.sleep = append(pt.sleep, id)
			pt.sleepH = append(pt.sleepH, x.threads[id].h)
		}
		slices.Sort(pt.sleep)
		slices.Sort(pt.sleepH)
	}
	x.points = append(x.points, pt)
	x.cur.h = mix(x.cur.h, uint64(c)+77)
	if c != 0 {
		x.DataDeviations++
	}
	x.hash(x.cur.id, 99, c)
	return c
}

// Go starts a managed thread.
func Go(f func()) {
	x := active
	if x == nil {
		// outside controlled executions the instrumented code still works (natively concurrent code is
		// not supported there: run synchronously would change semantics, so start a real goroutine).
		go f()
		return
	}
	if x.aborting {
		panic(abortSentinel{})
	}
	t := &thread{id: len(x.threads), wake: make(chan struct{})}
	t.h = mix(x.cur.h, 0x60)
	x.cur.h = mix(x.cur.h, 0x61)
	x.threads = append(x.threads, t)
	x.hash(x.cur.id, 1, t.id)
	x.wg.Add(1)
	go x.runThread(t, f)
	// spawning is itself a scheduling point (the child may run first)
	x.cur.enabled = nil
	x.cur.what = "go"
	x.cur.pdep, x.cur.pop, x.cur.pindep = 0, 0, nil
	x.schedule(true)
}

func (x *Exec) runThread(t *thread, f func()) {
	<-t.wake
	defer x.threadExit(t)
	if x.aborting {
		return
	}
	f()
}

func (x *Exec) threadExit(t *thread) {
	r := recover()
	t.done = true
	defer x.wg.Done()
	switch v := r.(type) {
	case nil:
	case abortSentinel:
		return
	case exitSentinel:
		if !x.aborting {
			x.outcome = fmt.Sprintf("exit(%d)", v.code)
			x.abortAll()
		}
		return
	default:
		if !x.aborting {
			x.outcome = "panic"
			x.detail = fmt.Sprintf("T%d: %v\n%s", t.id, r, trimStack(debug.Stack()))
			x.abortAll()
		}
		return
	}
	if x.aborting {
		return
	}
	if t.id == 0 {
		x.mainDone = true
	}
	t.pdep, t.pop, t.pindep = 0, 0, nil
	// hand the baton to somebody else
	defer func() {
		if r := recover(); r != nil {
			if _, ok := r.(abortSentinel); !ok {
				panic(r)
			}
		}
	}()
	x.schedule(true)
}

func trimStack(b []byte) string {
	s := string(b)
	lines := strings.Split(s, "\n")
	var out []string
	for _, l := range lines {
		if strings.Contains(l, "/vsched/") || strings.Contains(l, "runtime/") {
			continue
		}
		out = append(out, l)
		if len(out) > 24 {
			break
		}
	}
	return strings.Join(out, "\n")
}

// Exit is installed as logrus ExitFunc by harnesses: a fatal error ends the execution with outcome
// exit(code).
func Exit(code int) {
	if active == nil {
		panic(exitSentinel{code})
	}
	panic(exitSentinel{code})
}

// ---------------------------------------------------------------------------------------------
// L2: shared memory accesses

// Access records an access of the running thread to the location addr at source site. It becomes a
// scheduling point only when the site is in the conflict set (found racy in an earlier execution).
func Access(site string, addr uintptr, write bool) {
	x := active
	if x == nil || x.aborting {
		return
	}
	me := x.cur.id
	if prev, ok := x.accessOwner[addr]; ok {
		if prev.thread != me && (prev.write || write) {
			if !x.conflicts[site] {
				x.newConf[site] = true
			}
			if !x.conflicts[prev.site] {
				x.newConf[prev.site] = true
			}
		}
		if write || prev.thread != me {
			x.accessOwner[addr] = accessInfo{me, write || (prev.write && prev.thread == me), site}
		}
	} else {
		x.accessOwner[addr] = accessInfo{me, write, site}
	}
	if x.conflicts[site] {
		x.hash(me, 50, 0)
		x.cur.enabled = nil
		x.cur.what = "access " + site
		x.cur.pdep, x.cur.pop, x.cur.pindep = uint64(addr)*2, 0, nil
		x.cur.h = mix(x.cur.h, HashString(site))
		x.schedule(true)
		// a racy access is ordered with the other accesses of the same location
		x.cur.h = mix(x.cur.h, x.addrRel[addr])
		x.addrRel[addr] = mix(x.cur.h, 7)
	}
}

// ---------------------------------------------------------------------------------------------
// explorer

type Config struct {
	Name         string
	Preemptions  int // bound on preemptive context switches
	Deviations   int // bound on non-default data choices
	Horizon      int // max decision points per execution (0: 20000)
	MaxExec      int64
	Shard        int
	NShards      int
	Expired      func() bool
	Reset        func() // called before every execution (package-level state)
	NoStateCache bool   // disable happens-before state caching (pure stateless DFS)
	// Full: unbounded exploration of all interleavings up to Mazurkiewicz-trace equivalence: sleep sets
	// (operations on different objects are independent) + happens-before state caching. Preemptions
	// is ignored; Deviations still bounds the data choices.
	Full bool
	// Policy selects the default scheduler the deviations are counted from: 0 = continue the running
	// thread, else the lowest-id enabled thread; 1 = continue the running thread, else the highest-id
	// (most recently created) enabled thread.
	Policy int
	// DelayBounding: every non-default thread choice costs one unit of Preemptions (delay bounding:
	// the default scheduler continues the running thread, or the lowest-id enabled thread when it
	// blocks). Off: only switches away from a still-enabled thread cost (preemption bounding).
	DelayBounding bool
	// Check is called after every execution with the outcome; it returns a violation description or "".
	Check func(x *Exec) string
}

type Violation struct {
	Desc    string
	Choices []int
	Outcome string
	// Conflicts: the racy-access sites that were scheduling points when the schedule was found (a choice list
	// only replays against the same set: sites are discovered round by round)
	Conflicts []string
}

// ConflictSet turns the Conflicts of a stored violation back into the argument of RunOnce.
func ConflictSet(sites []string) map[string]bool {
	m := map[string]bool{}
	for _, s := range sites {
		m[s] = true
	}
	return m
}

type Stats struct {
	Executions     int64
	Points         int64
	MaxPoints      int
	Outcomes       map[string]int64
	TraceHashes    map[uint64]struct{}
	Violations     []Violation
	Capped         bool
	ConflictSites  []string
	ReplaysChecked int64
	LeakedThreads  int64
	MaxThreads     int
	Rounds         int
	States         int64 // distinct happens-before states met at decision points
	Pruned         int64 // executions whose continuation was cut because the state was already explored
}

// RunOnce executes body under the scheduler following prefix then default choices.
func RunOnce(prefix []int, horizon int, conflicts map[string]bool, reset func(), body func(x *Exec)) *Exec {
	return runOnce(prefix, horizon, conflicts, reset, body, false, nil)
}

var (
	runPolicy    int
	runDelayMode bool
	runOnPoint   func(x *Exec, key uint64) bool
)

// RunOncePolicy is RunOnce under the given default-scheduler policy (see Config.Policy).
func RunOncePolicy(policy int, prefix []int, horizon int, conflicts map[string]bool, reset func(), body func(x *Exec)) *Exec {
	old := runPolicy
	runPolicy = policy
	defer func() { runPolicy = old }()
	return RunOnce(prefix, horizon, conflicts, reset, body)
}

// The explorer identifies memory locations by their address (access owners, release cells) and derives
// happens-before hashes from them: the collector must not recycle an address INSIDE an execution, or the
// same schedule gives different conflict sites, different cache keys and different object identities from
// run to run. Collections therefore only happen between executions: the collector is switched off while
// the explorer runs and called explicitly once enough was allocated (a soft memory limit remains as a
// safety net for a single execution that allocates gigabytes).
var (
	gcDepth        int
	gcOldPercent   int
	gcOldLimit     int64
	gcAllocsAtLast uint64
	gcSample       = []metrics.Sample{{Name: "/gc/heap/allocs:bytes"}}
)

const gcEveryBytes = 192 << 20

func gcAllocs() uint64 {
	metrics.Read(gcSample)
	if gcSample[0].Value.Kind() == metrics.KindUint64 {
		return gcSample[0].Value.Uint64()
	}
	return 0
}

// gcHold switches the collector off (re-entrant); the returned function restores it.
func gcHold() func() {
	if gcDepth == 0 {
		gcOldPercent = debug.SetGCPercent(-1)
		gcOldLimit = debug.SetMemoryLimit(3 << 30)
		gcAllocsAtLast = gcAllocs()
	}
	gcDepth++
	return func() {
		gcDepth--
		if gcDepth == 0 {
			debug.SetMemoryLimit(gcOldLimit)
			debug.SetGCPercent(gcOldPercent)
		}
	}
}

func gcBetweenExecutions() {
	if a := gcAllocs(); a-gcAllocsAtLast > gcEveryBytes {
		runtime.GC()
		gcAllocsAtLast = gcAllocs()
	}
}

func runOnce(prefix []int, horizon int, conflicts map[string]bool, reset func(), body func(x *Exec), sleepMode bool, initSleep []int) *Exec {
	big.Lock()
	defer big.Unlock()
	defer gcHold()()
	gcBetweenExecutions()
	if reset != nil {
		reset()
	}
	if horizon == 0 {
		horizon = 20000
	}
	x := &Exec{prefix: prefix, finished: make(chan struct{}), horizon: horizon,
		accessOwner: map[uintptr]accessInfo{}, addrRel: map[uintptr]uint64{}, conflicts: conflicts, newConf: map[string]bool{}}
	if x.conflicts == nil {
		x.conflicts = map[string]bool{}
	}
	x.sleepMode = sleepMode
	x.initSleep = initSleep
	x.delayMode, x.onPoint, x.policy = runDelayMode, runOnPoint, runPolicy
	x.sleep = map[int]bool{}
	t := &thread{id: 0, wake: make(chan struct{})}
	x.threads = []*thread{t}
	x.cur = t
	generation++
	active = x
	x.wg.Add(1)
	go x.runThread(t, func() { body(x) })
	t.wake <- struct{}{}
	<-x.finished
	// every thread of the execution unwinds (abort sentinel) before the next execution may start
	x.wg.Wait()
	active = nil
	return x
}

func (x *Exec) Outcome() string   { return x.outcome }
func (x *Exec) Detail() string    { return x.detail }
func (x *Exec) Choices() []int    { return append([]int{}, x.choices...) }
func (x *Exec) TraceHash() uint64 { return x.trace }
func (x *Exec) Blocked() []string { return x.blockedEnd }
func (x *Exec) NumPoints() int    { return len(x.points) }
func (x *Exec) Logf(format string, a ...any) {
	x.Log = append(x.Log, fmt.Sprintf(format, a...))
}

// Explore enumerates all schedules of body within the bounds (stateless DFS). The conflict set of
// the L2 accesses is iterated to a fixpoint: whenever an execution discovers new racy sites the
// exploration is restarted with them as additional scheduling points.
func Explore(cfg Config, body func(x *Exec)) *Stats {
	st := &Stats{Outcomes: map[string]int64{}, TraceHashes: map[uint64]struct{}{}}
	defer gcHold()()
	runPolicy = cfg.Policy
	defer func() { runPolicy = 0 }()
	if cfg.NShards <= 0 {
		cfg.NShards = 1
	}
	conflicts := map[string]bool{}
	for round := 0; ; round++ {
		st.Rounds = round + 1
		var newc map[string]bool
		if cfg.Full {
			newc = exploreFull(cfg, body, st, conflicts)
		} else {
			newc = exploreRound(cfg, body, st, conflicts)
		}
		if len(newc) == 0 || st.Capped {
			break
		}
		for s := range newc {
			conflicts[s] = true
		}
		if round > 6 {
			st.Capped = true
			break
		}
	}
	for s := range conflicts {
		st.ConflictSites = append(st.ConflictSites, s)
	}
	return st
}

func subsetOf(a, b []uint64) bool { // both sorted
	j := 0
	for _, v := range a {
		for j < len(b) && b[j] < v {
			j++
		}
		if j >= len(b) || b[j] != v {
			return false
		}
		j++
	}
	return true
}

func (st *Stats) record(cfg Config, x *Exec, body func(x *Exec), conflicts map[string]bool, sleepMode bool, prefix, initSleep []int) {
	st.Executions++
	st.Points += int64(len(x.points))
	if len(x.points) > st.MaxPoints {
		st.MaxPoints = len(x.points)
	}
	if len(x.threads) > st.MaxThreads {
		st.MaxThreads = len(x.threads)
	}
	o := x.outcome
	if o == "" {
		o = "completed"
	}
	st.Outcomes[o]++
	if o == "sleepblocked" || o == "pruned" {
		return
	}
	st.LeakedThreads += int64(len(x.blockedEnd))
	if len(st.TraceHashes) < 200000 {
		st.TraceHashes[x.trace] = struct{}{}
	}
	if x.outcome == "horizon" {
		st.Capped = true
		return
	}
	if cfg.Check == nil {
		return
	}
	if msg := cfg.Check(x); msg != "" {
		// replay determinism: the same choice list must give the same trace and verdict
		y := RunOnce(x.choices, cfg.Horizon, conflicts, cfg.Reset, body)
		st.ReplaysChecked++
		msg2 := cfg.Check(y)
		if y.trace != x.trace || (msg2 == "") != (msg == "") {
			panic(fmt.Sprintf("vsched: replay of a violating schedule diverged (engine error)\nfirst: %s\nsecond: %s", msg, msg2))
		}
		if len(st.Violations) < 50 {
			var cs []string
			for site, on := range conflicts {
				if on {
					cs = append(cs, site)
				}
			}
			slices.Sort(cs)
			st.Violations = append(st.Violations, Violation{Desc: msg, Choices: x.Choices(), Outcome: o, Conflicts: cs})
		}
	} else if st.Executions%257 == 0 {
		y := RunOnce(x.choices, cfg.Horizon, conflicts, cfg.Reset, body)
		st.ReplaysChecked++
		if y.trace != x.trace {
			panic("vsched: replay of a passing schedule diverged (engine error: uncontrolled nondeterminism)")
		}
	}
}

// exploreFull: stateless DFS with sleep sets and happens-before state caching (a cached state is
// pruned only when it was explored with a sleep set included in the current one).
func exploreFull(cfg Config, body func(x *Exec), st *Stats, conflicts map[string]bool) map[string]bool {
	newc := map[string]bool{}
	visited := map[uint64][][]uint64{}
	defer func() { st.States += int64(len(visited)) }()
	var rec func(prefix, initSleep []int, devUsed int)
	rec = func(prefix, initSleep []int, devUsed int) {
		if st.Capped {
			return
		}
		if (cfg.MaxExec > 0 && st.Executions >= cfg.MaxExec) || (cfg.Expired != nil && cfg.Expired()) {
			st.Capped = true
			return
		}
		x := runOnce(prefix, cfg.Horizon, conflicts, cfg.Reset, body, true, initSleep)
		for s := range x.newConf {
			newc[s] = true
		}
		st.record(cfg, x, body, conflicts, true, prefix, initSleep)
		dev := devUsed
		for i := len(prefix); i < len(x.points); i++ {
			p := x.points[i]
			if !cfg.NoStateCache {
				pruned := false
				for _, s := range visited[p.key] {
					if subsetOf(s, p.sleepH) {
						pruned = true
						break
					}
				}
				if pruned {
					st.Pruned++
					break
				}
				visited[p.key] = append(visited[p.key], p.sleepH)
			}
			if p.isData {
				if dev+1 <= cfg.Deviations {
					for alt := 1; alt < p.nEnabled; alt++ {
						rec(append(append([]int{}, x.choices[:i]...), alt), p.sleep, dev+1)
					}
				}
				continue
			}
			asleep := map[int]bool{}
			for _, id := range p.sleep {
				asleep[id] = true
			}
			idx := map[int]int{}
			for k, id := range p.ids {
				idx[id] = k
			}
			done := []int{p.ids[p.chosen]}
			for a := 0; a < p.nEnabled; a++ {
				if a == p.chosen || asleep[p.ids[a]] {
					continue
				}
				var child []int
				for _, id := range append(append([]int{}, p.sleep...), done...) {
					if k, ok := idx[id]; ok && !p.depm[a][k] {
						child = append(child, id)
					}
				}
				rec(append(append([]int{}, x.choices[:i]...), a), child, dev)
				done = append(done, p.ids[a])
			}
		}
	}
	rec(nil, nil, 0)
	return newc
}

func exploreRound(cfg Config, body func(x *Exec), st *Stats, conflicts map[string]bool) map[string]bool {
	newc := map[string]bool{}
	branch := 0
	type budget struct{ p, d int }
	visited := map[uint64]budget{}
	defer func() { st.States += int64(len(visited)) }()
	var rec func(prefix []int, depth int)
	rec = func(prefix []int, depth int) {
		if st.Capped {
			return
		}
		if (cfg.MaxExec > 0 && st.Executions >= cfg.MaxExec) || (cfg.Expired != nil && cfg.Expired()) {
			st.Capped = true
			return
		}
		runDelayMode = cfg.DelayBounding
		if !cfg.NoStateCache {
			runOnPoint = func(x *Exec, key uint64) bool {
				left := budget{cfg.Preemptions - x.Preemptions, cfg.Deviations - x.DataDeviations}
				if v, ok := visited[key]; ok && v.p >= left.p && v.d >= left.d {
					// this happens-before state was (or is being) explored with at least this budget:
					// every future from here is covered there
					return false
				} else if !ok || (left.p >= v.p && left.d >= v.d) {
					visited[key] = left
				}
				return true
			}
		}
		x := RunOnce(prefix, cfg.Horizon, conflicts, cfg.Reset, body)
		runDelayMode, runOnPoint = false, nil
		for s := range x.newConf {
			newc[s] = true
		}
		if x.outcome == "pruned" {
			st.Pruned++
		}
		countIt := depth > 0 || cfg.Shard == 0
		if countIt {
			st.record(cfg, x, body, conflicts, false, prefix, nil)
		}
		// alternatives
		pre, dev := 0, 0
		for i := 0; i < len(x.points); i++ {
			p := x.points[i]
			if i >= len(prefix) {
				for alt := 1; alt < p.nEnabled; alt++ {
					np, nd := pre, dev
					if p.isData {
						nd++
					} else if p.runningEnabled || cfg.DelayBounding {
						np++
					}
					if np > cfg.Preemptions || nd > cfg.Deviations {
						continue
					}
					if depth == 0 {
						mine := branch%cfg.NShards == cfg.Shard
						branch++
						if !mine {
							continue
						}
					}
					nprefix := append(append([]int{}, x.choices[:i]...), alt)
					rec(nprefix, depth+1)
				}
			}
			if p.chosen != 0 {
				if p.isData {
					dev++
				} else if p.runningEnabled || cfg.DelayBounding {
					pre++
				}
			}
		}
	}
	rec(nil, 0)
	return newc
}

func HashString(s string) uint64 {
	h := fnv.New64a()
	h.Write([]byte(s))
	return h.Sum64()
}

// ---------------------------------------------------------------------------------------------
// helpers for the shims

var generation uint64

// Generation identifies the current execution: shim objects that outlive an execution (package level
// variables) reset their model state when they see a new generation.
func Generation() uint64 { return generation }

// Aborting reports that the current execution is being torn down: shim operations become no-ops.
func Aborting() bool { return active != nil && active.aborting }

// PoolChoices makes every sync.Pool Get answer a data choice of the explorer.
var PoolChoices bool

// PoolPoints makes sync.Pool Get/Put scheduling points (off: they are atomic steps of the caller).
var PoolPoints bool

// PoolPoison, when set, is applied to every item Put into a pool during a controlled execution.
var PoolPoison func(x any)

// Addr / MapAddr give Access a stable identity for the accessed location.
func Addr[T any](p *T) uintptr { return uintptr(unsafe.Pointer(p)) }

func MapAddr(m any) uintptr {
	v := reflect.ValueOf(m)
	if v.Kind() == reflect.Map && !v.IsNil() {
		return v.Pointer()
	}
	return 0
}

// MapKeys is the rewritten `range m` over a map with an ordered key type: the keys in sorted order,
// or (MapOrderChoices on, at most 3 keys, inside an execution) in an order chosen by the explorer.
func MapKeys[M ~map[K]V, K cmp.Ordered, V any](m M) []K {
	keys := make([]K, 0, len(m))
	for k := range m {
		keys = append(keys, k)
	}
	slices.Sort(keys)
	if MapOrderChoices && active != nil && !active.aborting && len(keys) >= 2 && len(keys) <= 3 {
		nperm := 2
		if len(keys) == 3 {
			nperm = 6
		}
		c := Choose(nperm)
		perms3 := [6][3]int{{0, 1, 2}, {0, 2, 1}, {1, 0, 2}, {1, 2, 0}, {2, 0, 1}, {2, 1, 0}}
		out := make([]K, len(keys))
		if len(keys) == 2 {
			if c == 1 {
				out[0], out[1] = keys[1], keys[0]
			} else {
				copy(out, keys)
			}
		} else {
			for i, j := range perms3[c] {
				out[i] = keys[j]
			}
		}
		return out
	}
	return keys
}

// MapOrderChoices makes the iteration order of small maps a data choice of the explorer.
var MapOrderChoices bool

// RelSlot gives the shim packages a per-execution happens-before cell (atomics, abool).
func RelSlot(i int) *uint64 {
	x := active
	if x == nil {
		return &dummyRel
	}
	return &x.rels[i]
}

var dummyRel uint64

func (x *Exec) DebugPoints() string {
	s := ""
	for i, p := range x.points {
		s += fmt.Sprintf("\n%d: n=%d chosen=%d runEn=%v data=%v key=%x", i, p.nEnabled, p.chosen, p.runningEnabled, p.isData, p.key)
	}
	return s
}

// SafeRead is the hook of a read of a non-local location: f computes the address (a nil dereference
// or an index out of range while doing so is left to the statement itself).
func SafeRead(site string, f func() uintptr) {
	x := active
	if x == nil || x.aborting {
		return
	}
	var addr uintptr
	func() {
		defer func() { recover() }()
		addr = f()
	}()
	if addr != 0 {
		Access(site, addr, false)
	}
}
