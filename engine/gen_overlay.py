#!/usr/bin/env python3
"""overlay generator for engine A: instruments the CURRENT tree ($VERIF_REPO, default /repo) and maps
the vsched runtime into the module. usage: gen_overlay.py [instr flags / package patterns...] WORKDIR"""
import sys, os, json, subprocess
V = os.path.dirname(os.path.dirname(os.path.abspath(__file__)))
repo = os.environ.get("VERIF_REPO", "/repo")
args, workdir = sys.argv[1:-1], sys.argv[-1]
env = dict(os.environ, GOFLAGS="-mod=mod", GOPROXY="off", GOSUMDB="off", GOTOOLCHAIN="local", GOWORK="off")
bindir = os.path.join(V, ".work", "bin"); os.makedirs(bindir, exist_ok=True)
binp = os.path.join(bindir, "instr")
src = os.path.join(V, "engine", "instr")
newest = max(os.path.getmtime(os.path.join(src, f)) for f in os.listdir(src))
if not os.path.exists(binp) or os.path.getmtime(binp) < newest:
    tmp = binp + ".%d" % os.getpid()
    r = subprocess.run(["go", "build", "-o", tmp, "."], cwd=src, env=env, capture_output=True, text=True)
    if r.returncode != 0:
        sys.stderr.write(r.stdout + r.stderr); sys.exit(2)
    os.replace(tmp, binp)
pats = [a for a in args if not a.startswith("-")] or ["./pkg/..."]
flags = [a for a in args if a.startswith("-")]
r = subprocess.run([binp, "-repo", repo, "-out", workdir] + flags + pats, env=env, capture_output=True, text=True)
if r.returncode != 0:
    sys.stderr.write(r.stderr); sys.exit(2)
ov = json.loads(r.stdout)
base = os.path.join(V, "engine", "vsched")
for root, d, files in os.walk(base):
    for f in files:
        if f.endswith(".go"):
            rel = os.path.relpath(os.path.join(root, f), base)
            ov["Replace"][os.path.join(repo, "pkg", "vsched", rel)] = os.path.join(root, f)
json.dump(ov, sys.stdout)
