#!/bin/bash
# usage: seedregress.sh [seed-name ...]   (default: every directory of /verif/seeded)
# Regression over the corpus of independently written property-breaking changes: every seeded/<name>/patch.diff
# is applied (3-way) on a fresh worktree of /repo HEAD and the quick check of its property is run against it.
# One line per seed: DETECTED / MISSED / NO-LONGER-APPLIES (the tree moved under the patch: later fix: commits).
# Results are appended to seeded/REGRESSION.txt. Nothing is ever written into /repo.
cd /verif
export GOFLAGS=-mod=mod GOPROXY=off GOSUMDB=off GOTOOLCHAIN=local GOWORK=off
seeds="$@"
[ -z "$seeds" ] && seeds=$(ls seeded | grep -v REGRESSION)
head=$(git -C /repo rev-parse --short HEAD)
for s in $seeds; do
  [ -f seeded/$s/patch.diff ] || continue
  p=$(python3 -c "import json;print(json.load(open('seeded/$s/meta.json')).get('check_property') or json.load(open('seeded/$s/meta.json'))['property'].rstrip('A'))")
  wt=/tmp/seedr-$s-$$
  git -C /repo worktree add -q --detach $wt HEAD 2>/dev/null || { echo "$s $p WORKTREE-FAILED"; continue; }
  if ! git -C $wt apply --3way /verif/seeded/$s/patch.diff >/dev/null 2>&1 || [ -n "$(git -C $wt diff --name-only --diff-filter=U)" ]; then
    echo "$s $p NO-LONGER-APPLIES (repo $head)" | tee -a seeded/REGRESSION.txt
    git -C /repo worktree remove --force $wt
    continue
  fi
  if ! (cd $wt && go build ./pkg/... >/dev/null 2>&1); then
    echo "$s $p NO-LONGER-BUILDS (repo $head)" | tee -a seeded/REGRESSION.txt
    git -C /repo worktree remove --force $wt
    continue
  fi
  out=$(VERIF_REPO=$wt ./check $p --tier quick 2>&1)
  n=$(echo "$out" | grep -c "^VIOLATION")
  if [ "$n" -gt 0 ]; then v=DETECTED; else v=MISSED; fi
  if echo "$out" | grep -q "ENGINE-ERROR\|BROKEN"; then v="$v+ENGINE-ERROR"; fi
  echo "$s $p $v violations=$n (repo $head) $(echo "$out" | grep -B1 '^VIOLATION' | grep '^  ' | head -2 | cut -c3-120 | tr '\n' '|')" | tee -a seeded/REGRESSION.txt
  git -C /repo worktree remove --force $wt
done
