#!/usr/bin/env python3
"""Regenerates MANIFEST.json from checks.d/*.json (+ not_applicable.json). Run after editing checks.json."""
import json, os
V = os.path.dirname(os.path.abspath(__file__))
import glob
reg = {os.path.basename(f)[:-5]: json.load(open(f)) for f in sorted(glob.glob(os.path.join(V, "checks.d", "*.json")))}
props = [json.loads(l)["id"] for l in open(os.path.join(V, "properties.jsonl"))]
na_path = os.path.join(V, "not_applicable.json")
na = json.load(open(na_path)) if os.path.exists(na_path) else {}
checks = []
for pid in props:
    if pid not in reg:
        continue
    s = reg[pid]
    c = {
        "property_id": pid,
        "quick_cmd": "./check %s --tier quick" % pid,
        "thorough_cmd": "./check %s --tier thorough" % pid,
        "evidence_file": "/verif/evidence/%s.json" % pid,
        "replay_cmd_template": "./check %s --replay {path}" % pid,
        "engine": s.get("engine", "B"),
        "level_claimed": {"category": s.get("level", "model_checking"), "text": s.get("level_text", ""),
                          "design_ref": s.get("design_ref", "DESIGN.md §3 " + pid)},
        "level_note": s.get("level_note", "; ".join(s.get("assumptions", []))),
        "technique": s.get("technique", "bounded exhaustive enumeration on the real code against a reference model"),
    }
    checks.append(c)
man = {
    "version": 1,
    "setup_cmd": "./setup.sh",
    "hooks": {
        "guard": "verif",
        "enable": "go test -tags verif -overlay <generated overlay.json>: harness files, helper packages and (engine A) instrumented copies are injected by overlay; no file of /repo carries the guard, so the tree with the guard off is the tree itself",
        "baseline_off_cmd": "./baseline.sh",
        "source_commits": [],
        "add_only": True,
    },
    "engines": [
        {"name": "A", "path": "/verif/engine", "serves_properties": sorted(p for p in reg if "A" in reg[p].get("engine", "")),
         "kind_free_text": "controlled scheduler (vsched) + source instrumenter: stateless DFS over goroutine interleavings of the real stream code, preemption-bounded"},
        {"name": "B", "path": "/verif/harness", "serves_properties": sorted(p for p in reg if "B" in reg[p].get("engine", "B")),
         "kind_free_text": "bounded exhaustive enumeration of inputs / arrival histories / operation sequences on the real code against a reference model (in-package harnesses injected by overlay)"},
        {"name": "C", "path": "/verif/harness", "serves_properties": sorted(p for p in reg if "C" in reg[p].get("engine", "")),
         "kind_free_text": "fault-point enumeration at io.Reader / io.WriteCloser seams"},
    ],
    "checks": checks,
    "not_applicable": [{"property_id": p, "reason": na.get(p, "check not built yet (work in progress); see DESIGN.md")} for p in props if p not in reg],
    "notes": "All checks: ./check <ID> [--tier quick|thorough] [--replay file]. Known findings: /verif/known_findings.txt. Seeded changes: /verif/seeded/.",
}
json.dump(man, open(os.path.join(V, "MANIFEST.json"), "w"), indent=1)
print("MANIFEST.json: %d checks, %d not applicable" % (len(checks), len(man["not_applicable"])))
